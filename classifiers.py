"""Classifiers of known findings: small named predicates over a failing case
(request line, implementation answer).  A violating case is reported as
KNOWN-FINDING only if a `known` entry of known_findings.json names a classifier
that accepts it; everything else is a VIOLATION."""


def _find_req(req):
    """(flag, [root wire forms], [arg tokens]) of a `find` request line"""
    parts = req.split(" ")
    if len(parts) != 4 or parts[0] != "find":
        return None
    return parts[1], parts[2].split(";"), ([] if parts[3] == "." else parts[3].split(","))


def C03_H_root_link_depth(req, imp):
    """-H with a starting point that is a symbolic link to a directory, in post-order
    (-depth, -d): walkdir does not defer a root link it follows only because of
    follow_root_links, so the starting point is reported before its contents and the
    directories directly below it after all their siblings."""
    r = _find_req(req)
    if r is None:
        return False
    flag, roots, args = r
    if flag != "H" or "follow" in args:
        return False
    if not any(a in ("depth", "d", "delete") for a in args):
        return False
    # some starting point is a link that resolves to a directory: d.<name>.1x...
    return any(("=" in w) and w.split("=", 1)[1].startswith("d.-.1") for w in roots)
