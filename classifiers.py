"""Classifiers of known findings: small named predicates over a failing case
(request line, implementation answer).  A violating case is reported as
KNOWN-FINDING only if a `known` entry of known_findings.json names a classifier
that accepts it; everything else is a VIOLATION."""
