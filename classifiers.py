"""Classifiers of known findings: small named predicates over a failing case
(request line, implementation answer).  A violating case is reported as
KNOWN-FINDING only if a `known` entry of known_findings.json names a classifier
that accepts it; everything else is a VIOLATION."""


def _find_req(req):
    """(flag, [root wire forms], [arg tokens]) of a `find` request line"""
    parts = req.split(" ")
    if len(parts) != 4 or parts[0] != "find":
        return None
    return parts[1], parts[2].split(";"), ([] if parts[3] == "." else parts[3].split(","))


def C03_H_root_link_depth(req, imp):
    """-H with a starting point that is a symbolic link to a directory, in post-order
    (-depth, -d): walkdir does not defer a root link it follows only because of
    follow_root_links, so the starting point is reported before its contents and the
    directories directly below it after all their siblings."""
    r = _find_req(req)
    if r is None:
        return False
    flag, roots, args = r
    if flag != "H" or "follow" in args:
        return False
    if not any(a in ("depth", "d", "delete") for a in args):
        return False
    # some starting point is a link that resolves to a directory: d.<name>.1x...
    return any(("=" in w) and w.split("=", 1)[1].startswith("d.-.1") for w in roots)


def _unhex(h):
    return b"" if h in ("-", "") else bytes.fromhex(h)


def _glob_pattern(req):
    """pattern text of a glob-* request, or None"""
    parts = req.split(" ")
    try:
        if parts[0] == "glob-rx":
            return _unhex(parts[1]).decode("utf-8", "replace")
        if parts[0] == "glob-match":
            return _unhex(parts[2]).decode("utf-8", "replace")
        if parts[0] == "glob-e2e":
            return _unhex(parts[3]).decode("utf-8", "replace")
    except (ValueError, IndexError):
        return None
    return None


def _posix_bracket_bodies(p, quoting=True):
    """bodies (between '[' and the closing ']') of the bracket expressions of a glob, read the
    POSIX way: backslash quotes, ']' first is a member, [:class:] is skipped as a unit
    (quoting=False: inside brackets a backslash is an ordinary character, as the code reads it)"""
    out = []
    i, n = 0, len(p)
    while i < n:
        c = p[i]
        if c == "\\":
            i += 2
            continue
        if c != "[":
            i += 1
            continue
        j = i + 1
        if j < n and p[j] in "!^":
            j += 1
        if j < n and p[j] == "]":
            j += 1
        closed = False
        while j < n:
            if p[j] == "\\" and quoting:
                j += 2
                continue
            if p[j] == "[" and j + 1 < n and p[j + 1] in ":.=":
                k = p.find(p[j + 1] + "]", j + 2)
                if k < 0:
                    j += 1
                    continue
                j = k + 2
                continue
            if p[j] == "]":
                closed = True
                break
            j += 1
        if closed:
            out.append(p[i + 1:j])
            i = j + 1
        else:
            i += 1
    return out


def C12_backslash_in_bracket(req, imp):
    """a backslash inside a bracket expression is passed to the regex engine verbatim, where it is
    an ordinary set member instead of quoting the next character (pinned by the unit test
    glob::tests::complex_brackets)"""
    p = _glob_pattern(req)
    if p is None or imp == "panic":
        return False
    return any("\\" in b for b in _posix_bracket_bodies(p)) or any("\\" in b for b in _posix_bracket_bodies(p, quoting=False))


def C12_open_bracket_member(req, imp):
    """a '[' that is a member of a bracket expression makes the scanner swallow the next
    character (intended for [: [. [=), so the bracket expression is cut differently"""
    p = _glob_pattern(req)
    if p is None or imp == "panic":
        return False
    for b in _posix_bracket_bodies(p):
        body = b[1:] if b[:1] in "!^" else b
        i = 0
        while i < len(body):
            if body[i] == "\\":
                i += 2
                continue
            if body[i] == "[":
                if i + 1 < len(body) and body[i + 1] in ":.=" and body.find(body[i + 1] + "]", i + 2) >= 0:
                    i = body.find(body[i + 1] + "]", i + 2) + 2
                    continue
                return True
            i += 1
    return False


def C12_punct_class_symbols(req, imp):
    """Oniguruma's [:punct:] (UTF-8) does not contain the nine ASCII symbols $+<=>^`|~ that the
    POSIX class contains"""
    p = _glob_pattern(req)
    if p is None or imp == "panic":
        return False
    return "[:punct:]" in p


def C16_H_start_normalised(req, imp):
    """-printf %H prints the starting point through Path::ancestors(), i.e. without a trailing
    slash, '/.' or doubled slashes ('find dir/ -printf %H' prints 'dir'); the entry does not
    carry the starting point as it was spelled"""
    import re
    r = _find_req(req)
    if r is None:
        return False
    _, roots, args = r
    fmts = [bytes.fromhex(a.split(":", 1)[1]).decode("utf-8", "replace") for a in args if a.startswith("printf:") and a != "printf:-"]
    if not any(re.search(r"%[- ]*[0-9]*H", f) for f in fmts):
        return False
    for w in roots:
        start = _unhex(w.split("=", 1)[0]).decode("utf-8", "replace")
        if (len(start) > 1 and start.endswith("/")) or "//" in start or "/./" in start or start.endswith("/."):
            return True
    return False


def C17_first_match_not_whole(req, imp, model):
    """-regex asks the regex engine for its first match at the start of the path (leftmost
    alternative first, greedy repetition) and compares that length with the path's; when an earlier
    choice succeeds with a shorter match the test is false although the whole path is in the
    pattern's language ('a\\|ab' on 'ab', 'a*\\(ab\\)?' on 'aab').  The deviation is exactly this
    mechanism when the implementation answers what the model of that mechanism answers."""
    parts = req.split(" ")
    if parts[0] == "regex-match":
        return imp == "0" and model == "0"
    if parts[0] == "find" and "regex:" in req:
        return model == imp
    return False


def _cmdline_words(req):
    parts = req.split(" ")
    if len(parts) != 3 or parts[0] != "cmdline" or parts[2] == ".":
        return None
    return [_unhex(w).decode("utf-8", "replace") for w in parts[2].split(",")]


def C11_newerxy_unanchored(req, imp, model=None):
    """an unknown word that merely contains -newerXY is taken for that test (the pattern in
    parse_str_to_newer_args is not anchored; unit test test_find_newer_xy_all_args pins it by
    passing '-follow -newerXY' as one word)"""
    import re
    ws = _cmdline_words(req)
    if ws is None or imp not in ("run", "help") or model != imp:
        return False
    pat = re.compile(r"-newer[aBcm][aBcmt]")
    return any(pat.search(w) and not re.fullmatch(r"-newer[aBcm][aBcmt]", w) for w in ws)


def C02_H_root_link_depth(req, imp):
    """same configuration as C03/H-root-link-depth (the hypothesis `¬ HRootLink` of C02_refines_post):
    with -mindepth the directory that walkdir mis-defers is reported with the wrong depth and is then
    filtered out, so an in-range entry is not evaluated at all"""
    return C03_H_root_link_depth(req, imp)
