#!/usr/bin/env python3
"""check.py <PROP> --tier quick|thorough [--replay FILE]

Decision procedure of every check (DESIGN.md §3):

 1. proofs      lake build of the property's theorem module, axiom audit
                (`#print axioms` of every obligation listed in lean/obligations.json),
                forbidden-token gate over the Lean sources.
 2. correspond  rebuild /repo (hooks on for the harness, off for the binaries),
                run the harness on generated cases, pipe the same requests to the
                compiled Lean model `fudrv`, diff the answers.
 3. search      every disagreement is classified by the Lean property predicate
                evaluated on what the *implementation* did; predicate false =
                concrete failing input (replay).  Disagreements whose predicate
                holds still fail the check (`no-failing-input-found`).

Exit 0 = property held on everything explored (KNOWN-FINDING lines allowed),
exit 1 = VIOLATION line printed, exit 2 = the machinery itself failed.
"""
import argparse
import fcntl
import json
import os
import re
import shutil
import subprocess
import sys
import time

ROOT = os.path.dirname(os.path.abspath(__file__))
LEAN = os.path.join(ROOT, "lean")
HARNESS = os.path.join(ROOT, "harness")
TARGET = os.path.join(ROOT, "target")
WORK = os.path.join(ROOT, "work")
FUDRV = os.path.join(LEAN, ".lake", "build", "bin", "fudrv")
FUH = os.path.join(TARGET, "debug", "fuh")
REPO = "/repo"

ALLOWED_AXIOMS = {"propext", "Classical.choice", "Quot.sound"}
FORBIDDEN = re.compile(
    r"\bsorry\b|\badmit\b|^\s*axiom\s|\bnative_decide\b|\bbv_decide\b|implemented_by|\bunsafe\s|maxHeartbeats\s+0\b"
)

ENV = dict(os.environ)
ENV.update({"CARGO_NET_OFFLINE": "true", "GOPROXY": "off", "PIP_NO_INDEX": "1"})


class MachineryError(Exception):
    pass


class HarnessHang(Exception):
    """the implementation did not return on the case named in the message"""


def log(msg):
    print(msg, flush=True)


def run(cmd, cwd=None, check=True, capture=True, env=None, timeout=None, stdin_path=None):
    stdin = open(stdin_path, "rb") if stdin_path else None
    try:
        p = subprocess.run(
            cmd,
            cwd=cwd,
            env=env or ENV,
            stdout=subprocess.PIPE if capture else None,
            stderr=subprocess.STDOUT if capture else None,
            stdin=stdin,
            timeout=timeout,
        )
    finally:
        if stdin:
            stdin.close()
    out = p.stdout.decode("utf-8", "replace") if capture else ""
    if check and p.returncode != 0:
        raise MachineryError("command failed (%d): %s\n%s" % (p.returncode, " ".join(cmd), out[-4000:]))
    return p.returncode, out


class BuildLock:
    """lake and cargo invocations are serialised so several checks may run concurrently."""

    def __enter__(self):
        os.makedirs(WORK, exist_ok=True)
        self.f = open(os.path.join(WORK, ".build.lock"), "w")
        fcntl.flock(self.f, fcntl.LOCK_EX)
        return self

    def __exit__(self, *a):
        fcntl.flock(self.f, fcntl.LOCK_UN)
        self.f.close()


# ---------------------------------------------------------------- proofs

def strip_comments(text):
    """remove -- line comments and /- -/ block comments (nesting aware) from Lean source"""
    out = []
    i, depth, n = 0, 0, len(text)
    while i < n:
        if text.startswith("/-", i):
            depth += 1
            i += 2
        elif depth and text.startswith("-/", i):
            depth -= 1
            i += 2
        elif depth:
            if text[i] == "\n":
                out.append("\n")
            i += 1
        elif text.startswith("--", i):
            while i < n and text[i] != "\n":
                i += 1
        else:
            out.append(text[i])
            i += 1
    return "".join(out)


def forbidden_gate():
    hits = []
    for base, dirs, files in os.walk(LEAN):
        dirs[:] = [d for d in dirs if d != ".lake"]
        for f in files:
            if not f.endswith(".lean"):
                continue
            path = os.path.join(base, f)
            text = strip_comments(open(path, encoding="utf-8").read())
            for ln, line in enumerate(text.split("\n"), 1):
                if FORBIDDEN.search(line):
                    hits.append("%s:%d: %s" % (os.path.relpath(path, ROOT), ln, line.strip()))
    return hits


def load_obligations(prop):
    data = json.load(open(os.path.join(LEAN, "obligations.json")))
    return data.get(prop, {"module": None, "theorems": []})


def check_proofs(prop, tier):
    """returns (obligations, discharged, failures:list[str], checker_cmd)"""
    ob = load_obligations(prop)
    theorems = ob["theorems"]
    module = ob["module"]
    failures = []
    checker_cmd = "cd lean && lake build %s && lake env lean <generated #print axioms file>" % module
    hits = forbidden_gate()
    if hits:
        failures.append("forbidden tokens in Lean sources: " + "; ".join(hits[:5]))
    with BuildLock():
        rc, out = run(["lake", "build", module, "fudrv"], cwd=LEAN, check=False)
    if rc != 0:
        bad = re.findall(r"error: (.*)", out)
        failures.append("lake build %s failed: %s" % (module, "; ".join(bad[:5]) or out[-800:]))
        return len(theorems), 0, failures, checker_cmd
    audit_dir = os.path.join(WORK, prop)
    os.makedirs(audit_dir, exist_ok=True)
    audit = os.path.join(audit_dir, "Audit.lean")
    with open(audit, "w") as f:
        f.write("import %s\n" % module)
        for t in theorems:
            f.write("#print axioms %s\n" % t)
    rc, out = run(["lake", "env", "lean", audit], cwd=LEAN, check=False)
    discharged = 0
    seen = {}
    for m in re.finditer(r"'([^']+)' depends on axioms: \[([^\]]*)\]", out):
        seen[m.group(1)] = {a.strip() for a in m.group(2).replace("\n", " ").split(",") if a.strip()}
    for m in re.finditer(r"'([^']+)' does not depend on any axioms", out):
        seen[m.group(1)] = set()
    for t in theorems:
        if t not in seen:
            failures.append("proof:%s missing (not found by the audit)" % t)
        elif not seen[t] <= ALLOWED_AXIOMS:
            failures.append("proof:%s depends on axioms %s" % (t, sorted(seen[t] - ALLOWED_AXIOMS)))
        else:
            discharged += 1
    if rc != 0 and not failures:
        failures.append("axiom audit failed: " + out[-500:])
    if tier == "thorough" and not failures:
        rc, out = run(["lake", "env", "leanchecker", module], cwd=LEAN, check=False)
        if rc != 0:
            failures.append("leanchecker rejected %s: %s" % (module, out[-500:]))
    return len(theorems), discharged, failures, checker_cmd


# ---------------------------------------------------------------- correspondence

def build_impl():
    with BuildLock():
        if not os.path.exists(os.path.join(HARNESS, "Cargo.lock")) or open(
            os.path.join(HARNESS, "Cargo.lock")
        ).read() != open(os.path.join(REPO, "Cargo.lock")).read():
            shutil.copy(os.path.join(REPO, "Cargo.lock"), os.path.join(HARNESS, "Cargo.lock"))
        rc, out = run(["cargo", "build", "--offline"], cwd=HARNESS, check=False)
        if rc != 0:
            return "harness/repo (hooks on) does not build: " + out[-1500:]
        rc, out = run(
            ["cargo", "build", "--offline", "--bins", "--target-dir", os.path.join(TARGET, "repo")],
            cwd=REPO,
            check=False,
        )
        if rc != 0:
            return "/repo binaries do not build: " + out[-1500:]
    return None


def run_harness(prop, tier, seed, outdir):
    shutil.rmtree(outdir, ignore_errors=True)
    os.makedirs(outdir)
    env = dict(ENV)
    env["FU_BINDIR"] = os.path.join(TARGET, "repo", "debug")
    # a run of the implementation that does not return would stall the harness: the harness notes the
    # case it is about to run (outdir/current_case.txt) and the orchestrator gives up after a long while
    limit = int(os.environ.get("FU_HARNESS_TIMEOUT", 3 * 3600 if tier == "thorough" else 1800))
    try:
        rc, out = run([FUH, prop, tier, str(seed), outdir], env=env, check=False, timeout=limit, stdin_path=os.devnull)
    except subprocess.TimeoutExpired:
        cur = ""
        try:
            cur = open(os.path.join(outdir, "current_case.txt"), encoding="utf-8", errors="replace").read().strip()
        except OSError:
            pass
        raise HarnessHang(cur)
    if rc != 0:
        raise MachineryError("harness failed (%d): %s" % (rc, out[-3000:]))
    cases = []
    with open(os.path.join(outdir, "cases.tsv"), encoding="utf-8", errors="replace") as f:
        for line in f:
            parts = line.rstrip("\n").split("\t")
            if len(parts) != 3:
                raise MachineryError("malformed case line: %r" % line[:200])
            cases.append((parts[0], parts[1], parts[2].split(",") if parts[2] else []))
    stats = json.load(open(os.path.join(outdir, "stats.json")))
    return cases, stats


def ask_model(prop, cases, outdir):
    """for every case: the model's answer and the predicate verdict on the impl's answer"""
    reqfile = os.path.join(outdir, "model_in.txt")
    with open(reqfile, "w", encoding="utf-8") as f:
        for req, imp, _ in cases:
            f.write(req + "\n")
            f.write("pred %s %s => %s\n" % (prop, req, imp))
    rc, out = run([FUDRV], stdin_path=reqfile, check=False)
    if rc != 0:
        raise MachineryError("fudrv failed (%d): %s" % (rc, out[-2000:]))
    lines = out.split("\n")
    if lines and lines[-1] == "":
        lines.pop()
    if len(lines) != 2 * len(cases):
        raise MachineryError("fudrv answered %d lines for %d requests" % (len(lines), 2 * len(cases)))
    return [(lines[2 * i], lines[2 * i + 1]) for i in range(len(cases))]


# ---------------------------------------------------------------- known findings

def load_known():
    path = os.path.join(ROOT, "known_findings.json")
    if not os.path.exists(path):
        return []
    return json.load(open(path))


def classify_known(prop, req, imp, known, model=None):
    import classifiers
    import inspect

    for k in known:
        if k.get("property") != prop or k.get("status") != "known":
            continue
        fn = getattr(classifiers, k["classifier"].replace("/", "_").replace("-", "_"), None)
        if fn is None:
            raise MachineryError("known finding names unknown classifier %s" % k["classifier"])
        # a classifier may also look at what the model of the code answers
        hit = fn(req, imp, model) if len(inspect.signature(fn).parameters) >= 3 else fn(req, imp)
        if hit:
            return k
    return None


# ---------------------------------------------------------------- main

def write_replay(prop, seed, tier, n, payload):
    d = os.path.join(ROOT, "replays", prop)
    os.makedirs(d, exist_ok=True)
    path = os.path.join(d, "%s-%d-%d.json" % (tier, seed, n))
    payload = dict(payload)
    payload.update({"property": prop, "seed": seed, "tier": tier,
                    "replay_cmd": "./check.py %s --replay %s" % (prop, os.path.relpath(path, ROOT))})
    with open(path, "w") as f:
        json.dump(payload, f, indent=1)
    return os.path.relpath(path, ROOT)


def main():
    ap = argparse.ArgumentParser()
    ap.add_argument("prop")
    ap.add_argument("--tier", default=os.environ.get("VERIF_TIER", "quick"), choices=["quick", "thorough"])
    ap.add_argument("--replay")
    args = ap.parse_args()
    prop = args.prop
    tier = args.tier
    seed = int(os.environ.get("VERIF_SEED", "1"))
    only_reqs = None
    if args.replay:
        rp = json.load(open(args.replay if os.path.isabs(args.replay) else os.path.join(ROOT, args.replay)))
        seed, tier = rp["seed"], rp["tier"]
        only_reqs = set(rp.get("requests", []))
    sys.path.insert(0, ROOT)
    t0 = time.time()
    os.makedirs(WORK, exist_ok=True)
    os.makedirs(os.path.join(ROOT, "evidence"), exist_ok=True)
    outdir = os.path.join(WORK, prop, tier)
    violations = []  # (kind, text, replay payload)
    known_lines = []

    timing = {}
    # 1. proofs
    n_ob, n_dis, proof_failures, checker_cmd = check_proofs(prop, tier)
    for pf in proof_failures:
        violations.append(("proof", pf, {"broken": pf, "requests": []}))

    timing["proofs"] = round(time.time() - t0, 1)
    # 2. correspondence
    t1 = time.time()
    err = build_impl()
    timing["build"] = round(time.time() - t1, 1)
    cases, stats, answers = [], {}, []
    if err:
        violations.append(("build", err, {"broken": "build: " + err[:400], "requests": []}))
    else:
        t1 = time.time()
        try:
            cases, stats = run_harness(prop, tier, seed, outdir)
        except HarnessHang as h:
            req = str(h)
            path = write_replay(prop, seed, tier, 0, {"kind": "hang", "text": "the implementation did not return", "requests": [req] if req else [], "request": req})
            log("VIOLATION property=%s replay=%s%s" % (prop, path, "" if req else " no-failing-input-found"))
            log("  hang: the run did not end within the time limit; last case: %s" % req[:300])
            return 1
        timing["harness"] = round(time.time() - t1, 1)
        t1 = time.time()
        if only_reqs is not None:
            cases = [c for c in cases if c[0] in only_reqs]
        answers = ask_model(prop, cases, outdir)
        timing["model"] = round(time.time() - t1, 1)

    # 3. classification
    known = load_known()
    disagreements = []   # model != impl
    pred_failures = []   # predicate false on the impl's behaviour
    bad_requests = 0
    unmodelled = 0
    for (req, imp, tags), (model, verdict) in zip(cases, answers):
        if model == "bad-request" or verdict == "bad-request":
            bad_requests += 1
            continue
        if verdict == "false":
            pred_failures.append((req, imp, model))
        if model == "unmodelled":
            # outside the modelled fragment (said so by the model itself): only the predicate applies
            unmodelled += 1
        elif model != imp:
            disagreements.append((req, imp, model, verdict))
    if bad_requests:
        raise MachineryError("%d requests were not understood by fudrv (codec mismatch), e.g. %r" % (
            bad_requests, next(c[0] for c, a in zip(cases, answers) if "bad-request" in a)))

    real = []          # failing inputs not covered by a known finding
    known_hits = {}
    for req, imp, model in sorted(pred_failures, key=lambda x: (len(x[0]), x[0])):
        k = classify_known(prop, req, imp, known, model)
        if k is not None:
            known_hits.setdefault(k["classifier"], (k, req, imp))
        else:
            real.append((req, imp, model))
    unexplained = [d for d in disagreements if d[3] != "false"]
    unexplained.sort(key=lambda x: (len(x[0]), x[0]))

    for k, req, imp in known_hits.values():
        known_lines.append("KNOWN-FINDING: property=%s %s [%s; e.g. %s -> %s]" % (prop, k["text"], k["classifier"], req[:120], imp[:120]))
    if real:
        req, imp, model = real[0]
        violations.append(("input", "property predicate false on the implementation's behaviour",
                           {"requests": [r[0] for r in real[:20]], "request": req, "impl_answer": imp,
                            "model_answer": model, "predicate": False, "count": len(real)}))
    if unexplained:
        req, imp, model, verdict = unexplained[0]
        violations.append(("correspondence", "model and implementation disagree but the predicate holds",
                           {"requests": [r[0] for r in unexplained[:20]], "request": req, "impl_answer": imp,
                            "model_answer": model, "predicate": True, "count": len(unexplained),
                            "broken": "correspondence:%s" % req.split(" ")[0]}))

    # evidence
    nontrivial = {c[0] for c in cases if "nt" in c[2]}
    tag_hist = {}
    for c in cases:
        for t in c[2]:
            tag_hist[t] = tag_hist.get(t, 0) + 1
    samples = []
    step = max(1, len(cases) // 12)
    for c in cases[::step][:12]:
        samples.append({"request": c[0][:300], "impl": c[1][:300], "tags": c[2]})
    import propinfo
    info = propinfo.INFO.get(prop, {})
    evidence = {
        "property_id": prop,
        "tier": tier,
        "seed": seed,
        "level": "proof",
        "coverage": {
            "obligations": n_ob,
            "discharged": n_dis,
            "checker_cmd": checker_cmd,
            "trusted_base": info.get("trusted_base", []),
            "theorems": load_obligations(prop)["theorems"],
            "evaluations": len(cases),
            "distinct_nontrivial": len(nontrivial),
            "rule": info.get("rule", ""),
            "samples": samples,
            "tag_histogram": tag_hist,
            "harness_counters": stats,
            "timing_s": timing,
            "disagreements": len(disagreements),
            "outside_modelled_fragment": unmodelled,
            "impl_predicate_failures": len(pred_failures),
            "known_finding_hits": {k: 1 for k in known_hits},
            "exhaustive": bool(info.get("exhaustive", False)),
        },
        "assumptions": info.get("assumptions", []),
        "wall_s": round(time.time() - t0, 2),
        "violations": len(violations),
    }
    with open(os.path.join(ROOT, "evidence", prop + ".json"), "w") as f:
        json.dump(evidence, f, indent=1)

    for line in known_lines:
        log(line)
    if not violations:
        log("OK property=%s tier=%s obligations=%d/%d cases=%d nontrivial=%d wall=%.1fs" % (
            prop, tier, n_dis, n_ob, len(cases), len(nontrivial), time.time() - t0))
        return 0
    for n, (kind, text, payload) in enumerate(violations):
        payload = dict(payload)
        payload["kind"] = kind
        payload["text"] = text
        path = write_replay(prop, seed, tier, n, payload)
        if kind == "input":
            log("VIOLATION property=%s replay=%s" % (prop, path))
        else:
            log("VIOLATION property=%s replay=%s no-failing-input-found" % (prop, path))
        log("  %s: %s" % (kind, text[:600]))
        if "request" in payload:
            log("  request: %s\n  impl:    %s\n  model:   %s" % (payload["request"][:300], payload["impl_answer"][:300], payload["model_answer"][:300]))
    return 1


if __name__ == "__main__":
    try:
        sys.exit(main())
    except MachineryError as e:
        print("MACHINERY-ERROR: %s" % e, file=sys.stderr)
        sys.exit(2)
