#!/bin/sh
# Builds everything the checks need from files on disk only (offline).
set -e
cd "$(dirname "$0")"
export CARGO_NET_OFFLINE=true
mkdir -p work evidence
(cd lean && lake build FuModel fudrv)
cp /repo/Cargo.lock harness/Cargo.lock
(cd harness && cargo build --offline)
(cd /repo && cargo build --offline --bins --target-dir /verif/target/repo)
echo setup-ok
