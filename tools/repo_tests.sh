#!/bin/sh
# Runs /repo's own suite (guard off) and prints pass/fail totals; the two baseline
# always-fail tests (get_or_create_file_test, test_no_permission_file_error) are expected.
# Exit 0 only for exactly that outcome.
cd /repo && CARGO_NET_OFFLINE=true cargo test --workspace --no-fail-fast --offline 2>&1 | awk '
/^test result/ {p+=$4; f+=$6}
/^test .* FAILED/ {print}
END {print "passed=" p " failed=" f; exit !(p == 282 && f == 2)}'
rc=$?
rm -f /repo/test_data/get_or_create_file_test
exit $rc
