#!/bin/sh
# usage: seed_eval_show.sh <PROP> <suffix> [extra props]   (reads /tmp/wt/<PROP>-out)
p=$1; sfx=$2; shift 2
python3 /verif/tools/seed_eval.py $p /tmp/wt/$p-out $p-$sfx "$@" 2>&1 | python3 -c "
import sys,json
t=sys.stdin.read()
try:
    j=json.loads(t[t.index('{'):])
    print({k:j[k] for k in ('builds','demo_with_change','suite_with_change','demo_without_change','confirmed','caught_by')})
    for p,r in j['checks'].items(): print(p, r['lines'], [d[:170] for d in r['detail'][:4]])
except Exception as e: print('PARSE', e, t[-1200:])
"
