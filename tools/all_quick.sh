#!/bin/sh
# every property's quick check on the current trees; prints one line per property and fails if any does
cd /verif || exit 2
bad=0
for i in 01 02 03 04 05 06 07 08 09 10 11 12 13 14 15 16 17 18 19 20; do
  out=$(./check.py C$i --tier quick 2>&1 | grep -v '^KNOWN-FINDING' | tail -1)
  echo "$out" | cut -c1-160
  case "$out" in OK*) ;; *) bad=1 ;; esac
done
exit $bad
