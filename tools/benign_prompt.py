import sys
n=sys.argv[1]; area=sys.argv[2]
print(f"""You are helping to test a verification tool by playing the role of a careful developer who does a behaviour-preserving clean-up.

You have your own scratch git worktree of the uutils/findutils repository (Rust reimplementation of GNU find and xargs) at /tmp/wt/B{n} . Work ONLY inside /tmp/wt/B{n} and write your results to /tmp/wt/B{n}-out/ . Do not read or touch /repo or /verif or any other directory under /tmp/wt; do not commit anything. The machine is offline: always pass --offline to cargo (`cd /tmp/wt/B{n} && CARGO_NET_OFFLINE=true cargo build --offline`, `cargo test --offline --workspace --no-fail-fast`).

Task: refactor {area} WITHOUT changing observable behaviour in any way: same output bytes, same exit statuses, same diagnostics count, same commands executed, same acceptance and rejection of command lines, for every input. The refactor should be substantial enough to be a real rewrite of the control flow or data representation (e.g. turn explicit index loops into iterators or the reverse, split a long function into helpers, replace a chain of ifs by a match, rename variables, reorder independent statements, change a Vec into a VecDeque or a small struct, hoist computations, replace a regex by hand-written parsing that accepts EXACTLY the same language, restructure error propagation while keeping messages) - about 30 to 150 changed lines - but it must be semantically identical. Be careful with edge cases (empty inputs, non-ASCII text, overflow, order of side effects, short-circuit evaluation). Do not touch tests, Cargo.toml, or anything guarded by the `verif-hooks` cargo feature (functions in `verif_hooks` modules or marked #[cfg(feature = "verif-hooks")] must keep their names, signatures and meaning); do not add new files.

Run `cargo test --offline --workspace --no-fail-fast` BEFORE and AFTER: on the unchanged tree exactly two tests fail because the sandbox runs as root (find::matchers::tests::get_or_create_file_test and find::tests::test_no_permission_file_error; 282 pass). After your change the outcome must be identical. If a test creates test_data/get_or_create_file_test, delete that stray file. Also build once with `cargo build --offline --features verif-hooks` to make sure the hooks still compile.

Write:
 - /tmp/wt/B{n}-out/patch.diff : output of `git -C /tmp/wt/B{n} diff`
 - /tmp/wt/B{n}-out/meta.json : {{"kind": "benign", "summary": "<what was refactored and how>", "files": [...], "why_equivalent": "<argument that behaviour is unchanged, edge cases considered>", "tests_before": "...", "tests_after": "..."}}

Leave the worktree with your change applied. Reply with a short summary.""")
