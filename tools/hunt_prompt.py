import sys
pid=sys.argv[1]
prop=open('/tmp/wt/%s-prop.json'%pid).read()
print(f"""You are a careful tester looking for REAL defects in existing code.

You have your own scratch git worktree of the uutils/findutils repository (Rust reimplementation of GNU find and xargs) at /tmp/wt/{pid} . Work ONLY inside /tmp/wt/{pid} and write your results to /tmp/wt/{pid}-out/ . Do not read or touch /repo or /verif or any other directory under /tmp/wt; do not commit anything and do NOT modify the source. The machine is offline: always pass --offline to cargo (`cd /tmp/wt/{pid} && CARGO_NET_OFFLINE=true cargo build --offline`). You run as root.

Here is a semantic property the code base is supposed to satisfy:

{prop}

Task: find concrete inputs (command lines, file trees, input streams, option combinations) on which the UNMODIFIED code in /tmp/wt/{pid} violates this property. Read the relevant source (src/find/..., src/xargs/...), think about edge cases the authors may have missed (unusual but legal spellings, boundary values, huge or empty operands, odd file types and names, option orders, several starting points, error paths, interactions between features), build the binaries (target/debug/find, target/debug/xargs) and TRY your candidates. Only report violations you have actually reproduced with the built binaries. Differences from GNU findutils only count if the property text itself requires the GNU-like behaviour. Spend your effort on breadth: try many different ideas (at least 25 distinct probes), keep a short log of what you tried.

Write:
 - /tmp/wt/{pid}-out/findings.md : for every reproduced violation: the exact command(s) to reproduce (self-contained, creating whatever files they need in a fresh temporary directory), what was observed (output, exit status), what the property requires, and the place in the source that causes it. Then a list (one line each) of the probes that behaved correctly.
 - /tmp/wt/{pid}-out/repro.sh : a bash script taking the directory with the binaries as $1 (default /tmp/wt/{pid}/target/debug) that runs each reproduced violation and prints VIOLATION <n> or ok <n> per finding; exit 1 if any violation reproduces, 0 otherwise.

If you find nothing after an honest effort, say so in findings.md (with the list of probes). Reply with a short summary of the findings.""")
