#!/usr/bin/env python3
"""Regenerates the table of seeded changes in DESIGN.md from seeded/*/meta.json."""
import json, os, re
ROOT = os.path.dirname(os.path.dirname(os.path.abspath(__file__)))
rows = ["| id | change | needs | caught by (quick) |", "|---|---|---|---|"]
for d in sorted(os.listdir(os.path.join(ROOT, "seeded"))):
    mp = os.path.join(ROOT, "seeded", d, "meta.json")
    if not os.path.exists(mp):
        continue
    m = json.load(open(mp))
    ev = m.get("evaluation", {})
    def cut(s, n):
        s = " ".join(str(s).split()).replace("|", "\\|")
        return s if len(s) <= n else s[: n - 1] + "…"
    caught = ", ".join(ev.get("caught_by", [])) or "— (see below)"
    if m.get("caught_after_strengthening"):
        caught = ", ".join(m["caught_after_strengthening"]) + " (after strengthening)"
    rows.append("| `%s` | %s | %s | %s |" % (d, cut(m.get("summary", ""), 230), cut(m.get("trigger", ""), 200), caught))
p = os.path.join(ROOT, "DESIGN.md")
s = open(p).read()
table = "<!-- SEEDED-TABLE-BEGIN -->\n" + "\n".join(rows) + "\n<!-- SEEDED-TABLE-END -->"
s = re.sub(r"<!-- SEEDED-TABLE-BEGIN -->.*<!-- SEEDED-TABLE-END -->", lambda _m: table, s, flags=re.S)
open(p, "w").write(s)
print(len(rows) - 2, "rows")
