#!/bin/bash
cd /verif
run() { s=$1; shift; p=${s%-*}
  d=/tmp/wt/$s-rb; rm -rf $d; mkdir -p $d
  cp /tmp/wt/$s.rebased.diff $d/patch.diff
  cp seeded/$s/demo.sh $d/demo.sh
  python3 - $s $d <<'PY'
import json,sys
s,d=sys.argv[1:3]
m=json.load(open(f'/verif/seeded/{s}/meta.json'))
ev=m.pop('evaluation'); m.setdefault('evaluation_before_rebase', ev)
m['note']=(m.get('note','')+' ' if m.get('note') else '')+"re-based onto /repo c5fa7bc (the -H link-root repair touched the same lines); same change in substance, re-confirmed and re-evaluated"
json.dump(m,open(d+'/meta.json','w'),indent=1)
PY
  echo "=== $s"
  python3 tools/seed_eval.py $p $d $s "$@" 2>&1 | python3 -c "
import sys,json
t=sys.stdin.read()
try:
    j=json.loads(t[t.index('{'):])
    print({k:j.get(k) for k in ('builds','demo_with_change','suite_with_change','demo_without_change','confirmed','caught_by')})
    for p,r in j['checks'].items(): print(p, r['lines'], [d[:170] for d in r['detail'][:3]])
except Exception as e: print('PARSE', e, t[-1500:])
"
}
run C02-a
run C02-d
run C02-g
run C03-g
run C08-d
run C18-e
echo "=== new C04-k"; tools/seed_eval_show.sh C04 k C06
echo "=== new C07-k"; tools/seed_eval_show.sh C07 k C01
echo "=== new C08-k"; tools/seed_eval_show.sh C08 k
echo "=== new C09-k"; tools/seed_eval_show.sh C09 k C08
echo "=== new C12-k"; tools/seed_eval_show.sh C12 k
echo "=== new C14-k"; tools/seed_eval_show.sh C14 k C15
echo "=== new C17-k"; tools/seed_eval_show.sh C17 k
echo ALLDONE
