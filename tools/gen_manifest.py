#!/usr/bin/env python3
"""Regenerates /verif/MANIFEST.json from propinfo.py (claimed properties) — run after adding a property."""
import json, os, sys
ROOT = os.path.dirname(os.path.dirname(os.path.abspath(__file__)))
sys.path.insert(0, ROOT)
import propinfo

HOOK_COMMITS = json.load(open(os.path.join(ROOT, "hooks_commits.json")))
NOT_YET = "check under construction in this session (model, theorems and harness not yet registered); it will be claimed, this is not a limit of the technique"

def chk(pid, info):
    return {"property_id": pid,
            "quick_cmd": "./check.py %s --tier quick" % pid,
            "thorough_cmd": "./check.py %s --tier thorough" % pid,
            "evidence_file": "/verif/evidence/%s.json" % pid,
            "replay_cmd_template": "./check.py %s --replay {path}" % pid,
            "engine": "lean4+fuharness",
            "level_claimed": {"category": "proof", "text": info["level_text"], "design_ref": "DESIGN.md §6 " + pid},
            "level_note": info["level_note"],
            "technique": info["technique"]}

claimed = sorted(propinfo.INFO)
allp = ["C%02d" % i for i in range(1, 21)]
m = {"version": 1,
     "setup_cmd": "./setup.sh",
     "hooks": {"guard": "cargo feature verif-hooks (default off)",
               "enable": "harness/Cargo.toml: findutils = { path = \"/repo\", features = [\"verif-hooks\"] }; the find/xargs binaries used end-to-end are built with the feature off",
               "baseline_off_cmd": "cd /repo && cargo test --workspace --no-fail-fast --offline",
               "source_commits": HOOK_COMMITS,
               "add_only": True},
     "engines": [{"name": "lean4+fuharness", "path": "/verif/check.py", "serves_properties": claimed,
                  "kind_free_text": "Lean 4 model + theorems (lean/), compiled model driver fudrv, Rust correspondence harness (harness/), python orchestrator check.py"}],
     "checks": [chk(p, propinfo.INFO[p]) for p in claimed],
     "notes": "see DESIGN.md; known_findings.json lists fixed/known defects",
     "not_applicable": [{"property_id": p, "reason": NOT_YET} for p in allp if p not in claimed]}
json.dump(m, open(os.path.join(ROOT, "MANIFEST.json"), "w"), indent=1)
print("claimed:", claimed)
