exec(open('/tmp/wt/rebase3.py').read().split("M='src/find/mod.rs'")[0])
M='src/find/mod.rs'
GUARD="""                // WalkDir clamps min_depth to max_depth instead of yielding
                // nothing for an empty range, and reports broken symlinks
                // (turned into entries above) whatever their depth.
                if entry.depth() < config.min_depth || entry.depth() > config.max_depth {
                    continue;
                }

"""
# C02-a
sub(M,[("""    // With -H a starting point that is a symbolic link to a directory is followed only because""","""    // WalkDir clamps min_depth to max_depth instead of yielding nothing for
    // an empty range, so there is no point in walking at all in that case.
    if config.min_depth > config.max_depth {
        return 0;
    }

    // With -H a starting point that is a symbolic link to a directory is followed only because"""),
(GUARD,"")]); done('C02-a')
# C02-d
sub(M,[("""    let mut walkdir = WalkDir::new(&walk_root)""","""    // -P never resolves symbolic links; -H and -L do.
    let follow_links = config.follow != Follow::Never;
    let mut walkdir = WalkDir::new(&walk_root)"""),
("""        .follow_links(config.follow == Follow::Always)
        .follow_root_links(config.follow != Follow::Never);""","""        .follow_links(follow_links)
        .follow_root_links(follow_links);""")]); done('C02-d')
# C18-e
sub(M,[("""        let entry = WalkEntry::from_walkdir(result, config.follow).map(|entry| {""","""        // WalkDir clamps min_depth to max_depth instead of yielding nothing
        // for an empty range, and reports broken symlinks (turned into
        // entries below) whatever their depth: filter on the raw result.
        let depth = match &result {
            Ok(entry) => entry.depth(),
            Err(err) => err.depth(),
        };
        if depth < config.min_depth || depth > config.max_depth {
            continue;
        }

        let entry = WalkEntry::from_walkdir(result, config.follow).map(|entry| {"""),
(GUARD,"")]); done('C18-e')
