import sys,json
pid=sys.argv[1]
prop=open('/tmp/wt/%s-prop.json'%pid).read()
prev=open('/tmp/wt/%s-prev.txt'%pid).read() if __import__("os").path.exists('/tmp/wt/%s-prev.txt'%pid) else ""
print(f"""You are helping to test a verification tool by playing the role of a developer who introduces a realistic, subtle bug.

You have your own scratch git worktree of the uutils/findutils repository (Rust reimplementation of GNU find and xargs) at /tmp/wt/{pid} . Work ONLY inside /tmp/wt/{pid} and write your results to /tmp/wt/{pid}-out/ . Do not read or touch /repo or /verif or any other directory under /tmp/wt; do not commit anything. The machine is offline: always pass --offline to cargo (e.g. `cd /tmp/wt/{pid} && CARGO_NET_OFFLINE=true cargo build --offline`, `cargo test --offline --workspace --no-fail-fast`).

Here is a semantic property of the code base that is supposed to hold:

{prop}

{prev}Task: make ONE small, realistic change to the source under /tmp/wt/{pid}/src (the kind of change a developer might make by mistake during a refactor, an optimisation or a 'simplification' - e.g. an off-by-one, a wrong comparison, a dropped special case, a swapped argument, a condition that is almost right) such that

 1. the crate still compiles without new warnings being errors (`cargo build --offline`),
 2. the repository's existing test suite still passes exactly as before: run `cargo test --offline --workspace --no-fail-fast` BEFORE your change and AFTER it and compare. (On the unchanged tree exactly two tests fail because the sandbox runs as root: find::matchers::tests::get_or_create_file_test and find::tests::test_no_permission_file_error; 282 pass. After your change the outcome must be identical: the same 282 pass and the same 2 fail. If a test creates test_data/get_or_create_file_test, delete that stray file.)
 3. the property above is violated - but only for some specific inputs / file trees / option combinations, not for every run: the bug should need something specific to manifest (a particular operand shape, depth, size boundary, name, order of options, number of arguments, ...), so that casual use still looks right,
 4. do not touch tests, Cargo.toml, or anything guarded by the `verif-hooks` cargo feature; do not add new files.

Then demonstrate it: write /tmp/wt/{pid}-out/demo.sh, a self-contained bash script that builds nothing itself but takes the path of a directory containing the `find` and `xargs` binaries as $1 (default /tmp/wt/{pid}/target/debug), creates whatever files it needs in a fresh temporary directory, runs the binary on a concrete input, prints what was observed and what the property requires, and exits 1 if the property is violated on that input and 0 if the behaviour is correct. Run it against your modified build (must exit 1) and also explain what it prints on an unmodified build (it must exit 0 there; check it by saving your change with `git diff > /tmp/wt/{pid}-out/patch.diff`, undoing it with `git apply -R /tmp/wt/{pid}-out/patch.diff`, rebuilding, running, and re-applying it with `git apply /tmp/wt/{pid}-out/patch.diff` and rebuilding. Do NOT use `git stash`: the stash is shared between all worktrees of the repository and other people are working in sibling worktrees).

Finally write:
 - /tmp/wt/{pid}-out/patch.diff : output of `git -C /tmp/wt/{pid} diff` (source changes only),
 - /tmp/wt/{pid}-out/meta.json : {{"property": "{pid}", "summary": "<one sentence: what was changed>", "files": [...], "trigger": "<what specific input is needed for the bug to show>", "why_tests_pass": "<why the existing tests do not notice>", "tests_before": "<passed/failed counts>", "tests_after": "<passed/failed counts>"}}

Leave the worktree with your change applied. Reply with a short summary (the change, the trigger, test counts before/after, demo exit codes on modified and unmodified builds).""")
