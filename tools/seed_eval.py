#!/usr/bin/env python3
"""seed_eval.py <PROP> <dir-with-patch.diff,demo.sh,meta.json> <name> [extra props to run...]

Confirms a seeded change (applies to /repo, builds, existing suite unchanged, demo exits 1 with the
change and 0 without), runs the property's quick check against it, undoes the change and stores the
result under /verif/seeded/<name>/.  /repo is always restored (git checkout -- .)."""
import json, os, shutil, subprocess, sys

ROOT = os.path.dirname(os.path.dirname(os.path.abspath(__file__)))
ENV = dict(os.environ, CARGO_NET_OFFLINE="true")


def sh(cmd, **kw):
    p = subprocess.run(cmd, shell=True, stdout=subprocess.PIPE, stderr=subprocess.STDOUT, env=ENV, **kw)
    return p.returncode, p.stdout.decode("utf-8", "replace")


def main():
    prop, src, name = sys.argv[1:4]
    props = [prop] + sys.argv[4:]
    patch = os.path.join(src, "patch.diff")
    res = {"property": prop, "name": name}
    rc, out = sh("git -C /repo status --porcelain")
    if out.strip():
        print("refusing: /repo has local changes:\n" + out)
        return 2
    try:
        rc, out = sh("git -C /repo apply --check %s && git -C /repo apply %s" % (patch, patch))
        res["applies"] = rc == 0
        if rc != 0:
            print("patch does not apply:\n" + out)
            return 1
        rc, out = sh("cd /repo && cargo build --offline 2>&1 | tail -3")
        res["builds"] = "Finished" in out
        rc, out = sh("bash %s /repo/target/debug" % os.path.join(src, "demo.sh"), timeout=600)
        res["demo_with_change"] = rc
        res["demo_output_with_change"] = out[-1500:]
        rc, out = sh(os.path.join(ROOT, "tools/repo_tests.sh"))
        res["suite_with_change"] = out.strip().split("\n")[-1]
        res["suite_unchanged"] = rc == 0
        res["checks"] = {}
        for p in props:
            shutil.rmtree(os.path.join(ROOT, "replays", p), ignore_errors=True)
            rc, out = sh("cd %s && ./check.py %s --tier quick" % (ROOT, p), timeout=3600)
            lines = [l for l in out.split("\n") if l.startswith("VIOLATION") or l.startswith("OK ") or l.startswith("MACHINERY")]
            detail = [l for l in out.split("\n") if l.startswith("  ")][:4]
            res["checks"][p] = {"exit": rc, "lines": lines, "detail": detail}
            shutil.rmtree(os.path.join(ROOT, "replays", p), ignore_errors=True)
    finally:
        sh("git -C /repo checkout -- . && rm -f /repo/test_data/get_or_create_file_test")
    rc, out = sh("cd /repo && cargo build --offline 2>&1 | tail -1")
    rc, out = sh("bash %s /repo/target/debug" % os.path.join(src, "demo.sh"), timeout=600)
    res["demo_without_change"] = rc
    confirmed = res.get("builds") and res.get("suite_unchanged") and res.get("demo_with_change") == 1 and res.get("demo_without_change") == 0
    res["confirmed"] = bool(confirmed)
    res["caught_by"] = [p for p, r in res.get("checks", {}).items() if r["exit"] == 1]
    dst = os.path.join(ROOT, "seeded", name)
    if confirmed:
        os.makedirs(dst, exist_ok=True)
        shutil.copy(patch, os.path.join(dst, "patch.diff"))
        shutil.copy(os.path.join(src, "demo.sh"), os.path.join(dst, "demo.sh"))
        meta = {}
        try:
            meta = json.load(open(os.path.join(src, "meta.json")))
        except Exception as e:
            meta = {"note": "agent meta.json unreadable: %s" % e}
        meta["evaluation"] = res
        json.dump(meta, open(os.path.join(dst, "meta.json"), "w"), indent=1)
    print(json.dumps({k: v for k, v in res.items() if k != "demo_output_with_change"}, indent=1))
    # the evidence files were rewritten by the runs against the changed tree: refresh them
    for p in props:
        sh("cd %s && ./check.py %s --tier quick" % (ROOT, p), timeout=3600)
    return 0


if __name__ == "__main__":
    sys.exit(main())
