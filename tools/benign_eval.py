#!/usr/bin/env python3
"""benign_eval.py <dir-with-patch.diff,meta.json> <name>

Applies a behaviour-preserving rewrite to /repo, checks that it builds and that the suite is
unchanged, runs EVERY property's quick check against it (none may raise an alarm), restores /repo
and stores the result under /verif/seeded/benign/<name>/."""
import json, os, shutil, subprocess, sys
ROOT = os.path.dirname(os.path.dirname(os.path.abspath(__file__)))
ENV = dict(os.environ, CARGO_NET_OFFLINE="true")
PROPS = ["C%02d" % i for i in range(1, 21)]

def sh(cmd, **kw):
    p = subprocess.run(cmd, shell=True, stdout=subprocess.PIPE, stderr=subprocess.STDOUT, env=ENV, **kw)
    return p.returncode, p.stdout.decode("utf-8", "replace")

def main():
    src, name = sys.argv[1:3]
    patch = os.path.join(src, "patch.diff")
    rc, out = sh("git -C /repo status --porcelain")
    if out.strip():
        print("refusing: /repo has local changes"); return 2
    res = {"name": name, "checks": {}}
    try:
        rc, out = sh("git -C /repo apply --check %s && git -C /repo apply %s" % (patch, patch))
        if rc != 0:
            print("patch does not apply:\n" + out); return 1
        rc, out = sh("cd /repo && cargo build --offline 2>&1 | tail -3")
        res["builds"] = "Finished" in out
        rc, out = sh(os.path.join(ROOT, "tools/repo_tests.sh"))
        res["suite"] = out.strip().split("\n")[-1]
        res["suite_unchanged"] = rc == 0
        for p in PROPS:
            shutil.rmtree(os.path.join(ROOT, "replays", p), ignore_errors=True)
            rc, out = sh("cd %s && ./check.py %s --tier quick" % (ROOT, p), timeout=3600)
            lines = [l for l in out.split("\n") if l.startswith("VIOLATION") or l.startswith("OK ") or l.startswith("MACHINERY")]
            detail = [l[:300] for l in out.split("\n") if l.startswith("  ")][:4]
            res["checks"][p] = {"exit": rc, "lines": lines, "detail": detail if rc else []}
            shutil.rmtree(os.path.join(ROOT, "replays", p), ignore_errors=True)
    finally:
        sh("git -C /repo checkout -- . && rm -f /repo/test_data/get_or_create_file_test")
    sh("cd /repo && cargo build --offline 2>&1 | tail -1")
    res["alarms"] = [p for p, r in res["checks"].items() if r["exit"] != 0]
    dst = os.path.join(ROOT, "seeded", "benign", name)
    os.makedirs(dst, exist_ok=True)
    shutil.copy(patch, os.path.join(dst, "patch.diff"))
    meta = {}
    try:
        meta = json.load(open(os.path.join(src, "meta.json")))
    except Exception as e:
        meta = {"note": "meta unreadable: %s" % e}
    meta["evaluation"] = res
    json.dump(meta, open(os.path.join(dst, "meta.json"), "w"), indent=1)
    print(json.dumps({"builds": res.get("builds"), "suite": res.get("suite"), "alarms": res["alarms"],
                      "alarm_detail": {p: res["checks"][p] for p in res["alarms"]}}, indent=1))
    return 0

if __name__ == "__main__":
    sys.exit(main())
