import FuModel.Drv.Xargs
import FuModel.Drv.XargsSys
import FuModel.Drv.FindNum
import FuModel.Drv.FindTime
import FuModel.Drv.FindRun
import FuModel.Drv.FindGlob
import FuModel.Drv.FindRegex
import FuModel.Drv.FindCmd

/-!
`fudrv`: one request per line on stdin, one answer per line on stdout.
A request is `<verb> <field> <field> …` (space separated).  Unknown verbs or
undecodable fields answer `bad-request` — the model never defaults.
`pred <PROP> <request…> => <observed…>` evaluates the property predicate of
`<PROP>` on the behaviour the implementation showed for `<request>`.
-/

def handlers : List (String → List String → Option String) :=
  [FuModel.Drv.Xargs.handle, FuModel.Drv.Xargs.handleRun, FuModel.Drv.XargsSys.handle,
   FuModel.Drv.FindNum.handle, FuModel.Drv.FindTime.handle, FuModel.Drv.FindRun.handle, FuModel.Drv.FindRun.handleV, FuModel.Drv.FindRun.handlePipe, FuModel.Drv.FindRun.handleX, FuModel.Drv.FindRun.handleOrder, FuModel.Drv.FindRun.handleXC, FuModel.Drv.FindRun.handleD, FuModel.Drv.FindRun.handlePerm, FuModel.Drv.FindRun.handlePrintf, FuModel.Drv.FindGlob.handle, FuModel.Drv.FindRegex.handle, FuModel.Drv.FindCmd.handle]

def preds : List (String × (List String → List String → Option Bool)) :=
  [("C05", FuModel.Drv.Xargs.pred), ("C04", FuModel.Drv.Xargs.predC04),
   ("C19", FuModel.Drv.Xargs.predC19), ("C20", FuModel.Drv.Xargs.predC20),
   ("C06", FuModel.Drv.XargsSys.predC06),
   ("C14", FuModel.Drv.FindNum.predC14), ("C15", FuModel.Drv.FindTime.predC15),
   ("C01", FuModel.Drv.FindRun.predFind), ("C02", FuModel.Drv.FindRun.predFindSet), ("C03", FuModel.Drv.FindRun.predFind),
   ("C07", FuModel.Drv.FindRun.predC07), ("C18", FuModel.Drv.FindRun.predC18),
   ("C08", fun req obs => if req.head? == some "findxc" then FuModel.Drv.FindRun.predXC req obs else FuModel.Drv.FindRun.predX true req obs), ("C09", fun req obs => if req.head? == some "exec-order" then FuModel.Drv.FindRun.predOrder req obs else FuModel.Drv.FindRun.predX false req obs), ("C10", FuModel.Drv.FindRun.predC10), ("C12", FuModel.Drv.FindGlob.predC12), ("C13", FuModel.Drv.FindRun.predC13), ("C16", FuModel.Drv.FindRun.predC16),
   ("C11", FuModel.Drv.FindCmd.predC11),
   ("C17", fun req obs => if req.head? == some "find" then FuModel.Drv.FindRun.predFind req obs else FuModel.Drv.FindRegex.predMatch req obs)]

def splitAt (xs : List String) (sep : String) : List String × List String :=
  (xs.takeWhile (· != sep), (xs.dropWhile (· != sep)).drop 1)

def answer (line : String) : String :=
  match (line.trimAscii.toString.splitOn " ") with
  | [] => "bad-request"
  | "pred" :: prop :: rest =>
    let (req, obs) := splitAt rest "=>"
    match preds.lookup prop with
    | some p =>
      match p req obs with
      | some true => "true"
      | some false => "false"
      | none => "bad-request"
    | none => "bad-request"
  | verb :: args =>
    match handlers.findSome? (fun h => h verb args) with
    | some a => a
    | none => "bad-request"

partial def loop (h : IO.FS.Stream) (out : IO.FS.Stream) : IO Unit := do
  let line ← h.getLine
  if line.isEmpty then return ()
  out.putStrLn (answer line)
  loop h out

def main : IO Unit := do
  let stdin ← IO.getStdin
  let stdout ← IO.getStdout
  loop stdin stdout
  stdout.flush
