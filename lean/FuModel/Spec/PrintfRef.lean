import FuModel.Find.Run

/-!
# Reference rendering of -printf formats (C16), from the property text

Independent of `Find/PrintfFmt.lean` and of the rendering in `Find/Run.lean`.  Where the
property leaves a choice, or the format uses something outside it, the result is flagged
`unspecified` and the predicate accepts anything.
-/
namespace FuModel.Spec.PrintfRef
open FuModel.Find.Run FuModel.Find.Walk

inductive SComp where
  | bytes (b : Bytes)
  | dir (letter : Char) (width : Nat) (left : Bool)
  deriving Repr

def isOct (c : Char) : Bool := decide (48 ≤ c.toNat) && decide (c.toNat ≤ 55)
def isDig (c : Char) : Bool := decide (48 ≤ c.toNat) && decide (c.toNat ≤ 57)

def propertyDirs : List Char := ['p', 'P', 'f', 'h', 'H', 'd', 's', 'n', 'i', 'U', 'G', 'm', 'y', 'Y', 'l']

/-- (components, unspecified?) or `none` = not a well-formed format -/
def specParse : Nat → List Char → Option (List SComp × Bool)
  | 0, _ => none
  | _ + 1, [] => some ([], false)
  | fuel + 1, '\\' :: r =>
    let simple (b : UInt8) (rest : List Char) := (specParse fuel rest).map fun (cs, u) => (SComp.bytes [b] :: cs, u)
    (match r with
     | a :: b :: c :: rest =>
       if isOct a && isOct b && isOct c then
         let v := (a.toNat - 48) * 64 + (b.toNat - 48) * 8 + (c.toNat - 48)
         (specParse fuel rest).map fun (cs, u) => (SComp.bytes [UInt8.ofNat v] :: cs, u || decide (v ≥ 128))
       else none
     | _ => none) <|>
    (match r with
     | 'a' :: rest => simple 7 rest | 'b' :: rest => simple 8 rest | 'f' :: rest => simple 12 rest
     | 'n' :: rest => simple 10 rest | 'r' :: rest => simple 13 rest | 't' :: rest => simple 9 rest
     | 'v' :: rest => simple 11 rest | '\\' :: rest => simple 92 rest | '0' :: rest => simple 0 rest
     | 'c' :: rest => (specParse fuel rest).map fun (cs, _) => (cs, true)
     | _ => none)
  | fuel + 1, '%' :: r =>
    let flags := r.takeWhile fun c => c == '-' || c == ' '
    let r1 := r.dropWhile fun c => c == '-' || c == ' '
    let ds := r1.takeWhile isDig
    let r2 := r1.dropWhile isDig
    let w := ds.foldl (fun a c => a * 10 + (c.toNat - 48)) 0
    (match r2 with
     | [] => none
     | '%' :: rest => (specParse fuel rest).map fun (cs, u) => (SComp.bytes [37] :: cs, u || !flags.isEmpty || !ds.isEmpty)
     | c :: rest =>
       if propertyDirs.contains c then (specParse fuel rest).map fun (cs, u) => (SComp.dir c w (flags.contains '-') :: cs, u || decide (ds.length > 9))
       else (specParse fuel rest).map fun (cs, _) => (cs, true))       -- a directive outside the property
  | fuel + 1, c :: r =>
    (specParse fuel r).map fun (cs, u) => (SComp.bytes (String.singleton c).toUTF8.toList :: cs, u)

def stripSlashes (p : Bytes) : Bytes := (p.reverse.dropWhile (· == 47)).reverse

def digits (n : Nat) : Bytes := (toString n).toUTF8.toList

/-- value of a directive for an entry; (bytes, unspecified?) -/
def specValue (start : Bytes) (v : Visit Attr) (c : Char) : Bytes × Bool :=
  let path := pathOf start v.ent.rpath
  let a := attrOf v
  -- the record the follow mode selects
  let rec' : Option (Char × Rec) :=
    if followAt v.follow v.ent.depth then
      (if a.sty == 'L' then none else if a.sty == 'N' then some (a.lty, a.l) else some (a.sty, a.s))
    else some (a.lty, a.l)
  let num (f : Rec → Nat) : Bytes × Bool := match rec' with | some (_, r) => (digits (f r), false) | none => ([], true)
  let t := stripSlashes path
  let base := (t.reverse.takeWhile (· != 47)).reverse
  let before := stripSlashes ((t.reverse.dropWhile (· != 47)).reverse)
  if c == 'p' then (path, false)
  else if c == 'f' then
    (match v.ent.rpath with
     | n :: _ => (n, false)
     -- (a last component `..` is a component like any other; `.` may be normalised away: either way)
     | [] => (if t.isEmpty then [47] else base, base == [46] || t.isEmpty))
  else if c == 'h' then
    (match v.ent.rpath with
     | _ :: up => (stripSlashes (pathOf start up), (stripSlashes (pathOf start up)).isEmpty)
     | [] =>
       -- a directory part that is not in canonical spelling ("a/.", "a//b") may be printed either way
       let odd := (before.getLast? == some 46 && before.dropLast.getLast? == some 47) ||
                  (before.zip before.tail).any (fun (x, y) => x == 47 && y == 47)
       (if before.isEmpty then [46] else before,
        path.head? == some 47 && before.isEmpty || base == [46] || base == [46, 46] || t.isEmpty || odd))
  else if c == 'H' then (start, false)
  else if c == 'P' then (List.intercalate [47] v.ent.rpath.reverse, false)
  else if c == 'd' then (digits v.ent.depth, false)
  else if c == 's' then num (·.size)
  else if c == 'n' then num (·.nlink)
  else if c == 'i' then num (·.ino)
  else if c == 'U' then num (·.uid)
  else if c == 'G' then num (·.gid)
  else if c == 'm' then
    (match rec' with
     | some (_, r) => ((String.ofList (Nat.toDigits 8 r.perm)).toUTF8.toList, decide (r.perm < 64))
     | none => ([], true))
  else if c == 'y' then (match rec' with | some (t, _) => ([UInt8.ofNat t.toNat], false) | none => ([], true))
  else if c == 'Y' then
    -- the opposite follow decision; a dangling or looping link is still reported as something link-like
    (if followAt v.follow v.ent.depth then ([UInt8.ofNat a.lty.toNat], false)
     else if a.lty != 'l' then ([UInt8.ofNat a.lty.toNat], false)
     else if a.sty == 'N' || a.sty == 'L' then ([], true)
     else ([UInt8.ofNat a.sty.toNat], false))
  else if c == 'l' then
    -- the link target where the entry itself is a link; for a link the follow mode resolves: unspecified
    (if a.lty == 'l' then (a.target, followAt v.follow v.ent.depth && a.sty != 'N') else ([], false))
  else ([], true)

def isAscii (b : Bytes) : Bool := b.all fun x => x.toNat < 128

def specRender (start : Bytes) (v : Visit Attr) : List SComp → Bytes × Bool
  | [] => ([], false)
  | .bytes b :: r => let x := specRender start v r; (b ++ x.1, x.2)
  | .dir c w left :: r =>
    let val := specValue start v c
    let x := specRender start v r
    let fill := List.replicate (w - val.1.length) (32 : UInt8)
    -- width counts characters or bytes: only unambiguous for ASCII values
    ((if left then val.1 ++ fill else fill ++ val.1) ++ x.1, val.2 || x.2 || (decide (w > 0) && !isAscii val.1))

end FuModel.Spec.PrintfRef
