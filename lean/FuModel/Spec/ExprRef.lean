import FuModel.Find.Expr

/-!
# Reference grammar and reference evaluation for find expressions (C01, C11)

The grammar of the property, in EBNF form:

    list   := or  { ',' or }
    or     := and { ('-o'|'-or') and }
    and    := factor { ['-a'|'-and'] factor }
    factor := ('!'|'-not') factor | primary | '(' list ')'

`X` is its syntax tree: `group l` holds a comma-list of or-groups of and-groups of factors;
`a x` marks a factor that is preceded by an explicit `-a` (allowed on every factor of an
and-group but the first).  `render` produces the token string, `WF` says the tree is a
sentence of the grammar.  The reference evaluation is the textbook one: an and-group stops at
its first false factor, an or-group at its first true and-group, a comma-list evaluates every
member and yields the last value, `!` negates; and evaluation stops everywhere as soon as the
state says quit.
-/
namespace FuModel.Find.Expr

inductive X (P : Type) where
  | prim (p : P)
  | not (x : X P)
  | a (x : X P)
  | group (l : List (List (List (X P))))
  deriving Repr

variable {P : Type}

mutual
def renderF : X P → List (Tok P)
  | .prim p => [.prim p]
  | .not x => .bang :: renderF x
  | .a x => .and_ :: renderF x
  | .group l => .lp :: (renderL l ++ [.rp])
def renderA : List (X P) → List (Tok P)
  | [] => []
  | x :: xs => renderF x ++ renderA xs
def renderO : List (List (X P)) → List (Tok P)
  | [] => []
  | [g] => renderA g
  | g :: gs => renderA g ++ .or_ :: renderO gs
def renderL : List (List (List (X P))) → List (Tok P)
  | [] => []
  | [o] => renderO o
  | o :: os => renderO o ++ .comma :: renderL os
end

mutual
/-- a factor without explicit `-a` in front -/
def wfF : X P → Bool
  | .prim _ => true
  | .not x => wfF x
  | .a _ => false
  | .group l => wfL l
/-- the factors of an and-group after the first: each optionally preceded by `-a` -/
def wfRest : List (X P) → Bool
  | [] => true
  | .a x :: xs => wfF x && wfRest xs
  | .prim _ :: xs => wfRest xs
  | .not x :: xs => wfF x && wfRest xs
  | .group l :: xs => wfL l && wfRest xs
def wfA : List (X P) → Bool
  | [] => false
  | x :: xs => wfF x && wfRest xs
def wfO : List (List (X P)) → Bool
  | [] => false
  | [g] => wfA g
  | g :: gs => wfA g && wfO gs
def wfL : List (List (List (X P))) → Bool
  | [] => false
  | [o] => wfO o
  | o :: os => wfO o && wfL os
end

/-- `WF l`: `l` is a sentence of the grammar (an expression as given on the command line) -/
def WF (l : List (List (List (X P)))) : Prop := wfL l = true

/-! ### the tree the grammar prescribes -/

def wrap (inv : Bool) (m : M P) : M P := if inv then .not m else m

def collapse (mk : List (M P) → M P) : List (M P) → M P
  | [m] => m
  | ms => mk ms

mutual
def treeF (inv : Bool) : X P → M P
  | .prim p => wrap inv (.prim p)
  | .not x => treeF (!inv) x
  | .a x => treeF inv x
  | .group l => wrap inv (collapse .list (treesL l))
def treesA : List (X P) → List (M P)
  | [] => []
  | x :: xs => treeF false x :: treesA xs
def treesO : List (List (X P)) → List (M P)
  | [] => []
  | g :: gs => collapse .and (treesA g) :: treesO gs
def treesL : List (List (List (X P))) → List (M P)
  | [] => []
  | o :: os => collapse .or (treesO o) :: treesL os
end

def treeL (l : List (List (List (X P)))) : M P := collapse .list (treesL l)

/-! ### reference evaluation -/

section
variable {σ : Type} (sem : P → σ → Bool × σ) (quit : σ → Bool)

mutual
def refF : X P → σ → Bool × σ
  | .prim p, s => sem p s
  | .not x, s => let r := refF x s; (!r.1, r.2)
  | .a x, s => refF x s
  | .group l, s => refL l false s
/-- and-group: left to right, stops at the first false factor -/
def refA : List (X P) → σ → Bool × σ
  | [], s => (true, s)
  | x :: xs, s =>
    let r := refF x s
    if quit r.2 then r else if r.1 then refA xs r.2 else (false, r.2)
/-- or-group: left to right, stops at the first true and-group -/
def refO : List (List (X P)) → σ → Bool × σ
  | [], s => (false, s)
  | g :: gs, s =>
    let r := refA g s
    if quit r.2 then r else if r.1 then (true, r.2) else refO gs r.2
/-- comma-list: every member is evaluated, the value is that of the last one -/
def refL : List (List (List (X P))) → Bool → σ → Bool × σ
  | [], rc, s => (rc, s)
  | o :: os, _, s =>
    let r := refO o s
    if quit r.2 then r else refL os r.1 r.2
end

end

/-- what an observer sees of an evaluation: the final state, and the value unless quit fired -/
def obs {σ : Type} (quit : σ → Bool) (r : Bool × σ) : Option Bool × σ :=
  (if quit r.2 then none else some r.1, r.2)

-- the expression contains an action anywhere (also under `!` or in a branch never reached)
mutual
def actF (isAction : P → Bool) : X P → Bool
  | .prim p => isAction p
  | .not x => actF isAction x
  | .a x => actF isAction x
  | .group l => actL isAction l
def actA (isAction : P → Bool) : List (X P) → Bool
  | [] => false
  | x :: xs => actF isAction x || actA isAction xs
def actO (isAction : P → Bool) : List (List (X P)) → Bool
  | [] => false
  | g :: gs => actA isAction g || actO isAction gs
def actL (isAction : P → Bool) : List (List (List (X P))) → Bool
  | [] => false
  | o :: os => actO isAction o || actL isAction os
end

end FuModel.Find.Expr
