import FuModel.Find.Cmdline

/-!
# Reference recogniser for find's expression grammar over command-line words (C11)

Written from the property text, not from the code: a recursive-descent recogniser for

    list   := or  { ',' or }
    or     := and { ('-o'|'-or') and }
    and    := factor { ['-a'|'-and'] factor }
    factor := ('!'|'-not') factor | '(' list ')' | primary operand*

over the vocabulary of primaries (`vocab`: name, number of operands, how an operand is validated;
`-exec`/`-execdir` take words up to `;` or `{} +`; `-newerXY` for X in aBcm, Y in aBcmt — as whole
words).  The operand validators are the characterised parsers of `Find/Numeric.lean`,
`Find/Perm.lean`, `Find/PrintfFmt.lean` and the external answers `Ext`.  `sentence` answers
`some true` / `some false`, or `none` when it cannot tell (an external answer is missing, or
`-help`/`-version` occurs, which the property does not speak about).
-/
namespace FuModel.Spec.CmdlineRef
open FuModel.Find FuModel.Find.Cmdline FuModel.Find.Regex

inductive Arity where
  | zero | one (c : Check) | two | execLike
  deriving Repr, DecidableEq

def vocab : List (String × Arity) :=
  [("-print", .zero), ("-print0", .zero), ("-ls", .zero), ("-true", .zero), ("-false", .zero),
   ("-readable", .zero), ("-writable", .zero), ("-executable", .zero), ("-delete", .zero), ("-empty", .zero),
   ("-nouser", .zero), ("-nogroup", .zero), ("-prune", .zero), ("-quit", .zero), ("-follow", .zero),
   ("-daystart", .zero), ("-noleaf", .zero), ("-d", .zero), ("-depth", .zero), ("-mount", .zero),
   ("-xdev", .zero), ("-sorted", .zero),
   ("-printf", .one .printf), ("-fprint", .one .outFile), ("-fprint0", .one .outFile), ("-fls", .one .outFile),
   ("-fprintf", .two),
   ("-name", .one .any), ("-iname", .one .any), ("-lname", .one .any), ("-ilname", .one .any),
   ("-path", .one .any), ("-ipath", .one .any), ("-wholename", .one .any), ("-iwholename", .one .any),
   ("-fstype", .one .any),
   ("-regextype", .one .regextype), ("-regex", .one (.regex false)), ("-iregex", .one (.regex true)),
   ("-type", .one .ftype), ("-xtype", .one .ftype),
   ("-size", .one .size),
   ("-mtime", .one .cmp), ("-atime", .one .cmp), ("-ctime", .one .cmp),
   ("-mmin", .one .cmp), ("-amin", .one .cmp), ("-cmin", .one .cmp),
   ("-inum", .one .cmp), ("-links", .one .cmp), ("-uid", .one .cmp), ("-gid", .one .cmp),
   ("-user", .one .user), ("-group", .one .group), ("-perm", .one .perm),
   ("-maxdepth", .one .number), ("-mindepth", .one .number),
   ("-newer", .one .refFile), ("-anewer", .one .refFile), ("-cnewer", .one .refFile),
   ("-samefile", .one .refFile), ("-files0-from", .one .files0),
   ("-exec", .execLike), ("-execdir", .execLike)]

def arityOf (w : Word) : Option Arity :=
  match vocab.lookup (String.ofList w) with
  | some a => some a
  | none =>
    match w with
    | ['-', 'n', 'e', 'w', 'e', 'r', x, y] =>
      if isX x && isY y then some (.one (if x == 'B' then .birth else if y == 't' then .date else .refFile)) else none
    | _ => none

def isBang (w : Word) : Bool := w == ['!'] || w == "-not".toList
def isAnd (w : Word) : Bool := w == "-a".toList || w == "-and".toList
def isOr (w : Word) : Bool := w == "-o".toList || w == "-or".toList
def isComma (w : Word) : Bool := w == [',']
def isLp (w : Word) : Bool := w == ['(']
def isRp (w : Word) : Bool := w == [')']
def isHelp (w : Word) : Bool :=
  w == "-help".toList || w == "--help".toList || w == "-version".toList || w == "--version".toList

inductive Fail where | no | unknown
  deriving Repr, DecidableEq

abbrev R := Except Fail (List Word × RType)

/-- the words of `-exec` up to its terminator: `prev` = the word before, `n` = words so far,
    `braces` = how many of the words after the command are `{}` -/
def execTail (prev : Word) (n braces : Nat) : List Word → Option (List Word)
  | [] => none
  | w :: ws =>
    if w == [';'] then (if 1 ≤ n then some ws else none)
    else if w == ['+'] && prev == lbrace && 1 ≤ n then (if 2 ≤ n && braces == 1 then some ws else none)
    else execTail w (n + 1) (if 1 ≤ n && w == lbrace then braces + 1 else braces) ws

def operand (e : Ext) (rt : RType) (c : Check) (op : Word) (rest : List Word) : R :=
  match checkOperand e rt c op with
  | .ok => .ok (rest, nextType rt c op)
  | .bad => .error .no
  | .unk => .error .unknown

def primary (e : Ext) (rt : RType) (w : Word) (ws : List Word) : R :=
  match arityOf w with
  | none => .error .no
  | some .zero => .ok (ws, rt)
  | some (.one c) =>
    (match ws with
     | [] => .error .no
     | op :: rest => operand e rt c op rest)
  | some .two =>
    (match ws with
     | f :: fmt :: rest =>
       (match operand e rt .outFile f rest with
        | .ok _ => operand e rt .printf fmt rest
        | .error x => .error x)
     | _ => .error .no)
  | some .execLike =>
    (match execTail w 0 0 ws with
     | some rest => .ok (rest, rt)
     | none => .error .no)

def startsFactor (ws : List Word) : Bool :=
  match ws with
  | [] => false
  | w :: _ => !(isOr w || isComma w || isRp w || isAnd w)

mutual
def pFactor (e : Ext) : Nat → RType → List Word → R
  | 0, _, _ => .error .unknown
  | _ + 1, _, [] => .error .no
  | fuel + 1, rt, w :: ws =>
    if isBang w then pFactor e fuel rt ws
    else if isLp w then
      (match pList e fuel rt ws with
       | .ok (r :: rest, rt') => if isRp r then .ok (rest, rt') else .error .no
       | .ok ([], _) => .error .no
       | .error x => .error x)
    else if isRp w || isAnd w || isOr w || isComma w then .error .no
    else primary e rt w ws
def pAndRest (e : Ext) : Nat → RType → List Word → R
  | 0, _, _ => .error .unknown
  | fuel + 1, rt, ws =>
    match ws with
    | [] => .ok ([], rt)
    | w :: rest =>
      if isAnd w then
        (match pFactor e fuel rt rest with
         | .ok (r, rt') => pAndRest e fuel rt' r
         | .error x => .error x)
      else if startsFactor ws then
        (match pFactor e fuel rt ws with
         | .ok (r, rt') => pAndRest e fuel rt' r
         | .error x => .error x)
      else .ok (ws, rt)
def pAnd (e : Ext) : Nat → RType → List Word → R
  | 0, _, _ => .error .unknown
  | fuel + 1, rt, ws =>
    match pFactor e fuel rt ws with
    | .ok (r, rt') => pAndRest e fuel rt' r
    | .error x => .error x
def pOr (e : Ext) : Nat → RType → List Word → R
  | 0, _, _ => .error .unknown
  | fuel + 1, rt, ws =>
    match pAnd e fuel rt ws with
    | .ok (w :: rest, rt') => if isOr w then pOr e fuel rt' rest else .ok (w :: rest, rt')
    | .ok ([], rt') => .ok ([], rt')
    | .error x => .error x
def pList (e : Ext) : Nat → RType → List Word → R
  | 0, _, _ => .error .unknown
  | fuel + 1, rt, ws =>
    match pOr e fuel rt ws with
    | .ok (w :: rest, rt') => if isComma w then pList e fuel rt' rest else .ok (w :: rest, rt')
    | .ok ([], rt') => .ok ([], rt')
    | .error x => .error x
end

/-- is the expression part of the command line a sentence of the grammar (the empty expression
    is one)?  -/
def sentence (e : Ext) (argv : List Word) : Option Bool :=
  let ws := (FuModel.Find.Run.parseLeading argv).rest
  if ws.any isHelp then none
  else if ws.isEmpty then some true
  else match pList e (5 * ws.length + 5) .emacs ws with
    | .ok ([], _) => some true
    | .ok (_ :: _, _) => some false
    | .error .no => some false
    | .error .unknown => none

end FuModel.Spec.CmdlineRef
