import FuModel.Find.Regex

/-!
# The language of a pattern, textbook style (the specification C17 is stated against)

`inLang r s`: the whole string `s` belongs to the language of `r`.  Concatenation tries every
split, repetition peels off one non-empty piece at a time; `fuel` bounds the recursion by the
length of the string.
-/
namespace FuModel.Spec.RegexLang
open FuModel.Find.Regex

def inLang (icase : Bool) : Nat → Re → List Char → Bool
  | 0, _, _ => false
  | fuel + 1, r, s =>
    match r with
    | .chr _ | .any | .set _ _ => (match s with | [c] => accepts1 icase r c | _ => false)
    | .seq a b => (List.range (s.length + 1)).any fun k => inLang icase fuel a (s.take k) && inLang icase fuel b (s.drop k)
    | .alt a b => inLang icase fuel a s || inLang icase fuel b s
    | .star a => s.isEmpty || (List.range s.length).any fun k =>
        inLang icase fuel a (s.take (k + 1)) && inLang icase fuel (.star a) (s.drop (k + 1))
    | .plus a => inLang icase fuel (.seq a (.star a)) s
    | .opt a => s.isEmpty || inLang icase fuel a s
    | .interval lo hi a =>
      if lo > 0 then inLang icase fuel (.seq a (.interval (lo - 1) (hi - 1) a)) s
      else if hi > 0 then s.isEmpty || inLang icase fuel (.seq a (.interval 0 (hi - 1) a)) s
      else s.isEmpty
    | .group a => inLang icase fuel a s

/-- size of a pattern, for the fuel -/
def Re.size : Re → Nat
  | .seq a b => 1 + Re.size a + Re.size b
  | .alt a b => 1 + Re.size a + Re.size b
  | .star a => 1 + Re.size a
  | .plus a => 3 + Re.size a + Re.size a
  | .opt a => 1 + Re.size a
  | .interval _ hi a => 1 + (hi + 1) * (2 + Re.size a)
  | .group a => 1 + Re.size a
  | _ => 1

def member (icase : Bool) (r : Re) (s : List Char) : Bool :=
  inLang icase ((Re.size r + 2) * (s.length + 2) * 4 + 16) r s

end FuModel.Spec.RegexLang
