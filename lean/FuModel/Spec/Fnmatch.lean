/-!
# POSIX fnmatch() without flags, denotationally (the specification C12 is stated against)

Written from the property text and XCU 2.13: `*` any string, `?` any one character (both also
match '/', a leading '.' and newline), `[...]` a bracket expression with `!` negation, ranges and
character classes, a backslash quotes the next character (inside brackets too), an unmatched `[`
is literal, a pattern ending in a lone backslash matches nothing.
Where POSIX leaves the result unspecified (`[^…]`, a range whose ends are out of order, an
unknown class name, collating symbols and equivalence classes) `specParse` says so and the
predicate accepts any answer.
-/
namespace FuModel.Spec.Fnmatch

inductive SMem where
  | ch (c : Char)
  | range (lo hi : Char)
  | cls (name : List Char)
  deriving Repr, DecidableEq

inductive SItem where
  | lit (c : Char)
  | any
  | star
  | set (neg : Bool) (ms : List SMem)
  deriving Repr, DecidableEq

def clsHas (name : List Char) (c : Char) : Option Bool :=
  let n := c.toNat
  let up := decide (65 ≤ n) && decide (n ≤ 90)
  let lo := decide (97 ≤ n) && decide (n ≤ 122)
  let dg := decide (48 ≤ n) && decide (n ≤ 57)
  if name == "alpha".toList then some (up || lo)
  else if name == "digit".toList then some dg
  else if name == "alnum".toList then some (up || lo || dg)
  else if name == "upper".toList then some up
  else if name == "lower".toList then some lo
  else if name == "space".toList then some (n == 32 || (decide (9 ≤ n) && decide (n ≤ 13)))
  else if name == "blank".toList then some (n == 32 || n == 9)
  else if name == "punct".toList then
    some ((decide (33 ≤ n) && decide (n ≤ 47)) || (decide (58 ≤ n) && decide (n ≤ 64)) ||
          (decide (91 ≤ n) && decide (n ≤ 96)) || (decide (123 ≤ n) && decide (n ≤ 126)))
  else if name == "print".toList then some (decide (32 ≤ n) && decide (n ≤ 126))
  else if name == "graph".toList then some (decide (33 ≤ n) && decide (n ≤ 126))
  else if name == "cntrl".toList then some (decide (n ≤ 31) || n == 127)
  else if name == "xdigit".toList then some (dg || (decide (65 ≤ n) && decide (n ≤ 70)) || (decide (97 ≤ n) && decide (n ≤ 102)))
  else none

/-- one bracket member list up to the closing `]`; returns (members, rest after `]`, unspecified?) -/
def parseSet : Nat → List Char → Bool → Option (List SMem × List Char × Bool)
  | 0, _, _ => none
  | _ + 1, [], _ => none                                        -- no closing bracket
  | fuel + 1, ']' :: r, first =>
    if first then                                               -- a `]` in first position is a member
      (parseSet fuel r false).map fun (ms, rest, u) => (.ch ']' :: ms, rest, u)
    else some ([], r, false)
  | fuel + 1, '[' :: ':' :: r, _ =>
    let name := r.takeWhile (· != ':')
    match r.dropWhile (· != ':') with
    | ':' :: ']' :: rest =>
      (parseSet fuel rest false).map fun (ms, rest', u) =>
        (.cls name :: ms, rest', u || (clsHas name 'a').isNone || rest.head? == some '-' && rest.tail.head? != some ']')
    | _ => (parseSet fuel (':' :: r) false).map fun (ms, rest', u) => (.ch '[' :: ms, rest', u)
  | fuel + 1, '[' :: '.' :: r, _ => (parseSet fuel r false).map fun (ms, rest', _) => (ms, rest', true)
  | fuel + 1, '[' :: '=' :: r, _ => (parseSet fuel r false).map fun (ms, rest', _) => (ms, rest', true)
  | fuel + 1, cs, _ =>
    -- one (possibly quoted) character, possibly the start of a range
    let take1 : List Char → Option (Char × List Char) := fun l =>
      match l with
      | '\\' :: c :: r => some (c, r)
      | '\\' :: [] => none
      | c :: r => some (c, r)
      | [] => none
    match take1 cs with
    | none => none
    | some (a, r) =>
      match r with
      | '-' :: ']' :: _ => (parseSet fuel r false).map fun (ms, rest', u) => (.ch a :: ms, rest', u)
      | '-' :: r2 =>
        (match take1 r2 with
         | some (b, r3) =>
           (parseSet fuel r3 false).map fun (ms, rest', u) =>
             (.range a b :: ms, rest', u || decide (b.toNat < a.toNat) || b == '[' || r3.head? == some '-' && r3.tail.head? != some ']')
         | none => none)
      | _ => (parseSet fuel r false).map fun (ms, rest', u) => (.ch a :: ms, rest', u)

/-- (items, unspecified?); `none` = the pattern ends in a lone backslash -/
def specParse : Nat → List Char → Option (List SItem × Bool)
  | 0, _ => some ([], true)
  | _ + 1, [] => some ([], false)
  | fuel + 1, c :: cs =>
    let cont (it : SItem) (rest : List Char) (u : Bool) : Option (List SItem × Bool) :=
      (specParse fuel rest).map fun (is, u') => (it :: is, u || u')
    if c == '?' then cont .any cs false
    else if c == '*' then cont .star cs false
    else if c == '\\' then
      match cs with
      | [] => none
      | d :: ds => cont (.lit d) ds false
    else if c == '[' then
      let (neg, body, u0) := match cs with
        | '!' :: r => (true, r, false)
        | '^' :: r => (true, r, true)          -- unspecified by POSIX
        | r => (false, r, false)
      match parseSet (body.length + 1) body true with
      | some (ms, rest, u) => if ms.isEmpty then cont (.lit '[') cs false else cont (.set neg ms) rest (u || u0)
      | none => cont (.lit '[') cs false
    else cont (.lit c) cs false

def SMem.has (m : SMem) (c : Char) : Bool :=
  match m with
  | .ch x => x == c
  | .range lo hi => decide (lo.toNat ≤ c.toNat) && decide (c.toNat ≤ hi.toNat)
  | .cls n => (clsHas n c).getD false

def foldCase (c : Char) : Char :=
  if decide (65 ≤ c.toNat) && decide (c.toNat ≤ 90) then Char.ofNat (c.toNat + 32) else c

def swap (c : Char) : Char :=
  if decide (65 ≤ c.toNat) && decide (c.toNat ≤ 90) then Char.ofNat (c.toNat + 32)
  else if decide (97 ≤ c.toNat) && decide (c.toNat ≤ 122) then Char.ofNat (c.toNat - 32) else c

def SItem.accepts (icase : Bool) (it : SItem) (c : Char) : Bool :=
  match it with
  | .lit x => if icase then foldCase x == foldCase c else x == c
  | .any => true
  | .star => false
  | .set neg ms =>
    let inSet := ms.any (·.has c) || (icase && ms.any (·.has (swap c)))
    if neg then !inSet else inSet

/-- whole-string match, denotationally: a star stands for any (possibly empty) string -/
def specMatch (icase : Bool) : List SItem → List Char → Bool
  | [], s => s.isEmpty
  | .star :: r, s => (List.range (s.length + 1)).any fun k => specMatch icase r (s.drop k)
  | it :: r, s =>
    match s with
    | [] => false
    | x :: xs => it.accepts icase x && specMatch icase r xs

/-- `some b` = fnmatch's answer; `none` = unspecified -/
def fnmatch (icase : Bool) (p s : List Char) : Option Bool :=
  match specParse (p.length + 1) p with
  | none => some false
  | some (is, u) => if u then none else some (specMatch icase is s)

end FuModel.Spec.Fnmatch
