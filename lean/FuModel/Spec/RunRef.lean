import FuModel.Find.Run
import FuModel.Spec.ExprRef
import FuModel.Spec.WalkRef
import FuModel.Spec.PrintfRef
import FuModel.Spec.RegexLang

/-!
# Reference run of find (used by the property predicates of C01, C02, C03, C07, C18)

Independent of the parser model `Expr.run` and of the walk machine `Walk.step`: the
expression is read by a recursive-descent parser written from the grammar, evaluated by the
reference evaluation `refL`, over the reference traversal `refRoot`.
-/
namespace FuModel.Find.RunRef
open FuModel.Find.Expr FuModel.Find.Walk FuModel.Find.Run

abbrev XP := X Prim

-- recursive descent, `fuel` bounds the nesting; returns the parsed part and the rest
mutual
def pFactor : Nat → List (Tok Prim) → Option (XP × List (Tok Prim))
  | 0, _ => none
  | fuel + 1, ts =>
    match ts with
    | .prim p :: r => some (.prim p, r)
    | .bang :: r => (pFactor fuel r).map fun (x, r') => (.not x, r')
    | .lp :: r =>
      match pList fuel r with
      | some (l, .rp :: r') => some (.group l, r')
      | _ => none
    | _ => none
def pAnd : Nat → List (Tok Prim) → Option (List XP × List (Tok Prim))
  | 0, _ => none
  | fuel + 1, ts =>
    match pFactor fuel ts with
    | none => none
    | some (x, r) =>
      match r with
      | .and_ :: r' => (pAnd fuel r').map fun (xs, r'') => (x :: (match xs with | y :: ys => .a y :: ys | [] => []), r'')
      | .prim _ :: _ => (pAnd fuel r).map fun (xs, r'') => (x :: xs, r'')
      | .bang :: _ => (pAnd fuel r).map fun (xs, r'') => (x :: xs, r'')
      | .lp :: _ => (pAnd fuel r).map fun (xs, r'') => (x :: xs, r'')
      | _ => some ([x], r)
def pOr : Nat → List (Tok Prim) → Option (List (List XP) × List (Tok Prim))
  | 0, _ => none
  | fuel + 1, ts =>
    match pAnd fuel ts with
    | none => none
    | some (g, .or_ :: r) => (pOr fuel r).map fun (gs, r') => (g :: gs, r')
    | some (g, r) => some ([g], r)
def pList : Nat → List (Tok Prim) → Option (List (List (List XP)) × List (Tok Prim))
  | 0, _ => none
  | fuel + 1, ts =>
    match pOr fuel ts with
    | none => none
    | some (o, .comma :: r) => (pList fuel r).map fun (os, r') => (o :: os, r')
    | some (o, r) => some ([o], r)
end

/-- `some l` iff the tokens are a sentence of the grammar (the empty expression is allowed by find) -/
def parseExpr (ts : List (Tok Prim)) : Option (List (List (List XP))) :=
  if ts.isEmpty then some []
  else match pList (4 * ts.length + 4) ts with
    | some (l, []) => some l
    | _ => none

structure RefRes where
  out : Bytes
  ret : Nat
  diags : Nat
  unspec : Bool := false
  deriving Repr

/-! ### reference for the -exec actions (C08, C09) -/

/-- every occurrence of `{}` replaced by the path, left to right, the inserted text not rescanned -/
def replaceAll (path : Bytes) : Bytes → Bytes
  | [] => []
  | [b] => [b]
  | a :: b :: rest =>
    if a == 123 && b == 125 then path ++ replaceAll path rest
    else a :: replaceAll path (b :: rest)

/-- `./basename` and the parent directory of an entry, from the property text: below a starting
    point the basename is the entry's name and the parent is the path without it -/
def dirArgRef (start : Bytes) (rpath : List Name) : Bytes × Option Bytes :=
  match rpath with
  | n :: up => (46 :: 47 :: n, some (pathOf start up))
  | [] =>
    let p := start
    -- (the last component as written, `..` included: in the parent directory `./..` names `dir/..`)
    ((match FuModel.Path.lastComponent p with
      | some f => FuModel.Path.join [46] f
      | none => FuModel.Path.join [46] p),
     (match FuModel.Path.parent p with
      | none => some p
      | some [] => none
      | some d => some d))

/-- the status record the follow mode selects (property text of C13): lstat where the view does not
    follow, stat falling back to lstat for a dangling link where it does -/
def recordSpecR (v : Visit Attr) : Option (Char × Rec) :=
  let a := attrOf v
  if followAt v.follow v.ent.depth then
    (if a.sty == 'L' then none else if a.sty == 'N' then some (a.lty, a.l) else some (a.sty, a.s))
  else some (a.lty, a.l)

/-- the primaries with the exec actions read from the property text: `-exec … ;` runs the command
    with `{}` replaced and is true iff it exits 0; `-exec … +` only records the path it is reached on -/
def semRef (start : Bytes) (v : Visit Attr) (p : Prim) (s : ES) : Bool × ES :=
  let path := pathOf start v.ent.rpath
  match p with
  | .exec dir cmdOk cmd tmpl =>
    let (arg, cwd) := if dir then dirArgRef start v.ent.rpath else (path, none)
    let r := s.gs.spawn cmdOk (cmd :: tmpl.map (replaceAll arg)) cwd
    (r.1 == some 0, { s with gs := r.2 })
  | .execMulti id dir _ _ _ =>
    -- the reference notes which `+` action the path is to be handed to, and in which directory
    let (arg, cwd) := if dir then dirArgRef start v.ent.rpath else (path, none)
    (true, { s with gs := { s.gs with execs := s.gs.execs ++ [⟨[(toString id).toUTF8.toList, arg], cwd⟩] } })
  | .typeIs c => ((match recordSpecR v with | some (t, _) => t == c | none => false), s)
  | .xtype c =>
    -- the opposite choice: the link itself where the view follows, through the link where it does not
    let a := attrOf v
    let t : Option Char :=
      if followAt v.follow v.ent.depth then some a.lty
      else if a.sty == 'L' then none else if a.sty == 'N' then some a.lty else some a.sty
    ((match t with | some t => t == c | none => c == 'l'), s)
  | .perm k m =>
    ((match recordSpecR v with
      | some (_, r) =>
        (match k with
         | .exact => r.perm == m
         | .atLeast => (List.range 12).all fun i => !(m.testBit i) || r.perm.testBit i
         | .anyOf => m == 0 || (List.range 12).any fun i => m.testBit i && r.perm.testBit i)
      | none => false), s)
  | .statCmp f c => ((match recordSpecR v with | some (_, r) => c.matches (r.field f) | none => false), s)
  | .empty =>
    ((match recordSpecR v with
      | some (t, r) =>
        if t == 'f' then r.size == 0
        else if t == 'd' then (match v.ent.node with | .dir _ _ _ _ kids => kids.isEmpty | _ => false)
        else false
      | none => false), s)
  | .samefile dev ino => ((match recordSpecR v with | some (_, r) => r.dev == dev && r.ino == ino | none => false), s)
  | .lname l => ((match recordSpecR v with | some (t, _) => t == 'l' && (attrOf v).target == l | none => false), s)
  | .regex ic re =>
    (FuModel.Spec.RegexLang.member ic re (match String.fromUTF8? ⟨path.toArray⟩ with | some t => t.toList | none => []), s)
  | .printf _ raw =>
    (match FuModel.Spec.PrintfRef.specParse (raw.length + 1) raw with
     | some (cs, u) =>
       let r := FuModel.Spec.PrintfRef.specRender start v cs
       (true, { s with gs := { s.gs with out := s.gs.out ++ r.1, unspec := s.gs.unspec || u || r.2 } })
     | none => (true, { s with gs := { s.gs with unspec := true } }))
  | .delete =>
    -- the reference only records where the action is reached: the path, then (for a real
    -- directory, marked by cwd = some []) the paths of its entries
    let ev : ExecEvent := match v.ent.node with
      | .dir _ false _ _ kids => ⟨path :: kids.map fun k => pushName path k.name, some []⟩
      | _ => ⟨[path], none⟩
    -- the action is true for an entry it removed and false for one it could not remove; which
    -- entries went is an observation the predicate supplies (`refRunXD`: the removed paths, behind
    -- the marker `[0]`, in the reference's initial state); without it the action counts as true
    let truth := !s.gs.deleted.contains [0] || path == [46] || s.gs.deleted.contains path
    (truth, { s with gs := { s.gs with execs := s.gs.execs ++ [ev] } })
  | p => sem start v p s

def evalRefEntryX (l : List (List (List XP))) (start : Bytes) (v : Visit Attr) (g : GS) : EvalOut × GS :=
  let s0 : ES := ⟨g, false, false, 0⟩
  let r := if l.isEmpty then (true, s0) else refL (semRef start v) (·.quit) l false s0
  let r := if actL Prim.isAction l || r.2.quit || !r.1 then r else semRef start v (.pathOut [] [10]) r.2
  (⟨r.2.prune, r.2.quit, r.2.exit⟩, r.2.gs)

def refRootsX (c : RefCfg) (sorted : Bool) (l : List (List (List XP))) :
    List (Bytes × Option (Node Attr)) → Acc GS → Acc GS
  | [], acc => acc
  | (_, none) :: rest, acc => refRootsX c sorted l rest (diag acc)
  | (start, some n) :: rest, acc =>
    let n := if sorted then sortNode n else n
    let r := refRoot c (evalRefEntryX l start) n ⟨acc.st, 0, acc.diags⟩
    let acc' : Acc GS := ⟨r.2.st, if r.2.ret != 0 then r.2.ret else acc.ret, r.2.diags⟩
    if r.1 then acc' else refRootsX c sorted l rest acc'

/-- reference run with exec actions: output, status of the walk, and the exec events -/
def refRunX (follow : Follow) (roots : List (Bytes × Option (Node Attr))) (args : List Arg) (script : List Nat) :
    Option (RefRes × List ExecEvent) :=
  let c := args.foldl applyArg { follow := follow }
  -- -xdev: a directory on another device than its starting point is reported, not descended into
  let roots := if c.xdev then roots.map (fun r => (r.1, r.2.map (cutRoot c.follow))) else roots
  match parseExpr (args.map Arg.tok') with
  | none => none
  | some l =>
    let r := refRootsX (refCfg c) c.sorted l roots ⟨{ script := script }, 0, 0⟩
    some (⟨r.st.out, r.ret, r.diags, r.st.unspec⟩, r.st.execs)

/-- reference run of an expression with -delete, told which of the paths the action is reached on
    were in fact removed (for the truth value of the action) -/
def refRunXD (follow : Follow) (roots : List (Bytes × Option (Node Attr))) (args : List Arg) (removed : List Bytes) :
    Option (RefRes × List ExecEvent) :=
  let c := args.foldl applyArg { follow := follow }
  let roots := if c.xdev then roots.map (fun r => (r.1, r.2.map (cutRoot c.follow))) else roots
  match parseExpr (args.map Arg.tok') with
  | none => none
  | some l =>
    let r := refRootsX (refCfg c) c.sorted l roots ⟨{ deleted := [0] :: removed }, 0, 0⟩
    some (⟨r.st.out, r.ret, r.diags, r.st.unspec⟩, r.st.execs)

/-- reference run without exec scripts -/
def refRun (follow : Follow) (roots : List (Bytes × Option (Node Attr))) (args : List Arg) : Option RefRes :=
  (refRunX follow roots args []).map (·.1)

/-- the predicate: stdout equal to the reference, exit status zero iff the reference's is;
    a rejected command line prints nothing and exits non-zero -/
def predFind (follow : Follow) (roots : List (Bytes × Option (Node Attr))) (args : List Arg)
    (obsSt : Nat) (obsOut : Bytes) : Bool :=
  match refRun follow roots args with
  | none => obsSt != 0 && obsOut.isEmpty
  | some r => r.unspec || (obsOut == r.out && ((obsSt == 0) == (r.ret == 0)))

/-- records of an output stream: NUL-terminated if a NUL occurs, else newline-terminated -/
def records (out : Bytes) : List Bytes :=
  let sep : UInt8 := if out.contains 0 then 0 else 10
  (out.splitOn sep)

def insertB (b : Bytes) : List Bytes → List Bytes
  | [] => [b]
  | c :: cs => if lexLt b c then b :: c :: cs else c :: insertB b cs

def sortB (l : List Bytes) : List Bytes := l.foldr insertB []

/-- order-insensitive variant (C02 is about which entries are visited and how often, not the order) -/
def predFindSet (follow : Follow) (roots : List (Bytes × Option (Node Attr))) (args : List Arg)
    (obsSt : Nat) (obsOut : Bytes) : Bool :=
  match refRun follow roots args with
  | none => obsSt != 0 && obsOut.isEmpty
  | some r => sortB (records obsOut) == sortB (records r.out) && ((obsSt == 0) == (r.ret == 0))

end FuModel.Find.RunRef
