import FuModel.Find.Walk

/-!
# Reference traversal (C02, C03, C18)

A plain recursive descent over the tree, written from the property text:

* an entry at depth `d` is evaluated iff `min ≤ d ≤ max` (no clamping: an empty range
  selects nothing);
* a directory is descended into iff it is a real directory or a link the follow mode follows
  at that depth, and `d < max`, and (in pre-order) it was not pruned;
* pre-order: the directory, then its entries in listing order; post-order (`-depth`): its
  entries, then the directory; a prune mark is ignored in post-order;
* a dangling link met while following is evaluated as the link it is; a link closing a cycle is
  diagnosed (status 1) and not evaluated; a directory that cannot be listed is evaluated itself,
  diagnosed (status 1) and contributes no entries;
* evaluation stops everywhere once the evaluator says quit.
-/
namespace FuModel.Find.Walk

variable {α σ : Type}

def RefCfg.follows (c : RefCfg) (depth : Nat) : Bool :=
  match c.follow with
  | .never => false
  | .roots => depth == 0
  | .always => true

structure Acc (σ : Type) where
  st : σ
  ret : Nat
  diags : Nat

/-- the entry view find evaluates: which status record the follow mode selects -/
def mkVisit (c : RefCfg) (rpath : List Name) (depth : Nat) (n : Node α) : Visit α :=
  match n with
  | .leaf _ k _ =>
    let through := k.isLink && c.follow == .always
    if k == .linkDangling && c.follows depth then ⟨⟨rpath, depth, n, through⟩, true, .never⟩
    else ⟨⟨rpath, depth, n, through⟩, depth == 0 && c.follow != .never, c.follow⟩
  | .dir _ isLink _ _ _ =>
    ⟨⟨rpath, depth, n, isLink && c.follow == .always⟩, depth == 0 && c.follow != .never, c.follow⟩

/-- evaluate one entry (if in range); returns (prune, quit, acc) -/
def visit (c : RefCfg) (ev : Visit α → σ → EvalOut × σ) (rpath : List Name) (depth : Nat) (n : Node α)
    (acc : Acc σ) : Bool × Bool × Acc σ :=
  if inRange c depth then
    let r := ev (mkVisit c rpath depth n) acc.st
    (r.1.prune, r.1.quit, ⟨r.2, if r.1.exit = 0 then acc.ret else r.1.exit, acc.diags⟩)
  else (false, false, acc)

def diag (acc : Acc σ) : Acc σ := ⟨acc.st, 1, acc.diags + 1⟩

mutual
/-- returns (quit, acc) -/
def refNode (c : RefCfg) (ev : Visit α → σ → EvalOut × σ) (rpath : List Name) (depth : Nat) :
    Node α → Acc σ → Bool × Acc σ
  | .leaf nm k a, acc =>
    if k == .linkLoop && c.follows depth then
      -- a link closing a cycle (or resolving to itself) where links are followed: diagnosed, not evaluated
      (false, if depth ≤ c.maxDepth then diag acc else acc)
    else
      let r := visit c ev rpath depth (.leaf nm k a) acc
      (r.2.1, r.2.2)
  | .dir nm isLink readable a kids, acc =>
    let descends := (!isLink || c.follows depth) && decide (depth < c.maxDepth)
    let below : Acc σ → Bool × Acc σ := fun acc =>
      if descends then
        if readable then refKids c ev (rpath) (depth + 1) kids acc
        else (false, diag acc)
      else (false, acc)
    if c.depthFirst then
      let r := below acc
      if r.1 then r
      else
        let v := visit c ev rpath depth (.dir nm isLink readable a kids) r.2
        (v.2.1, v.2.2)
    else
      let v := visit c ev rpath depth (.dir nm isLink readable a kids) acc
      if v.2.1 then (true, v.2.2)
      else if v.1 then (false, v.2.2)
      else below v.2.2
def refKids (c : RefCfg) (ev : Visit α → σ → EvalOut × σ) (rpath : List Name) (depth : Nat) :
    List (Node α) → Acc σ → Bool × Acc σ
  | [], acc => (false, acc)
  | n :: ns, acc =>
    let r := refNode c ev (n.name :: rpath) depth n acc
    if r.1 then r else refKids c ev rpath depth ns r.2
end

/-- one starting point -/
def refRoot (c : RefCfg) (ev : Visit α → σ → EvalOut × σ) (root : Node α) (acc : Acc σ) : Bool × Acc σ :=
  refNode c ev [] 0 root acc

end FuModel.Find.Walk
