import FuModel.Xargs.Opts
/-
Specification vocabulary for the batching theorems (C04, C19, C20): what it
means for a list of appended arguments to satisfy the limits, stated once
operationally (`fitsB`, the limiter chain accepts them one after the other) and
once declaratively (`FitsSpec`, the reading of -n, -L, -s in the property text).
-/
namespace FuModel.Xargs

/-- the arguments of one command pass the limiter chain one after the other -/
def foldTry (lim : Limits) : LState → List Arg → Option LState
  | st, [] => some st
  | st, a :: as =>
    match tryArg lim st a with
    | .ok st' => foldTry lim st' as
    | .error _ => none

def fitsB (lim : Limits) (init : LState) (b : List Arg) : Bool := (foldTry lim init b).isSome

def hardCount (b : List Arg) : Nat := (b.filter (fun a => a.kind == .hard)).length

def totalCost (b : List Arg) : Nat := (b.map (fun a => cost a.bytes)).sum

/-- Declarative reading of the limits for the appended arguments `b` of one
    command whose command word and initial arguments left the chain in `init`:
    at most `-n` appended arguments; arguments from at most `-L` input lines
    (one more than the number of line-ending arguments before the last one);
    at most `-s` bytes, counting the command, the initial arguments (already in
    `init`) and every appended argument plus one terminator each; and within the
    system limits: no single argument above `maxArg`, and the same byte count
    plus `ptr` bytes per argument within the system budget. -/
def FitsSpec (lim : Limits) (init : LState) (b : List Arg) : Prop :=
  b = [] ∨
  ((∀ n, lim.n = some n → init.args + b.length ≤ n) ∧
   (∀ l, lim.l = some l → init.line + hardCount b.dropLast ≤ l) ∧
   (∀ s, lim.s = some s → init.sizeS + totalCost b ≤ s) ∧
   (∀ a ∈ b, cost a.bytes ≤ lim.maxArg) ∧
   (init.sizeSys + totalCost b + lim.ptr * b.length ≤ lim.sys))

def Outcome.isFatal : Outcome → Bool
  | .exit 255 => true
  | .exit _ => false
  | _ => true

def Outcome.isFailure : Outcome → Bool
  | .exit 0 => false
  | .exit 255 => false
  | .exit _ => true
  | _ => false

/-- the status a fatal outcome forces -/
def Outcome.fatalStatus : Outcome → Nat
  | .exit _ => 124
  | .signal _ => 125
  | .cannotRun => 126
  | .notFound => 127

/-- outcomes of the first `k` started commands (an exhausted script means `exit 0`) -/
def startedOutcomes (script : List Outcome) (k : Nat) : List Outcome :=
  (script ++ List.replicate k (Outcome.exit 0)).take k

/-- `pat` occurs in `s` as a contiguous block -/
def occursIn (pat s : List UInt8) : Prop := ∃ pre post, s = pre ++ pat ++ post

end FuModel.Xargs
