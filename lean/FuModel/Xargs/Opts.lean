import FuModel.Xargs.Batch
import FuModel.Base.Utf8
/-
Model of `do_xargs`'s option layer: clap's "last occurrence wins" for values and
`indices_of`, `normalize_options`, `validate_positive_usize`, the choice of the
reader, replace-mode `execute`, and the wiring of the limiters.
-/
namespace FuModel.Xargs

/-- One option occurrence on the command line, in order. -/
inductive Opt where
  | n (v : Nat)            -- -n V   (V = 0 is rejected by validate_positive_usize)
  | l (v : Nat)            -- -L V
  | s (v : Nat)            -- -s V
  | x | r | null           -- -x -r -0
  | d (b : UInt8)          -- -d C
  | replI (rs : List UInt8)        -- -I R
  | repl (rs : Option (List UInt8))  -- -i / --replace[=R]
  deriving DecidableEq, Repr

/-- index of the last occurrence satisfying `p` (clap: `indices_of(..).next_back()`) -/
def lastIndex (opts : List Opt) (p : Opt → Bool) : Option Nat :=
  let rec go (i : Nat) (best : Option Nat) : List Opt → Option Nat
    | [] => best
    | o :: os => go (i + 1) (if p o then some i else best) os
  go 0 none opts

def lastVal {α} (opts : List Opt) (f : Opt → Option α) : Option α :=
  (opts.filterMap f).getLast?

def Opt.isN : Opt → Bool | .n _ => true | _ => false
def Opt.isL : Opt → Bool | .l _ => true | _ => false
def Opt.isRepl : Opt → Bool | .replI _ => true | .repl _ => true | _ => false
def Opt.isD : Opt → Bool | .d _ => true | _ => false
def Opt.isNull : Opt → Bool | .null => true | _ => false

/-- `Option<usize>` comparison as used on clap indices (`None < Some _`). -/
def optGt : Option Nat → Option Nat → Bool
  | some a, some b => a > b
  | some _, none => true
  | none, _ => false

structure Normalized where
  n : Option Nat
  l : Option Nat
  replace : Option (List UInt8)
  delim : Option UInt8
  deriving DecidableEq, Repr

/-- `normalize_options` -/
def normalize (opts : List Opt) : Normalized :=
  let maxArgs := lastVal opts (fun | .n v => some v | _ => none)
  let maxLines := lastVal opts (fun | .l v => some v | _ => none)
  let replaceRaw : Option (List UInt8) :=
    lastVal opts (fun | .replI rs => some rs | .repl rs => some (rs.getD [123, 125]) | _ => none)
  let (n, l, rep) : Option Nat × Option Nat × Option (List UInt8) :=
    match maxArgs, maxLines, replaceRaw with
    | none, none, some r => (some 1, none, some r)
    | some 1, none, some r => (some 1, none, some r)
    | some a, none, none => (some a, none, none)
    | none, some b, none => (none, some b, none)
    | none, none, none => (none, none, none)
    | _, _, _ =>
      let li := lastIndex opts Opt.isL
      let ai := lastIndex opts Opt.isN
      let ri := lastIndex opts Opt.isRepl
      if optGt li ai && optGt li ri then (none, maxLines, none)
      else if optGt ai li && optGt ai ri then (maxArgs, none, none)
      else (some 1, none, replaceRaw)
  let dOpt := lastVal opts (fun | .d b => some b | _ => none)
  let isNull := opts.any Opt.isNull
  let delim : Option UInt8 :=
    match dOpt, isNull with
    | some d, true =>
      if optGt (lastIndex opts Opt.isNull) (lastIndex opts Opt.isD) then some 0 else some d
    | some d, false => some d
    | none, true => some 0
    | none, false => rep.map (fun _ => 10)
  ⟨n, l, rep, delim⟩

/-- left-to-right non-overlapping replacement (`str::replace`), `pat ≠ []` -/
def replaceAll (pat rep : List UInt8) : Nat → List UInt8 → List UInt8
  | 0, s => s
  | _, [] => []
  | fuel + 1, c :: cs =>
    if pat.isPrefixOf (c :: cs) && !pat.isEmpty then rep ++ replaceAll pat rep fuel ((c :: cs).drop pat.length)
    else c :: replaceAll pat rep fuel cs

def replaceIn (pat rep s : List UInt8) : List UInt8 := replaceAll pat rep (s.length + 1) s

/-- argv of one executed command -/
def argvOf (cmd : List (List UInt8)) (replace : Option (List UInt8)) (extra : List Arg) :
    List (List UInt8) :=
  match replace, cmd with
  | some pat, prog :: initial =>
    let line := (extra.head?.map (·.bytes)).getD []
    prog :: initial.map (replaceIn pat line)
  | _, _ => cmd ++ extra.map (·.bytes)

/-- replace mode: the command after substitution passes the limiter chain from the empty state
    (`execute`'s re-check; the command word and every argument are charged like initial arguments) -/
def substFits (lim : Limits) (cmd : List (List UInt8)) (replace : Option (List UInt8)) (extra : List Arg) : Bool :=
  (initState lim LState.zero (argvOf cmd replace extra)).isSome

/-- the same option given twice (clap rejects it; `-I` and `-i`/`--replace` are different options) -/
def Opt.tag : Opt → Nat
  | .n _ => 0 | .l _ => 1 | .s _ => 2 | .x => 3 | .r => 4 | .null => 5 | .d _ => 6
  | .replI _ => 7 | .repl _ => 8

def dupOpts : List Opt → Bool
  | [] => false
  | o :: os => os.any (fun p => p.tag == o.tag) || dupOpts os

/-- the value of the last `-s` -/
def sOptOf (opts : List Opt) : Option Nat := lastVal opts (fun | .s v => some v | _ => none)

structure MainResult where
  status : Nat
  argvs : List (List (List UInt8))
  deriving DecidableEq, Repr

/-- Arguments delivered by the selected reader; `err = true` when the
    whitespace reader ends with an unterminated quote. -/
def readInput (delim : Option UInt8) (input : List UInt8) : List Arg × Bool :=
  match delim with
  | some d => ((bdAll d input).map (fun b => ⟨b, .hard⟩), false)
  | none =>
    match tokenizeWs input with
    | .ok as => (as.map (fun a => ⟨a.1, if a.2 then .hard else .soft⟩), false)
    | .err as => (as.map (fun a => ⟨a.1, if a.2 then .hard else .soft⟩), true)

/-- `xargs_main` after clap: option values validated, options normalised, limiters
    wired, input read and processed, exit status mapped. -/
def xargsMain (opts : List Opt) (cmd : List (List UInt8)) (input : List UInt8)
    (script : List Outcome) (sys : Nat) (ptr : Nat := 8) (maxArg : Nat := 131072) : MainResult :=
  -- `main`: the argument vector is held as strings; a word that is not valid UTF-8 is refused
  if cmd.any (fun w => !FuModel.Utf8.validUtf8 w) then ⟨1, []⟩ else
  -- clap: an option with `ArgAction::Set`/`SetTrue` may be given only once
  if dupOpts opts then ⟨1, []⟩ else
  -- validate_positive_usize
  if opts.any (fun | .n 0 => true | .l 0 => true | .s 0 => true | _ => false) then ⟨1, []⟩ else
  let nz := normalize opts
  let sOpt := sOptOf opts
  let lim : Limits := ⟨nz.n, nz.l, sOpt, sys, ptr, maxArg⟩
  let cfg : Config :=
    { lim := lim, x := opts.any (· == .x),
      r := opts.any (· == .r) || nz.replace.isSome,
      replace := nz.replace }
  match initState lim LState.zero cmd with
  | none => ⟨1, []⟩
  | some init =>
    let (args, err) := readInput nz.delim input
    let run := processInput cfg init err ⟨init, []⟩ false false [] script args
    -- replace mode: `execute` passes the command after substitution through the limiters afresh;
    -- the first command that does not fit is not started: the run ends there with status 1
    match nz.replace, run.batches.findIdx? (fun b => !substFits lim cmd nz.replace b) with
    | some _, some k => ⟨1, (run.batches.take k).map (argvOf cmd nz.replace)⟩
    | _, _ => ⟨run.status, run.batches.map (argvOf cmd nz.replace)⟩

end FuModel.Xargs
