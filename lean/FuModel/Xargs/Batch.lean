import FuModel.Xargs.Read
/-
Model of `src/xargs/mod.rs`: the limiter chain (`MaxArgs`, `MaxLines`, `MaxChars`
user and system, in that order), `CommandBuilder`, `process_input`,
`CommandBuilder::execute`'s classification of the child's outcome and
`xargs_main`'s exit-status map.
-/
namespace FuModel.Xargs

inductive Kind where
  | initial | hard | soft
  deriving DecidableEq, Repr

structure Arg where
  bytes : List UInt8
  kind : Kind
  deriving DecidableEq, Repr

/-- `count_osstr_chars_for_exec`: bytes plus the terminating NUL. -/
def cost (a : List UInt8) : Nat := a.length + 1

/-- The limiter configuration after `normalize_options`: `-n`, `-L`, `-s` and the
    system limiter: budget (`ARG_MAX - 2048 - environment size`, the environment
    counted with one pointer per variable), per-argument pointer charge and the
    per-argument cap. -/
structure Limits where
  n : Option Nat
  l : Option Nat
  s : Option Nat
  sys : Nat
  /-- bytes the system limiter charges per argument on top of its characters (the argv pointer) -/
  ptr : Nat
  /-- largest single argument, terminator included, the system accepts (`MAX_ARG_STRLEN`) -/
  maxArg : Nat
  deriving DecidableEq, Repr

/-- State of the limiter chain: `current_args`, `current_line`, and the two `current_size`s. -/
structure LState where
  args : Nat
  line : Nat
  sizeS : Nat
  sizeSys : Nat
  deriving DecidableEq, Repr

def LState.zero : LState := ⟨0, 1, 0, 0⟩

/-- `LimiterCollection::try_arg`.  Each limiter tests its own condition, then
    asks the rest of the chain, and only then updates itself; the first limiter
    (in the order args, lines, chars, system chars) that refuses determines
    `out_of_chars` (the `Bool` of `.error`). -/
def tryArg (lim : Limits) (st : LState) (a : Arg) : Except Bool LState :=
  let c := cost a.bytes
  if lim.n.any (fun n => !(st.args < n)) then .error false
  else if lim.l.any (fun l => !(st.line ≤ l)) then .error false
  else if lim.s.any (fun s => !(st.sizeS + c ≤ s)) then .error true
  else if !(c ≤ lim.maxArg) then .error true
  else if !(st.sizeSys + c + lim.ptr ≤ lim.sys) then .error true
  else .ok {
    args := if a.kind ≠ .initial then st.args + 1 else st.args
    line := if a.kind = .hard then st.line + 1 else st.line
    sizeS := st.sizeS + c
    sizeSys := st.sizeSys + c + lim.ptr }

/-- `CommandBuilderOptions::new`: the command and initial arguments pass through the chain. -/
def initState (lim : Limits) : LState → List (List UInt8) → Option LState
  | st, [] => some st
  | st, a :: as =>
    match tryArg lim st ⟨a, .initial⟩ with
    | .ok st' => initState lim st' as
    | .error _ => none

/-- Outcome of one child, as scripted for the model and observed for the code. -/
inductive Outcome where
  | exit (code : Nat)
  | signal (sig : Nat)
  | notFound
  | cannotRun
  deriving DecidableEq, Repr

inductive ExecRes where
  | success | failure
  | fatal (status : Nat)
  deriving DecidableEq, Repr

/-- `CommandBuilder::execute`'s classification + `xargs_main`'s map for the fatal ones. -/
def classify : Outcome → ExecRes
  | .exit 0 => .success
  | .exit 255 => .fatal 124
  | .exit _ => .failure
  | .signal _ => .fatal 125
  | .cannotRun => .fatal 126
  | .notFound => .fatal 127

structure Config where
  lim : Limits
  x : Bool            -- -x
  r : Bool            -- -r
  replace : Option (List UInt8)   -- -I R (bytes of R)
  deriving DecidableEq, Repr

/-- One executed command: the appended (input) arguments and the argv it ran. -/
structure Batch where
  extra : List Arg
  deriving DecidableEq, Repr

structure Run where
  batches : List (List Arg)      -- appended arguments of every started command, in order
  status : Nat
  deriving DecidableEq, Repr

/-- `CommandBuilder` under construction. -/
structure Builder where
  st : LState
  extra : List Arg
  deriving DecidableEq, Repr

/-- next scripted outcome (an exhausted script means `exit 0`) -/
def nextOutcome : List Outcome → Outcome × List Outcome
  | [] => (.exit 0, [])
  | o :: os => (o, os)

/-- `process_input`.  `failed` is `result` (`CommandResult::Failure` seen),
    `pend` is `have_pending_command`, `log` the commands started so far.
    `rdErr` says that the argument reader fails (unterminated quote) after the
    last argument instead of reporting the end of input: `args.next()?` then
    returns the error, the command under construction is dropped, status 1. -/
def processInput (cfg : Config) (init : LState) (rdErr : Bool) :
    Builder → Bool → Bool → List (List Arg) → List Outcome → List Arg → Run
  | cur, pend, failed, log, script, [] =>
    if rdErr then ⟨log, 1⟩
    else if !cfg.r || pend then
      let (o, _) := nextOutcome script
      match classify o with
      | .success => ⟨log ++ [cur.extra], if failed then 123 else 0⟩
      | .failure => ⟨log ++ [cur.extra], 123⟩
      | .fatal st => ⟨log ++ [cur.extra], st⟩
    else ⟨log, if failed then 123 else 0⟩
  | cur, pend, failed, log, script, a :: as =>
    match tryArg cfg.lim cur.st a with
    | .ok st' => processInput cfg init rdErr ⟨st', cur.extra ++ [a]⟩ true failed log script as
    | .error ooc =>
      if ooc && cfg.x && (cfg.lim.n.isSome || cfg.lim.l.isSome) then ⟨log, 1⟩
      else
        -- flush the pending command, if any
        let flushed : Option (Bool × List (List Arg) × List Outcome) ⊕ Nat :=
          if pend then
            let (o, script') := nextOutcome script
            match classify o with
            | .success => .inl (some (failed, log ++ [cur.extra], script'))
            | .failure => .inl (some (true, log ++ [cur.extra], script'))
            | .fatal st => .inr st
          else .inl none
        match flushed with
        | .inr st => ⟨log ++ [cur.extra], st⟩
        | .inl fl =>
          let (failed', log', script') := fl.getD (failed, log, script)
          match tryArg cfg.lim init a with
          | .ok st' => processInput cfg init rdErr ⟨st', [a]⟩ true failed' log' script' as
          | .error _ => ⟨log', 1⟩

/-- Everything after option parsing: `None` when the base command does not fit. -/
def runXargs (cfg : Config) (cmd : List (List UInt8)) (args : List Arg) (script : List Outcome) :
    Option Run :=
  match initState cfg.lim LState.zero cmd with
  | none => none
  | some init => some (processInput cfg init false ⟨init, []⟩ false false [] script args)

end FuModel.Xargs
