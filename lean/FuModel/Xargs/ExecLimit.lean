import FuModel.Xargs.BatchFast
/-
Model of the Linux `execve` argument limits (`bprm_stack_limits`, `copy_strings`,
kernel 6.x, 4 KiB pages) — an assumption about external code, validated on every
run against the real kernel by the harness (`exec-accepts` cases).
-/
namespace FuModel.Xargs

/-- bytes available for strings and pointers: a quarter of the stack limit,
    at most 6 MiB (3/4 of `_STK_LIM`), at least 128 KiB (`ARG_MAX`) -/
def kernelLimit (stack : Nat) : Nat := max (min (stack / 4) (6 * 2 ^ 20)) (128 * 2 ^ 10)

/-- the same clamp is what `sysconf(_SC_ARG_MAX)` reports (glibc) -/
def sysconfArgMax (stack : Nat) : Nat := kernelLimit stack

def strCostL (lens : List Nat) : Nat := (lens.map (· + 1)).sum

/-- `execve(file, argv, envp)` is accepted, given the string lengths -/
def execAcceptsL (limit : Nat) (fileLen : Nat) (argv envp : List Nat) : Bool :=
  (argv ++ envp).all (fun l => l + 1 ≤ 131072) &&
  decide (8 * (max argv.length 1 + envp.length) < limit) &&
  decide ((fileLen + 1) + strCostL argv + strCostL envp ≤ limit - 8 * (max argv.length 1 + envp.length))

def execAccepts (limit : Nat) (file : List UInt8) (argv envp : List (List UInt8)) : Bool :=
  execAcceptsL limit file.length (argv.map List.length) (envp.map List.length)

/-- the system budget `MaxCharsCommandSizeLimiter::new_system` computes from
    `sysconf(_SC_ARG_MAX)` and the environment (`NAME=value` strings) -/
def sysBudget (argMax : Nat) (envp : List Nat) : Nat :=
  argMax - 2048 - (strCostL envp + 8 * envp.length)

end FuModel.Xargs
