import FuModel.Xargs.Batch
/-
`processInputR`: the same loop as `processInput` with the argument list of the
command under construction and the log of started commands kept in reverse, so
that the compiled driver handles hundreds of thousands of arguments.  It is
proved equal to `processInput` (`processInputR_eq`), so the driver may use it.
-/
namespace FuModel.Xargs

def finishR (logR : List (List Arg)) (status : Nat) : Run := ⟨logR.reverse, status⟩

def processInputR (cfg : Config) (init : LState) (rdErr : Bool) :
    LState → List Arg → Bool → Bool → List (List Arg) → List Outcome → List Arg → Run
  | _, extraR, pend, failed, logR, script, [] =>
    if rdErr then finishR logR 1
    else if !cfg.r || pend then
      let (o, _) := nextOutcome script
      match classify o with
      | .success => finishR (extraR.reverse :: logR) (if failed then 123 else 0)
      | .failure => finishR (extraR.reverse :: logR) 123
      | .fatal st => finishR (extraR.reverse :: logR) st
    else finishR logR (if failed then 123 else 0)
  | st, extraR, pend, failed, logR, script, a :: as =>
    match tryArg cfg.lim st a with
    | .ok st' => processInputR cfg init rdErr st' (a :: extraR) true failed logR script as
    | .error ooc =>
      if ooc && cfg.x && (cfg.lim.n.isSome || cfg.lim.l.isSome) then finishR logR 1
      else
        let flushed : Option (Bool × List (List Arg) × List Outcome) ⊕ Nat :=
          if pend then
            let (o, script') := nextOutcome script
            match classify o with
            | .success => .inl (some (failed, extraR.reverse :: logR, script'))
            | .failure => .inl (some (true, extraR.reverse :: logR, script'))
            | .fatal st => .inr st
          else .inl none
        match flushed with
        | .inr stt => finishR (extraR.reverse :: logR) stt
        | .inl fl =>
          let (failed', logR', script') := fl.getD (failed, logR, script)
          match tryArg cfg.lim init a with
          | .ok st' => processInputR cfg init rdErr st' [a] true failed' logR' script' as
          | .error _ => finishR logR' 1

theorem processInputR_eq (cfg : Config) (init : LState) (rdErr : Bool)
    (st : LState) (extraR : List Arg) (pend failed : Bool) (logR : List (List Arg))
    (script : List Outcome) (args : List Arg) :
    processInputR cfg init rdErr st extraR pend failed logR script args =
      processInput cfg init rdErr ⟨st, extraR.reverse⟩ pend failed logR.reverse script args := by
  induction args generalizing st extraR pend failed logR script with
  | nil =>
    simp only [processInputR, processInput, finishR]
    split
    · rfl
    · split
      · cases classify (nextOutcome script).1 <;> simp
      · rfl
  | cons a as ih =>
    simp only [processInputR, processInput]
    cases htry : tryArg cfg.lim st a with
    | ok st' =>
      simp only []
      rw [ih]
      simp
    | error ooc =>
      simp only []
      split
      · rfl
      · cases pend with
        | false =>
          simp only [Bool.false_eq_true, if_false, Option.getD]
          cases htry2 : tryArg cfg.lim init a with
          | ok st' => simp only []; rw [ih]; simp
          | error _ => simp [finishR]
        | true =>
          simp only [if_true]
          cases hcl : classify (nextOutcome script).1 with
          | success =>
            simp only [Option.getD]
            cases htry2 : tryArg cfg.lim init a with
            | ok st' => simp only []; rw [ih]; simp
            | error _ => simp [finishR]
          | failure =>
            simp only [Option.getD]
            cases htry2 : tryArg cfg.lim init a with
            | ok st' => simp only []; rw [ih]; simp
            | error _ => simp [finishR]
          | fatal stt => simp [finishR]

end FuModel.Xargs
