/-
Model of `src/xargs/mod.rs`: `WhitespaceDelimitedArgumentReader::next` and
`ByteDelimitedArgumentReader::next`.

A source is the list of successive non-empty `read()` results (chunks); after the
last chunk every further `read()` returns 0 (EOF).  Bytes are `UInt8`.
An argument is `(bytes, hard)`; `hard = true` is `ArgumentKind::HardTerminated`.
-/
namespace FuModel.Xargs

/-- `Escape` in `WhitespaceDelimitedArgumentReader::next`. -/
inductive Esc where
  | none
  | slash
  | quote (q : UInt8)
  deriving DecidableEq, Repr

/-- `u8::is_ascii_whitespace`: space, `\t`, `\n`, form feed, `\r` (not `\x0B`). -/
def isWs (c : UInt8) : Bool :=
  c == 32 || c == 9 || c == 10 || c == 12 || c == 13

def isQuoteByte (c : UInt8) : Bool := c == 34 || c == 39

/-- Scanner state inside one call of `next`: the `escape` variable and `result`. -/
structure RS where
  esc : Esc
  res : List UInt8
  deriving DecidableEq, Repr

def RS.init : RS := ⟨.none, []⟩

inductive Step where
  | cont (s : RS)
  | done (tok : List UInt8) (hard : Bool)
  deriving DecidableEq, Repr

/-- One iteration of the `match (&escape, pending[i])` in the reader loop. -/
def stepByte (s : RS) (c : UInt8) : Step :=
  match s.esc with
  | .quote q => if c == q then .cont ⟨.none, s.res⟩ else .cont ⟨.quote q, s.res ++ [c]⟩
  | .slash => .cont ⟨.none, s.res ++ [c]⟩
  | .none =>
    if isQuoteByte c then .cont ⟨.quote c, s.res⟩
    else if c == 92 then .cont ⟨.slash, s.res⟩
    else if isWs c then
      (if s.res.isEmpty then .cont s else .done s.res (c == 10))
    else .cont ⟨.none, s.res ++ [c]⟩

inductive Scan where
  /-- buffer exhausted, loop continues with state `s` -/
  | more (s : RS)
  /-- token finished; `rest` = bytes of the buffer after the terminator (`split_off(i+1)`) -/
  | done (tok : List UInt8) (hard : Bool) (rest : List UInt8)
  deriving DecidableEq, Repr

/-- The reader loop over one buffer (`pending`, or a freshly read chunk). -/
def scan (s : RS) : List UInt8 → Scan
  | [] => .more s
  | c :: cs =>
    match stepByte s c with
    | .cont s' => scan s' cs
    | .done tok hard => .done tok hard cs

inductive Next where
  | eof                                         -- `Ok(None)`
  | err                                         -- `Err("Unterminated quote")`
  | arg (tok : List UInt8) (hard : Bool) (pending : List UInt8) (chunks : List (List UInt8))
  deriving DecidableEq, Repr

/-- The part of `next` after `pending` is exhausted: successive `read()`s.
    At EOF (`[]`): unterminated quote is an error; nothing collected gives `None`
    (after the `fix:` commit the test is `result.is_empty()`), otherwise the
    collected bytes are a soft-terminated argument and `pending` is cleared. -/
def wsLoop (s : RS) : List (List UInt8) → Next
  | [] =>
    match s.esc with
    | .quote _ => .err
    | _ => if s.res.isEmpty then .eof else .arg s.res false [] []
  | c :: cs =>
    match scan s c with
    | .done tok hard rest => .arg tok hard rest cs
    | .more s' => wsLoop s' cs

/-- One call of `WhitespaceDelimitedArgumentReader::next`. -/
def wsNext (pending : List UInt8) (chunks : List (List UInt8)) : Next :=
  match scan RS.init pending with
  | .done tok hard rest => .arg tok hard rest chunks
  | .more s => wsLoop s chunks


inductive ReadAll where
  | ok (args : List (List UInt8 × Bool))
  | err (args : List (List UInt8 × Bool))      -- arguments delivered before the error
  deriving DecidableEq, Repr

def ReadAll.cons (a : List UInt8 × Bool) : ReadAll → ReadAll
  | .ok as => .ok (a :: as)
  | .err as => .err (a :: as)

/-- Repeated `next()` until `None`/error, as `process_input` drives it.  `fuel`
    bounds the number of calls; `wsAll` supplies enough (lemma `wsAllFuel_enough`). -/
def wsAllFuel : Nat → List UInt8 → List (List UInt8) → ReadAll
  | 0, _, _ => .ok []
  | fuel + 1, pending, chunks =>
    match wsNext pending chunks with
    | .eof => .ok []
    | .err => .err []
    | .arg tok hard p' c' => (wsAllFuel fuel p' c').cons (tok, hard)

def wsAll (chunks : List (List UInt8)) : ReadAll :=
  wsAllFuel (chunks.flatten.length + 2) [] chunks

/-! ### One-pass specification of the same function (no buffers, no chunks) -/

/-- Tokenise a whole input in one pass. -/
def tokFrom (s : RS) : List UInt8 → ReadAll
  | [] =>
    match s.esc with
    | .quote _ => .err []
    | _ => if s.res.isEmpty then .ok [] else .ok [(s.res, false)]
  | c :: cs =>
    match stepByte s c with
    | .cont s' => tokFrom s' cs
    | .done tok hard => (tokFrom RS.init cs).cons (tok, hard)

def tokenizeWs (inp : List UInt8) : ReadAll := tokFrom RS.init inp

/-! ### Byte-delimited reader (`-0`, `-d C`) -/

/-- `BufRead::read_until(delim)` on the whole remaining input: bytes up to and
    including the first `delim`, or everything. Returns (taken, rest). -/
def readUntil (d : UInt8) : List UInt8 → List UInt8 × List UInt8
  | [] => ([], [])
  | c :: cs => if c == d then ([c], cs) else
      let (t, r) := readUntil d cs
      (c :: t, r)

/-- All arguments of `ByteDelimitedArgumentReader` over input `inp`:
    segments between delimiters, empty ones skipped, all hard-terminated. -/
def bdFrom (d : UInt8) (cur : List UInt8) : List UInt8 → List (List UInt8)
  | [] => if cur.isEmpty then [] else [cur]
  | c :: cs =>
    if c == d then (if cur.isEmpty then bdFrom d [] cs else cur :: bdFrom d [] cs)
    else bdFrom d (cur ++ [c]) cs

def bdAll (d : UInt8) (inp : List UInt8) : List (List UInt8) := bdFrom d [] inp

end FuModel.Xargs
