import FuModel.Base.Wire
import FuModel.Xargs.Read
import FuModel.Pred.C05

namespace FuModel.Drv.Xargs
open FuModel.Wire FuModel.Xargs

def showArg (a : List UInt8 × Bool) : String :=
  hexOfBytes a.1 ++ (if a.2 then ":h" else ":s")

def showReadAll : ReadAll → String
  | .ok as => "ok " ++ joinList (as.map showArg)
  | .err as => "err " ++ joinList (as.map showArg)

/-- binary end-to-end form: arguments without kinds; an error shows nothing else -/
def showArgsOnly : ReadAll → String
  | .ok as => "ok " ++ joinList (as.map (hexOfBytes ·.1))
  | .err _ => "err"

def parseArg (s : String) : Option (List UInt8 × Bool) :=
  match s.splitOn ":" with
  | [h, "h"] => (bytesOfHex h).map (·, true)
  | [h, "s"] => (bytesOfHex h).map (·, false)
  | [h] => (bytesOfHex h).map (·, true)
  | _ => none

/-- observed answer → `some none` (error), `some (some args)`, or `none` (not an ordinary answer: panic…) -/
def parseObserved : List String → Option (Option (List (List UInt8 × Bool)))
  | ["err"] => some none
  | ["err", _] => some none
  | ["ok", l] => ((splitList l).mapM parseArg).map some
  | _ => none

def handle (verb : String) (args : List String) : Option String :=
  match verb, args with
  | "ws-read", [chunks] => do
    let cs ← bytesListOfHex chunks
    pure (showReadAll (wsAll cs))
  | "bd-read", [d, chunks] => do
    let cs ← bytesListOfHex chunks
    let dv ← d.toNat?
    pure (showReadAll (.ok ((bdAll (UInt8.ofNat dv) cs.flatten).map (·, true))))
  | "ws-args", [chunks] => do
    let cs ← bytesListOfHex chunks
    pure (showArgsOnly (wsAll cs))
  | "bd-args", [d, chunks] => do
    let cs ← bytesListOfHex chunks
    let dv ← d.toNat?
    pure (showArgsOnly (.ok ((bdAll (UInt8.ofNat dv) cs.flatten).map (·, true))))
  | _, _ => none

/-- `pred C05 <request…> => <observed…>` -/
def pred (req obs : List String) : Option Bool :=
  match req with
  | ["ws-read", chunks] => do
    let cs ← bytesListOfHex chunks
    match parseObserved obs with
    | some o => pure (FuModel.Pred.C05.predWs cs.flatten o true)
    | none => pure false
  | ["ws-args", chunks] => do
    let cs ← bytesListOfHex chunks
    match parseObserved obs with
    | some o => pure (FuModel.Pred.C05.predWs cs.flatten o false)
    | none => pure false
  | [v, d, chunks] =>
    if v == "bd-read" || v == "bd-args" then do
      let cs ← bytesListOfHex chunks
      let dv ← d.toNat?
      match parseObserved obs with
      | some o => pure (FuModel.Pred.C05.predBd (UInt8.ofNat dv) cs.flatten o)
      | none => pure false
    else none
  | _ => none

end FuModel.Drv.Xargs
