import FuModel.Base.Wire
import FuModel.Xargs.Read
import FuModel.Xargs.Opts
import FuModel.Pred.C05
import FuModel.Pred.C04
import FuModel.Pred.C19
import FuModel.Pred.C20

namespace FuModel.Drv.Xargs
open FuModel.Wire FuModel.Xargs

def showArg (a : List UInt8 × Bool) : String :=
  hexOfBytes a.1 ++ (if a.2 then ":h" else ":s")

def showReadAll : ReadAll → String
  | .ok as => "ok " ++ joinList (as.map showArg)
  | .err as => "err " ++ joinList (as.map showArg)

/-- binary end-to-end form: arguments without kinds; an error shows nothing else -/
def showArgsOnly : ReadAll → String
  | .ok as => "ok " ++ joinList (as.map (hexOfBytes ·.1))
  | .err _ => "err"

def parseArg (s : String) : Option (List UInt8 × Bool) :=
  match s.splitOn ":" with
  | [h, "h"] => (bytesOfHex h).map (·, true)
  | [h, "s"] => (bytesOfHex h).map (·, false)
  | [h] => (bytesOfHex h).map (·, true)
  | _ => none

/-- observed answer → `some none` (error), `some (some args)`, or `none` (not an ordinary answer: panic…) -/
def parseObserved : List String → Option (Option (List (List UInt8 × Bool)))
  | ["err"] => some none
  | ["err", _] => some none
  | ["ok", l] => ((splitList l).mapM parseArg).map some
  | _ => none

def handle (verb : String) (args : List String) : Option String :=
  match verb, args with
  | "ws-read", [chunks] => do
    let cs ← bytesListOfHex chunks
    pure (showReadAll (wsAll cs))
  | "bd-read", [d, chunks] => do
    let cs ← bytesListOfHex chunks
    let dv ← d.toNat?
    pure (showReadAll (.ok ((bdAll (UInt8.ofNat dv) cs.flatten).map (·, true))))
  | "ws-args", [chunks] => do
    let cs ← bytesListOfHex chunks
    pure (showArgsOnly (wsAll cs))
  | "bd-args", [d, chunks] => do
    let cs ← bytesListOfHex chunks
    let dv ← d.toNat?
    pure (showArgsOnly (.ok ((bdAll (UInt8.ofNat dv) cs.flatten).map (·, true))))
  | _, _ => none

/-- `pred C05 <request…> => <observed…>` -/
def pred (req obs : List String) : Option Bool :=
  match req with
  | ["ws-read", chunks] => do
    let cs ← bytesListOfHex chunks
    match parseObserved obs with
    | some o => pure (FuModel.Pred.C05.predWs cs.flatten o true)
    | none => pure false
  | ["ws-args", chunks] => do
    let cs ← bytesListOfHex chunks
    match parseObserved obs with
    | some o => pure (FuModel.Pred.C05.predWs cs.flatten o false)
    | none => pure false
  | [v, d, chunks] =>
    if v == "bd-read" || v == "bd-args" then do
      let cs ← bytesListOfHex chunks
      let dv ← d.toNat?
      match parseObserved obs with
      | some o => pure (FuModel.Pred.C05.predBd (UInt8.ofNat dv) cs.flatten o)
      | none => pure false
    else none
  | _ => none

end FuModel.Drv.Xargs

namespace FuModel.Drv.Xargs
open FuModel.Wire FuModel.Xargs

def parseOpt (s : String) : Option Opt :=
  match s.toList with
  | ['x'] => some .x
  | ['r'] => some .r
  | ['0'] => some .null
  | ['i'] => some (.repl none)
  | 'n' :: v => (String.ofList v).toNat?.map .n
  | 'L' :: v => (String.ofList v).toNat?.map .l
  | 's' :: v => (String.ofList v).toNat?.map .s
  | 'd' :: v => (String.ofList v).toNat?.map (fun b => .d (UInt8.ofNat b))
  | 'I' :: v => (bytesOfHex (String.ofList v)).map .replI
  | ['R', '-'] => some (.repl none)
  | 'R' :: v => (bytesOfHex (String.ofList v)).map (fun r => .repl (some r))
  | _ => none

def parseOutcome (s : String) : Option Outcome :=
  match s.toList with
  | ['n', 'f'] => some .notFound
  | ['c', 'r'] => some .cannotRun
  | 'e' :: v => (String.ofList v).toNat?.map .exit
  | 'k' :: v => (String.ofList v).toNat?.map .signal
  | _ => none

def showMain (r : MainResult) : String :=
  "st=" ++ toString r.status ++ " " ++
    (if r.argvs.isEmpty then "." else ";".intercalate (r.argvs.map (fun av => ",".intercalate (av.map hexOfBytes))))

def handleRun (verb : String) (args : List String) : Option String :=
  match verb, args with
  | "xargs-run", [opts, cmd, input, script, sys] => do
    let os ← (splitList opts).mapM parseOpt
    let cmd ← bytesListOfHex cmd
    let inp ← bytesOfHex input
    let sc ← (splitList script).mapM parseOutcome
    let sys ← sys.toNat?
    pure (showMain (xargsMain os cmd inp sc sys))
  | _, _ => none

end FuModel.Drv.Xargs

namespace FuModel.Drv.Xargs
open FuModel.Wire FuModel.Xargs

/-- observed `st=<n> <argvs>` -/
def parseRunObs : List String → Option (Nat × List (List (List UInt8)))
  | [st, av] => do
    let n ← (st.drop 3).toString.toNat?
    if !st.startsWith "st=" then none else
    if av == "." then pure (n, []) else
    let bs ← (av.splitOn ";").mapM (fun b => (b.splitOn ",").mapM bytesOfHex)
    pure (n, bs)
  | _ => none

def predC04 (req obs : List String) : Option Bool :=
  match req with
  | ["xargs-run", opts, cmd, input, _script, sys] => do
    let os ← (splitList opts).mapM parseOpt
    let cmd ← bytesListOfHex cmd
    let inp ← bytesOfHex input
    let sys ← sys.toNat?
    match parseRunObs obs with
    | some (st, avs) => pure (FuModel.Pred.C04.pred os cmd inp sys st avs)
    | none => pure false
  | _ => none

end FuModel.Drv.Xargs

namespace FuModel.Drv.Xargs
open FuModel.Wire FuModel.Xargs

def predC19 (req obs : List String) : Option Bool :=
  match req with
  | ["xargs-run", opts, cmd, input, script, sys] => do
    let os ← (splitList opts).mapM parseOpt
    let cmd ← bytesListOfHex cmd
    let inp ← bytesOfHex input
    let sc ← (splitList script).mapM parseOutcome
    let sys ← sys.toNat?
    match parseRunObs obs with
    | some (st, avs) => pure (FuModel.Pred.C19.pred os cmd inp sys sc st avs)
    | none => pure false
  | _ => none

def predC20 (req obs : List String) : Option Bool :=
  match req with
  | ["xargs-run", opts, cmd, input, _script, _sys] => do
    let os ← (splitList opts).mapM parseOpt
    let cmd ← bytesListOfHex cmd
    let inp ← bytesOfHex input
    match parseRunObs obs with
    | some (st, avs) => pure (FuModel.Pred.C20.pred os cmd inp st avs)
    | none => pure false
  | _ => none

end FuModel.Drv.Xargs
