import FuModel.Base.Wire
import FuModel.Find.Time
import FuModel.Pred.C15
import FuModel.Drv.FindNum

/-! Driver verbs for the time tests (C15). -/
namespace FuModel.Drv.FindTime
open FuModel.Wire FuModel.Find FuModel.Drv.FindNum

def intList (s : String) : Option (List Int) := (splitList s).mapM String.toInt?

def kindOf (s : String) : Option TKind :=
  if s == "a" then some .a else if s == "c" then some .c else if s == "m" then some .m else none

def periodOf (s : String) : Option Nat :=
  if s == "d" then some 86400 else if s == "m" then some 60 else none

def timesOf (s : String) : Option Times :=
  match s.splitOn ":" with
  | [a, c, m] => do
    let a ← a.toInt?
    let c ← c.toInt?
    let m ← m.toInt?
    pure ⟨a, c, m⟩
  | _ => none

def handle (verb : String) (args : List String) : Option String :=
  match verb, args with
  | "age-e2e", [_, u, n, now, ts] => do
    let p ← periodOf u
    let n ← n.toNat?
    let now ← now.toInt?
    let ts ← intList ts
    pure (bits (ts.map (ageMatches (.eq n) p now ·)) ++ " " ++ bits (ts.map (ageMatches (.more n) p now ·)) ++ " " ++
      bits (ts.map (ageMatches (.less n) p now ·)))
  | "newer-e2e", [spelling, x, y, ref, es] => do
    let x ← kindOf x
    let y ← kindOf y
    -- the spelling must denote this (X, Y) pair
    if newerArgs spelling != some (x, y) then none
    let ref ← timesOf ref
    let es ← (splitList es).mapM timesOf
    pure (bits (es.map (newerXY x y · ref)))
  | _, _ => none

def predC15 (req obs : List String) : Option Bool :=
  match req with
  | ["age-e2e", _, u, n, now, ts] => do
    let p ← periodOf u
    let n ← n.toNat?
    let now ← now.toInt?
    let ts ← intList ts
    match obsForms obs with
    | some (e, m, l) => pure (FuModel.Pred.C15.predAge p n now ts e m l)
    | none => pure false
  | ["newer-e2e", _, x, y, ref, es] => do
    let x ← kindOf x
    let y ← kindOf y
    let ref ← timesOf ref
    let es ← (splitList es).mapM timesOf
    match obs with
    | [b] =>
      match parseBits b with
      | some bs => pure (FuModel.Pred.C15.predNewer x y ref es bs)
      | none => pure false
    | _ => pure false
  | _ => none

end FuModel.Drv.FindTime
