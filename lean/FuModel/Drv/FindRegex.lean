import FuModel.Base.Wire
import FuModel.Find.Regex
import FuModel.Spec.RegexLang

/-! Driver verbs for -regex (C17) and the wire form of patterns. -/
namespace FuModel.Drv.FindRegex
open FuModel.Wire FuModel.Find.Regex

/-- a character code as six hex digits -/
def hex6 (a b c d e f : Char) : Option Char := do
  let v ← [a, b, c, d, e, f].foldlM (fun acc x => (hexVal x).map fun h => acc * 16 + h) 0
  pure (Char.ofNat v)

def parseMembers : Nat → List Char → Option (List SetMem × List Char)
  | 0, cs => some ([], cs)
  | n + 1, 'm' :: a :: b :: c :: d :: e :: f :: rest => do
    let ch ← hex6 a b c d e f
    let (ms, r) ← parseMembers n rest
    pure (.ch ch :: ms, r)
  | n + 1, 'r' :: a :: b :: c :: d :: e :: f :: a' :: b' :: c' :: d' :: e' :: f' :: rest => do
    let lo ← hex6 a b c d e f
    let hi ← hex6 a' b' c' d' e' f'
    let (ms, r) ← parseMembers n rest
    pure (.range lo hi :: ms, r)
  | _, _ => none

def digit (c : Char) : Option Nat := if '0' ≤ c ∧ c ≤ '9' then some (c.toNat - 48) else none

/-- prefix notation: cXXXXXX | d | k<neg><n>members | q a b | a a b | s a | p a | o a | i<lo><hi> a | g a -/
def parseRe : Nat → List Char → Option (Re × List Char)
  | 0, _ => none
  | fuel + 1, cs =>
    match cs with
    | 'c' :: a :: b :: c :: d :: e :: f :: rest => (hex6 a b c d e f).map fun ch => (.chr ch, rest)
    | 'd' :: rest => some (.any, rest)
    | 'k' :: ng :: n :: rest => do
      let n ← digit n
      let (ms, r) ← parseMembers n rest
      pure (.set (ng == '1') ms, r)
    | 'q' :: rest => do
      let (a, r1) ← parseRe fuel rest
      let (b, r2) ← parseRe fuel r1
      pure (.seq a b, r2)
    | 'a' :: rest => do
      let (a, r1) ← parseRe fuel rest
      let (b, r2) ← parseRe fuel r1
      pure (.alt a b, r2)
    | 's' :: rest => (parseRe fuel rest).map fun (a, r) => (.star a, r)
    | 'p' :: rest => (parseRe fuel rest).map fun (a, r) => (.plus a, r)
    | 'o' :: rest => (parseRe fuel rest).map fun (a, r) => (.opt a, r)
    | 'g' :: rest => (parseRe fuel rest).map fun (a, r) => (.group a, r)
    | 'i' :: lo :: hi :: rest => do
      let lo ← digit lo
      let hi ← digit hi
      let (a, r) ← parseRe fuel rest
      pure (.interval lo hi a, r)
    | _ => none

def reOfWire (s : String) : Option Re :=
  match parseRe (s.length + 1) s.toList with
  | some (r, []) => some r
  | _ => none

def rtypeOfWire (s : String) : Option RType :=
  if s == "E" then some .emacs else if s == "G" then some .grep else if s == "B" then some .posixBasic
  else if s == "X" then some .posixExtended else none

def handle (verb : String) (args : List String) : Option String :=
  match verb, args with
  | "regex-match", [_, ic, re, subj] => do
    let r ← reOfWire re
    let s ← charsOfHex subj
    pure (boolStr (matchesRe (ic == "1") r s))
  | "regex-first", [ic, re, subj] => do
    let r ← reOfWire re
    let s ← charsOfHex subj
    pure (match firstEnd (ic == "1") r s with | some e => toString e | none => "none")
  | _, _ => none

/-- C17 (hook form): true iff the whole subject is in the pattern's language -/
def predMatch (req obs : List String) : Option Bool :=
  match req, obs with
  | ["regex-match", _, ic, re, subj], [o] => do
    let r ← reOfWire re
    let s ← charsOfHex subj
    pure (o == boolStr (FuModel.Spec.RegexLang.member (ic == "1") r s))
  | _, _ => none

end FuModel.Drv.FindRegex
