import FuModel.Base.Wire
import FuModel.Find.Run
import FuModel.Spec.RunRef
import FuModel.Find.StartPoints
import FuModel.Xargs.Read
import FuModel.Pred.C08
import FuModel.Pred.C10
import FuModel.Find.Perm
import FuModel.Drv.FindRegex

/-!
Driver verb `find`: a whole run of find on an observed world.

    find <P|H|L> <root>;<root>… <arg>,<arg>…
    root  = <start hex>=missing | <start hex>=<node>/<node>/…          (preorder)
    node  = l.<name hex>.<p|f|g|o>.<lty><sty>
          | d.<name hex>.<isLink 0|1><readable 0|1>.<lty><sty>.<number of children>
    answer: st=<exit status> diags=<diagnostic lines> out=<stdout hex>
-/
namespace FuModel.Drv.FindRun
open FuModel.Wire FuModel.Find.Run FuModel.Find.Walk FuModel.Find.Expr

def parseRec (s : String) : Option Rec :=
  match (s.splitOn "_").mapM String.toNat? with
  | some [perm, nlink, uid, gid, ino, size, dev] => some ⟨perm, nlink, uid, gid, ino, size, dev⟩
  | _ => none

/-- `<lty><sty>` or `<lty><sty>+<lstat record>+<stat record or ->+<link text hex>` -/
def parseAttr (s : String) : Option Attr :=
  match s.splitOn "+" with
  | [ty] =>
    (match ty.toList with
     | [a, b] => some { lty := a, sty := b }
     | _ => none)
  | [ty, l, st, tg] => do
    let (a, b) ← (match ty.toList with | [a, b] => some (a, b) | _ => none)
    let l ← parseRec l
    let st ← (if st == "-" then some ({} : Rec) else parseRec st)
    let tg ← bytesOfHex tg
    pure { lty := a, sty := b, l := l, s := st, target := tg }
  | _ => none

def parseKind (s : String) : Option LeafKind :=
  if s == "p" then some .plain else if s == "f" then some .linkFile
  else if s == "g" then some .linkDangling else if s == "o" then some .linkLoop else none

/-- parses `count` nodes in preorder; fuel bounds the recursion by the number of tokens -/
def parseNodes : Nat → Nat → List String → Option (List (Node Attr) × List String)
  | _, 0, toks => some ([], toks)
  | 0, _ + 1, _ => none
  | fuel + 1, count + 1, toks =>
    match toks with
    | [] => none
    | t :: rest =>
      match t.splitOn "." with
      | ["l", nm, k, att] => do
        let nm ← bytesOfHex nm
        let k ← parseKind k
        let a ← parseAttr att
        let (sibs, rest') ← parseNodes fuel count rest
        pure (Node.leaf nm k a :: sibs, rest')
      | ["d", nm, flags, att, nk] => do
        let nm ← bytesOfHex nm
        let a ← parseAttr att
        let nk ← nk.toNat?
        let (isLink, readable) ← (match flags.toList with
          | [x, y] => some (x == '1', y == '1')
          | _ => none)
        let (kids, rest') ← parseNodes fuel nk rest
        let (sibs, rest'') ← parseNodes fuel count rest'
        pure (Node.dir nm isLink readable a kids :: sibs, rest'')
      | _ => none

def parseRoot (s : String) : Option (Bytes × Option (Node Attr)) :=
  match s.splitOn "=" with
  | [st, w] => do
    let st ← bytesOfHex st
    if w == "missing" then pure (st, none)
    else
      let toks := w.splitOn "/"
      match parseNodes (toks.length + 1) 1 toks with
      -- (only well-formed worlds: the theorems about whole starting points are stated for them)
      | some ([n], []) => if wfNode n then pure (st, some n) else none
      | _ => none
  | _ => none

def parseArg (s : String) : Option Arg :=
  match s.splitOn ":" with
  | ["bang"] => some (.tok .bang) | ["not"] => some (.tok .bang)
  | ["a"] => some (.tok .and_) | ["and"] => some (.tok .and_)
  | ["o"] => some (.tok .or_) | ["or"] => some (.tok .or_)
  | ["comma"] => some (.tok .comma)
  | ["lp"] => some (.tok .lp) | ["rp"] => some (.tok .rp)
  | ["true"] => some (.tok (.prim .true_)) | ["false"] => some (.tok (.prim .false_))
  | ["noleaf"] => some (.tok (.prim .opt)) | ["daystart"] => some (.tok (.prim .opt))
  | ["print"] => some (.tok (.prim (.pathOut [] [10])))
  | ["print0"] => some (.tok (.prim (.pathOut [] [0])))
  | ["prune"] => some (.tok (.prim .prune)) | ["quit"] => some (.tok (.prim .quit))
  | ["depth"] => some .depth | ["d"] => some .depth
  | ["delete"] => some .delete
  | ["sorted"] => some .sorted | ["follow"] => some .follow
  | ["xdev"] => some .xdev | ["mount"] => some .xdev
  | ["name", h] => (bytesOfHex h).map fun b => .tok (.prim (.name b))
  | ["type", c] => (match c.toList with | [c] => some (.tok (.prim (.typeIs c))) | _ => none)
  | ["lit", h] => (bytesOfHex h).map fun b => .tok (.prim (.lit b))
  -- -fls / -fprint / -fprint0 / -fprintf FILE: actions that write nothing to standard output
  | ["fout", _] => some (.tok (.prim (.lit [])))
  | ["vp", h] => (bytesOfHex h).map fun b => .tok (.prim (.pathOut b [10]))
  | ["exec", d, ok, cmd, tmpl] => do
    let cmd ← bytesOfHex cmd
    let tmpl ← (if tmpl == "_" then some [] else (tmpl.splitOn "~").mapM bytesOfHex)
    pure (.tok (.prim (.exec (d == "1") (ok == "1") cmd tmpl)))
  | ["execm", id, d, ok, cmd, fixed] => do
    let id ← id.toNat?
    let cmd ← bytesOfHex cmd
    let fixed ← (if fixed == "_" then some [] else (fixed.splitOn "~").mapM bytesOfHex)
    pure (.tok (.prim (.execMulti id (d == "1") (ok == "1") cmd fixed)))
  | ["xtype", c] => (match c.toList with | [c] => some (.tok (.prim (.xtype c))) | _ => none)
  | ["permop", h] => do
    let op ← charsOfHex h
    let (k, m) ← FuModel.Find.Perm.parsePerm op
    pure (.tok (.prim (.perm k m)))
  | ["sc", f, k, n] => do
    let f ← (if f == "l" then some StatField.links else if f == "i" then some .inum else if f == "u" then some .uid
             else if f == "g" then some .gid else none)
    let n ← n.toNat?
    let c ← (if k == "p" then some (FuModel.Find.Cmp.more n) else if k == "e" then some (.eq n) else if k == "m" then some (.less n) else none)
    pure (.tok (.prim (.statCmp f c)))
  | ["empty"] => some (.tok (.prim .empty))
  | ["samefile", d, i] => do
    let d ← d.toNat?
    let i ← i.toNat?
    pure (.tok (.prim (.samefile d i)))
  | ["lname", h] => (bytesOfHex h).map fun b => .tok (.prim (.lname b))
  | ["regextype", t] => (FuModel.Drv.FindRegex.rtypeOfWire t).map .regextype
  | ["regex", ic, t, re] => do
    let t ← FuModel.Drv.FindRegex.rtypeOfWire t
    let re ← FuModel.Drv.FindRegex.reOfWire re
    pure (.regex (ic == "1") t re)
  | ["printf", h] => do
    let fmt ← charsOfHex h
    let (comps, _) ← FuModel.Find.Printf.parse fmt
    pure (.tok (.prim (.printf comps fmt)))
  | ["mindepth", n] => n.toNat?.map .minDepth
  | ["maxdepth", n] => n.toNat?.map .maxDepth
  | _ => none

def parseFollow (s : String) : Option Follow :=
  if s == "P" then some .never else if s == "H" then some .roots else if s == "L" then some .always else none

structure Req where
  follow : Follow
  roots : List (Bytes × Option (Node Attr))
  args : List Arg

def parseReq : List String → Option Req
  | [f, roots, args] => do
    let f ← parseFollow f
    let roots ← (roots.splitOn ";").mapM parseRoot
    let args ← (splitList args).mapM parseArg
    if !regexTypesOk .emacs args then none
    pure ⟨f, roots, args⟩
  | _ => none

def showRes : Option RunRes → String
  | some r => s!"st={r.ret} diags={r.diags} out={hexOfBytes r.gs.out}"
  | none => "st=1 diags=1 out=-"

def handle (verb : String) (args : List String) : Option String :=
  match verb with
  | "find" => do
    let r ← parseReq args
    pure (showRes (run r.follow r.roots r.args))
  | _ => none

/-- `name=world;name=world…` -/
def parseWorldMap (s : String) : Option (List (Bytes × Option (Node Attr))) :=
  if s == "." then some [] else (s.splitOn ";").mapM parseRoot

def lookupRoots (m : List (Bytes × Option (Node Attr))) (names : List Bytes) : Option (List (Bytes × Option (Node Attr))) :=
  names.mapM fun n => (m.lookup n).map fun w => (n, w)

def bytesOfChars (cs : List Char) : Bytes := (String.ofList cs).toUTF8.toList

structure ReqV where
  follow : Follow
  roots : List (Bytes × Option (Node Attr))
  args : List Arg
  extraDiag : Bool

/-- `findv <leading argv words> <world map> <args>`: the model scans flags and operands itself -/
def parseReqV : List String → Option ReqV
  | [words, wm, args] => do
    let ws ← (splitList words).mapM charsOfHex
    let m ← parseWorldMap wm
    let args ← (splitList args).mapM parseArg
    let ld := parseLeading ws
    if !ld.rest.isEmpty then none
    let roots ← lookupRoots m (ld.paths.map bytesOfChars)
    pure ⟨ld.follow, roots, args, false⟩
  | _ => none

/-- `find0 <P|H|L> <content of the -files0-from file> <world map> <args>` -/
def parseReq0 : List String → Option ReqV
  | [f, content, wm, args] => do
    let f ← parseFollow f
    let content ← bytesOfHex content
    let m ← parseWorldMap wm
    let args ← (splitList args).mapM parseArg
    let (names, dg) := files0 content
    -- (a refused list: no starting point is looked at)
    let roots ← (if files0Ok content then lookupRoots m names else some [])
    pure ⟨f, roots, Arg.tok (.prim .opt) :: args, dg⟩
  | _ => none

def showResV (extra : Bool) : Option RunRes → String
  | some r => s!"st={r.ret} diags={r.diags + (if extra then 1 else 0)} out={hexOfBytes r.gs.out}"
  | none => "st=1 diags=1 out=-"

def handleV (verb : String) (args : List String) : Option String :=
  match verb with
  | "findv" => do
    let r ← parseReqV args
    pure (showResV r.extraDiag (run r.follow r.roots r.args))
  | "find0" => do
    let r ← parseReq0 args
    let refused := (match args with | [_, content, _, _] => (bytesOfHex content).any (!files0Ok ·) | _ => false)
    if refused then pure "st=1 diags=1 out=-"
    else pure (showResV r.extraDiag (run r.follow r.roots r.args))
  | _ => none

def parseObs : List String → Option (Nat × Nat × Bytes)
  | [st, dg, out] => do
    let st ← (st.dropPrefix? "st=").bind (·.toString.toNat?)
    let dg ← (dg.dropPrefix? "diags=").bind (·.toString.toNat?)
    let out ← (out.dropPrefix? "out=").bind (bytesOfHex ·.toString)
    pure (st, dg, out)
  | _ => none

/-- predicate shared by the properties observed through whole runs (C01, C02, C03, C07, C18) -/
def predFind (req obs : List String) : Option Bool :=
  match req with
  | "find" :: rest => do
    let r ← parseReq rest
    match parseObs obs with
    | some (st, _, out) => pure (FuModel.Find.RunRef.predFind r.follow r.roots r.args st out)
    | none => pure false     -- panic, signal …
  | _ => none

def predFindSet (req obs : List String) : Option Bool :=
  match req with
  | "find" :: rest => do
    let r ← parseReq rest
    match parseObs obs with
    | some (st, _, out) => pure (FuModel.Find.RunRef.predFindSet r.follow r.roots r.args st out)
    | none => pure false
  | _ => none

/-- canonical spelling of a working directory relative to find's own: components joined by '/', `.` for none -/
def normDir (p : Bytes) : Bytes :=
  let cs := (FuModel.Path.comps p).map (·.1) |>.filter (· != FuModel.Path.dot)
  -- the recorder reports the physical working directory: `x/..` is cancelled (the harness only
  -- writes `..` after real directories)
  let cs := (cs.foldl (fun (acc : List Bytes) c =>
    if c == FuModel.Path.dotdot then
      (match acc with
       | top :: rest => if top == FuModel.Path.dotdot then c :: acc else rest
       | [] => [c])
    else c :: acc) []).reverse
  let body := (List.intercalate [47] cs)
  if FuModel.Path.rooted p then 47 :: body else if body.isEmpty then [46] else body

def showExec (e : ExecEvent) : String :=
  (match e.cwd with | none => "2e" | some d => hexOfBytes (normDir d)) ++ "|" ++ "~".intercalate (e.argv.map hexOfBytes)

def showExecs (es : List ExecEvent) : String := if es.isEmpty then "." else ";".intercalate (es.map showExec)

/-- `findx <flag> <roots> <args> <statuses of the commands> <ARG_MAX minus environment>` -/
def handleX (verb : String) (args : List String) : Option String :=
  match verb, args with
  | "findx", [f, roots, as, script, budget] => do
    let r ← parseReq [f, roots, as]
    let script ← (splitList script).mapM String.toNat?
    let budget ← budget.toNat?
    match run r.follow r.roots r.args { script := script, budget := budget } with
    | some res =>
      if res.gs.panicked then pure "panic"
      else pure s!"st={res.ret} out={hexOfBytes res.gs.out} execs={showExecs res.gs.execs}"
    | none => pure "st=1 out=- execs=."
  | _, _ => none

/-- `exec-order <k>`: what `find DIR -sorted -type f -printf 'A:%f ' -exec echo B {} ;` must leave on the
    standard output shared by find and the command, for the files `f0 … f(k-1)` of `d`: the action runs
    at that point of the evaluation, after what the earlier action of the same entry wrote -/
def execOrderExpected (k : Nat) : Bytes :=
  (List.range k).flatMap fun i =>
    let nm := "f" ++ toString i
    ("A:" ++ nm ++ " B d/" ++ nm ++ "\n").toUTF8.toList

def handleOrder (verb : String) (args : List String) : Option String :=
  match verb, args with
  | "exec-order", [k] => do
    let k ← k.toNat?
    pure s!"st=0 out={hexOfBytes (execOrderExpected k)}"
  | _, _ => none

def predOrder (req obs : List String) : Option Bool :=
  match req, obs with
  | ["exec-order", k], [st, out] => do
    let k ← k.toNat?
    pure (st == "st=0" && out == s!"out={hexOfBytes (execOrderExpected k)}")
  | _, _ => none

def parseObsX : List String → Option (Nat × Bytes × List (Bytes × List Bytes))
  | [st, out, ex] => do
    let st ← (st.dropPrefix? "st=").bind (·.toString.toNat?)
    let out ← (out.dropPrefix? "out=").bind (bytesOfHex ·.toString)
    let ex ← (ex.dropPrefix? "execs=").map (·.toString)
    let evs ← (if ex == "." then some [] else (ex.splitOn ";").mapM fun e =>
      match e.splitOn "|" with
      | [cwd, argv] => do
        let cwd ← bytesOfHex cwd
        let argv ← (argv.splitOn "~").mapM bytesOfHex
        pure (cwd, argv)
      | _ => none)
    pure (st, out, evs)
  | _ => none

def predX (multi : Bool) (req obs : List String) : Option Bool :=
  match req with
  | ["findx", f, roots, as, script, _] => do
    let r ← parseReq [f, roots, as]
    let script ← (splitList script).mapM String.toNat?
    match parseObsX obs with
    | some (st, out, evs) =>
      pure (if multi then FuModel.Pred.C08.predMulti r.follow r.roots r.args script st out evs normDir
            -- (a `;` action followed by a `+` action: generated with every command succeeding)
            else if !(FuModel.Pred.C08.allMulti r.args).isEmpty && script.all (· == 0) then
              FuModel.Pred.C08.predMixed r.follow r.roots r.args st out evs normDir
            else FuModel.Pred.C08.predSingle r.follow r.roots r.args script st out evs normDir)
    | none => pure false
  | _ => none

/-- compact rendering of the started commands for huge command lines:
    `<argc>:<total bytes of all arguments>:<first 12 bytes of argv[1]>:<first 12 bytes of the last argument>:<working directory>` -/
def showExecCompact (e : ExecEvent) : String :=
  let total := (e.argv.map List.length).foldl (· + ·) 0
  let pre : Bytes → String := fun a => hexOfBytes (a.take 12)
  let cwd := match e.cwd with | none => "2e" | some d => hexOfBytes (normDir d)
  s!"{e.argv.length}:{total}:{pre (e.argv.getD 1 (e.argv.getD 0 []))}:{pre (e.argv.getLast?.getD [])}:{cwd}"

def handleXC (verb : String) (args : List String) : Option String :=
  match verb, args with
  | "findxc", [f, roots, as, script, budget] => do
    let r ← parseReq [f, roots, as]
    let script ← (splitList script).mapM String.toNat?
    let budget ← budget.toNat?
    match run r.follow r.roots r.args { script := script, budget := budget } with
    | some res =>
      if res.gs.panicked then pure "panic"
      else pure s!"st={res.ret} inv={if res.gs.execs.isEmpty then "." else ";".intercalate (res.gs.execs.map showExecCompact)} outlen={res.gs.out.length}"
    | none => pure "st=1 inv=. outlen=0"
  | _, _ => none

/-- compact form: all reached paths were delivered (counted), each to a command running in the
    directory the property prescribes, every command line was accepted by the operating system (the
    recorder ran), status 0 -/
def predXC (req obs : List String) : Option Bool :=
  match req, obs with
  | ["findxc", f, roots, as, script, _], [st, inv, ol] => do
    let ol ← (ol.dropPrefix? "outlen=").bind (·.toString.toNat?)
    let r ← parseReq [f, roots, as]
    let script ← (splitList script).mapM String.toNat?
    let st ← (st.dropPrefix? "st=").bind (·.toString.toNat?)
    let inv ← (inv.dropPrefix? "inv=").map (·.toString)
    let argcs ← (if inv == "." then some [] else (inv.splitOn ";").mapM fun e => (e.splitOn ":").head?.bind String.toNat?)
    let cwds ← (if inv == "." then some [] else (inv.splitOn ";").mapM fun e => ((e.splitOn ":")[4]?).bind bytesOfHex)
    match FuModel.Find.RunRef.refRunX r.follow r.roots r.args script, FuModel.Pred.C08.firstMulti r.args with
    | some (ref, reached), some (_, _, _, fixed) =>
      let delivered := (argcs.map fun n => n - 1 - fixed.length).foldl (· + ·) 0
      -- the working directory of the command each path was handed to
      let obsCwds := (argcs.zip cwds).flatMap fun (n, c) => List.replicate (n - 1 - fixed.length) c
      let expCwds := reached.map fun e => (match e.cwd with | none => [46] | some d => normDir d)
      -- (what the expression writes besides: the action is always true, so nothing after `-o`)
      pure (delivered == reached.length && obsCwds == expCwds && ol == ref.out.length &&
        ((st == 0) == (ref.ret == 0 && script.all (· == 0))))
    | _, _ => pure false
  | _, _ => none

/-- `findd <flag> <roots> <args>`: a run with -delete; the removed paths (scene-relative, sorted) -/
def handleD (verb : String) (args : List String) : Option String :=
  match verb, args with
  | "findd", [f, roots, as] => do
    let r ← parseReq [f, roots, as]
    match run r.follow r.roots r.args with
    | some res =>
      let gone := FuModel.Find.RunRef.sortB (res.gs.deleted.map normDir)
      pure s!"st={res.ret} out={hexOfBytes res.gs.out} deleted={joinList (gone.map hexOfBytes)} changed=0"
    | none => pure "st=1 out=- deleted=. changed=0"
  | _, _ => none

def predC10 (req obs : List String) : Option Bool :=
  match req, obs with
  | ["findd", f, roots, as], [st, out, del, ch] => do
    let r ← parseReq [f, roots, as]
    let st ← (st.dropPrefix? "st=").bind (·.toString.toNat?)
    let out ← (out.dropPrefix? "out=").bind (bytesOfHex ·.toString)
    let del ← (del.dropPrefix? "deleted=").bind (bytesListOfHex ·.toString)
    let ch ← (ch.dropPrefix? "changed=").bind (·.toString.toNat?)
    match FuModel.Find.RunRef.refRunX r.follow r.roots r.args [] with
    | some (ref, reached) =>
      -- what the rest of the expression writes depends on the action's truth: true for an entry that
      -- went, false for one that stayed - a second reference run, told which of the reached paths went
      let went := (reached.filterMap fun e => e.argv.head?).filter fun p => del.contains (normDir p)
      let out2 := (FuModel.Find.RunRef.refRunXD r.follow r.roots r.args went).map (·.1.out)
      pure (FuModel.Pred.C10.pred normDir reached ref.ret st del ch && some out == out2)
    | none => pure (st != 0 && del.isEmpty && ch == 0)
  | _, _ => none

def kindNum : PermKind → Nat
  | .exact => 0 | .atLeast => 1 | .anyOf => 2

def handlePerm (verb : String) (args : List String) : Option String :=
  match verb, args with
  | "perm-parse", [h] => do
    let op ← charsOfHex h
    pure (match FuModel.Find.Perm.parsePerm op with
      | some (k, m) => s!"ok {kindNum k} {m} {m}"
      | none => "reject")
  | "perm-match", [h, mode] => do
    let op ← charsOfHex h
    let mode ← mode.toNat?
    pure (match FuModel.Find.Perm.parsePerm op with
      | some (k, m) => boolStr (permMatch k m mode)
      | none => "reject")
  | _, _ => none

/-- reference reading of a -perm operand that is in canonical octal or `who=perms,…` form -/
def specPerm (op : List Char) : Option (PermKind × Nat) :=
  let (k, rest) : PermKind × List Char := match op with
    | '-' :: r => (.atLeast, r) | '/' :: r => (.anyOf, r) | r => (.exact, r)
  if !rest.isEmpty && rest.length ≤ 4 && rest.all FuModel.Find.Perm.isOctal then some (k, FuModel.Find.Perm.octVal rest)
  else
    -- clauses `[ugoa]=[rwxst]*` only
    let clauses := FuModel.Find.Perm.splitComma [] rest
    let one (c : List Char) : Option Nat :=
      match c with
      | w :: '=' :: ps =>
        let bit (p : Char) : Option Nat :=
          if p == 'r' then some 0o444 else if p == 'w' then some 0o222 else if p == 'x' then some 0o111
          else if p == 's' then some 0o6000 else if p == 't' then some 0o1000 else none
        let mask := if w == 'u' then some 0o4700 else if w == 'g' then some 0o2070 else if w == 'o' then some 0o1007
                    else if w == 'a' then some 0o7777 else none
        match mask, ps.mapM bit with
        | some mk, some bs => some ((bs.foldl (· ||| ·) 0) &&& mk)
        | _, _ => none
      | _ => none
    -- each class at most once (a later clause for the same class would replace the earlier one)
    let whos := clauses.filterMap List.head?
    if whos.length != whos.eraseDups.length || whos.contains 'a' then none
    else (clauses.mapM one).map fun ms => (k, ms.foldl (· ||| ·) 0)

/-- reference reading of symbolic operands with interacting clauses (POSIX chmod, from the text):
    clauses `who+ op perms` with who in ugoa, op one of + - =, perms a subset of rwx, applied from
    left to right to mode 0; anything else is left to `specPerm` -/
def specPermSeq (op : List Char) : Option (PermKind × Nat) :=
  let (k, rest) : PermKind × List Char := match op with
    | '-' :: r => (.atLeast, r) | '/' :: r => (.anyOf, r) | r => (.exact, r)
  let classMask (w : Char) : Option Nat :=
    if w == 'u' then some 0o700 else if w == 'g' then some 0o070 else if w == 'o' then some 0o007
    else if w == 'a' then some 0o777 else none
  let permBits (p : Char) : Option Nat :=
    if p == 'r' then some 0o444 else if p == 'w' then some 0o222 else if p == 'x' then some 0o111 else none
  let clause (m : Nat) (c : List Char) : Option Nat :=
    let whos := c.takeWhile fun x => x == 'u' || x == 'g' || x == 'o' || x == 'a'
    match c.dropWhile (fun x => x == 'u' || x == 'g' || x == 'o' || x == 'a') with
    | o :: ps =>
      if whos.isEmpty then none else
      match whos.mapM classMask, ps.mapM permBits with
      | some mks, some bs =>
        let mask := mks.foldl (· ||| ·) 0
        let bits := (bs.foldl (· ||| ·) 0) &&& mask
        if o == '+' then some (m ||| bits)
        else if o == '-' then some (m &&& (0o7777 - bits))
        else if o == '=' then some ((m &&& (0o7777 - mask)) ||| bits)
        else none
      | _, _ => none
    | [] => none
  if rest.isEmpty || rest.any (fun c => decide (48 ≤ c.toNat) && decide (c.toNat ≤ 57)) then none
  else ((FuModel.Find.Perm.splitComma [] rest).foldl (fun acc c => acc.bind fun m => clause m c) (some 0)).map fun m => (k, m)

def specPermAll (op : List Char) : Option (PermKind × Nat) :=
  match specPerm op with
  | some r => some r
  | none => specPermSeq op

def predC13 (req obs : List String) : Option Bool :=
  match req, obs with
  | "find" :: _, _ => predFind req obs
  | ["perm-parse", h], o => do
    let op ← charsOfHex h
    match specPermAll op with
    | some (k, m) => pure (o == ["ok", toString (kindNum k), toString m, toString m])
    | none => pure (o != ["panic"])
  | ["perm-match", h, mode], [o] => do
    let op ← charsOfHex h
    let mode ← mode.toNat?
    match specPermAll op with
    | some (k, m) =>
      let bitsOf (n : Nat) := (List.range 12).filter n.testBit
      let exp := match k with
        | .exact => bitsOf mode == bitsOf m
        | .atLeast => (bitsOf m).all (bitsOf mode).contains
        | .anyOf => m == 0 || (bitsOf m).any (bitsOf mode).contains
      pure (o == boolStr exp)
    | none => pure (o != "panic")
  | _, _ => none

def showComp : FuModel.Find.Printf.Comp → String
  | .lit t => "L" ++ hexOfChars t
  | .flush => "F"
  | .dir d w l => s!"D{d.letter},{match w with | some n => toString n | none => "-"},{if l then "l" else "r"}"
  | .other tag w l => s!"D{String.ofList tag},{match w with | some n => toString n | none => "-"},{if l then "l" else "r"}"

def handlePrintf (verb : String) (args : List String) : Option String :=
  match verb, args with
  | "printf-parse", [h] => do
    let fmt ← charsOfHex h
    pure (match FuModel.Find.Printf.parse fmt with
      | some (cs, u) => if u then "unmodelled" else "ok " ++ (if cs.isEmpty then "." else ";".intercalate (cs.map showComp))
      | none => "reject")
  | _, _ => none

/-- C16: a format the reference reads as well-formed is accepted and never panics; whole runs: the
    reference rendering -/
def predC16 (req obs : List String) : Option Bool :=
  match req, obs with
  | "find" :: _, _ => predFind req obs
  | ["printf-parse", h], o => do
    let fmt ← charsOfHex h
    match FuModel.Spec.PrintfRef.specParse (fmt.length + 1) fmt with
    | some (_, u) => pure (o != ["panic"] && (u || o.head? == some "ok"))
    | none => pure (o != ["panic"])
  | _, _ => none

/-- `pipe0`: find's output through `xargs -0`: the arguments delivered, in order;
    `pipe0i`: through `xargs -0 -I{} CMD {}` — one run per path, the path as the single argument
    (the same flattened sequence) -/
def handlePipe (verb : String) (args : List String) : Option String :=
  match verb with
  | "pipe0" | "pipe0i" => do
    let r ← parseReq args
    match run r.follow r.roots r.args with
    | some res =>
      let delivered := FuModel.Xargs.bdAll 0 res.gs.out
      pure s!"fst={res.ret} xst=0 args={joinList (delivered.map hexOfBytes)}"
    | none => pure "fst=1 xst=0 args=."
  | _ => none

/-- C07: printed bytes equal the reference's; through the pipe every printed path is delivered
    once, in order, unmodified -/
def predC07 (req obs : List String) : Option Bool :=
  match req with
  | "find" :: _ => predFind req obs
  | "pipe0" :: rest | "pipe0i" :: rest => do
    let r ← parseReq rest
    match obs with
    | [fst, xst, as] => do
      let fst ← (fst.dropPrefix? "fst=").bind (·.toString.toNat?)
      let xst ← (xst.dropPrefix? "xst=").bind (·.toString.toNat?)
      let as ← (as.dropPrefix? "args=").bind (bytesListOfHex ·.toString)
      match FuModel.Find.RunRef.refRun r.follow r.roots r.args with
      | some ref =>
        -- the reference output is a sequence of NUL-terminated paths
        let paths := (ref.out.splitOn 0).dropLast
        pure (as == paths && xst == 0 && ((fst == 0) == (ref.ret == 0)))
      | none => pure (fst != 0)
    | _ => pure false
  | _ => none

/-- reference reading of a -files0-from file: the NUL-separated names, a final NUL optional,
    empty names skipped -/
def specNames (content : Bytes) : List Bytes := (content.splitOn 0).filter (!·.isEmpty)

/-- C18: starting points given as operands or through -files0-from -/
def predC18 (req obs : List String) : Option Bool :=
  match req with
  | "find" :: _ => predFind req obs
  | "findv" :: rest => do
    let r ← parseReqV rest
    match parseObs obs with
    | some (st, _, out) => pure (FuModel.Find.RunRef.predFind r.follow r.roots r.args st out)
    | none => pure false
  | ["find0", f, content, wm, args] => do
    let f ← parseFollow f
    let content ← bytesOfHex content
    let m ← parseWorldMap wm
    let args ← (splitList args).mapM parseArg
    let roots ← lookupRoots m (specNames content)
    match parseObs obs with
    | some (st, _, out) =>
      -- "equivalent to giving the names as starting points": a name that is not valid UTF-8 is refused
      -- among the operands (status non-zero, nothing done), so the same refusal is accepted here -
      -- beside walking every name; leaving the name out silently is neither
      pure (FuModel.Find.RunRef.predFind f roots (Arg.tok (.prim .opt) :: args) st out ||
            ((specNames content).any (fun n => !FuModel.Utf8.validUtf8 n) && st != 0 && out.isEmpty))
    | none => pure false
  | _ => none

end FuModel.Drv.FindRun
