import FuModel.Base.Wire
import FuModel.Find.Glob
import FuModel.Spec.Fnmatch
import FuModel.Drv.FindNum

/-! Driver verbs for globs (C12). -/
namespace FuModel.Drv.FindGlob
open FuModel.Wire FuModel.Find.Glob FuModel.Drv.FindNum

def showRx (p : List Char) : String :=
  match items p with
  | .ok is => "ok " ++ hexOfChars (render is)
  | .never => "never"
  | .panic => "panic"
  | .unmodelled => "unmodelled"

def showMatch (icase : Bool) (p s : List Char) : String :=
  match globMatches icase p s with
  | .ok b => boolStr b
  | .never => "0"
  | .panic => "panic"
  | .unmodelled => "unmodelled"

def handle (verb : String) (args : List String) : Option String :=
  match verb, args with
  | "glob-rx", [p] => do
    let p ← charsOfHex p
    pure (showRx p)
  | "glob-match", [ic, p, s] => do
    let p ← charsOfHex p
    let s ← charsOfHex s
    pure (showMatch (ic == "1") p s)
  | "glob-e2e", [_, ic, p, subjects] => do
    let p ← charsOfHex p
    let ss ← (splitList subjects).mapM charsOfHex
    let rs := ss.map (globMatches (ic == "1") p)
    if rs.any (fun r => match r with | .panic => true | _ => false) then pure "panic"
    else if rs.any (fun r => match r with | .unmodelled => true | _ => false) then pure "unmodelled"
    else pure (bits (rs.map fun r => match r with | .ok b => b | _ => false))
  | _, _ => none

/-- C12: the answer is fnmatch's wherever POSIX specifies one; never a panic -/
def predC12 (req obs : List String) : Option Bool :=
  match req, obs with
  | ["glob-rx", _], o => pure (o != ["panic"])
  | ["glob-match", ic, p, s], [o] => do
    let p ← charsOfHex p
    let s ← charsOfHex s
    match FuModel.Spec.Fnmatch.fnmatch (ic == "1") p s with
    | some b => pure (o == boolStr b)
    | none => pure (o == "0" || o == "1")
  | ["glob-e2e", _, ic, p, subjects], [o] => do
    let p ← charsOfHex p
    let ss ← (splitList subjects).mapM charsOfHex
    match parseBits o with
    | none => pure false
    | some bs =>
      if bs.length != ss.length then pure false
      else pure ((ss.zip bs).all fun (s, b) =>
        match FuModel.Spec.Fnmatch.fnmatch (ic == "1") p s with
        | some e => b == e
        | none => true)
  | _, _ => none

end FuModel.Drv.FindGlob
