import FuModel.Base.Wire
import FuModel.Find.Cmdline
import FuModel.Spec.CmdlineRef

/-! Driver verbs for the command line as a whole (C11). -/
namespace FuModel.Drv.FindCmd
open FuModel.Wire FuModel.Find.Cmdline FuModel.Find.Regex

/-- `<kind><hex>=<0|1>` items; kind: u g f o d z t, or r<E|G|B|X><0|1> for regular expressions -/
structure RawExt where
  items : List (String × Bool)

def parseExt (s : String) : Option RawExt := do
  let its ← (splitList s).mapM fun it =>
    match it.splitOn "=" with
    | [k, "0"] => some (k, false)
    | [k, "1"] => some (k, true)
    | _ => none
  pure ⟨its⟩

def keyOf (pre : String) (w : Word) : String := pre ++ hexOfChars w

def tl (t : RType) : String :=
  match t with | .emacs => "E" | .grep => "G" | .posixBasic => "B" | .posixExtended => "X"

def extOf (r : RawExt) : Ext where
  regexOk := fun t ic w => r.items.lookup (keyOf ("r" ++ tl t ++ boolStr ic) w)
  userKnown := fun w => r.items.lookup (keyOf "u" w)
  groupKnown := fun w => r.items.lookup (keyOf "g" w)
  refFile := fun w => r.items.lookup (keyOf "f" w)
  outFile := fun w => r.items.lookup (keyOf "o" w)
  dateOk := fun w => r.items.lookup (keyOf "d" w)
  files0Ok := fun w => r.items.lookup (keyOf "z" w)
  timeFmtOk := fun w => r.items.lookup (keyOf "t" w)

def wordsOf (s : String) : Option (List Word) := (splitList s).mapM charsOfHex

def handle (verb : String) (args : List String) : Option String :=
  match verb, args with
  | "cmdline", [ext, argv] => do
    let e ← parseExt ext
    let ws ← wordsOf argv
    pure (match verdict (extOf e) ws with
      | .accept => "run" | .help => "help" | .reject => "reject-clean" | .unmodelled => "unmodelled")
  | "cmdparse", [ext, argv] => do
    -- parse_args alone: the verdict without the run
    let e ← parseExt ext
    let ws ← wordsOf argv
    pure (match verdict (extOf e) ws with
      | .accept => "run" | .help => "help" | .reject => "reject-clean" | .unmodelled => "unmodelled")
  | "cmdbin", [_] => some "unmodelled"
  | _, _ => none

/-- C11: never anything but an ordinary end; and a command line that is not a sentence of the
    grammar is rejected cleanly (non-zero status, a diagnostic, no output, no effect) -/
def predC11 (req obs : List String) : Option Bool :=
  match req, obs with
  | ["cmdline", ext, argv], [o] => do
    let e ← parseExt ext
    let ws ← wordsOf argv
    let ordinary := o == "run" || o == "help" || o == "reject-clean"
    pure (ordinary && (match FuModel.Spec.CmdlineRef.sentence (extOf e) ws with
      | some false => o == "reject-clean"
      | _ => true))
  | ["cmdparse", ext, argv], [o] => do
    let e ← parseExt ext
    let ws ← wordsOf argv
    let ordinary := o == "run" || o == "help" || o == "reject-clean"
    pure (ordinary && (match FuModel.Spec.CmdlineRef.sentence (extOf e) ws with
      | some false => o == "reject-clean"
      | _ => true))
  | ["cmdbin", _], [o] => some (o == "reject-clean")
  | _, _ => none

end FuModel.Drv.FindCmd
