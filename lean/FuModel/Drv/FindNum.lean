import FuModel.Base.Wire
import FuModel.Find.Numeric
import FuModel.Pred.C14

/-! Driver verbs for the numeric operand layer (C14). -/
namespace FuModel.Drv.FindNum
open FuModel.Wire FuModel.Find

def kindChar : Cmp → Char
  | .more _ => '+' | .eq _ => '=' | .less _ => '-'

def bits (bs : List Bool) : String := if bs.isEmpty then "." else String.ofList (bs.map fun b => if b then '1' else '0')

def parseBits (s : String) : Option (List Bool) :=
  if s == "." then some [] else s.toList.mapM fun c => if c == '1' then some true else if c == '0' then some false else none

def natList (s : String) : Option (List Nat) := (splitList s).mapM String.toNat?

def forms (n : Nat) (vals : List Nat) : String :=
  bits (vals.map ((Cmp.eq n).matches ·)) ++ " " ++ bits (vals.map ((Cmp.more n).matches ·)) ++ " " ++
    bits (vals.map ((Cmp.less n).matches ·))

def handle (verb : String) (args : List String) : Option String :=
  match verb, args with
  | "cmp-parse", [h] => do
    let s ← charsOfHex h
    pure (match parseCmp s with
      | some c => s!"ok {kindChar c} {c.limit}"
      | none => "reject")
  | "size-parse", [h] => do
    let s ← charsOfHex h
    pure (match parseSize s with
      | some (c, k) => s!"ok {kindChar c} {c.limit} {k}"
      | none => "reject")
  | "cmp-tri", [n, v] => do
    let n ← n.toNat?
    let v ← v.toNat?
    pure (forms n [v])
  | "cmp-itri", [n, v] => do
    let n ← n.toNat?
    let v ← v.toInt?
    pure (bits [(Cmp.eq n).imatches v] ++ " " ++ bits [(Cmp.more n).imatches v] ++ " " ++ bits [(Cmp.less n).imatches v])
  | "unit-size", [suf, b] => do
    let s ← charsOfHex suf
    let b ← b.toNat?
    pure (match unitShift s with
      | some k => toString (unitSize k b)
      | none => "reject")
  | "size-e2e", [suf, n, sizes] => do
    let s ← charsOfHex suf
    let n ← n.toNat?
    let vs ← natList sizes
    match unitShift s with
    | some k => pure (forms n (vs.map (unitSize k)))
    | none => pure "reject"
  | "stat-e2e", [_, n, vals] => do
    let n ← n.toNat?
    let vs ← natList vals
    pure (forms n vs)
  | _, _ => none

def obsParse : List String → Option (Option (Char × Nat))
  | ["reject"] => some none
  | ["ok", k, n] => do
    let n ← n.toNat?
    match k.toList with
    | [c] => pure (some (c, n))
    | _ => none
  | _ => none

def obsParseSize : List String → Option (Option (Char × Nat × Nat))
  | ["reject"] => some none
  | ["ok", k, n, sh] => do
    let n ← n.toNat?
    let sh ← sh.toNat?
    match k.toList with
    | [c] => pure (some (c, n, sh))
    | _ => none
  | _ => none

def obsForms : List String → Option (List Bool × List Bool × List Bool)
  | [e, m, l] => do
    let e ← parseBits e
    let m ← parseBits m
    let l ← parseBits l
    pure (e, m, l)
  | _ => none

open FuModel.Pred.C14 in
def predC14 (req obs : List String) : Option Bool :=
  match req with
  | ["cmp-parse", h] => do
    let s ← charsOfHex h
    match obsParse obs with
    | some o => pure (predParse s o)
    | none => pure false
  | ["size-parse", h] => do
    let s ← charsOfHex h
    match obsParseSize obs with
    | some o => pure (predParseSize s o)
    | none => pure false
  | ["cmp-tri", n, v] => do
    let n ← n.toNat?
    let v ← v.toNat?
    match obsForms obs with
    | some (e, m, l) => pure (predForms n [v] e m l)
    | none => pure false
  | ["cmp-itri", n, v] => do
    let n ← n.toNat?
    let v ← v.toInt?
    match obsForms obs with
    | some (e, m, l) =>
      let t := tri n v
      pure (e == [t.2.1] && m == [t.1] && l == [t.2.2])
    | none => pure false
  | ["unit-size", suf, b] => do
    let s ← charsOfHex suf
    let b ← b.toNat?
    match unitBytes s, obs with
    | some u, [r] => pure (r.toNat? == some (ceilDiv b u))
    | none, ["reject"] => pure true
    | _, _ => pure false
  -- the time tests through the whole program (the request of C15's `age-e2e`): trichotomy only —
  -- for every file exactly one of the three forms holds (what the periods are is C15)
  | "age-e2e" :: _ =>
    match obsForms obs with
    | some (e, m, l) =>
      pure (e.length == m.length && m.length == l.length &&
        (List.range e.length).all fun i =>
          ((if e.getD i false then 1 else 0) + (if m.getD i false then 1 else 0) + (if l.getD i false then 1 else 0)) == 1)
    | none => pure false
  | ["size-e2e", suf, n, sizes] => do
    let s ← charsOfHex suf
    let n ← n.toNat?
    let vs ← natList sizes
    match unitBytes s, obsForms obs with
    | some u, some (e, m, l) => pure (predForms n (vs.map (ceilDiv · u)) e m l)
    | none, _ => pure (obs == ["reject"])
    | _, _ => pure false
  | ["stat-e2e", _, n, vals] => do
    let n ← n.toNat?
    let vs ← natList vals
    match obsForms obs with
    | some (e, m, l) => pure (predForms n vs e m l)
    | none => pure false
  | _ => none

end FuModel.Drv.FindNum
