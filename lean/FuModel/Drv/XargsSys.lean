import FuModel.Base.Wire
import FuModel.Xargs.ExecLimit
import FuModel.Xargs.Opts

namespace FuModel.Drv.XargsSys
open FuModel.Wire FuModel.Xargs

/-- `3*5,2*0` → [5,5,5,0,0] -/
def parseGroups (s : String) : Option (List Nat) :=
  if s == "." then some [] else
  (s.splitOn ",").foldlM (fun acc g =>
    match g.splitOn "*" with
    | [c, l] => do
      let c ← c.toNat?
      let l ← l.toNat?
      pure (acc ++ List.replicate c l)
    | _ => none) []

def bytesOfLen (n : Nat) : List UInt8 := List.replicate n 97

/-- `3:1,0:2` → [(3,1),(0,2)] -/
def parseTemplate (s : String) : Option (List (Nat × Nat)) :=
  if s == "." then some [] else
  (s.splitOn ",").mapM (fun g =>
    match g.splitOn ":" with
    | [l, o] => do
      let l ← l.toNat?
      let o ← o.toNat?
      pure (l, o)
    | _ => none)

/-- the command as written (`{}` is two bytes) and after substituting a line of `l` bytes -/
def writtenLens (recLen : Nat) (tmpl : List (Nat × Nat)) : List Nat := recLen :: tmpl.map (fun t => t.1 + 2 * t.2)
def substLens (recLen : Nat) (tmpl : List (Nat × Nat)) (l : Nat) : List Nat := recLen :: tmpl.map (fun t => t.1 + l * t.2)

/-- replace mode over lengths: `CommandBuilderOptions::new` charges the command as written; every
    line goes through `add_arg` (alone: -I implies one line per command); `execute` substitutes,
    passes the result through the limiters afresh (too long: reported, status 1) and hands it to
    exec, which the kernel accepts or not (`Argument list too long`, status 126) -/
def replaceRun (lim : Limits) (klimit : Nat) (recLen : Nat) (tmpl : List (Nat × Nat)) (ev : List Nat) :
    List Nat → List Nat → Nat × List Nat
  | [], log => (0, log)
  | l :: rest, log =>
    match initState lim LState.zero ((writtenLens recLen tmpl).map bytesOfLen) with
    | none => (1, log)
    | some init =>
      match tryArg lim init ⟨bytesOfLen l, .hard⟩ with
      | .error _ => (1, log)
      | .ok _ =>
        let sub := substLens recLen tmpl l
        if (initState lim LState.zero (sub.map bytesOfLen)).isNone then (1, log)
        else if execAcceptsL klimit recLen sub ev then replaceRun lim klimit recLen tmpl ev rest (log ++ [sub.sum])
        else (126, log)

def handle (verb : String) (args : List String) : Option String :=
  match verb, args with
  | "arg-max", [stack] => do
    let st ← stack.toNat?
    pure (toString (sysconfArgMax st))
  | "exec-accepts", [stack, fileLen, argv, envp] => do
    let st ← stack.toNat?
    let fl ← fileLen.toNat?
    let av ← parseGroups argv
    let ev ← parseGroups envp
    pure (boolStr (execAcceptsL (kernelLimit st) fl av ev))
  -- the xargs binary under a stack limit: option -n / -s values (0 = absent), command word
  -- lengths, environment string lengths, input arguments as groups; answer = status and
  -- the number of appended arguments of every command
  | "xargs-sys", [stack, n, s, cmd, envp, input] => do
    let st ← stack.toNat?
    let n ← n.toNat?
    let s ← s.toNat?
    let cmd ← parseGroups cmd
    let ev ← parseGroups envp
    let inp ← parseGroups input
    let sys := sysBudget (sysconfArgMax st) ev
    let lim : Limits := ⟨if n == 0 then none else some n, none, if s == 0 then none else some s, sys, 8, 131072⟩
    let cfg : Config := ⟨lim, false, false, none⟩
    match initState lim LState.zero (cmd.map bytesOfLen) with
    | none => pure "st=1 ."
    | some init =>
      let run := processInputR cfg init false init [] false false [] [] (inp.map (fun l => ⟨bytesOfLen l, .hard⟩))
      pure ("st=" ++ toString run.status ++ " " ++ joinList (run.batches.map (fun b => toString b.length)))
  -- replace mode (`-I {}`): the command word's length, template words as <literal bytes>:<occurrences
  -- of {}>, one input line per command; answer = status and the bytes of every started command
  | "xargs-sysI", [stack, s, recLen, tmpl, envp, lines] => do
    let st ← stack.toNat?
    let s ← s.toNat?
    let recLen ← recLen.toNat?
    let tmpl ← parseTemplate tmpl
    let ev ← parseGroups envp
    let lines ← parseGroups lines
    let sys := sysBudget (sysconfArgMax st) ev
    let lim : Limits := ⟨some 1, none, if s == 0 then none else some s, sys, 8, 131072⟩
    let r := replaceRun lim (kernelLimit st) recLen tmpl ev lines []
    pure ("st=" ++ toString r.1 ++ " " ++ joinList (r.2.map toString))
  | _, _ => none

/-- C06 predicate: no command line is rejected by the system (status 126 never; every observed
    command passes the kernel model), every argument within the per-argument limit is delivered
    exactly once, an oversize argument gives status 1 and is handed to no command. -/
def predC06 (req obs : List String) : Option Bool :=
  match req, obs with
  | ["xargs-sys", stack, _n, sopt, cmd, envp, input], [st, sizes] => do
    let stack ← stack.toNat?
    let sLimit ← sopt.toNat?
    let cmd ← parseGroups cmd
    let ev ← parseGroups envp
    let inp ← parseGroups input
    if !st.startsWith "st=" then none else
    let status ← (st.drop 3).toString.toNat?
    let sizes ← (splitList sizes).mapM String.toNat?
    -- an argument "too large to be passed": above the per-argument limit, or not acceptable to
    -- exec even alone once the 2048 bytes of POSIX headroom are set aside
    let fileLen := cmd.headD 0
    -- … or, with -s, not fitting max-chars together with the command (C04)
    let cmdCost := (cmd.map (· + 1)).sum
    let cannotPass := fun (l : Nat) =>
      l + 1 > 131072 || !execAcceptsL (kernelLimit stack - 2048) fileLen (cmd ++ [l]) ev ||
        (sLimit > 0 && cmdCost + l + 1 > sLimit)
    let oversize := inp.any cannotPass
    let delivered := sizes.sum
    -- every observed command, reconstructed from the batch sizes, is acceptable to the kernel model
    let rec okAll (rest : List Nat) : List Nat → Bool
      | [] => true
      | k :: ks =>
        execAcceptsL (kernelLimit stack) fileLen (cmd ++ rest.take k) ev && okAll (rest.drop k) ks
    let allOk := okAll inp sizes
    if status == 126 then pure false
    else if oversize then
      -- delivered arguments are a prefix that stops before the first oversize argument
      let firstBig := (inp.takeWhile (fun l => !cannotPass l)).length
      pure (status == 1 && allOk && delivered ≤ firstBig)
    else pure (status == 0 && allOk && delivered == inp.length)
  | ["xargs-sysI", stack, sopt, recLen, tmpl, envp, lines], [st, totals] => do
    let stack ← stack.toNat?
    let sLimit ← sopt.toNat?
    let recLen ← recLen.toNat?
    let tmpl ← parseTemplate tmpl
    let ev ← parseGroups envp
    let lines ← parseGroups lines
    if !st.startsWith "st=" then none else
    let status ← (st.drop 3).toString.toNat?
    let totals ← (splitList totals).mapM String.toNat?
    -- a line "cannot be passed" when the command it gives after substitution has an argument above
    -- the per-argument limit, is not acceptable to exec once the 2048 bytes of POSIX headroom are
    -- set aside, or (with -s) exceeds max-chars; the line itself obeys the same rules (C04)
    let cannotPass := fun (l : Nat) =>
      let sub := substLens recLen tmpl l
      l + 1 > 131072 || !execAcceptsL (kernelLimit stack - 2048) recLen sub ev ||
        !execAcceptsL (kernelLimit stack - 2048) recLen (writtenLens recLen tmpl ++ [l]) ev ||
        (sLimit > 0 && ((sub.map (· + 1)).sum > sLimit || ((writtenLens recLen tmpl).map (· + 1)).sum + l + 1 > sLimit))
    let good := lines.takeWhile (fun l => !cannotPass l)
    let expected := good.map (fun l => (substLens recLen tmpl l).sum)
    if status == 126 then pure false
    else if good.length < lines.length then pure (status == 1 && totals == expected)
    else pure (status == 0 && totals == expected)
  | ["exec-accepts", _, _, _, _], _ => some true
  | ["arg-max", _], _ => some true
  | _, _ => none

end FuModel.Drv.XargsSys
