import FuModel.Xargs.BatchSpec

/-!
Helper lemmas for C20 (replace mode): `lastIndex` versus `lastVal`, the mode
selection of `normalize`, fuel-irrelevance and the first-occurrence equation of
`replaceAll`, and the one-command-per-line behaviour of `processInput` when the
argument limit is one.
-/
namespace FuModel.Xargs

/-! ### `lastIndex` and `lastVal` -/

theorem lastIndex_go_isSome (p : Opt → Bool) (opts : List Opt) (i : Nat) (best : Option Nat) :
    (lastIndex.go p i best opts).isSome = (best.isSome || opts.any p) := by
  induction opts generalizing i best with
  | nil => simp [lastIndex.go]
  | cons o os ih =>
    simp only [lastIndex.go, ih, List.any_cons]
    cases h : p o <;> simp

theorem lastIndex_isSome (opts : List Opt) (p : Opt → Bool) :
    (lastIndex opts p).isSome = opts.any p := by
  simp [lastIndex, lastIndex_go_isSome]

theorem lastVal_isSome {α} (opts : List Opt) (f : Opt → Option α) :
    (lastVal opts f).isSome = opts.any (fun o => (f o).isSome) := by
  rw [Bool.eq_iff_iff]
  simp only [lastVal, Option.isSome_iff_ne_none, ne_eq, List.getLast?_eq_none_iff,
    List.filterMap_eq_nil_iff, List.any_eq_true]
  constructor
  · intro h
    apply Classical.byContradiction
    intro hc
    apply h
    intro o ho
    apply Classical.byContradiction
    intro hn
    exact hc ⟨o, ho, hn⟩
  · rintro ⟨o, ho, hn⟩ h
    exact hn (h o ho)

/-- the bridge: a family has a last index iff it has a last value -/
theorem lastIndex_none_iff_lastVal {α} (opts : List Opt) (p : Opt → Bool) (f : Opt → Option α)
    (hpf : ∀ o, p o = (f o).isSome) :
    lastIndex opts p = none ↔ lastVal opts f = none := by
  have h1 := lastIndex_isSome opts p
  have h2 := lastVal_isSome opts f
  have : p = fun o => (f o).isSome := funext hpf
  rw [this] at h1
  rw [← h2] at h1
  cases h : lastIndex opts (fun o => (f o).isSome) <;> cases h' : lastVal opts f <;>
    simp_all

def nProj : Opt → Option Nat := fun | .n v => some v | _ => none
def lProj : Opt → Option Nat := fun | .l v => some v | _ => none
def rProj : Opt → Option (List UInt8) :=
  fun | .replI rs => some rs | .repl rs => some (rs.getD [123, 125]) | _ => none

theorem lastIndex_N_none (opts : List Opt) :
    lastIndex opts Opt.isN = none ↔ lastVal opts nProj = none :=
  lastIndex_none_iff_lastVal opts _ _ (by intro o; cases o <;> rfl)

theorem lastIndex_L_none (opts : List Opt) :
    lastIndex opts Opt.isL = none ↔ lastVal opts lProj = none :=
  lastIndex_none_iff_lastVal opts _ _ (by intro o; cases o <;> rfl)

theorem lastIndex_R_none (opts : List Opt) :
    lastIndex opts Opt.isRepl = none ↔ lastVal opts rProj = none :=
  lastIndex_none_iff_lastVal opts _ _ (by intro o; cases o <;> rfl)

/-! ### the mode selection of `normalize` as a function of six values -/

def sel (mA mL : Option Nat) (rR : Option (List UInt8)) (li ai ri : Option Nat) :
    Option Nat × Option Nat × Option (List UInt8) :=
  match mA, mL, rR with
  | none, none, some r => (some 1, none, some r)
  | some 1, none, some r => (some 1, none, some r)
  | some a, none, none => (some a, none, none)
  | none, some b, none => (none, some b, none)
  | none, none, none => (none, none, none)
  | _, _, _ =>
    if optGt li ai && optGt li ri then (none, mL, none)
    else if optGt ai li && optGt ai ri then (mA, none, none)
    else (some 1, none, rR)

def selOf (opts : List Opt) : Option Nat × Option Nat × Option (List UInt8) :=
  sel (lastVal opts nProj) (lastVal opts lProj) (lastVal opts rProj)
    (lastIndex opts Opt.isL) (lastIndex opts Opt.isN) (lastIndex opts Opt.isRepl)

theorem normalize_n (opts : List Opt) : (normalize opts).n = (selOf opts).1 := rfl
theorem normalize_l (opts : List Opt) : (normalize opts).l = (selOf opts).2.1 := rfl
theorem normalize_replace (opts : List Opt) : (normalize opts).replace = (selOf opts).2.2 := rfl

theorem normalize_delim_of_replace (opts : List Opt)
    (h : (normalize opts).replace.isSome = true) : ∃ d, (normalize opts).delim = some d := by
  have hd : (normalize opts).delim =
      (match lastVal opts (fun | .d b => some b | _ => none), opts.any Opt.isNull with
      | some d, true =>
        if optGt (lastIndex opts Opt.isNull) (lastIndex opts Opt.isD) then some 0 else some d
      | some d, false => some d
      | none, true => some 0
      | none, false => (normalize opts).replace.map (fun _ => 10)) := rfl
  rw [hd]
  split
  · split <;> exact ⟨_, rfl⟩
  · exact ⟨_, rfl⟩
  · exact ⟨_, rfl⟩
  · cases hr : (normalize opts).replace with
    | none => simp [hr] at h
    | some r => exact ⟨_, rfl⟩

theorem optGt_of_lt_left (a : Option Nat) (i : Nat) (h : ∀ j, a = some j → j < i) :
    optGt a (some i) = false := by
  cases a with
  | none => rfl
  | some j => have := h j rfl; simp [optGt]; omega

theorem optGt_of_lt_right (a : Option Nat) (i : Nat) (h : ∀ j, a = some j → j < i) :
    optGt (some i) a = true := by
  cases a with
  | none => rfl
  | some j => have := h j rfl; simp [optGt]; omega

theorem sel_replace_last (mA mL : Option Nat) (rR : Option (List UInt8)) (li ai : Option Nat)
    (i : Nat) (hR : rR ≠ none)
    (hn : ∀ j, ai = some j → j < i) (hl : ∀ j, li = some j → j < i) :
    (sel mA mL rR li ai (some i)).2.2.isSome = true ∧ (sel mA mL rR li ai (some i)).1 = some 1 ∧
      (sel mA mL rR li ai (some i)).2.1 = none := by
  unfold sel
  rw [optGt_of_lt_left li i hl, optGt_of_lt_left ai i hn]
  split <;> simp_all [Option.isSome_iff_ne_none]

theorem sel_lines_last (mA mL : Option Nat) (rR : Option (List UInt8)) (ai ri : Option Nat)
    (i : Nat) (hL : mL ≠ none)
    (hn : ∀ j, ai = some j → j < i) (hr : ∀ j, ri = some j → j < i) :
    (sel mA mL rR (some i) ai ri).2.2 = none ∧ (sel mA mL rR (some i) ai ri).1 = none ∧
      (sel mA mL rR (some i) ai ri).2.1 = mL := by
  unfold sel
  rw [optGt_of_lt_right ai i hn, optGt_of_lt_right ri i hr]
  split <;> simp_all

theorem sel_args_last (mL : Option Nat) (rR : Option (List UInt8)) (li ri : Option Nat)
    (i v : Nat) (hL : li = none ↔ mL = none) (hR : ri = none ↔ rR = none)
    (hl : ∀ j, li = some j → j < i) (hr : ∀ j, ri = some j → j < i)
    (hconf : v ≠ 1 ∨ li.isSome = true ∨ ri = none) :
    (sel (some v) mL rR li (some i) ri).2.2 = none ∧ (sel (some v) mL rR li (some i) ri).1 = some v ∧
      (sel (some v) mL rR li (some i) ri).2.1 = none := by
  unfold sel
  rw [optGt_of_lt_right li i hl, optGt_of_lt_right ri i hr, optGt_of_lt_left li i hl]
  split <;> simp_all

theorem sel_replace_with_n1 (rR : Option (List UInt8)) (li ai ri : Option Nat) (hR : rR ≠ none) :
    (sel (some 1) none rR li ai ri).2.2.isSome = true ∧ (sel (some 1) none rR li ai ri).1 = some 1 ∧
      (sel (some 1) none rR li ai ri).2.1 = none := by
  cases rR with
  | none => exact absurd rfl hR
  | some r => simp [sel]

/-! ### `replaceAll` -/

theorem replaceAll_fuel (pat rep : List UInt8) : ∀ (f1 f2 : Nat) (s : List UInt8),
    s.length ≤ f1 → s.length ≤ f2 → replaceAll pat rep f1 s = replaceAll pat rep f2 s := by
  intro f1
  induction f1 with
  | zero =>
    intro f2 s h1 _
    have : s = [] := List.eq_nil_of_length_eq_zero (by omega)
    subst this
    cases f2 <;> rfl
  | succ f1 ih =>
    intro f2 s h1 h2
    cases s with
    | nil => cases f2 <;> rfl
    | cons c cs =>
      cases f2 with
      | zero => simp at h2
      | succ f2 =>
        simp only [List.length_cons] at h1 h2
        simp only [replaceAll]
        split
        · rename_i hpre
          have hne : 1 ≤ pat.length := by
            cases pat with
            | nil => simp at hpre
            | cons _ _ => simp
          congr 1
          apply ih <;> (simp only [List.length_drop, List.length_cons]; omega)
        · congr 1
          apply ih <;> omega

theorem replaceIn_eq (pat rep s : List UInt8) (fuel : Nat) (h : s.length ≤ fuel) :
    replaceAll pat rep fuel s = replaceIn pat rep s :=
  replaceAll_fuel pat rep fuel (s.length + 1) s h (by omega)

theorem occursIn_cons (pat : List UInt8) (c : UInt8) (cs : List UInt8) (h : occursIn pat cs) :
    occursIn pat (c :: cs) := by
  obtain ⟨pre, post, rfl⟩ := h
  exact ⟨c :: pre, post, rfl⟩

theorem occursIn_of_isPrefixOf (pat s : List UInt8) (h : pat.isPrefixOf s = true) :
    occursIn pat s := by
  rw [List.isPrefixOf_iff_prefix] at h
  obtain ⟨t, rfl⟩ := h
  exact ⟨[], t, rfl⟩

theorem replaceAll_absent (pat rep : List UInt8) : ∀ (fuel : Nat) (s : List UInt8),
    ¬ occursIn pat s → replaceAll pat rep fuel s = s := by
  intro fuel
  induction fuel with
  | zero => intro s _; rfl
  | succ fuel ih =>
    intro s h
    cases s with
    | nil => rfl
    | cons c cs =>
      simp only [replaceAll]
      split
      · rename_i hpre
        simp only [Bool.and_eq_true] at hpre
        exact absurd (occursIn_of_isPrefixOf _ _ hpre.1) h
      · congr 1
        exact ih cs (fun hc => h (occursIn_cons _ _ _ hc))

theorem not_prefix_of_first (pat pre post : List UInt8) (c : UInt8) (hp : pat ≠ [])
    (h : ¬ occursIn pat ((c :: pre) ++ pat.dropLast)) :
    pat.isPrefixOf (c :: (pre ++ pat ++ post)) = false := by
  cases hb : pat.isPrefixOf (c :: (pre ++ pat ++ post)) with
  | false => rfl
  | true =>
    exfalso
    apply h
    rw [List.isPrefixOf_iff_prefix] at hb
    have h2 : ((c :: pre) ++ pat.dropLast) <+: (c :: (pre ++ pat ++ post)) := by
      refine ⟨[pat.getLast hp] ++ post, ?_⟩
      have := List.dropLast_concat_getLast hp
      calc (c :: pre ++ pat.dropLast) ++ ([pat.getLast hp] ++ post)
          = c :: (pre ++ (pat.dropLast ++ [pat.getLast hp]) ++ post) := by simp
        _ = c :: (pre ++ pat ++ post) := by rw [this]
    have hlen : pat.length ≤ ((c :: pre) ++ pat.dropLast).length := by
      simp only [List.length_append, List.length_cons, List.length_dropLast]
      omega
    have := List.prefix_of_prefix_length_le hb h2 hlen
    obtain ⟨t, ht⟩ := this
    exact ⟨[], t, by simpa using ht.symm⟩

theorem replaceAll_first (pat rep post : List UInt8) (hp : pat ≠ []) :
    ∀ (pre : List UInt8) (fuel : Nat), (pre ++ pat ++ post).length ≤ fuel →
      ¬ occursIn pat (pre ++ pat.dropLast) →
      replaceAll pat rep fuel (pre ++ pat ++ post) = pre ++ rep ++ replaceIn pat rep post := by
  intro pre
  induction pre with
  | nil =>
    intro fuel hf _
    cases pat with
    | nil => exact absurd rfl hp
    | cons p ps =>
      cases fuel with
      | zero => simp at hf
      | succ fuel =>
        simp only [List.nil_append, List.cons_append, List.length_cons, List.length_append] at hf ⊢
        have hpre : (p :: ps).isPrefixOf (p :: (ps ++ post)) = true := by
          rw [List.isPrefixOf_iff_prefix]; exact ⟨post, rfl⟩
        have hdrop : (p :: (ps ++ post)).drop (p :: ps).length = post := by
          simp
        simp only [replaceAll, hpre, hdrop]
        simp only [List.isEmpty_cons, Bool.not_false, Bool.and_self, if_true]
        rw [replaceIn_eq _ _ _ _ (by omega)]
  | cons c pre ih =>
    intro fuel hf h
    cases fuel with
    | zero => simp at hf
    | succ fuel =>
      have hnp := not_prefix_of_first pat pre post c hp h
      have hf' : (pre ++ pat ++ post).length ≤ fuel := by
        simp only [List.cons_append, List.length_cons] at hf; omega
      have h' : ¬ occursIn pat (pre ++ pat.dropLast) := fun hc => h (occursIn_cons _ _ _ hc)
      simp only [List.cons_append, replaceAll, hnp, Bool.false_and]
      simp only [Bool.false_eq_true, if_false]
      rw [ih fuel hf' h']

/-! ### one command per line when the argument limit is one -/

theorem tryArg_refuse (lim : Limits) (st : LState) (a : Arg) (hn : lim.n = some 1)
    (h : 1 ≤ st.args) : tryArg lim st a = .error false := by
  have : ¬ st.args < 1 := by omega
  simp [tryArg, hn, this]

theorem tryArg_of_fits (lim : Limits) (init : LState) (a : Arg) (hk : a.kind = .hard)
    (h : fitsB lim init [a] = true) :
    ∃ st', tryArg lim init a = .ok st' ∧ 1 ≤ st'.args := by
  unfold fitsB foldTry at h
  cases ht : tryArg lim init a with
  | error b => simp [ht] at h
  | ok st' =>
    refine ⟨st', rfl, ?_⟩
    obtain ⟨b, k⟩ := a
    simp only at hk
    subst hk
    simp only [tryArg, ne_eq, reduceCtorEq, not_false_eq_true, if_true] at ht
    repeat' split at ht
    all_goals first | (cases ht; simp; done) | (simp at ht; done)

theorem classify_of_not_fatal (o : Outcome) (h : o.isFatal = false) :
    classify o = .success ∨ classify o = .failure := by
  cases o with
  | exit c =>
    by_cases h0 : c = 0
    · subst h0; exact Or.inl rfl
    · by_cases h255 : c = 255
      · subst h255; simp [Outcome.isFatal] at h
      · right
        unfold classify
        split <;> simp_all
  | signal s => simp [Outcome.isFatal] at h
  | notFound => simp [Outcome.isFatal] at h
  | cannotRun => simp [Outcome.isFatal] at h

theorem nextOutcome_not_fatal (script : List Outcome) (h : ∀ o ∈ script, o.isFatal = false) :
    (nextOutcome script).1.isFatal = false ∧ ∀ o ∈ (nextOutcome script).2, o.isFatal = false := by
  cases script with
  | nil => exact ⟨rfl, by simp [nextOutcome]⟩
  | cons o os =>
    exact ⟨h o (by simp), fun o' ho' => h o' (by simp [nextOutcome] at ho'; simp [ho'])⟩

/-- a builder holding one argument, with the argument limit one: every further line
    flushes it and starts a new command -/
theorem processInput_pending (cfg : Config) (init : LState) (hn : cfg.lim.n = some 1) :
    ∀ (lines : List (List UInt8)) (st : LState) (a : Arg) (failed : Bool) (log : List (List Arg))
      (script : List Outcome),
      1 ≤ st.args →
      (∀ l ∈ lines, fitsB cfg.lim init [⟨l, .hard⟩] = true) →
      (∀ o ∈ script, o.isFatal = false) →
      (processInput cfg init false ⟨st, [a]⟩ true failed log script
          (lines.map (fun l => (⟨l, .hard⟩ : Arg)))).batches
        = log ++ [a] :: lines.map (fun l => [(⟨l, .hard⟩ : Arg)]) := by
  intro lines
  induction lines with
  | nil =>
    intro st a failed log script _ _ _
    simp only [List.map_nil, processInput]
    simp only [Bool.false_eq_true, if_false, Bool.or_true, if_true]
    cases classify (nextOutcome script).1 <;> rfl
  | cons l ls ih =>
    intro st a failed log script hst hfit hnf
    obtain ⟨st', hok, hst'⟩ := tryArg_of_fits cfg.lim init ⟨l, .hard⟩ rfl (hfit l (by simp))
    obtain ⟨ho, hrest⟩ := nextOutcome_not_fatal script hnf
    have hfit' : ∀ l ∈ ls, fitsB cfg.lim init [⟨l, .hard⟩] = true :=
      fun l' hl' => hfit l' (by simp [hl'])
    simp only [List.map_cons, processInput, tryArg_refuse cfg.lim st _ hn hst, hok]
    simp only [Bool.false_and, Bool.false_eq_true, if_false, if_true]
    rcases classify_of_not_fatal _ ho with hc | hc
    · rw [hc]
      simp only [Option.getD_some]
      rw [ih st' ⟨l, .hard⟩ failed (log ++ [[a]]) _ hst' hfit' hrest]
      simp
    · rw [hc]
      simp only [Option.getD_some]
      rw [ih st' ⟨l, .hard⟩ true (log ++ [[a]]) _ hst' hfit' hrest]
      simp

theorem processInput_one_per_line (cfg : Config) (init : LState) (script : List Outcome)
    (lines : List (List UInt8))
    (hn : cfg.lim.n = some 1)
    (hr : cfg.r = true ∨ lines ≠ [])
    (hfit : ∀ l ∈ lines, fitsB cfg.lim init [⟨l, .hard⟩] = true)
    (hnf : ∀ o ∈ script, o.isFatal = false) :
    (processInput cfg init false ⟨init, []⟩ false false [] script
        (lines.map (fun l => (⟨l, .hard⟩ : Arg)))).batches
      = lines.map (fun l => [(⟨l, .hard⟩ : Arg)]) := by
  cases lines with
  | nil =>
    rcases hr with hr | hr
    · simp [processInput, hr]
    · exact absurd rfl hr
  | cons l ls =>
    obtain ⟨st', hok, hst'⟩ := tryArg_of_fits cfg.lim init ⟨l, .hard⟩ rfl (hfit l (by simp))
    have hfit' : ∀ l ∈ ls, fitsB cfg.lim init [⟨l, .hard⟩] = true :=
      fun l' hl' => hfit l' (by simp [hl'])
    simp only [List.map_cons, processInput, hok, List.nil_append]
    rw [processInput_pending cfg init hn ls st' _ false [] script hst' hfit' hnf]
    simp

end FuModel.Xargs
