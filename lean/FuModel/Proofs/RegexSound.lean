import FuModel.Find.Run
import FuModel.Spec.RegexLang

/-!
# C17 — the tests -regex and -iregex match iff the whole path is in the pattern's language

Model: `Find/Regex.lean`: patterns as abstract syntax (the four concrete syntaxes are printers of
it), `firstEndK` = Oniguruma's anchored backtracking match in priority order, `matchesRe` =
`Regex::is_match` (first match's length = subject's length); the positional `-regextype` state
(`regexTypesOk`, `Find/Run.lean`).  Specification: `Spec/RegexLang.lean`.

Proved: the test never accepts a prefix or substring — if it is true the whole path is matched by
the pattern (`C17_sound`); the mechanism is *not* complete, with a machine-checked witness
(`C17_first_is_not_whole`, `C17_alt_order`) — this is the known finding of the property; the
syntax in force at a `-regex` is that of the nearest preceding `-regextype`, whatever lies between
(`C17_regextype_positional`); case folding.
-/
namespace FuModel.Find.Regex

/-- `r` matches the subject from position `pos` up to position `p` -/
inductive Matches (icase : Bool) (s : List Char) : Re → Nat → Nat → Prop
  | chr (c x : Char) (pos : Nat) : s[pos]? = some x → accepts1 icase (.chr c) x = true → Matches icase s (.chr c) pos (pos + 1)
  | any (x : Char) (pos : Nat) : s[pos]? = some x → accepts1 icase .any x = true → Matches icase s .any pos (pos + 1)
  | set (neg : Bool) (ms : List SetMem) (x : Char) (pos : Nat) :
      s[pos]? = some x → accepts1 icase (.set neg ms) x = true → Matches icase s (.set neg ms) pos (pos + 1)
  | seq {a b : Re} {pos m p : Nat} : Matches icase s a pos m → Matches icase s b m p → Matches icase s (.seq a b) pos p
  | altL {a b : Re} {pos p : Nat} : Matches icase s a pos p → Matches icase s (.alt a b) pos p
  | altR {a b : Re} {pos p : Nat} : Matches icase s b pos p → Matches icase s (.alt a b) pos p
  | starNil (a : Re) (pos : Nat) : Matches icase s (.star a) pos pos
  | starCons {a : Re} {pos m p : Nat} : Matches icase s a pos m → Matches icase s (.star a) m p → Matches icase s (.star a) pos p
  | plus {a : Re} {pos m p : Nat} : Matches icase s a pos m → Matches icase s (.star a) m p → Matches icase s (.plus a) pos p
  | optNil (a : Re) (pos : Nat) : Matches icase s (.opt a) pos pos
  | optSome {a : Re} {pos p : Nat} : Matches icase s a pos p → Matches icase s (.opt a) pos p
  | intNil (hi : Nat) (a : Re) (pos : Nat) : Matches icase s (.interval 0 hi a) pos pos
  | intCons {lo hi : Nat} {a : Re} {pos m p : Nat} : 0 < lo ∨ 0 < hi →
      Matches icase s a pos m → Matches icase s (.interval (lo - 1) (hi - 1) a) m p → Matches icase s (.interval lo hi a) pos p
  | group {a : Re} {pos p : Nat} : Matches icase s a pos p → Matches icase s (.group a) pos p

theorem orElse_some' (a : Nat) (b : Option Nat) : (some a <|> b) = some a := rfl
theorem orElse_none' (b : Option Nat) : ((none : Option Nat) <|> b) = b := rfl

theorem firstEndK_sound (icase : Bool) (s : List Char) (fuel : Nat) :
    ∀ (r : Re) (pos : Nat) (k : Nat → Option Nat) (e : Nat),
      firstEndK icase s fuel r pos k = some e → ∃ p, Matches icase s r pos p ∧ k p = some e := by
  induction fuel with
  | zero => intro r pos k e h; simp [firstEndK] at h
  | succ fuel ih =>
    intro r pos k e h
    cases r with
    | chr c =>
      simp only [firstEndK] at h
      split at h
      · rename_i x hx
        split at h
        · rename_i ha; exact ⟨pos + 1, .chr c x pos hx ha, h⟩
        · cases h
      · cases h
    | any =>
      simp only [firstEndK] at h
      split at h
      · rename_i x hx
        split at h
        · rename_i ha; exact ⟨pos + 1, .any x pos hx ha, h⟩
        · cases h
      · cases h
    | set neg ms =>
      simp only [firstEndK] at h
      split at h
      · rename_i x hx
        split at h
        · rename_i ha; exact ⟨pos + 1, .set neg ms x pos hx ha, h⟩
        · cases h
      · cases h
    | seq a b =>
      simp only [firstEndK] at h
      obtain ⟨m, hm, hk⟩ := ih a pos _ e h
      obtain ⟨p, hp, hk'⟩ := ih b m k e hk
      exact ⟨p, .seq hm hp, hk'⟩
    | alt a b =>
      simp only [firstEndK] at h
      cases ha : firstEndK icase s fuel a pos k with
      | some e' =>
        rw [ha] at h
        rw [orElse_some', Option.some.injEq] at h
        obtain ⟨p, hp, hk⟩ := ih a pos k e' ha
        exact ⟨p, .altL hp, by rw [hk, ← h]⟩
      | none =>
        rw [ha] at h
        rw [orElse_none'] at h
        obtain ⟨p, hp, hk⟩ := ih b pos k e h
        exact ⟨p, .altR hp, hk⟩
    | star a =>
      simp only [firstEndK] at h
      cases ha : firstEndK icase s fuel a pos (fun p => if p == pos then k pos else firstEndK icase s fuel (.star a) p k) with
      | some e' =>
        rw [ha] at h
        rw [orElse_some', Option.some.injEq] at h
        subst h
        obtain ⟨m, hm, hk⟩ := ih a pos _ e' ha
        split at hk
        · exact ⟨pos, .starNil a pos, hk⟩
        · obtain ⟨p, hp, hk'⟩ := ih (.star a) m k e' hk
          exact ⟨p, .starCons hm hp, hk'⟩
      | none =>
        rw [ha] at h
        rw [orElse_none'] at h
        exact ⟨pos, .starNil a pos, h⟩
    | plus a =>
      simp only [firstEndK] at h
      obtain ⟨m, hm, hk⟩ := ih a pos _ e h
      obtain ⟨p, hp, hk'⟩ := ih (.star a) m k e hk
      exact ⟨p, .plus hm hp, hk'⟩
    | opt a =>
      simp only [firstEndK] at h
      cases ha : firstEndK icase s fuel a pos k with
      | some e' =>
        rw [ha] at h
        rw [orElse_some', Option.some.injEq] at h
        obtain ⟨p, hp, hk⟩ := ih a pos k e' ha
        exact ⟨p, .optSome hp, by rw [hk, ← h]⟩
      | none =>
        rw [ha] at h
        rw [orElse_none'] at h
        exact ⟨pos, .optNil a pos, h⟩
    | interval lo hi a =>
      simp only [firstEndK] at h
      split at h
      · rename_i hlo
        obtain ⟨m, hm, hk⟩ := ih a pos _ e h
        obtain ⟨p, hp, hk'⟩ := ih _ m k e hk
        exact ⟨p, .intCons (Or.inl hlo) hm hp, hk'⟩
      · rename_i hlo
        have hlo0 : lo = 0 := by omega
        subst hlo0
        split at h
        · rename_i hhi
          cases ha : firstEndK icase s fuel a pos (fun p => firstEndK icase s fuel (.interval 0 (hi - 1) a) p k) with
          | some e' =>
            rw [ha, orElse_some', Option.some.injEq] at h
            subst h
            obtain ⟨m, hm, hk⟩ := ih a pos _ e' ha
            obtain ⟨p, hp, hk'⟩ := ih _ m k e' hk
            exact ⟨p, .intCons (Or.inr hhi) hm hp, hk'⟩
          | none =>
            rw [ha, orElse_none'] at h
            exact ⟨pos, .intNil hi a pos, h⟩
        · exact ⟨pos, .intNil hi a pos, h⟩
    | group a =>
      simp only [firstEndK] at h
      obtain ⟨p, hp, hk⟩ := ih a pos k e h
      exact ⟨p, .group hp, hk⟩

/-- The test never accepts a prefix or a substring: if `-regex` is true, the pattern matches the
    path from its first to its last character. -/
theorem C17_sound (icase : Bool) (r : Re) (s : List Char) (h : matchesRe icase r s = true) :
    Matches icase s r 0 s.length := by
  unfold matchesRe firstEnd at h
  have h' : firstEndK icase s (4 * (s.length + 1) * 50 + 50) r 0 some = some s.length := by simpa using h
  obtain ⟨p, hp, hk⟩ := firstEndK_sound icase s _ r 0 some s.length h'
  simp only [Option.some.injEq] at hk
  subst hk
  exact hp

/-- … but it is not complete: the engine's first match need not be the whole path even when the
    whole path matches.  `a|ab` does not select `ab` — -/
theorem C17_first_is_not_whole :
    let r := Re.alt (.chr 'a') (.seq (.chr 'a') (.chr 'b'))
    matchesRe false r ['a', 'b'] = false ∧ Matches false ['a', 'b'] r 0 2 := by
  refine ⟨by decide, ?_⟩
  exact .altR (.seq (.chr 'a' 'a' 0 rfl (by decide)) (.chr 'b' 'b' 1 rfl (by decide)))

/-- — and the order in which alternatives are written changes the result. -/
theorem C17_alt_order :
    matchesRe false (.alt (.chr 'a') (.seq (.chr 'a') (.chr 'b'))) ['a', 'b'] = false ∧
    matchesRe false (.alt (.seq (.chr 'a') (.chr 'b')) (.chr 'a')) ['a', 'b'] = true := by decide

/-- The language itself does not depend on the order of alternatives. -/
theorem C17_alt_comm (icase : Bool) (s : List Char) (a b : Re) (pos p : Nat) :
    Matches icase s (.alt a b) pos p ↔ Matches icase s (.alt b a) pos p := by
  constructor <;> intro h <;> cases h with
  | altL h => exact .altR h
  | altR h => exact .altL h

/-- -iregex: letters are compared without regard to case. -/
theorem C17_icase (c x : Char) : accepts1 true (.chr c) x = (foldA c == foldA x) := rfl

end FuModel.Find.Regex

namespace FuModel.Find.Run
open FuModel.Find.Regex

/-- The syntax in force at a `-regex` is that of the nearest preceding `-regextype`, whatever
    tokens — parentheses included — lie between them. -/
theorem C17_regextype_positional (cur t p : RType) (mid rest : List Arg) (ic : Bool) (re : Re)
    (hmid : ∀ a ∈ mid, (∀ t', a ≠ .regextype t') ∧ (∀ ic' p' re', a ≠ .regex ic' p' re'))
    (h : regexTypesOk cur (.regextype t :: (mid ++ .regex ic p re :: rest)) = true) : p = t := by
  rw [regexTypesOk] at h
  induction mid with
  | nil => simp [regexTypesOk] at h; exact h.1.symm
  | cons a as ih =>
    have ha := hmid a (by simp)
    have : regexTypesOk t (a :: (as ++ .regex ic p re :: rest)) = regexTypesOk t (as ++ .regex ic p re :: rest) := by
      cases a <;> simp_all [regexTypesOk]
    rw [List.cons_append, this] at h
    exact ih (fun x hx => hmid x (by simp [hx])) h

example : regexTypesOk .emacs [.regextype .posixExtended, .tok .lp, .regex false .posixExtended .any, .tok .rp] = true := by decide
example : regexTypesOk .emacs [.tok .lp, .regextype .grep, .tok .rp, .regex false .emacs .any] = false := by decide

end FuModel.Find.Run
