import FuModel.Proofs.ExecOnceWalk
import FuModel.Proofs.OutWalk

/-!
# `find START TEST -exec CMD ARGS ;`: one run per matching entry, exactly (C09)
-/
namespace FuModel.Find.Run
open FuModel.Find.Walk FuModel.Find.Expr

section onceExact
variable (dir : Bool) (cmd : Bytes) (tmpl : List Bytes) (start : Bytes)

/-- what one entry contributes to the list of started commands -/
def ranBy (t : Prim) (v : Visit Attr) : List ExecEvent :=
  if (sem start v t es0).1 then [eventOf dir cmd tmpl start v] else []

theorem multis_testOnce (t : Prim) (ht : isTestP t = true) :
    M.multis (.and [.prim t, .prim (.exec dir true cmd tmpl)]) = [] := by
  cases t <;> simp [isTestP] at ht <;> rfl

theorem evalEntry_once (t : Prim) (ht : isTestP t = true) (v : Visit Attr) (g : GS) :
    let r := evalEntry (.and [.prim t, .prim (.exec dir true cmd tmpl)]) start v g
    r.1.prune = false ∧ r.1.quit = false ∧ r.2.execs = g.execs ++ ranBy dir cmd tmpl start t v := by
  have hm := multis_testOnce dir cmd tmpl t ht
  unfold evalEntry
  simp only [hm, flushMultis]
  have key : ∀ (g1 : GS) (ex : Nat), g1.execs = g.execs →
      let q := M.eval (sem start v) (·.quit) (.and [.prim t, .prim (.exec dir true cmd tmpl)]) ⟨g1, false, false, ex⟩
      q.2.prune = false ∧ q.2.quit = false ∧ q.2.gs.execs = g.execs ++ ranBy dir cmd tmpl start t v := by
    intro g1 ex hg
    have hs := sem_testP start v t ht ⟨g1, false, false, ex⟩
    simp only [M.eval, evalAnd]
    simp only [hs]
    unfold ranBy
    cases hb : (sem start v t es0).1
    · simp [hg]
    · simp only [Bool.not_true, Bool.false_eq_true, if_false, if_true]
      have he : (sem start v (.exec dir true cmd tmpl) ⟨g1, false, false, ex⟩).2.gs.execs =
          g1.execs ++ [eventOf dir cmd tmpl start v] := by
        simp only [sem, GS.spawn, if_true, eventOf]
        split <;> rfl
      have hp : (sem start v (.exec dir true cmd tmpl) ⟨g1, false, false, ex⟩).2.prune = false := rfl
      have hq : (sem start v (.exec dir true cmd tmpl) ⟨g1, false, false, ex⟩).2.quit = false := rfl
      (repeat' split) <;> simp [hp, hq, he, hg]
  split
  · cases hc : g.curDir <;> exact key _ _ rfl
  · exact key _ _ rfl

/-- **`find START TEST -exec CMD ARGS ;` (or `-execdir`), exactly**: over the real walk of a
    starting point the commands started are those started before followed by exactly one command
    per in-range reachable entry that satisfies the test — in visit order, each with that entry's
    substituted argument vector and working directory — whatever the commands return. -/
theorem whole_walk_once_exact (t : Prim) (ht : isTestP t = true) (c : Config) (root : Node Attr) (g : GS) :
    let n := if c.sorted then sortNode root else root
    (processDir c (.and [.prim t, .prim (.exec dir true cmd tmpl)]) start (some root) g).gs.execs =
      g.execs ++ (visitsN (refCfg c) [] 0 n).flatMap (ranBy dir cmd tmpl start t) := by
  intro n
  let m : M Prim := .and [.prim t, .prim (.exec dir true cmd tmpl)]
  have hev := fun v s => evalEntry_once dir cmd tmpl start t ht v s
  have hroot : processRoot (refCfg c) (evalEntry m start) n { g with curDir := none } =
      (let q := refRoot (refCfg c) (evalEntry m start) n ⟨{ g with curDir := none }, 0, 0⟩; resOf q.1 q.2) := by
    cases hdf : (refCfg c).depthFirst
    · refine processRoot_pre (refCfg c) (evalEntry m start) hdf ?_ n _
      intro v s hp
      rw [(hev v s).1] at hp; cases hp
    · exact processRoot_postAny (refCfg c) (evalEntry m start) hdf n _
  have hex := refNode_exact (refCfg c) (evalEntry m start) GS.execs (ranBy dir cmd tmpl start t) hev [] 0 n
    ⟨{ g with curDir := none }, 0, 0⟩
  have hall : m.AllP (SoleOnce dir cmd tmpl) := by
    simp only [m, M.AllP, M.AllP.AllPs]
    exact ⟨Or.inl (by cases t <;> simp [isTestP] at ht <;> rfl), Or.inr rfl, trivial⟩
  show (processDir c m start (some root) g).gs.execs = _
  unfold processDir
  simp only
  rw [show (if c.sorted then sortNode root else root) = n from rfl, hroot]
  simp only [resOf, refRoot]
  rw [finishDir_once dir cmd tmpl m hall, hex.2]

end onceExact
end FuModel.Find.Run
