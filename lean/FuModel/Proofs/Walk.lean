import FuModel.Spec.WalkRef

/-!
Refinement of the walk machine (`step`/`loop`, i.e. walkdir's iterator inside
`process_dir`'s loop) to the recursive reference traversal `refNode`/`refKids`.
-/
namespace FuModel.Find.Walk
variable {α σ : Type}

def resOf (q : Bool) (A : Acc σ) : Res σ := ⟨A.st, A.ret, q, A.diags⟩

/-- run `k` unless the first part already quit -/
def andThen (r : Bool × Acc σ) (k : Acc σ → Res σ) : Res σ := if r.1 then resOf true r.2 else k r.2

section
variable (c : RefCfg) (ev : Visit α → σ → EvalOut × σ)

def loopA (S : MState α) (A : Acc σ) : Res σ :=
  loop (optsOf c) c.follow (guardEv c ev) S A.st A.ret A.diags

def stepA (st : Step α) (A : Acc σ) : Res σ :=
  loopStep (optsOf c) c.follow (guardEv c ev) st A.st A.ret A.diags

theorem loopA_eq (S : MState α) (A : Acc σ) : loopA c ev S A = stepA c ev (step (optsOf c) S) A :=
  loop_eq _ _ _ _ _ _ _

@[simp] theorem optsOf_cf : (optsOf c).contentsFirst = c.depthFirst := rfl
@[simp] theorem optsOf_max : (optsOf c).maxDepth = c.maxDepth := rfl
@[simp] theorem optsOf_fl : (optsOf c).followLinks = (c.follow == .always) := rfl
@[simp] theorem optsOf_fr : (optsOf c).followRoot = (c.follow != .never) := rfl
theorem optsOf_min : (optsOf c).minDepth = if c.minDepth > c.maxDepth then c.maxDepth else c.minDepth := rfl

/-- what the walk filters out is out of range anyway -/
theorem skippable_not_inRange (d : Nat) (h : skippable (optsOf c) d = true) : inRange c d = false := by
  have h' : d < (optsOf c).minDepth ∨ d > c.maxDepth := by
    simpa [skippable] using h
  rw [optsOf_min] at h'
  simp only [inRange, Bool.and_eq_false_iff, decide_eq_false_iff_not]
  by_cases hm : c.minDepth > c.maxDepth
  · simp only [hm, if_true] at h'; omega
  · simp only [hm, if_false] at h'; omega

/-- the accumulated result after evaluating (or not) one entry -/
def accAfter (A : Acc σ) (r : EvalOut × σ) : Acc σ := ⟨r.2, if r.1.exit = 0 then A.ret else r.1.exit, A.diags⟩

theorem guardEv_in (v : Visit α) (s : σ) (h : inRange c v.ent.depth = true) :
    guardEv c ev v s = (if c.depthFirst then { (ev v s).1 with prune := false } else (ev v s).1, (ev v s).2) := by
  simp [guardEv, h]

theorem guardEv_out (v : Visit α) (s : σ) (h : ¬ inRange c v.ent.depth = true) :
    guardEv c ev v s = (⟨false, false, 0⟩, s) := by
  simp [guardEv, h]

/-- `loopStep` on a yielded entry, in terms of the guarded evaluator's result -/
theorem stepA_yield_ok (e : Ent α) (S' : MState α) (A : Acc σ) :
    stepA c ev (.yield (.ok e) S') A =
      (let r := guardEv c ev ⟨e, e.depth == 0 && c.follow != .never, c.follow⟩ A.st
       if r.1.quit then resOf true (accAfter A r)
       else if r.1.prune then loopA c ev (skipCurrent S') (accAfter A r)
       else loopA c ev S' (accAfter A r)) := rfl

/-- an entry the walk yields (or filters by depth): evaluated iff in range -/
theorem stepA_entry (e : Ent α) (S' : MState α) (A : Acc σ) :
    stepA c ev (if skippable (optsOf c) e.depth then .cont S' else .yield (.ok e) S') A =
      (if inRange c e.depth then
        let r := ev ⟨e, e.depth == 0 && c.follow != .never, c.follow⟩ A.st
        if r.1.quit then resOf true (accAfter A r)
        else if r.1.prune && !c.depthFirst then loopA c ev (skipCurrent S') (accAfter A r)
        else loopA c ev S' (accAfter A r)
      else loopA c ev S' A) := by
  by_cases hs : skippable (optsOf c) e.depth = true
  · simp only [hs, if_true, skippable_not_inRange c _ hs, Bool.false_eq_true, if_false]
    rfl
  · have hs' : skippable (optsOf c) e.depth = false := by simpa using hs
    simp only [hs', Bool.false_eq_true, if_false]
    rw [stepA_yield_ok]
    by_cases hr : inRange c e.depth = true
    · rw [guardEv_in c ev _ _ hr]
      simp only [hr, if_true]
      generalize ev ⟨e, e.depth == 0 && c.follow != .never, c.follow⟩ A.st = r
      obtain ⟨⟨p, q, x⟩, s⟩ := r
      cases hd : c.depthFirst <;> cases p <;> cases q <;> simp [accAfter]
    · rw [guardEv_out c ev _ _ hr]
      simp only [hr, if_false, Bool.false_eq_true]
      simp [accAfter]

theorem stepA_yield_some (i : Item α) (v : Visit α) (hv : toVisit c.follow i = some v) (S' : MState α) (A : Acc σ) :
    stepA c ev (.yield i S') A =
      (let r := guardEv c ev v A.st
       if r.1.quit then resOf true (accAfter A r)
       else if r.1.prune then loopA c ev (skipCurrent S') (accAfter A r)
       else loopA c ev S' (accAfter A r)) := by
  simp only [stepA, loopStep, hv]
  rfl

theorem stepA_yield_none (i : Item α) (hv : toVisit c.follow i = none) (S' : MState α) (A : Acc σ) :
    stepA c ev (.yield i S') A = loopA c ev S' (diag A) := by
  simp only [stepA, loopStep, hv]
  rfl

theorem stepA_cont (S' : MState α) (A : Acc σ) : stepA c ev (.cont S') A = loopA c ev S' A := rfl

/-- evaluation of one visit as the guarded loop performs it, with continuations -/
def evalAt (v : Visit α) (A : Acc σ) (kPrune kCont : Acc σ → Res σ) : Res σ :=
  if inRange c v.ent.depth then
    let r := ev v A.st
    if r.1.quit then resOf true (accAfter A r)
    else if r.1.prune && !c.depthFirst then kPrune (accAfter A r)
    else kCont (accAfter A r)
  else kCont A

theorem stepA_entry' (e : Ent α) (S' : MState α) (A : Acc σ) :
    stepA c ev (if skippable (optsOf c) e.depth then .cont S' else .yield (.ok e) S') A =
      evalAt c ev ⟨e, e.depth == 0 && c.follow != .never, c.follow⟩ A (loopA c ev (skipCurrent S')) (loopA c ev S') :=
  stepA_entry c ev e S' A

theorem stepA_entry2 (rp : List Name) (d : Nat) (n : Node α) (fl : Bool) (S' : MState α) (A : Acc σ) :
    stepA c ev (if skippable (optsOf c) d then .cont S' else .yield (.ok ⟨rp, d, n, fl⟩) S') A =
      evalAt c ev ⟨⟨rp, d, n, fl⟩, d == 0 && c.follow != .never, c.follow⟩ A (loopA c ev (skipCurrent S')) (loopA c ev S') :=
  stepA_entry c ev ⟨rp, d, n, fl⟩ S' A

theorem stepA_visit (i : Item α) (v : Visit α) (hv : toVisit c.follow i = some v) (S' : MState α) (A : Acc σ) :
    stepA c ev (.yield i S') A = evalAt c ev v A (loopA c ev (skipCurrent S')) (loopA c ev S') := by
  rw [stepA_yield_some c ev i v hv]
  unfold evalAt
  by_cases hr : inRange c v.ent.depth = true
  · rw [guardEv_in c ev _ _ hr]
    simp only [hr, if_true]
    generalize ev v A.st = r
    obtain ⟨⟨p, q, x⟩, s⟩ := r
    cases hd : c.depthFirst <;> cases p <;> cases q <;> simp [accAfter]
  · rw [guardEv_out c ev _ _ hr]
    simp only [hr, if_false, Bool.false_eq_true]
    simp [accAfter]

/-- the reference's `visit` followed by a continuation that ignores the prune mark -/
theorem andThen_visit (rpath : List Name) (d : Nat) (n : Node α) (A : Acc σ) (k : Acc σ → Res σ) :
    andThen (let r := visit c ev rpath d n A; (r.2.1, r.2.2)) k = evalAt c ev (mkVisit c rpath d n) A k k := by
  have hd : (mkVisit c rpath d n).ent.depth = d := by
    cases n <;> simp only [mkVisit] <;> (try split) <;> rfl
  unfold visit evalAt andThen
  rw [hd]
  by_cases hr : inRange c d = true
  · simp only [hr, if_true]
    generalize ev (mkVisit c rpath d n) A.st = r
    obtain ⟨⟨p, q, x⟩, s⟩ := r
    cases q <;> cases p <;> cases c.depthFirst <;> simp [accAfter]
  · simp [hr]

/-! ### pre-order -/

/-- the evaluator marks for pruning only entries for which the walk pushed a listing -/
def PruneOk : Prop :=
  ∀ v s, (ev v s).1.prune = true →
    match v.ent.node with
    | .dir _ l _ _ _ => (!l || c.follows v.ent.depth) = true
    | .leaf _ _ _ => False

/-- the same for one visit … -/
def PruneOkV (v : Visit α) : Prop :=
  ∀ s, (ev v s).1.prune = true →
    match v.ent.node with
    | .dir _ l _ _ _ => (!l || c.follows v.ent.depth) = true
    | .leaf _ _ _ => False

/-- … and for the visits of one tree: every node as the reference visits it (`mkVisit`) -/
def PruneOkN (rp : List Name) (d : Nat) : Node α → Prop
  -- (a link that closes a cycle is diagnosed where links are followed, not visited)
  | .leaf nm k a => (k == .linkLoop && c.follows d) = false → PruneOkV c ev (mkVisit c rp d (.leaf nm k a))
  | .dir nm l r a kids => PruneOkV c ev (mkVisit c rp d (.dir nm l r a kids)) ∧ PruneOkK rp (d + 1) kids
where PruneOkK (rp : List Name) (d : Nat) : List (Node α) → Prop
  | [] => True
  | n :: ns => PruneOkN (n.name :: rp) d n ∧ PruneOkK rp d ns

theorem loopA_nil (dfr : List (Ent α)) (A : Acc σ) (hpre : c.depthFirst = false) :
    loopA c ev ⟨none, [], dfr⟩ A = resOf false A := by
  rw [loopA_eq]
  simp [step, hpre, stepA, loopStep, resOf]

theorem pop_over (f : Frame α) (fs : List (Frame α)) (dfr : List (Ent α)) (A : Acc σ)
    (hpre : c.depthFirst = false) (h : fs.length + 1 > c.maxDepth) :
    loopA c ev ⟨none, f :: fs, dfr⟩ A = loopA c ev ⟨none, fs, dfr⟩ A := by
  rw [loopA_eq]
  simp only [step, optsOf_cf, hpre, Bool.false_and, Bool.false_eq_true, if_false, List.length_cons, optsOf_max, h,
    if_true]
  rfl

theorem pop_empty (rp : List Name) (fs : List (Frame α)) (dfr : List (Ent α)) (A : Acc σ)
    (hpre : c.depthFirst = false) :
    loopA c ev ⟨none, ⟨rp, [], false⟩ :: fs, dfr⟩ A = loopA c ev ⟨none, fs, dfr⟩ A := by
  rw [loopA_eq]
  by_cases h : fs.length + 1 > c.maxDepth
  · simp only [step, optsOf_cf, hpre, Bool.false_and, Bool.false_eq_true, if_false, List.length_cons, optsOf_max, h,
      if_true]
    rfl
  · simp only [step, optsOf_cf, hpre, Bool.false_and, Bool.false_eq_true, if_false, List.length_cons, optsOf_max, h]
    rfl

/-- a listing that could not be read: one diagnostic, then it is dropped -/
theorem pop_err (rp : List Name) (fs : List (Frame α)) (dfr : List (Ent α)) (A : Acc σ)
    (hpre : c.depthFirst = false) (h : fs.length + 1 ≤ c.maxDepth) :
    loopA c ev ⟨none, ⟨rp, [], true⟩ :: fs, dfr⟩ A = loopA c ev ⟨none, fs, dfr⟩ (diag A) := by
  rw [loopA_eq]
  have h' : ¬ (fs.length + 1 > c.maxDepth) := by omega
  simp only [step, optsOf_cf, hpre, Bool.false_and, Bool.false_eq_true, if_false, List.length_cons, optsOf_max, h',
    if_true]
  rw [stepA_yield_none c ev _ rfl]
  exact pop_empty c ev rp fs dfr (diag A) hpre

/-- the part of the reference below a directory at depth `d` -/
def belowRef (rp : List Name) (d : Nat) (descends readable : Bool) (kids : List (Node α)) (A : Acc σ) : Bool × Acc σ :=
  if descends then
    if readable then refKids c ev rp (d + 1) kids A else (false, diag A)
  else (false, A)

theorem refNode_dir_pre (hpre : c.depthFirst = false) (rp : List Name) (d : Nat) (nm : Name) (l r : Bool) (a : α)
    (kids : List (Node α)) (A : Acc σ) (k : Acc σ → Res σ) :
    andThen (refNode c ev rp d (.dir nm l r a kids) A) k =
      evalAt c ev (mkVisit c rp d (.dir nm l r a kids)) A k
        (fun A' => andThen (belowRef c ev rp d ((!l || c.follows d) && decide (d < c.maxDepth)) r kids A') k) := by
  have hd : (mkVisit c rp d (.dir nm l r a kids)).ent.depth = d := rfl
  unfold refNode evalAt visit belowRef
  simp only [hpre, Bool.false_eq_true, if_false, hd, Bool.not_false, Bool.and_true]
  by_cases hr : inRange c d = true
  · simp only [hr, if_true]
    generalize ev (mkVisit c rp d (.dir nm l r a kids)) A.st = res
    obtain ⟨⟨p, q, x⟩, s⟩ := res
    cases q <;> cases p <;> simp [andThen, accAfter, resOf]
  · simp [hr, andThen]

theorem below_pre (hpre : c.depthFirst = false) (rp : List Name) (readable : Bool) (kids : List (Node α))
    (fs : List (Frame α)) (dfr : List (Ent α)) (A : Acc σ)
    (hk : ∀ A, fs.length + 1 ≤ c.maxDepth →
      loopA c ev ⟨none, ⟨rp, kids, false⟩ :: fs, dfr⟩ A =
        andThen (refKids c ev rp (fs.length + 1) kids A) (loopA c ev ⟨none, fs, dfr⟩)) :
    loopA c ev ⟨none, frameOf rp readable kids :: fs, dfr⟩ A =
      andThen (belowRef c ev rp fs.length (decide (fs.length < c.maxDepth)) readable kids A) (loopA c ev ⟨none, fs, dfr⟩) := by
  unfold belowRef
  by_cases hm : fs.length < c.maxDepth
  · simp only [hm, decide_true, if_true]
    cases readable with
    | true => simpa [frameOf] using hk A (by omega)
    | false =>
      simp only [frameOf, Bool.false_eq_true, if_false]
      rw [pop_err c ev rp fs dfr A hpre (by omega)]
      simp [andThen]
  · simp only [hm, decide_false, Bool.false_eq_true, if_false]
    rw [pop_over c ev _ fs dfr A hpre (by omega)]
    simp [andThen]

theorem follows_iff (d : Nat) : c.follows d = ((c.follow == .always) || (d == 0 && c.follow != .never)) := by
  unfold RefCfg.follows
  cases c.follow <;> cases (d == 0) <;> rfl

theorem evalAt_noprune (v : Visit α) (A : Acc σ) (k1 k2 k : Acc σ → Res σ)
    (h : ∀ s, (ev v s).1.prune = false) : evalAt c ev v A k1 k = evalAt c ev v A k2 k := by
  unfold evalAt
  simp [h]

theorem mkVisit_depth (rp : List Name) (d : Nat) (n : Node α) : (mkVisit c rp d n).ent.depth = d := by
  cases n <;> simp only [mkVisit] <;> (try split) <;> rfl

theorem mkVisit_node (rp : List Name) (d : Nat) (n : Node α) : (mkVisit c rp d n).ent.node = n := by
  cases n <;> simp only [mkVisit] <;> (try split) <;> rfl

/-- a leaf that is evaluated: whichever way the walk reports it, as long as the entry view is the
    reference's -/
theorem leaf_eval (rp : List Name) (d : Nat) (nm : Name) (k : LeafKind) (a : α)
    (hp : c.depthFirst = true ∨ PruneOkV c ev (mkVisit c rp d (.leaf nm k a)))
    (S : MState α) (A : Acc σ) (kP : Acc σ → Res σ)
    (hno : (k == .linkLoop && c.follows d) = false) :
    evalAt c ev (mkVisit c rp d (.leaf nm k a)) A kP (loopA c ev S) =
      andThen (refNode c ev rp d (.leaf nm k a) A) (loopA c ev S) := by
  rw [refNode]
  simp only [hno, Bool.false_eq_true, if_false]
  rw [andThen_visit]
  rcases hp with hd | hp
  · unfold evalAt; simp [hd]
  apply evalAt_noprune
  intro s
  have := hp s
  rw [mkVisit_node] at this
  cases hpr : (ev (mkVisit c rp d (.leaf nm k a)) s).1.prune
  · rfl
  · exact absurd (this hpr) (by simp)

theorem leaf_loop (rp : List Name) (d : Nat) (nm : Name) (k : LeafKind) (a : α)
    (S : MState α) (A : Acc σ) (e : Ent α) (hmax : d ≤ c.maxDepth)
    (hyes : (k == .linkLoop && c.follows d) = true) :
    stepA c ev (.yield (.loopErr e) S) A =
      andThen (refNode c ev rp d (.leaf nm k a) A) (loopA c ev S) := by
  rw [refNode, stepA_yield_none c ev _ rfl]
  simp [hyes, hmax, andThen]

mutual
theorem node_pre (hpre : c.depthFirst = false) (n : Node α) (rp : List Name)
    (fs : List (Frame α)) (dfr : List (Ent α)) (hp : PruneOkN c ev rp fs.length n) (A : Acc σ) (hmax : fs.length ≤ c.maxDepth) :
    stepA c ev (handleEntry (optsOf c) ⟨none, fs, dfr⟩ rp fs.length n) A =
      andThen (refNode c ev rp fs.length n A) (loopA c ev ⟨none, fs, dfr⟩) := by
  match n with
  | .leaf nm k a =>
    simp only [handleEntry, optsOf_fl, optsOf_fr]
    have hfo := follows_iff c fs.length
    have hfc : c.follow = .never ∨ c.follow = .roots ∨ c.follow = .always := by cases c.follow <;> simp
    cases k <;> rcases hfc with hf | hf | hf <;> cases hD : (fs.length == 0) <;>
      simp only [hf, hD, LeafKind.isLink, Bool.and_false, Bool.false_and, Bool.and_true, Bool.true_and,
        Bool.false_eq_true, if_false, if_true, beq_self_eq_true, bne_self_eq_false, reduceCtorEq,
        show (Follow.never == Follow.always) = false from rfl, show (Follow.roots == Follow.always) = false from rfl,
        show (Follow.always == Follow.always) = true from rfl, show (Follow.never != Follow.never) = false from rfl,
        show (Follow.roots != Follow.never) = true from rfl, show (Follow.always != Follow.never) = true from rfl,
        show (LeafKind.plain == LeafKind.linkDangling) = false from rfl,
        show (LeafKind.plain == LeafKind.linkLoop) = false from rfl,
        show (LeafKind.linkFile == LeafKind.linkDangling) = false from rfl,
        show (LeafKind.linkFile == LeafKind.linkLoop) = false from rfl,
        show (LeafKind.linkDangling == LeafKind.linkDangling) = true from rfl,
        show (LeafKind.linkDangling == LeafKind.linkLoop) = false from rfl,
        show (LeafKind.linkLoop == LeafKind.linkDangling) = false from rfl,
        show (LeafKind.linkLoop == LeafKind.linkLoop) = true from rfl,
        show ((0 : Nat) == 0) = true from rfl] <;>
      first
      | exact leaf_loop c ev rp fs.length nm _ a _ A _ hmax (by simp [follows_iff, hf, hD])
      | (refine (stepA_entry2 c ev _ _ _ _ _ A).trans ?_
         refine Eq.trans ?_ (leaf_eval c ev rp fs.length nm _ a (Or.inr (hp (by simp [follows_iff, hf, hD]))) _ A (loopA c ev (skipCurrent ⟨none, fs, dfr⟩)) (by simp [follows_iff, hf, hD]))
         congr 1 <;> simp [mkVisit, hf, hD, LeafKind.isLink, follows_iff])
      | (rw [stepA_visit c ev _ _ rfl]
         refine Eq.trans ?_ (leaf_eval c ev rp fs.length nm _ a (Or.inr (hp (by simp [follows_iff, hf, hD]))) _ A (loopA c ev (skipCurrent ⟨none, fs, dfr⟩)) (by simp [follows_iff, hf, hD]))
         congr 1 <;> simp [mkVisit, toVisit, hf, hD, LeafKind.isLink, follows_iff])
  | .dir nm l r a kids =>
    rw [refNode_dir_pre c ev hpre]
    have hk := fun A' h => kids_pre hpre kids rp fs dfr hp.2 A' h
    have hb := fun A' => below_pre c ev hpre rp r kids fs dfr A' hk
    simp only [handleEntry, optsOf_cf, hpre, optsOf_fl, optsOf_fr, Bool.false_eq_true, if_false]
    by_cases hn : (!l || c.follow == .always) = true
    · simp only [hn, if_true]
      refine (stepA_entry' c ev ⟨rp, fs.length, .dir nm l r a kids, l⟩ _ A).trans ?_
      have hf : (!l || c.follows fs.length) = true := by
        rw [follows_iff]; cases l <;> simp_all
      simp only [hf, Bool.true_and]
      have hv : (⟨⟨rp, fs.length, .dir nm l r a kids, l⟩, fs.length == 0 && c.follow != .never, c.follow⟩ : Visit α)
          = mkVisit c rp fs.length (.dir nm l r a kids) := by
        simp only [mkVisit]
        cases l <;> simp_all
      rw [hv]
      congr 1
      funext A'
      exact hb A'
    · have hl : l = true := by cases l <;> simp_all
      have hna : (c.follow == .always) = false := by cases l <;> simp_all
      subst hl
      simp only [hna, Bool.not_true, Bool.false_or, Bool.false_eq_true, if_false]
      have hv : (⟨⟨rp, fs.length, .dir nm true r a kids, false⟩, fs.length == 0 && c.follow != .never, c.follow⟩ : Visit α)
          = mkVisit c rp fs.length (.dir nm true r a kids) := by
        simp [mkVisit, hna]
      by_cases hD' : (fs.length == 0 && c.follow != .never) = true
      rotate_left
      · -- the link is not followed here: nothing is pushed, nothing below it is visited
        have hD : (fs.length == 0 && c.follow != .never) = false := by simpa using hD'
        have hf : c.follows fs.length = false := by rw [follows_iff]; simp [hna, hD]
        simp only [hD, Bool.false_eq_true, if_false]
        refine (stepA_entry2 c ev _ _ _ _ _ A).trans ?_
        rw [hv]
        simp only [hf, Bool.not_true, Bool.or_false, Bool.false_and]
        have hnp : ∀ s, (ev (mkVisit c rp fs.length (.dir nm true r a kids)) s).1.prune = false := by
          intro s
          have := hp.1 s
          rw [mkVisit_node, mkVisit_depth, hf] at this
          cases hpr : (ev (mkVisit c rp fs.length (.dir nm true r a kids)) s).1.prune
          · rfl
          · exact absurd (this hpr) (by simp)
        rw [evalAt_noprune c ev _ A _ (loopA c ev ⟨none, fs, dfr⟩) _ hnp]
        congr 1
      · -- a starting point that is a link to a directory, under -H: its listing is pushed
        have hD := hD'
        have hf : c.follows fs.length = true := by rw [follows_iff]; simp [hD]
        simp only [hD, if_true]
        refine (stepA_entry2 c ev _ _ _ _ _ A).trans ?_
        rw [hv]
        simp only [hf, Bool.not_true, Bool.or_true, Bool.true_and]
        congr 1
        funext A'
        exact hb A'
theorem kids_pre (hpre : c.depthFirst = false) (kids : List (Node α)) (rp : List Name)
    (fs : List (Frame α)) (dfr : List (Ent α)) (hp : PruneOkN.PruneOkK c ev rp (fs.length + 1) kids) (A : Acc σ) (hmax : fs.length + 1 ≤ c.maxDepth) :
    loopA c ev ⟨none, ⟨rp, kids, false⟩ :: fs, dfr⟩ A =
      andThen (refKids c ev rp (fs.length + 1) kids A) (loopA c ev ⟨none, fs, dfr⟩) := by
  match kids with
  | [] =>
    rw [pop_empty c ev rp fs dfr A hpre]
    simp [refKids, andThen]
  | n :: ns =>
    rw [loopA_eq]
    have h' : ¬ (fs.length + 1 > c.maxDepth) := by omega
    simp only [step, optsOf_cf, hpre, Bool.false_and, Bool.false_eq_true, if_false, List.length_cons, optsOf_max, h']
    have := node_pre hpre n (n.name :: rp) (⟨rp, ns, false⟩ :: fs) dfr (by simpa using hp.1) A (by simpa using hmax)
    simp only [List.length_cons] at this
    rw [this, refKids]
    unfold andThen
    split
    · rfl
    · exact kids_pre hpre ns rp fs dfr hp.2 _ hmax
end

mutual
theorem pruneOkN_of_pruneOk (hp : PruneOk c ev) (rp : List Name) (d : Nat) (n : Node α) : PruneOkN c ev rp d n := by
  match n with
  | .leaf nm k a => exact fun _ s h => hp _ s h
  | .dir nm l r a kids => exact ⟨fun s h => hp _ s h, pruneOkK_of_pruneOk hp rp (d + 1) kids⟩
theorem pruneOkK_of_pruneOk (hp : PruneOk c ev) (rp : List Name) (d : Nat) (kids : List (Node α)) :
    PruneOkN.PruneOkK c ev rp d kids := by
  match kids with
  | [] => trivial
  | n :: ns => exact ⟨pruneOkN_of_pruneOk hp (n.name :: rp) d n, pruneOkK_of_pruneOk hp rp d ns⟩
end

/-- Pre-order: `process_dir` on a starting point computes exactly the reference traversal, as long
    as a prune request on a visit *of this tree* concerns a directory whose listing the walk pushed. -/
theorem processRoot_preN (hpre : c.depthFirst = false) (root : Node α) (hp : PruneOkN c ev [] 0 root) (acc : σ) :
    processRoot c ev root acc =
      (let r := refRoot c ev root ⟨acc, 0, 0⟩
       resOf r.1 r.2) := by
  show loopA c ev (MState.init root) ⟨acc, 0, 0⟩ = _
  rw [loopA_eq]
  have := node_pre c ev hpre root [] [] [] hp ⟨acc, 0, 0⟩ (Nat.zero_le _)
  simp only [List.length_nil] at this
  simp only [step, MState.init]
  rw [this, refRoot]
  unfold andThen
  split
  · simp_all
  · rw [loopA_nil c ev [] _ hpre]
    simp_all

/-- Pre-order, for an evaluator that never asks to prune anything but a pushed directory. -/
theorem processRoot_pre (hpre : c.depthFirst = false) (hp : PruneOk c ev) (root : Node α) (acc : σ) :
    processRoot c ev root acc =
      (let r := refRoot c ev root ⟨acc, 0, 0⟩
       resOf r.1 r.2) :=
  processRoot_preN c ev hpre root (pruneOkN_of_pruneOk c ev hp [] 0 root) acc

/-! ### post-order (`-depth`) -/

def visitOf (d : Ent α) : Visit α := ⟨d, d.depth == 0 && c.follow != .never, c.follow⟩

theorem evalAt_post (hpost : c.depthFirst = true) (v : Visit α) (A : Acc σ) (k1 k2 k : Acc σ → Res σ) :
    evalAt c ev v A k1 k = evalAt c ev v A k2 k := by
  unfold evalAt; simp [hpost]

theorem loopA_nil_post (A : Acc σ) (hpost : c.depthFirst = true) :
    loopA c ev ⟨none, [], []⟩ A = resOf false A := by
  rw [loopA_eq]
  simp [step, hpost, stepA, loopStep, resOf]

/-- the listing of a directory is exhausted (or lies beyond maxdepth): it is dropped and the
    deferred directory itself is evaluated -/
theorem pop_post (hpost : c.depthFirst = true) (f : Frame α) (fs : List (Frame α)) (d : Ent α) (ds : List (Ent α))
    (A : Acc σ) (k0 : Acc σ → Res σ) (hlen : fs.length = ds.length) (hd : d.depth = fs.length)
    (hgo : fs.length + 1 > c.maxDepth ∨ (f.kids = [] ∧ f.pendingErr = false)) :
    loopA c ev ⟨none, f :: fs, d :: ds⟩ A =
      evalAt c ev (visitOf c d) A k0 (loopA c ev ⟨none, fs, ds⟩) := by
  have h1 : loopA c ev ⟨none, f :: fs, d :: ds⟩ A = loopA c ev ⟨none, fs, d :: ds⟩ A := by
    rw [loopA_eq]
    have hnl : ¬ (fs.length + 1 < ds.length + 1) := by omega
    simp only [step, optsOf_cf, hpost, Bool.true_and, List.length_cons, decide_eq_true_eq, hnl, if_false, optsOf_max]
    rcases hgo with hgo | hgo
    · simp only [hgo, if_true]; rfl
    · by_cases hm : fs.length + 1 > c.maxDepth
      · simp only [hm, if_true]; rfl
      · simp only [hm, if_false, hgo.2, Bool.false_eq_true, hgo.1]; rfl
  rw [h1, loopA_eq, evalAt_post c ev hpost _ A k0 (loopA c ev (skipCurrent ⟨none, fs, ds⟩))]
  cases fs with
  | nil =>
    have hds : ds = [] := by cases ds <;> simp_all
    subst hds
    simp only [step, optsOf_cf, hpost, if_true]
    have hd0 : d.depth = 0 := by simpa using hd
    by_cases hs : skippable (optsOf c) 0 = true
    · simp only [hs, if_true]
      have : inRange c (visitOf c d).ent.depth = false := by
        show inRange c d.depth = false
        rw [hd0]; exact skippable_not_inRange c 0 hs
      unfold evalAt
      simp only [this, Bool.false_eq_true, if_false]
      rw [loopA_nil_post c ev A hpost]
      rfl
    · have := stepA_entry' c ev d ⟨none, [], []⟩ A
      rw [hd0] at this
      have hs' : skippable (optsOf c) 0 = false := by simpa using hs
      simp only [hs', Bool.false_eq_true, if_false] at this ⊢
      unfold visitOf
      rw [hd0]
      exact this
  | cons f' fs' =>
    have hlt : (f' :: fs').length < (d :: ds).length := by simp at hlen ⊢; omega
    simp only [step, optsOf_cf, hpost, Bool.true_and, decide_eq_true_eq, hlt, if_true]
    have := stepA_entry' c ev d ⟨none, f' :: fs', ds⟩ A
    rw [hd] at this
    unfold visitOf
    rw [hd]
    exact this

theorem pop_err_post (hpost : c.depthFirst = true) (rp : List Name) (fs : List (Frame α)) (d : Ent α) (ds : List (Ent α))
    (A : Acc σ) (k0 : Acc σ → Res σ) (hlen : fs.length = ds.length) (hd : d.depth = fs.length)
    (h : fs.length + 1 ≤ c.maxDepth) :
    loopA c ev ⟨none, ⟨rp, [], true⟩ :: fs, d :: ds⟩ A =
      evalAt c ev (visitOf c d) (diag A) k0 (loopA c ev ⟨none, fs, ds⟩) := by
  rw [loopA_eq]
  have hnl : ¬ (fs.length + 1 < ds.length + 1) := by omega
  have h' : ¬ (fs.length + 1 > c.maxDepth) := by omega
  simp only [step, optsOf_cf, hpost, Bool.true_and, List.length_cons, decide_eq_true_eq, hnl, if_false, optsOf_max,
    h', if_true]
  rw [stepA_yield_none c ev _ rfl]
  exact pop_post c ev hpost _ fs d ds (diag A) k0 hlen hd (Or.inr ⟨rfl, rfl⟩)

theorem refNode_dir_post (hpost : c.depthFirst = true) (rp : List Name) (d : Nat) (nm : Name) (l r : Bool) (a : α)
    (kids : List (Node α)) (A : Acc σ) (k : Acc σ → Res σ) :
    andThen (refNode c ev rp d (.dir nm l r a kids) A) k =
      andThen (belowRef c ev rp d ((!l || c.follows d) && decide (d < c.maxDepth)) r kids A)
        (fun A' => evalAt c ev (mkVisit c rp d (.dir nm l r a kids)) A' k k) := by
  rw [refNode]
  simp only [hpost, if_true]
  show andThen (let r' := belowRef c ev rp d ((!l || c.follows d) && decide (d < c.maxDepth)) r kids A
                if r'.1 then r' else
                  let v := visit c ev rp d (.dir nm l r a kids) r'.2
                  (v.2.1, v.2.2)) k = _
  generalize belowRef c ev rp d ((!l || c.follows d) && decide (d < c.maxDepth)) r kids A = r'
  obtain ⟨q, A'⟩ := r'
  cases q
  · simp only [Bool.false_eq_true, if_false]
    rw [andThen_visit]
    simp [andThen]
  · simp [andThen]

theorem below_post (hpost : c.depthFirst = true) (rp : List Name) (readable : Bool) (kids : List (Node α))
    (fs : List (Frame α)) (d : Ent α) (ds : List (Ent α)) (A : Acc σ) (k0 : Acc σ → Res σ)
    (hlen : fs.length = ds.length) (hd : d.depth = fs.length)
    (hk : ∀ A, fs.length + 1 ≤ c.maxDepth →
      loopA c ev ⟨none, ⟨rp, kids, false⟩ :: fs, d :: ds⟩ A =
        andThen (refKids c ev rp (fs.length + 1) kids A)
          (fun A' => evalAt c ev (visitOf c d) A' k0 (loopA c ev ⟨none, fs, ds⟩))) :
    loopA c ev ⟨none, frameOf rp readable kids :: fs, d :: ds⟩ A =
      andThen (belowRef c ev rp fs.length (decide (fs.length < c.maxDepth)) readable kids A)
        (fun A' => evalAt c ev (visitOf c d) A' k0 (loopA c ev ⟨none, fs, ds⟩)) := by
  unfold belowRef
  by_cases hm : fs.length < c.maxDepth
  · simp only [hm, decide_true, if_true]
    cases readable with
    | true => simpa [frameOf] using hk A (by omega)
    | false =>
      simp only [frameOf, Bool.false_eq_true, if_false]
      rw [pop_err_post c ev hpost rp fs d ds A k0 hlen hd (by omega)]
      simp [andThen]
  · simp only [hm, decide_false, Bool.false_eq_true, if_false]
    rw [pop_post c ev hpost _ fs d ds A k0 hlen hd (Or.inl (by omega))]
    simp [andThen]

/-- the one configuration in which walkdir alone loses post-order: a starting point that is a link
    to a directory, followed only because it is a starting point (-H) -/
def HRootLink (n : Node α) : Prop :=
  c.follow = .roots ∧ ∃ nm r a kids, n = .dir nm true r a kids

mutual
theorem node_post (hpost : c.depthFirst = true) (n : Node α) (rp : List Name)
    (fs : List (Frame α)) (ds : List (Ent α)) (A : Acc σ) (hlen : fs.length = ds.length)
    (hmax : fs.length ≤ c.maxDepth) :
    stepA c ev (handleEntry (optsOf c) ⟨none, fs, ds⟩ rp fs.length n) A =
      andThen (refNode c ev rp fs.length n A) (loopA c ev ⟨none, fs, ds⟩) := by
  match n with
  | .leaf nm k a =>
    simp only [handleEntry, optsOf_fl, optsOf_fr]
    have hfc : c.follow = .never ∨ c.follow = .roots ∨ c.follow = .always := by cases c.follow <;> simp
    cases k <;> rcases hfc with hf | hf | hf <;> cases hD : (fs.length == 0) <;>
      simp only [hf, hD, LeafKind.isLink, Bool.and_false, Bool.false_and, Bool.and_true, Bool.true_and,
        Bool.false_eq_true, if_false, if_true, beq_self_eq_true, bne_self_eq_false, reduceCtorEq,
        show (Follow.never == Follow.always) = false from rfl, show (Follow.roots == Follow.always) = false from rfl,
        show (Follow.always == Follow.always) = true from rfl, show (Follow.never != Follow.never) = false from rfl,
        show (Follow.roots != Follow.never) = true from rfl, show (Follow.always != Follow.never) = true from rfl,
        show (LeafKind.plain == LeafKind.linkDangling) = false from rfl,
        show (LeafKind.plain == LeafKind.linkLoop) = false from rfl,
        show (LeafKind.linkFile == LeafKind.linkDangling) = false from rfl,
        show (LeafKind.linkFile == LeafKind.linkLoop) = false from rfl,
        show (LeafKind.linkDangling == LeafKind.linkDangling) = true from rfl,
        show (LeafKind.linkDangling == LeafKind.linkLoop) = false from rfl,
        show (LeafKind.linkLoop == LeafKind.linkDangling) = false from rfl,
        show (LeafKind.linkLoop == LeafKind.linkLoop) = true from rfl,
        show ((0 : Nat) == 0) = true from rfl] <;>
      first
      | exact leaf_loop c ev rp fs.length nm _ a _ A _ hmax (by simp [follows_iff, hf, hD])
      | (refine (stepA_entry2 c ev _ _ _ _ _ A).trans ?_
         refine Eq.trans ?_ (leaf_eval c ev rp fs.length nm _ a (Or.inl hpost) _ A (loopA c ev (skipCurrent ⟨none, fs, ds⟩)) (by simp [follows_iff, hf, hD]))
         congr 1 <;> simp [mkVisit, hf, hD, LeafKind.isLink, follows_iff])
      | (rw [stepA_visit c ev _ _ rfl]
         refine Eq.trans ?_ (leaf_eval c ev rp fs.length nm _ a (Or.inl hpost) _ A (loopA c ev (skipCurrent ⟨none, fs, ds⟩)) (by simp [follows_iff, hf, hD]))
         congr 1 <;> simp [mkVisit, toVisit, hf, hD, LeafKind.isLink, follows_iff])
  | .dir nm l r a kids =>
    rw [refNode_dir_post c ev hpost]
    simp only [handleEntry, optsOf_cf, hpost, optsOf_fl, optsOf_fr, if_true]
    by_cases hn : (!l || c.follow == .always) = true
    · simp only [hn, if_true]
      have hf : (!l || c.follows fs.length) = true := by
        rw [follows_iff]; cases l <;> simp_all
      simp only [hf, Bool.true_and]
      have hv : visitOf c (⟨rp, fs.length, .dir nm l r a kids, l⟩ : Ent α) = mkVisit c rp fs.length (.dir nm l r a kids) := by
        simp only [mkVisit, visitOf]
        cases l <;> simp_all
      rw [← hv, stepA_cont]
      have hk := fun A' h => kids_post hpost kids rp fs ⟨rp, fs.length, .dir nm l r a kids, l⟩ ds A' hlen rfl h
      exact below_post c ev hpost rp r kids fs _ ds A _ hlen rfl hk
    · have hl : l = true := by cases l <;> simp_all
      have hna : (c.follow == .always) = false := by cases l <;> simp_all
      subst hl
      simp only [hna, Bool.not_true, Bool.false_or, Bool.false_eq_true, if_false]
      have hv : (⟨⟨rp, fs.length, .dir nm true r a kids, false⟩, fs.length == 0 && c.follow != .never, c.follow⟩ : Visit α)
          = mkVisit c rp fs.length (.dir nm true r a kids) := by
        simp [mkVisit, hna]
      by_cases hD' : (fs.length == 0 && c.follow != .never) = true
      · -- a starting point that is a link to a directory under -H: pushed and deferred like a directory
        have hf : c.follows fs.length = true := by rw [follows_iff]; simp [hD']
        simp only [hD', if_true, hf, Bool.not_true, Bool.false_or, Bool.true_and]
        have hv' : visitOf c (⟨rp, fs.length, .dir nm true r a kids, false⟩ : Ent α) = mkVisit c rp fs.length (.dir nm true r a kids) := by
          simp only [mkVisit, visitOf, hna, Bool.and_false]
        rw [← hv', stepA_cont]
        have hk := fun A' h => kids_post hpost kids rp fs ⟨rp, fs.length, .dir nm true r a kids, false⟩ ds A' hlen rfl h
        exact below_post c ev hpost rp r kids fs _ ds A _ hlen rfl hk
      have hD : (fs.length == 0 && c.follow != .never) = false := by simpa using hD'
      have hf : c.follows fs.length = false := by rw [follows_iff]; simp [hna, hD]
      simp only [hD, Bool.false_eq_true, if_false]
      refine (stepA_entry2 c ev _ _ _ _ _ A).trans ?_
      rw [hv]
      simp only [hf, Bool.not_true, Bool.or_false, Bool.false_and]
      rw [evalAt_post c ev hpost _ A _ (loopA c ev ⟨none, fs, ds⟩)]
      simp [belowRef, andThen]
theorem kids_post (hpost : c.depthFirst = true) (kids : List (Node α)) (rp : List Name)
    (fs : List (Frame α)) (d : Ent α) (ds : List (Ent α)) (A : Acc σ) (hlen : fs.length = ds.length)
    (hd : d.depth = fs.length) (hmax : fs.length + 1 ≤ c.maxDepth) :
    loopA c ev ⟨none, ⟨rp, kids, false⟩ :: fs, d :: ds⟩ A =
      andThen (refKids c ev rp (fs.length + 1) kids A)
        (fun A' => evalAt c ev (visitOf c d) A' (loopA c ev ⟨none, fs, ds⟩) (loopA c ev ⟨none, fs, ds⟩)) := by
  match kids with
  | [] =>
    rw [pop_post c ev hpost _ fs d ds A (loopA c ev ⟨none, fs, ds⟩) hlen hd (Or.inr ⟨rfl, rfl⟩)]
    simp [refKids, andThen]
  | n :: ns =>
    rw [loopA_eq]
    have hnl : ¬ (fs.length + 1 < ds.length + 1) := by omega
    have h' : ¬ (fs.length + 1 > c.maxDepth) := by omega
    simp only [step, optsOf_cf, hpost, Bool.true_and, List.length_cons, decide_eq_true_eq, hnl, if_false, optsOf_max,
      h', Bool.false_eq_true]
    have := node_post hpost n (n.name :: rp) (⟨rp, ns, false⟩ :: fs) (d :: ds) A (by simp [hlen])
      (by simpa using hmax)
    simp only [List.length_cons] at this
    rw [this, refKids]
    unfold andThen
    split
    · rfl
    · exact kids_post hpost ns rp fs d ds _ hlen hd hmax
end

/-- Post-order: the same, for every starting point (since `process_dir` walks `LINK/` for a link to
    a directory under -H, that configuration is no exception any more). -/
theorem processRoot_postAny (hpost : c.depthFirst = true) (root : Node α) (acc : σ) :
    processRoot c ev root acc =
      (let r := refRoot c ev root ⟨acc, 0, 0⟩
       resOf r.1 r.2) := by
  show loopA c ev (MState.init root) ⟨acc, 0, 0⟩ = _
  rw [loopA_eq]
  have := node_post c ev hpost root [] [] [] ⟨acc, 0, 0⟩ rfl (Nat.zero_le _)
  simp only [List.length_nil] at this
  simp only [step, MState.init]
  rw [this, refRoot]
  unfold andThen
  split
  · simp_all
  · rw [loopA_nil_post c ev _ hpost]
    simp_all

/-- (the form with the former exception as an unused hypothesis, kept for its callers) -/
theorem processRoot_post (hpost : c.depthFirst = true) (root : Node α) (_hH : ¬ HRootLink c root) (acc : σ) :
    processRoot c ev root acc =
      (let r := refRoot c ev root ⟨acc, 0, 0⟩
       resOf r.1 r.2) :=
  processRoot_postAny c ev hpost root acc

end
end FuModel.Find.Walk
