import FuModel.Proofs.ExecWalk

/-!
# `-exec … ;` over a whole starting point (C09)

For an arbitrary expression whose only command-running primary is one `-exec`/`-execdir CMD ARGS ;`
the commands started during the walk of a starting point are what had been started before followed
by a subsequence, in visit order, of "the command of this entry" over the entries of the starting
point: at most one run per entry, each with the argument vector and the working directory of that
entry, none for an entry that is not visited, none reordered.
-/
namespace FuModel.Find.Run
open FuModel.Find.Walk FuModel.Find.Expr

section once
variable (dir : Bool) (cmd : Bytes) (tmpl : List Bytes) (start : Bytes)

/-- the expression's only command-running primary is the `;` action under study -/
def SoleOnce (p : Prim) : Prop := quiet p = true ∨ p = .exec dir true cmd tmpl

/-- the command of one entry -/
def eventOf (v : Visit Attr) : ExecEvent :=
  ⟨cmd :: tmpl.map (substArg (execPath dir (pathOf start v.ent.rpath))), execCwd dir (pathOf start v.ent.rpath)⟩

def TO (e : ExecEvent) (a b : ES) (n : Nat) : Prop :=
  ∃ L, b.gs.execs = a.gs.execs ++ L ∧ L.Sublist (List.replicate n e)

theorem sem_TO (v : Visit Attr) (p : Prim) (hp : SoleOnce dir cmd tmpl p) (s : ES) :
    TO (eventOf dir cmd tmpl start v) s (sem start v p s).2 (wT p) := by
  rcases hp with hq | rfl
  · exact ⟨[], by simp [(sem_quiet start v p hq s).1], by simp⟩
  · refine ⟨[eventOf dir cmd tmpl start v], ?_, by simp [wT, quiet]⟩
    simp only [sem, GS.spawn, if_true, eventOf]
    split <;> rfl

theorem eval_TO (m : M Prim) (hall : m.AllP (SoleOnce dir cmd tmpl)) (v : Visit Attr) (s : ES) :
    TO (eventOf dir cmd tmpl start v) s (M.eval (sem start v) (·.quit) m s).2 (m.weight wT) :=
  relW_M (sem start v) (·.quit) (SoleOnce dir cmd tmpl) wT (TO (eventOf dir cmd tmpl start v))
    (fun s => ⟨[], by simp, by simp⟩)
    (fun a b c n1 n2 h1 h2 => by
      obtain ⟨L1, e1, s1⟩ := h1
      obtain ⟨L2, e2, s2⟩ := h2
      refine ⟨L1 ++ L2, by rw [e2, e1, List.append_assoc], ?_⟩
      rw [← List.replicate_append_replicate]
      exact List.Sublist.append s1 s2)
    (fun a b n n' h hle => by
      obtain ⟨L, e, s⟩ := h
      exact ⟨L, e, s.trans (List.replicate_sublist_replicate _ |>.mpr hle)⟩)
    (fun p hp s => sem_TO dir cmd tmpl start v p hp s) m hall s

mutual
theorem multis_once (m : M Prim) (hall : m.AllP (SoleOnce dir cmd tmpl)) : M.multis m = [] := by
  match m with
  | .prim p =>
    simp only [M.AllP] at hall
    rcases hall with hq | rfl
    · cases p <;> simp [quiet] at hq <;> simp [M.multis]
    · simp [M.multis]
  | .not m => simpa [M.multis] using multis_once m (by simpa [M.AllP] using hall)
  | .and ms => simpa [M.multis] using multis_once_go ms (by simpa [M.AllP] using hall)
  | .or ms => simpa [M.multis] using multis_once_go ms (by simpa [M.AllP] using hall)
  | .list ms => simpa [M.multis] using multis_once_go ms (by simpa [M.AllP] using hall)
theorem multis_once_go (ms : List (M Prim)) (hall : M.AllP.AllPs (SoleOnce dir cmd tmpl) ms) : M.multis.go ms = [] := by
  match ms with
  | [] => simp [M.multis.go]
  | m :: ms =>
    simp only [M.AllP.AllPs] at hall
    simp [M.multis.go, multis_once m hall.1, multis_once_go ms hall.2]
end

def TWO (a b : GS) (l : List (Visit Attr)) : Prop :=
  ∃ L, b.execs = a.execs ++ L ∧ L.Sublist (l.map (eventOf dir cmd tmpl start))

theorem evalEntry_TWO (m : M Prim) (hall : m.AllP (SoleOnce dir cmd tmpl)) (hone : m.weight wT ≤ 1)
    (v : Visit Attr) (g : GS) : TWO dir cmd tmpl start g (evalEntry m start v g).2 [v] := by
  have hm := multis_once dir cmd tmpl m hall
  have hpre : ∀ (g1 : GS) (ex : Nat), g1.execs = g.execs →
      TWO dir cmd tmpl start g (M.eval (sem start v) (·.quit) m ⟨g1, false, false, ex⟩).2.gs [v] := by
    intro g1 ex hk
    obtain ⟨L, e, s⟩ := eval_TO dir cmd tmpl start m hall v ⟨g1, false, false, ex⟩
    refine ⟨L, by rw [e]; simp only; rw [hk], s.trans ?_⟩
    simp only [List.map_cons, List.map_nil]
    exact (List.replicate_sublist_replicate _ |>.mpr hone).trans (by simp)
  unfold evalEntry
  simp only [hm, flushMultis]
  split
  · cases hc : g.curDir <;> exact hpre _ _ rfl
  · exact hpre _ _ rfl

theorem finishDir_once (m : M Prim) (hall : m.AllP (SoleOnce dir cmd tmpl)) (g : GS) :
    (finishDir m g).1.execs = g.execs := by
  have hm := multis_once dir cmd tmpl m hall
  unfold finishDir
  simp only [hm, flushMultis, flushAll]
  cases g.curDir <;> rfl

/-- **A whole starting point** for `-exec CMD ARGS ;` -/
theorem whole_walk_once (c : Config) (m : M Prim) (root : Node Attr) (g : GS)
    (hall : m.AllP (SoleOnce dir cmd tmpl)) (hone : m.weight wT ≤ 1)
    (hwalk : ((refCfg c).depthFirst = false ∧ PruneOkN (refCfg c) (evalEntry m start) [] 0 (if c.sorted then sortNode root else root)) ∨
             (refCfg c).depthFirst = true) :
    let n := if c.sorted then sortNode root else root
    ∃ L, (processDir c m start (some root) g).gs.execs = g.execs ++ L ∧
      L.Sublist ((visitsN (refCfg c) [] 0 n).map (eventOf dir cmd tmpl start)) := by
  intro n
  have hroot : processRoot (refCfg c) (evalEntry m start) n { g with curDir := none } =
      (let q := refRoot (refCfg c) (evalEntry m start) n ⟨{ g with curDir := none }, 0, 0⟩; resOf q.1 q.2) := by
    rcases hwalk with ⟨h1, h2⟩ | h1
    · exact processRoot_preN (refCfg c) (evalEntry m start) h1 n h2 _
    · exact processRoot_postAny (refCfg c) (evalEntry m start) h1 n _
  have hsub := refNode_sub (refCfg c) (evalEntry m start) (TWO dir cmd tmpl start)
    (fun s => ⟨[], by simp, by simp⟩)
    (fun a b cc l1 l2 h1 h2 => by
      obtain ⟨L1, e1, s1⟩ := h1
      obtain ⟨L2, e2, s2⟩ := h2
      refine ⟨L1 ++ L2, by rw [e2, e1, List.append_assoc], ?_⟩
      rw [List.map_append]
      exact List.Sublist.append s1 s2)
    (fun a b l l' h hs => by
      obtain ⟨L, e, s⟩ := h
      exact ⟨L, e, s.trans (hs.map _)⟩)
    (fun v s => evalEntry_TWO dir cmd tmpl start m hall hone v s) [] 0 n ⟨{ g with curDir := none }, 0, 0⟩
  obtain ⟨L, hL, hs⟩ := hsub
  refine ⟨L, ?_, hs⟩
  show (processDir c m start (some root) g).gs.execs = _
  unfold processDir
  simp only
  rw [show (if c.sorted then sortNode root else root) = n from rfl, hroot]
  simp only [resOf, refRoot]
  rw [finishDir_once dir cmd tmpl m hall, hL]

end once
end FuModel.Find.Run
