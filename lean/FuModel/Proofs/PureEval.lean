import FuModel.Proofs.OutWalk
import FuModel.Proofs.ExecWalk

/-!
# Expressions built from tests only are pure: no effect on the state, a truth value that does not
# depend on it — and the end-to-end output theorems hold for them as for a single test
-/
namespace FuModel.Find.Expr
variable {P σ : Type}

section pure
variable (sem : P → σ → Bool × σ) (quit : σ → Bool) (q : P → Prop)
  (hq : ∀ p, q p → ∀ s s', (sem p s).2 = s ∧ (sem p s).1 = (sem p s').1)
include hq
set_option linter.unusedSectionVars false

mutual
theorem pure_M (m : M P) (hall : m.AllP q) (s s' : σ) (h : quit s = false) (h' : quit s' = false) :
    (M.eval sem quit m s).2 = s ∧ (M.eval sem quit m s).1 = (M.eval sem quit m s').1 := by
  match m with
  | .prim p => simpa [M.eval] using hq p (by simpa [M.AllP] using hall) s s'
  | .not m =>
    have := pure_M m (by simpa [M.AllP] using hall) s s' h h'
    simp [M.eval, this.1, this.2]
  | .and ms => simpa [M.eval] using pure_and ms (by simpa [M.AllP] using hall) s s' h h'
  | .or ms => simpa [M.eval] using pure_or ms (by simpa [M.AllP] using hall) s s' h h'
  | .list ms => simpa [M.eval] using pure_list ms (by simpa [M.AllP] using hall) false s s' h h'
theorem pure_and (ms : List (M P)) (hall : M.AllP.AllPs q ms) (s s' : σ) (h : quit s = false) (h' : quit s' = false) :
    (evalAnd sem quit ms s).2 = s ∧ (evalAnd sem quit ms s).1 = (evalAnd sem quit ms s').1 := by
  match ms with
  | [] => simp [evalAnd]
  | m :: ms =>
    simp only [M.AllP.AllPs] at hall
    have h1 := pure_M m hall.1 s s' h h'
    have h1' := pure_M m hall.1 s' s h' h
    have h2 := pure_and ms hall.2 s s' h h'
    simp only [evalAnd, h1.1, h1'.1, h, h', ← h1.2]
    cases (M.eval sem quit m s).1 <;> simp [h2.1, h2.2]
theorem pure_or (ms : List (M P)) (hall : M.AllP.AllPs q ms) (s s' : σ) (h : quit s = false) (h' : quit s' = false) :
    (evalOr sem quit ms s).2 = s ∧ (evalOr sem quit ms s).1 = (evalOr sem quit ms s').1 := by
  match ms with
  | [] => simp [evalOr]
  | m :: ms =>
    simp only [M.AllP.AllPs] at hall
    have h1 := pure_M m hall.1 s s' h h'
    have h1' := pure_M m hall.1 s' s h' h
    have h2 := pure_or ms hall.2 s s' h h'
    simp only [evalOr, h1.1, h1'.1, h, h', ← h1.2]
    cases (M.eval sem quit m s).1 <;> simp [h2.1, h2.2]
theorem pure_list (ms : List (M P)) (hall : M.AllP.AllPs q ms) (rc : Bool) (s s' : σ) (h : quit s = false) (h' : quit s' = false) :
    (evalList sem quit ms rc s).2 = s ∧ (evalList sem quit ms rc s).1 = (evalList sem quit ms rc s').1 := by
  match ms with
  | [] => simp [evalList]
  | m :: ms =>
    simp only [M.AllP.AllPs] at hall
    have h1 := pure_M m hall.1 s s' h h'
    have h1' := pure_M m hall.1 s' s h' h
    simp only [evalList, h1.1, h1'.1, h, h', Bool.false_eq_true, if_false]
    rw [← h1.2]
    exact pure_list ms hall.2 _ s s' h h'
end
end pure
end FuModel.Find.Expr

namespace FuModel.Find.Run
open FuModel.Find.Walk FuModel.Find.Expr

/-- an expression of tests -/
def TestsOnly (m : M Prim) : Prop := m.AllP (fun p => isTestP p = true)

theorem test_pure (start : Bytes) (v : Visit Attr) (p : Prim) (hp : isTestP p = true) (s s' : ES) :
    (sem start v p s).2 = s ∧ (sem start v p s).1 = (sem start v p s').1 := by
  have h1 := sem_testP start v p hp s
  have h2 := sem_testP start v p hp s'
  rw [h1, h2]
  exact ⟨rfl, rfl⟩

/-- the truth of an expression of tests on an entry -/
def truthM (start : Bytes) (v : Visit Attr) (mt : M Prim) : Bool :=
  (M.eval (sem start v) (·.quit) mt es0).1

theorem eval_tests (start : Bytes) (v : Visit Attr) (mt : M Prim) (ht : TestsOnly mt) (s : ES) (hs : s.quit = false) :
    M.eval (sem start v) (·.quit) mt s = (truthM start v mt, s) := by
  have := pure_M (sem start v) (·.quit) (fun p => isTestP p = true)
    (fun p hp s s' => test_pure start v p hp s s') mt ht s es0 hs rfl
  apply Prod.ext
  · exact this.2
  · exact this.1

mutual
theorem multis_tests (m : M Prim) (h : TestsOnly m) : M.multis m = [] := by
  match m with
  | .prim p =>
    have : isTestP p = true := by simpa [TestsOnly, M.AllP] using h
    cases p <;> simp [isTestP] at this <;> rfl
  | .not m => simpa [M.multis] using multis_tests m (by simpa [TestsOnly, M.AllP] using h)
  | .and ms => simpa [M.multis] using multis_tests_go ms (by simpa [TestsOnly, M.AllP] using h)
  | .or ms => simpa [M.multis] using multis_tests_go ms (by simpa [TestsOnly, M.AllP] using h)
  | .list ms => simpa [M.multis] using multis_tests_go ms (by simpa [TestsOnly, M.AllP] using h)
theorem multis_tests_go (ms : List (M Prim)) (h : M.AllP.AllPs (fun p => isTestP p = true) ms) : M.multis.go ms = [] := by
  match ms with
  | [] => simp [M.multis.go]
  | m :: ms =>
    simp only [M.AllP.AllPs] at h
    simp [M.multis.go, multis_tests m h.1, multis_tests_go ms h.2]
end

/-- what one entry contributes to the output of `EXPR ACTION` -/
def writtenM (start : Bytes) (mt : M Prim) (a : Prim) (v : Visit Attr) : Bytes :=
  if truthM start v mt then (outOf start v a).getD [] else []

theorem multis_exprOut (mt : M Prim) (ht : TestsOnly mt) (a : Prim) (ha : isOutP a = true) :
    M.multis (.and [mt, .prim a]) = [] := by
  have h1 := multis_tests mt ht
  have h2 : M.multis (.prim a) = [] := by cases a <;> simp [isOutP] at ha <;> rfl
  simp [M.multis, M.multis.go, h1, h2]

theorem evalEntry_outM (start : Bytes) (mt : M Prim) (ht : TestsOnly mt) (a : Prim) (ha : isOutP a = true)
    (v : Visit Attr) (g : GS) :
    let r := evalEntry (.and [mt, .prim a]) start v g
    r.1.prune = false ∧ r.1.quit = false ∧ r.2.out = g.out ++ writtenM start mt a v := by
  have hm := multis_exprOut mt ht a ha
  unfold evalEntry
  simp only [hm, flushMultis]
  have key : ∀ (g1 : GS) (ex : Nat), g1.out = g.out →
      let q := M.eval (sem start v) (·.quit) (.and [mt, .prim a]) ⟨g1, false, false, ex⟩
      q.2.prune = false ∧ q.2.quit = false ∧ q.2.gs.out = g.out ++ writtenM start mt a v := by
    intro g1 ex hg
    have hs := eval_tests start v mt ht ⟨g1, false, false, ex⟩ rfl
    simp only [M.eval, evalAnd]
    simp only [hs]
    unfold writtenM
    cases hb : truthM start v mt
    · simp [hg]
    · simp [sem_outP start v a ha, hg]
  split
  · cases hc : g.curDir <;> exact key _ _ rfl
  · exact key _ _ rfl

theorem finishDir_outM (mt : M Prim) (ht : TestsOnly mt) (a : Prim) (ha : isOutP a = true) (g : GS) :
    (finishDir (.and [mt, .prim a]) g).1.out = g.out := by
  have hm := multis_exprOut mt ht a ha
  unfold finishDir
  simp only [hm, flushMultis, flushAll]
  cases g.curDir <;> rfl

theorem processDir_outM (c : Config) (mt : M Prim) (ht : TestsOnly mt) (a : Prim) (ha : isOutP a = true)
    (start : Bytes) (root : Node Attr) (g : GS) :
    let n := if c.sorted then sortNode root else root
    let r := processDir c (.and [mt, .prim a]) start (some root) g
    r.gs.out = g.out ++ (visitsN (refCfg c) [] 0 n).flatMap (writtenM start mt a) ∧ r.quit = false := by
  intro n
  let m : M Prim := .and [mt, .prim a]
  have hev := fun v s => evalEntry_outM start mt ht a ha v s
  have hroot : processRoot (refCfg c) (evalEntry m start) n { g with curDir := none } =
      (let q := refRoot (refCfg c) (evalEntry m start) n ⟨{ g with curDir := none }, 0, 0⟩; resOf q.1 q.2) := by
    cases hdf : (refCfg c).depthFirst
    · refine processRoot_pre (refCfg c) (evalEntry m start) hdf ?_ n _
      intro v s hp
      rw [(hev v s).1] at hp; cases hp
    · exact processRoot_postAny (refCfg c) (evalEntry m start) hdf n _
  have hex := refNode_exact (refCfg c) (evalEntry m start) GS.out (writtenM start mt a) hev [] 0 n
    ⟨{ g with curDir := none }, 0, 0⟩
  show (processDir c m start (some root) g).gs.out = _ ∧ (processDir c m start (some root) g).quit = false
  unfold processDir
  simp only
  rw [show (if c.sorted then sortNode root else root) = n from rfl, hroot]
  simp only [resOf, refRoot]
  exact ⟨by rw [finishDir_outM mt ht a ha, hex.2], hex.1⟩

def writtenRootM (c : Config) (mt : M Prim) (a : Prim) (x : Bytes × Option (Node Attr)) : Bytes :=
  match x.2 with
  | none => []
  | some r => (visitsN (refCfg c) [] 0 (if c.sorted then sortNode r else r)).flatMap (writtenM x.1 mt a)

theorem doFind_outM (c : Config) (mt : M Prim) (ht : TestsOnly mt) (a : Prim) (ha : isOutP a = true)
    (roots : List (Bytes × Option (Node Attr))) :
    ∀ (g : GS) (ret diags : Nat),
      let res := doFind c (.and [mt, .prim a]) roots g ret diags
      res.gs.out = g.out ++ roots.flatMap (writtenRootM c mt a) ∧
      ((ret ≠ 0 ∨ ∃ x ∈ roots, x.2 = none) → res.ret ≠ 0) := by
  induction roots with
  | nil => intro g ret diags; simp [doFind]
  | cons x xs ih =>
    intro g ret diags
    obtain ⟨start, root⟩ := x
    have ih' := ih
    simp only [doFind]
    cases root with
    | none =>
      have h1 : (processDir c (.and [mt, .prim a]) start none g).gs.out = g.out := by
        simp only [processDir]; exact finishDir_outM mt ht a ha _
      have h2 : (processDir c (.and [mt, .prim a]) start none g).quit = false := rfl
      have h3 : (processDir c (.and [mt, .prim a]) start none g).ret = 1 := rfl
      simp only [h2, Bool.false_eq_true, if_false]
      have := ih' (processDir c (.and [mt, .prim a]) start none g).gs
        (if (processDir c (.and [mt, .prim a]) start none g).ret != 0 then
          (processDir c (.and [mt, .prim a]) start none g).ret else ret)
        (diags + (processDir c (.and [mt, .prim a]) start none g).diags)
      refine ⟨by rw [this.1, h1]; simp [writtenRootM], fun _ => this.2 (Or.inl ?_)⟩
      simp [h3]
    | some r =>
      obtain ⟨ho, hq⟩ := processDir_outM c mt ht a ha start r g
      simp only [hq, Bool.false_eq_true, if_false]
      have := ih' (processDir c (.and [mt, .prim a]) start (some r) g).gs
        (if (processDir c (.and [mt, .prim a]) start (some r) g).ret != 0 then
          (processDir c (.and [mt, .prim a]) start (some r) g).ret else ret)
        (diags + (processDir c (.and [mt, .prim a]) start (some r) g).diags)
      refine ⟨by rw [this.1, ho]; simp [writtenRootM, List.append_assoc], fun h => this.2 ?_⟩
      rcases h with h | ⟨y, hy, hn⟩
      · left
        split
        · rename_i hne; simpa using hne
        · exact h
      · simp only [List.mem_cons] at hy
        rcases hy with rfl | hy
        · cases hn
        · exact Or.inr ⟨y, hy, hn⟩

theorem isAction_test (p : Prim) (hp : isTestP p = true) : Prim.isAction p = false := by
  cases p <;> simp [isTestP] at hp <;> rfl

mutual
theorem hasSE_tests (m : M Prim) (h : TestsOnly m) : m.hasSE Prim.isAction = false := by
  match m with
  | .prim p => simpa [M.hasSE] using isAction_test p (by simpa [TestsOnly, M.AllP] using h)
  | .not m => simpa [M.hasSE] using hasSE_tests m (by simpa [TestsOnly, M.AllP] using h)
  | .and ms => simpa [M.hasSE] using hasSEs_tests ms (by simpa [TestsOnly, M.AllP] using h)
  | .or ms => simpa [M.hasSE] using hasSEs_tests ms (by simpa [TestsOnly, M.AllP] using h)
  | .list ms => simpa [M.hasSE] using hasSEs_tests ms (by simpa [TestsOnly, M.AllP] using h)
theorem hasSEs_tests (ms : List (M Prim)) (h : M.AllP.AllPs (fun p => isTestP p = true) ms) :
    M.hasSE.hasSEs Prim.isAction ms = false := by
  match ms with
  | [] => simp [M.hasSE.hasSEs]
  | m :: ms =>
    simp only [M.AllP.AllPs] at h
    simp [M.hasSE.hasSEs, hasSE_tests m h.1, hasSEs_tests ms h.2]
end

theorem foldl_tok (c : Config) (toks : List (Tok Prim)) : (toks.map Arg.tok).foldl applyArg c = c := by
  induction toks generalizing c with
  | nil => rfl
  | cons t ts ih => simpa [applyArg] using ih c

/-- **`find [-P|-H|-L] S1 S2 … EXPR`** where `EXPR` is any well-formed expression made of tests only
    (`-name … -o ! -type d`, parentheses, commas — no action, no option): the whole run of the model,
    with no hypothesis on the trees.  The tree builder yields the tree `mt` the grammar prescribes
    (C01/C11), the default `-print` is added (C01), and the output is the concatenation, in
    command-line order of the starting points and visit order inside each, of `path ++ "\n"` for the
    reachable entries on which the expression is true; a starting point that cannot be examined
    contributes nothing and makes the status non-zero. -/
theorem whole_run_tests (follow : Follow) (toks : List (Tok Prim)) (mt : M Prim)
    (hb : buildTree toks = .ok mt) (ht : TestsOnly mt)
    (roots : List (Bytes × Option (Node Attr))) (g0 : GS) :
    ∃ res, run follow roots (toks.map Arg.tok) g0 = some res ∧
      res.gs.out = g0.out ++ roots.flatMap (writtenRootM { follow := follow } mt (.pathOut [] [10])) ∧
      ((∃ x ∈ roots, x.2 = none) → res.ret ≠ 0) := by
  have hbt : buildTop Prim.isAction (.pathOut [] [10]) toks = .ok (.and [mt, .prim (.pathOut [] [10])]) := by
    simp [buildTop, hb, hasSE_tests mt ht]
  refine ⟨doFind { follow := follow } (.and [mt, .prim (.pathOut [] [10])]) roots g0 0 0, ?_, ?_⟩
  · have hmap : (toks.map Arg.tok).map Arg.tok' = toks := by
      rw [List.map_map]; conv => rhs; rw [← List.map_id toks]
      rfl
    simp only [run, foldl_tok, hmap, hbt, Bool.false_eq_true, if_false]
  · have h := doFind_outM { follow := follow } mt ht (.pathOut [] [10]) rfl roots g0 0 0
    exact ⟨h.1, fun hx => h.2 (Or.inr hx)⟩

end FuModel.Find.Run
