import FuModel.Find.Run
import FuModel.Proofs.ExprEval
import FuModel.Props.C18
import FuModel.Props.C02
import FuModel.Proofs.WalkPreserve

/-!
# C10 — -delete removes exactly the matched entries and nothing else

Model: `Find/Run.lean`, primary `.delete` (`DeleteMatcher`): the set of removed paths is part of
the run's state; a real directory can be removed only if all its entries have been removed before
it (which post-order makes possible: C03), anything else — symbolic links included, whatever they
resolve to — is unlinked itself.  That -delete is evaluated exactly on the entries for which the
tests before it are true, in post-order, is C01 + C03 for this primary.
-/
namespace FuModel.Find.Run
open FuModel.Find.Walk FuModel.Find.Expr

/-- `-delete` forces post-order while the expression is parsed. -/
theorem C10_implies_depth (c : Config) : (applyArg c .delete).depthFirst = true := rfl

/-- when the removal succeeds -/
def removable (v : Visit Attr) (path : Bytes) (g : GS) : Bool :=
  !g.deleted.contains path &&
  (match v.ent.node with
   | .dir _ false _ _ kids => kids.all fun k => g.deleted.contains (pushName path k.name)
   | _ => true)

theorem sem_delete_eq (start : Bytes) (v : Visit Attr) (s : ES) :
    sem start v .delete s =
      (if pathOf start v.ent.rpath == [46] then (true, s)
       else if removable v (pathOf start v.ent.rpath) s.gs then
         (true, { s with gs := { s.gs with deleted := s.gs.deleted ++ [pathOf start v.ent.rpath] } })
       else (false, { s with exit := 1, gs := { s.gs with mdiags := s.gs.mdiags + 1 } })) := rfl

/-- One evaluation of `-delete`: the starting point `.` is skipped (true); otherwise, if the entry
    can be removed, exactly its own path joins the removed set and the action is true; if not, the
    action is false, find's exit code becomes 1, one diagnostic is counted and nothing is removed.
    In every case nothing else of the state changes and the walk is not stopped. -/
theorem C10_delete_step (start : Bytes) (v : Visit Attr) (s : ES) :
    let path := pathOf start v.ent.rpath
    let r := sem start v .delete s
    (path = [46] → r = (true, s)) ∧
    (path ≠ [46] → removable v path s.gs = true →
        r = (true, { s with gs := { s.gs with deleted := s.gs.deleted ++ [path] } })) ∧
    (path ≠ [46] → removable v path s.gs = false →
        r = (false, { s with exit := 1, gs := { s.gs with mdiags := s.gs.mdiags + 1 } })) ∧
    r.2.quit = s.quit ∧ r.2.prune = s.prune ∧ r.2.gs.out = s.gs.out := by
  intro path r
  simp only [r, path, sem_delete_eq]
  by_cases hp : pathOf start v.ent.rpath = [46]
  · simp [hp]
  · have hp' : (pathOf start v.ent.rpath == [46]) = false := by simpa using hp
    simp only [hp', Bool.false_eq_true, if_false]
    cases hr : removable v (pathOf start v.ent.rpath) s.gs <;> simp [hp]

/-- A symbolic link — also one that resolves to a directory, followed or not — and every other
    non-directory is removed itself, whatever it points to and whatever has been removed before
    (unless the same path was already removed). -/
theorem C10_links_removed_themselves (v : Visit Attr) (path : Bytes) (g : GS)
    (h : ∀ nm r a kids, v.ent.node ≠ .dir nm false r a kids) (hn : g.deleted.contains path = false) :
    removable v path g = true := by
  unfold removable
  rw [hn]
  cases hnode : v.ent.node with
  | leaf nm k a => rfl
  | dir nm l r a kids =>
    cases l
    · exact absurd hnode (h nm r a kids)
    · rfl


/-- A real directory goes only when every one of its entries has been removed before it. -/
theorem C10_dir_only_when_empty (v : Visit Attr) (path : Bytes) (g : GS) (nm : Name) (r : Bool) (a : Attr)
    (kids : List (Node Attr)) (hd : v.ent.node = .dir nm false r a kids) :
    removable v path g = true ↔
      g.deleted.contains path = false ∧ ∀ k ∈ kids, g.deleted.contains (pushName path k.name) = true := by
  unfold removable
  simp only [hd, Bool.and_eq_true, Bool.not_eq_true', List.all_eq_true]

theorem spawn_deleted (g : GS) (ok : Bool) (argv : List Bytes) (cwd : Option Bytes) :
    (g.spawn ok argv cwd).2.deleted = g.deleted := by
  unfold GS.spawn; split
  · split <;> rfl
  · rfl

theorem setPending_deleted (g : GS) (id : Nat) (b : Option Batch) : (setPending g id b).deleted = g.deleted := rfl

theorem runBatch_deleted (g : GS) (ok : Bool) (cmd : Bytes) (fixed : List Bytes) (b : Batch) (cwd : Option Bytes) :
    (runBatch g ok cmd fixed b cwd).1.deleted = g.deleted := by
  simp [runBatch, spawn_deleted]

/-- what one primary does to the removed set: nothing, or (`-delete`) the entry's own path is appended -/
theorem sem_deleted (start : Bytes) (v : Visit Attr) (p : Prim) (s : ES) :
    (sem start v p s).2.gs.deleted = s.gs.deleted ∨
    (sem start v p s).2.gs.deleted = s.gs.deleted ++ [pathOf start v.ent.rpath] := by
  cases p with
  | delete =>
    rw [sem_delete_eq]
    split
    · exact Or.inl rfl
    · split
      · exact Or.inr rfl
      · exact Or.inl rfl
  | exec dir ok cmd tmpl => left; simp [sem, spawn_deleted]
  | execMulti id dir ok cmd fixed =>
    left
    simp only [sem]
    split
    · rfl
    · split
      · rfl
      · split
        · simp [setPending_deleted]
        · split
          · simp [runBatch_deleted]
          · split <;> simp [setPending_deleted, runBatch_deleted]
  | prune => left; simp only [sem]; split <;> rfl
  | _ => left; rfl

/-- No primary other than `-delete` removes anything, and `-delete` removes nothing but the entry
    it is evaluated on: after evaluating a whole expression on an entry, every removed path was
    removed before or is that entry's own path — which starts with its starting point (C18), so
    nothing outside the starting points is touched, and a link's target never is. -/
theorem C10_only_this_entry (m : M Prim) (start : Bytes) (v : Visit Attr) (s : ES) :
    ∀ x ∈ (M.eval (sem start v) (·.quit) m s).2.gs.deleted,
      x ∈ s.gs.deleted ∨ x = pathOf start v.ent.rpath := by
  let R : ES → ES → Prop := fun a b => ∀ x ∈ b.gs.deleted, x ∈ a.gs.deleted ∨ x = pathOf start v.ent.rpath
  exact rel_M (sem start v) (·.quit) R (fun s x hx => Or.inl hx)
    (fun a b c hab hbc x hx => by
      rcases hbc x hx with h | h
      · exact hab x h
      · exact Or.inr h)
    (fun p s x hx => by
      rcases sem_deleted start v p s with h | h
      · rw [h] at hx; exact Or.inl hx
      · rw [h] at hx
        rcases List.mem_append.mp hx with hx | hx
        · exact Or.inl hx
        · simp at hx; exact Or.inr hx)
    m s

example :
    let v : Visit Attr := ⟨⟨[[98]], 1, .dir [98] false true { lty := 'd', sty := 'd' } [.leaf [99] .plain { lty := 'f', sty := 'f' }], false⟩, false, .never⟩
    (sem [116] v .delete ⟨{}, false, false, 0⟩).1 = false ∧
    (sem [116] v .delete ⟨{ deleted := [[116, 47, 98, 47, 99]] }, false, false, 0⟩).1 = true := by decide

theorem flushMultis_deleted (execdir : Bool) (d : Bytes) (ms : List (Nat × Bool × Bool × Bytes × List Bytes)) :
    ∀ (g : GS) (failed : Bool), (flushMultis execdir d ms g failed).1.deleted = g.deleted := by
  induction ms with
  | nil => intro g failed; rfl
  | cons m ms ih =>
    intro g failed
    obtain ⟨id, dir, ok, cmd, fixed⟩ := m
    simp only [flushMultis]
    split
    · split
      · rw [ih]; simp [setPending_deleted, runBatch_deleted]
      · exact ih _ _
    · exact ih _ _

/-- one entry, with `process_dir`'s bookkeeping around the expression: every path in the removed
    set afterwards was there before or is this entry's own path -/
theorem evalEntry_deleted (m : M Prim) (start : Bytes) (v : Visit Attr) (g : GS) :
    ∀ x ∈ (evalEntry m start v g).2.deleted, x ∈ g.deleted ∨ x = pathOf start v.ent.rpath := by
  intro x hx
  unfold evalEntry at hx
  simp only at hx
  split at hx
  · rename_i hne
    have := C10_only_this_entry m start v ⟨_, false, false, _⟩ x hx
    rcases this with h | h
    · left
      simp only at h
      cases hc : g.curDir with
      | none => simpa [hc] using h
      | some dd => simpa [hc, flushMultis_deleted] using h
    · exact Or.inr h
  · have := C10_only_this_entry m start v ⟨_, false, false, _⟩ x hx
    rcases this with h | h
    · exact Or.inl h
    · exact Or.inr h

/-- **Over a whole starting point** (the real walk, post-order as `-delete` forces it): whatever the
    expression and the tree, every path removed during the walk is the path of an entry of this
    starting point — `start` followed by names — or was removed before.  Nothing outside the
    starting points is ever removed, and a link's target never is (its path is not below `start`). -/
theorem C10_whole_walk (c : RefCfg) (m : M Prim) (start : Bytes) (root : Node Attr) (g : GS)
    (hpost : c.depthFirst = true) :
    ∀ x ∈ (processRoot c (evalEntry m start) root g).st.deleted, x ∈ g.deleted ∨ ∃ rp, x = pathOf start rp := by
  rw [processRoot_postAny c (evalEntry m start) hpost root g]
  simp only [resOf]
  let Q : GS → GS → Prop := fun a b => ∀ x ∈ b.deleted, x ∈ a.deleted ∨ ∃ rp, x = pathOf start rp
  have := refNode_preserves c (evalEntry m start) Q (fun s x hx => Or.inl hx)
    (fun a b cc hab hbc x hx => by
      rcases hbc x hx with h | h
      · exact hab x h
      · exact Or.inr h)
    (fun v s x hx => by
      rcases evalEntry_deleted m start v s x hx with h | h
      · exact Or.inl h
      · exact Or.inr ⟨_, h⟩)
    [] 0 root ⟨g, 0, 0⟩
  exact this


end FuModel.Find.Run
