import FuModel.Proofs.ExecWalk

/-!
# Expressions without `-prune` satisfy the pre-order hypothesis of the whole-walk theorems
-/
namespace FuModel.Find.Run
open FuModel.Find.Walk FuModel.Find.Expr

def notPrune : Prim → Bool
  | .prune => false
  | _ => true

theorem sem_keeps_prune (start : Bytes) (v : Visit Attr) (p : Prim) (hp : notPrune p = true) (s : ES) :
    (sem start v p s).2.prune = s.prune := by
  cases p with
  | prune => simp [notPrune] at hp
  | delete => simp only [sem]; split; rfl; split <;> (split <;> rfl)
  | exec dir ok cmd tmpl => rfl
  | execMulti id dir ok cmd fixed =>
    simp only [sem]
    split
    · rfl
    · split
      · rfl
      · split
        · rfl
        · split
          · rfl
          · split <;> rfl
  | _ => rfl

theorem eval_keeps_prune (m : M Prim) (hall : m.AllP (fun p => notPrune p = true)) (start : Bytes) (v : Visit Attr) (s : ES) :
    (M.eval (sem start v) (·.quit) m s).2.prune = s.prune :=
  relW_M (sem start v) (·.quit) (fun p => notPrune p = true) (fun _ => 0) (fun a b _ => b.prune = a.prune)
    (fun _ => rfl) (fun _ _ _ _ _ h1 h2 => h2.trans h1) (fun _ _ _ _ h _ => h)
    (fun p hp s => sem_keeps_prune start v p hp s) m hall s

/-- an expression without `-prune` never marks an entry: the pre-order hypothesis `PruneOk` of the
    refinement (and of the whole-walk theorems) holds for it, whatever the tree -/
theorem pruneOk_of_noPrune (c : RefCfg) (m : M Prim) (hall : m.AllP (fun p => notPrune p = true)) (start : Bytes) :
    PruneOk c (evalEntry m start) := by
  intro v s hp
  exfalso
  have : (evalEntry m start v s).1.prune = false := by
    unfold evalEntry
    simp only
    split
    · cases hc : s.curDir <;> simp [eval_keeps_prune m hall]
    · simp [eval_keeps_prune m hall]
  rw [this] at hp
  cases hp

end FuModel.Find.Run
