import FuModel.Proofs.WalkExact
import FuModel.Proofs.ExprEval
import FuModel.Find.Run

/-!
# `find S1 S2 … TEST ACTION` for the output actions, end to end (C07, C16, C18 with C02/C03)

`ACTION` is one of the actions that only write: `-print`, `-print0` (`.pathOut`), a literal
`-printf` text (`.lit`) or a `-printf` format (`.printf`); `TEST` any primary that only looks at the
entry.  Over the real walk (walkdir's iterator under `process_dir`, then `do_find`'s loop over the
starting points) the bytes written are exactly, in command-line order of the starting points and in
visit order inside each, what the action writes for the in-range reachable entries that satisfy the
test.
-/
namespace FuModel.Find.Run
open FuModel.Find.Walk FuModel.Find.Expr

/-- the tests: primaries that only look at the entry -/
def isTestP : Prim → Bool
  | .true_ | .false_ | .opt | .name _ | .typeIs _ | .xtype _ | .perm _ _ | .statCmp _ _ | .empty
  | .samefile _ _ | .lname _ | .regex _ _ => true
  | _ => false

/-- the actions that only write, with what they write for an entry -/
def outOf (start : Bytes) (v : Visit Attr) : Prim → Option Bytes
  | .pathOut pre term => some (pre ++ FuModel.Utf8.lossy (pathOf start v.ent.rpath) ++ term)
  | .lit b => some b
  | .printf comps _ => some (PrintfR.render start v comps)
  | _ => none

def isOutP : Prim → Bool
  | .pathOut _ _ | .lit _ | .printf _ _ => true
  | _ => false

def es0 : ES := ⟨{}, false, false, 0⟩

theorem sem_testP (start : Bytes) (v : Visit Attr) (t : Prim) (ht : isTestP t = true) (s : ES) :
    sem start v t s = ((sem start v t es0).1, s) := by
  cases t <;> simp [isTestP] at ht <;> rfl

theorem sem_outP (start : Bytes) (v : Visit Attr) (a : Prim) (ha : isOutP a = true) (s : ES) :
    sem start v a s = (true, { s with gs := { s.gs with out := s.gs.out ++ ((outOf start v a).getD []) } }) := by
  cases a <;> simp [isOutP] at ha <;> simp [sem, outOf, List.append_assoc]

theorem multis_testOut (t a : Prim) (ht : isTestP t = true) (ha : isOutP a = true) :
    M.multis (.and [.prim t, .prim a]) = [] := by
  cases t <;> simp [isTestP] at ht <;> cases a <;> simp [isOutP] at ha <;> rfl

/-- what one entry contributes to the output -/
def written (start : Bytes) (t a : Prim) (v : Visit Attr) : Bytes :=
  if (sem start v t es0).1 then (outOf start v a).getD [] else []

theorem evalEntry_out (start : Bytes) (t a : Prim) (ht : isTestP t = true) (ha : isOutP a = true) (v : Visit Attr) (g : GS) :
    let r := evalEntry (.and [.prim t, .prim a]) start v g
    r.1.prune = false ∧ r.1.quit = false ∧ r.2.out = g.out ++ written start t a v := by
  have hm := multis_testOut t a ht ha
  unfold evalEntry
  simp only [hm, flushMultis]
  have key : ∀ (g1 : GS) (ex : Nat), g1.out = g.out →
      let q := M.eval (sem start v) (·.quit) (.and [.prim t, .prim a]) ⟨g1, false, false, ex⟩
      q.2.prune = false ∧ q.2.quit = false ∧ q.2.gs.out = g.out ++ written start t a v := by
    intro g1 ex hg
    have hs := sem_testP start v t ht ⟨g1, false, false, ex⟩
    simp only [M.eval, evalAnd]
    simp only [hs]
    unfold written
    cases hb : (sem start v t es0).1
    · simp [hg]
    · simp [sem_outP start v a ha, hg, evalAnd]
  split
  · cases hc : g.curDir <;> exact key _ _ rfl
  · exact key _ _ rfl

theorem finishDir_out (t a : Prim) (ht : isTestP t = true) (ha : isOutP a = true) (g : GS) :
    (finishDir (.and [.prim t, .prim a]) g).1.out = g.out := by
  have hm := multis_testOut t a ht ha
  unfold finishDir
  simp only [hm, flushMultis, flushAll]
  cases g.curDir <;> rfl

/-- one starting point -/
theorem processDir_out (c : Config) (t a : Prim) (ht : isTestP t = true) (ha : isOutP a = true)
    (start : Bytes) (root : Node Attr) (g : GS) :
    let n := if c.sorted then sortNode root else root
    let r := processDir c (.and [.prim t, .prim a]) start (some root) g
    r.gs.out = g.out ++ (visitsN (refCfg c) [] 0 n).flatMap (written start t a) ∧ r.quit = false := by
  intro n
  let m : M Prim := .and [.prim t, .prim a]
  have hev := fun v s => evalEntry_out start t a ht ha v s
  have hroot : processRoot (refCfg c) (evalEntry m start) n { g with curDir := none } =
      (let q := refRoot (refCfg c) (evalEntry m start) n ⟨{ g with curDir := none }, 0, 0⟩; resOf q.1 q.2) := by
    cases hdf : (refCfg c).depthFirst
    · refine processRoot_pre (refCfg c) (evalEntry m start) hdf ?_ n _
      intro v s hp
      rw [(hev v s).1] at hp; cases hp
    · exact processRoot_postAny (refCfg c) (evalEntry m start) hdf n _
  have hex := refNode_exact (refCfg c) (evalEntry m start) GS.out (written start t a) hev [] 0 n
    ⟨{ g with curDir := none }, 0, 0⟩
  show (processDir c m start (some root) g).gs.out = _ ∧ (processDir c m start (some root) g).quit = false
  unfold processDir
  simp only
  rw [show (if c.sorted then sortNode root else root) = n from rfl, hroot]
  simp only [resOf, refRoot]
  exact ⟨by rw [finishDir_out t a ht ha, hex.2], hex.1⟩

/-- what one starting point contributes -/
def writtenRoot (c : Config) (t a : Prim) (x : Bytes × Option (Node Attr)) : Bytes :=
  match x.2 with
  | none => []
  | some r => (visitsN (refCfg c) [] 0 (if c.sorted then sortNode r else r)).flatMap (written x.1 t a)

/-- **All starting points, in the order given, isolated on error.** -/
theorem doFind_out (c : Config) (t a : Prim) (ht : isTestP t = true) (ha : isOutP a = true)
    (roots : List (Bytes × Option (Node Attr))) :
    ∀ (g : GS) (ret diags : Nat),
      let res := doFind c (.and [.prim t, .prim a]) roots g ret diags
      res.gs.out = g.out ++ roots.flatMap (writtenRoot c t a) ∧
      ((ret ≠ 0 ∨ ∃ x ∈ roots, x.2 = none) → res.ret ≠ 0) := by
  induction roots with
  | nil => intro g ret diags; simp [doFind]
  | cons x xs ih =>
    intro g ret diags
    obtain ⟨start, root⟩ := x
    have ih' := ih
    simp only [doFind]
    cases root with
    | none =>
      have h1 : (processDir c (.and [.prim t, .prim a]) start none g).gs.out = g.out := by
        simp only [processDir]; exact finishDir_out t a ht ha _
      have h2 : (processDir c (.and [.prim t, .prim a]) start none g).quit = false := rfl
      have h3 : (processDir c (.and [.prim t, .prim a]) start none g).ret = 1 := rfl
      simp only [h2, Bool.false_eq_true, if_false]
      have := ih' (processDir c (.and [.prim t, .prim a]) start none g).gs
        (if (processDir c (.and [.prim t, .prim a]) start none g).ret != 0 then
          (processDir c (.and [.prim t, .prim a]) start none g).ret else ret)
        (diags + (processDir c (.and [.prim t, .prim a]) start none g).diags)
      refine ⟨by rw [this.1, h1]; simp [writtenRoot], fun _ => this.2 (Or.inl ?_)⟩
      simp [h3]
    | some r =>
      obtain ⟨ho, hq⟩ := processDir_out c t a ht ha start r g
      simp only [hq, Bool.false_eq_true, if_false]
      have := ih' (processDir c (.and [.prim t, .prim a]) start (some r) g).gs
        (if (processDir c (.and [.prim t, .prim a]) start (some r) g).ret != 0 then
          (processDir c (.and [.prim t, .prim a]) start (some r) g).ret else ret)
        (diags + (processDir c (.and [.prim t, .prim a]) start (some r) g).diags)
      refine ⟨by rw [this.1, ho]; simp [writtenRoot, List.append_assoc], fun h => this.2 ?_⟩
      rcases h with h | ⟨y, hy, hn⟩
      · left
        split
        · rename_i hne; simpa using hne
        · exact h
      · simp only [List.mem_cons] at hy
        rcases hy with rfl | hy
        · cases hn
        · exact Or.inr ⟨y, hy, hn⟩

end FuModel.Find.Run
