import FuModel.Proofs.GlobComplete

/-!
# The translation of bracket-free patterns is the fnmatch specification (C12)

For patterns that contain no `[` the item list built by `glob_to_regex` is, item by item, the one
the specification parses (`?` → any character, `*` → any string, `\c` → the character `c`, a lone
trailing backslash → never matches, anything else → itself), and the languages coincide.  With
`C12_mechanism_exact` this gives: for such patterns the case-sensitive tests are *exactly* fnmatch.
-/
namespace FuModel.Find.Glob
open FuModel.Spec.Fnmatch

def tr : Item → SItem
  | .lit c => .lit c
  | .any => .any
  | .star => .star
  | .set neg _ _ => .set neg []

def noSet : Item → Bool
  | .set _ _ _ => false
  | _ => true

theorem accepts_tr (it : Item) (h : noSet it = true) (c : Char) : (tr it).accepts false c = it.accepts false c := by
  cases it <;> simp [noSet] at h <;> simp [tr, SItem.accepts, Item.accepts]

theorem denot_tr (is : List Item) (h : ∀ it ∈ is, noSet it = true) :
    ∀ s, specMatch false (is.map tr) s = denot false is s := by
  induction is with
  | nil => intro s; simp [specMatch, denot]
  | cons it r ih =>
    intro s
    have hr := ih (fun x hx => h x (by simp [hx]))
    have hit := h it (by simp)
    cases it with
    | star => simp only [List.map_cons, tr, specMatch, denot, hr]
    | set neg ms raw => simp [noSet] at hit
    | lit c =>
      cases s with
      | nil => simp [tr, specMatch, denot]
      | cons x xs => simp only [List.map_cons, tr, specMatch, denot, hr]; simp [SItem.accepts, Item.accepts]
    | any =>
      cases s with
      | nil => simp [tr, specMatch, denot]
      | cons x xs => simp only [List.map_cons, tr, specMatch, denot, hr]; simp [SItem.accepts, Item.accepts]

/-- the two parsers agree on patterns without `[` -/
theorem parse_agree : ∀ (fuel : Nat) (p : List Char), p.length < fuel → (∀ c ∈ p, c ≠ '[') →
    (globItems fuel p = .never ∧ specParse fuel p = none) ∨
    ∃ is, globItems fuel p = .ok is ∧ specParse fuel p = some (is.map tr, false) ∧ ∀ it ∈ is, noSet it = true := by
  intro fuel
  induction fuel with
  | zero => intro p h; omega
  | succ fuel ih =>
    intro p hl hb
    cases p with
    | nil => right; exact ⟨[], by simp [globItems], by simp [specParse], by simp⟩
    | cons c cs =>
      have hcs : ∀ x ∈ cs, x ≠ '[' := fun x hx => hb x (by simp [hx])
      have hc : c ≠ '[' := hb c (by simp)
      have hl' : cs.length < fuel := by simp at hl; omega
      by_cases h1 : c = '?'
      · subst h1
        rcases ih cs hl' hcs with ⟨g1, g2⟩ | ⟨is, g1, g2, g3⟩
        · left; simp [globItems, specParse, g1, g2]
        · right
          refine ⟨.any :: is, by simp [globItems, g1], by simp [specParse, g2, tr], ?_⟩
          intro i hi
          simp only [List.mem_cons] at hi
          rcases hi with rfl | hi
          · rfl
          · exact g3 i hi
      · by_cases h2 : c = '*'
        · subst h2
          rcases ih cs hl' hcs with ⟨g1, g2⟩ | ⟨is, g1, g2, g3⟩
          · left; simp [globItems, specParse, g1, g2]
          · right
            refine ⟨.star :: is, by simp [globItems, g1], by simp [specParse, g2, tr], ?_⟩
            intro i hi
            simp only [List.mem_cons] at hi
            rcases hi with rfl | hi
            · rfl
            · exact g3 i hi
        · by_cases h3 : c = '\\'
          · subst h3
            cases cs with
            | nil => left; simp [globItems, specParse]
            | cons d ds =>
              have hds : ∀ x ∈ ds, x ≠ '[' := fun x hx => hcs x (by simp [hx])
              have hdl : ds.length < fuel := by simp at hl'; omega
              rcases ih ds hdl hds with ⟨g1, g2⟩ | ⟨is, g1, g2, g3⟩
              · left; simp [globItems, specParse, g1, g2]
              · right
                refine ⟨.lit d :: is, by simp [globItems, g1], by simp [specParse, g2, tr], ?_⟩
                intro i hi
                simp only [List.mem_cons] at hi
                rcases hi with rfl | hi
                · rfl
                · exact g3 i hi
          · have h4 : (c == '[') = false := by simpa using hc
            have h1' : (c == '?') = false := by simpa using h1
            have h2' : (c == '*') = false := by simpa using h2
            have h3' : (c == '\\') = false := by simpa using h3
            rcases ih cs hl' hcs with ⟨g1, g2⟩ | ⟨is, g1, g2, g3⟩
            · left; simp [globItems, specParse, g1, g2, h1', h2', h3', h4]
            · right
              refine ⟨.lit c :: is, by simp [globItems, g1, h1', h2', h3', h4], by simp [specParse, g2, tr, h1', h2', h3', h4], ?_⟩
              intro i hi
              simp only [List.mem_cons] at hi
              rcases hi with rfl | hi
              · rfl
              · exact g3 i hi

/-- **For patterns without bracket expressions the case-sensitive glob tests are exactly fnmatch.** -/
theorem glob_bracket_free_is_fnmatch (p s : List Char) (hb : ∀ c ∈ p, c ≠ '[') :
    (match globMatches false p s with | .ok b => some b | _ => none) = fnmatch false p s := by
  unfold globMatches items fnmatch
  rcases parse_agree (p.length + 1) p (by omega) hb with ⟨h1, h2⟩ | ⟨is, h1, h2, h3⟩
  · simp [h1, h2]
  · simp only [h1, h2, Bool.false_eq_true, if_false]
    congr 1
    rw [denot_tr is h3 s]
    have := matchesItems_iff false is s
    cases hm : matchesItems false is s <;> cases hd : denot false is s <;> simp_all

end FuModel.Find.Glob
