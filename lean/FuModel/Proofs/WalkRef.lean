import FuModel.Proofs.Walk

/-! Properties of the reference traversal itself. -/
namespace FuModel.Find.Walk
variable {α σ : Type} (c : RefCfg) (ev : Visit α → σ → EvalOut × σ)

/-- nothing is evaluated when the depth range is empty -/
theorem visit_empty_range (h : c.minDepth > c.maxDepth) (rp : List Name) (d : Nat) (n : Node α) (A : Acc σ) :
    visit c ev rp d n A = (false, false, A) := by
  have : inRange c d = false := by
    simp only [inRange, Bool.and_eq_false_iff, decide_eq_false_iff_not]; omega
  simp [visit, this]

mutual
theorem refNode_empty_range (h : c.minDepth > c.maxDepth) (rp : List Name) (d : Nat) (n : Node α) (A : Acc σ) :
    (refNode c ev rp d n A).1 = false ∧ (refNode c ev rp d n A).2.st = A.st := by
  match n with
  | .leaf nm k a =>
    rw [refNode]
    split
    · split <;> simp [diag]
    · simp [visit_empty_range c ev h]
  | .dir nm l r a kids =>
    rw [refNode]
    simp only [visit_empty_range c ev h]
    have hk := fun A' => refKids_empty_range h rp (d + 1) kids A'
    cases c.depthFirst
    · simp only [Bool.false_eq_true, if_false]
      split
      · split
        · exact hk A
        · simp [diag]
      · simp
    · simp only [if_true]
      split
      · split
        · have := hk A
          simp [this.1, this.2]
        · simp [diag]
      · simp
theorem refKids_empty_range (h : c.minDepth > c.maxDepth) (rp : List Name) (d : Nat) (kids : List (Node α)) (A : Acc σ) :
    (refKids c ev rp d kids A).1 = false ∧ (refKids c ev rp d kids A).2.st = A.st := by
  match kids with
  | [] => simp [refKids]
  | n :: ns =>
    rw [refKids]
    have h1 := refNode_empty_range h (n.name :: rp) d n A
    simp only [h1.1, Bool.false_eq_true, if_false]
    have h2 := refKids_empty_range h rp d ns (refNode c ev (n.name :: rp) d n A).2
    exact ⟨h2.1, h2.2.trans h1.2⟩
end

/-- in post-order the prune mark of the evaluator is irrelevant -/
def clearPrune (ev : Visit α → σ → EvalOut × σ) : Visit α → σ → EvalOut × σ :=
  fun v s => ({ (ev v s).1 with prune := false }, (ev v s).2)

theorem visit_clearPrune (rp : List Name) (d : Nat) (n : Node α) (A : Acc σ) :
    (visit c (clearPrune ev) rp d n A).2 = (visit c ev rp d n A).2 := by
  unfold visit clearPrune
  split <;> rfl

mutual
theorem refNode_prune_noop (hpost : c.depthFirst = true) (rp : List Name) (d : Nat) (n : Node α) (A : Acc σ) :
    refNode c (clearPrune ev) rp d n A = refNode c ev rp d n A := by
  match n with
  | .leaf nm k a =>
    rw [refNode, refNode]
    split
    · rfl
    · simp only [visit_clearPrune]
  | .dir nm l r a kids =>
    rw [refNode, refNode]
    simp only [hpost, if_true]
    have hk := fun A' => refKids_prune_noop hpost rp (d + 1) kids A'
    simp only [hk, visit_clearPrune]
theorem refKids_prune_noop (hpost : c.depthFirst = true) (rp : List Name) (d : Nat) (kids : List (Node α)) (A : Acc σ) :
    refKids c (clearPrune ev) rp d kids A = refKids c ev rp d kids A := by
  match kids with
  | [] => simp [refKids]
  | n :: ns =>
    rw [refKids, refKids, refNode_prune_noop hpost (n.name :: rp) d n A]
    split
    · rfl
    · exact refKids_prune_noop hpost rp d ns _
end

end FuModel.Find.Walk
