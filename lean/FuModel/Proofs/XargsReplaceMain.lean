import FuModel.Proofs.XargsExec

/-!
# Replace mode at the level of the whole run: the re-check of the substituted command
-/
namespace FuModel.Xargs

/-- what passes the chain stays within `-s` -/
theorem initState_s (lim : Limits) (st init : LState) (cmd : List (List UInt8)) (s : Nat) (hs : lim.s = some s)
    (h : initState lim st cmd = some init) (h0 : st.sizeS ≤ s) :
    init.sizeS = st.sizeS + (cmd.map (fun a => cost a)).sum ∧ init.sizeS ≤ s := by
  induction cmd generalizing st with
  | nil => simp [initState] at h; subst h; simpa using h0
  | cons c cs ih =>
    simp only [initState] at h
    cases htry : tryArg lim st ⟨c, .initial⟩ with
    | error e => rw [htry] at h; simp at h
    | ok st' =>
      rw [htry] at h
      obtain ⟨hacc, hst'⟩ := (tryArg_ok_iff lim st st' ⟨c, .initial⟩).mp htry
      have hS : st'.sizeS = st.sizeS + cost c := by rw [hst']; rfl
      have hle : st'.sizeS ≤ s := by rw [hS]; exact hacc.2.2.1 s hs
      have ⟨h1, h2⟩ := ih st' h hle
      refine ⟨?_, h2⟩
      simp only [List.map_cons, List.sum_cons]
      rw [h1, hS]; omega


/-- In replace mode every command `xargs_main` starts has passed the limiter chain afresh after
    substitution (`execute`'s re-check, `substFits`) - the run is cut before the first one that
    does not - under limits with the system budget, pointer charge and per-argument cap of
    `new_system`. -/
theorem main_replace_fits (opts : List Opt) (cmd : List (List UInt8)) (input : List UInt8)
    (script : List Outcome) (sys : Nat) (R : List UInt8) (hR : (normalize opts).replace = some R) :
    ∃ lim : Limits, lim.sys = sys ∧ lim.ptr = 8 ∧ lim.maxArg = 131072 ∧ lim.s = sOptOf opts ∧
      ∀ av ∈ (xargsMain opts cmd input script sys).argvs,
        ∃ b, av = argvOf cmd (some R) b ∧ substFits lim cmd (some R) b = true := by
  unfold xargsMain
  split
  · exact ⟨⟨none, none, sOptOf opts, sys, 8, 131072⟩, rfl, rfl, rfl, rfl, by simp⟩
  · split
    · exact ⟨⟨none, none, sOptOf opts, sys, 8, 131072⟩, rfl, rfl, rfl, rfl, by simp⟩
    · split
      · exact ⟨⟨none, none, sOptOf opts, sys, 8, 131072⟩, rfl, rfl, rfl, rfl, by simp⟩
      · simp only []
        split
        · exact ⟨⟨none, none, sOptOf opts, sys, 8, 131072⟩, rfl, rfl, rfl, rfl, by simp⟩
        · rename_i init hinit
          simp only [hR]
          generalize hlim : Limits.mk _ _ (sOptOf opts) sys 8 131072 = lim
          refine ⟨lim, by rw [← hlim], by rw [← hlim], by rw [← hlim], by rw [← hlim], ?_⟩
          generalize processInput _ init _ ⟨init, []⟩ false false [] script _ = run
          generalize hfi : List.findIdx? _ run.batches = fi
          intro av hav
          cases fi with
          | none =>
            simp only at hav
            obtain ⟨b, hb, rfl⟩ := List.mem_map.mp hav
            refine ⟨b, rfl, ?_⟩
            have := List.findIdx?_eq_none_iff.mp hfi b hb
            simpa using this
          | some k =>
            simp only at hav
            obtain ⟨b, hb, rfl⟩ := List.mem_map.mp hav
            refine ⟨b, rfl, ?_⟩
            obtain ⟨i, hi, rfl⟩ := List.mem_iff_getElem.mp hb
            have hspec := List.findIdx?_eq_some_iff_getElem.mp hfi
            have hik : i < k := by
              have : i < (List.take k run.batches).length := hi
              rw [List.length_take] at this
              exact Nat.lt_of_lt_of_le this (Nat.min_le_left _ _)
            have := hspec.2.2 i hik
            rw [List.getElem_take]
            simpa using this

end FuModel.Xargs
