import FuModel.Proofs.WalkExact

/-!
# `refNode_exact` under an invariant of the evaluator's state
-/
namespace FuModel.Find.Walk
set_option linter.unusedSectionVars false
set_option linter.unusedSimpArgs false
variable {α σ β : Type}

section exactI
variable (c : RefCfg) (ev : Visit α → σ → EvalOut × σ) (I : σ → Prop) (π : σ → List β) (f : Visit α → List β)
  (hev : ∀ v s, I s → I (ev v s).2 ∧ (ev v s).1.prune = false ∧ (ev v s).1.quit = false ∧ π (ev v s).2 = π s ++ f v)
include hev

theorem visit_exactI (rp : List Name) (d : Nat) (n : Node α) (A : Acc σ) (hI : I A.st) :
    I (visit c ev rp d n A).2.2.st ∧ (visit c ev rp d n A).1 = false ∧ (visit c ev rp d n A).2.1 = false ∧
      π (visit c ev rp d n A).2.2.st = π A.st ++ (selfVisit c rp d n).flatMap f := by
  unfold visit selfVisit
  split
  · have := hev (mkVisit c rp d n) A.st hI
    simp [this.1, this.2.1, this.2.2.1, this.2.2.2]
  · simp [hI]

mutual
theorem refNode_exactI (rp : List Name) (d : Nat) (n : Node α) (A : Acc σ) (hI : I A.st) :
    I (refNode c ev rp d n A).2.st ∧ (refNode c ev rp d n A).1 = false ∧
      π (refNode c ev rp d n A).2.st = π A.st ++ (visitsN c rp d n).flatMap f := by
  match n with
  | .leaf nm k a =>
    rw [refNode, visitsN]
    split
    · split <;> simp [diag, hI]
    · have := visit_exactI c ev I π f hev rp d (.leaf nm k a) A hI
      exact ⟨this.1, this.2.2.1, this.2.2.2⟩
  | .dir nm l r a kids =>
    rw [refNode, visitsN]
    have hk := fun A' h' => refKids_exactI rp (d + 1) kids A' h'
    have hv := fun A' h' => visit_exactI c ev I π f hev rp d (.dir nm l r a kids) A' h'
    have hvA := hv A hI
    have hvD := hv (diag A) hI
    have hkA := hk A hI
    have hkV := hk (visit c ev rp d (.dir nm l r a kids) A).2.2 hvA.1
    have hvK := hv (refKids c ev rp (d + 1) kids A).2 hkA.1
    cases hdesc : ((!l || c.follows d) && decide (d < c.maxDepth)) <;> cases r <;> cases c.depthFirst <;>
      simp only [Bool.false_eq_true, if_false, if_true, List.append_nil, List.nil_append, List.flatMap_append,
        hvA.2.1, hvA.2.2.1, hvD.2.1, hvD.2.2.1, hkA.2.1]
    all_goals first
      | exact ⟨hvA.1, trivial, hvA.2.2.2⟩
      | exact ⟨hvA.1, rfl, hvA.2.2.2⟩
      | exact ⟨hvA.1, hvA.2.2.1, hvA.2.2.2⟩
      | exact ⟨hvD.1, hvD.2.2.1, by simpa [diag] using hvD.2.2.2⟩
      | (refine ⟨hkV.1, hkV.2.1, ?_⟩; rw [hkV.2.2, hvA.2.2.2, List.append_assoc])
      | (refine ⟨hvK.1, hvK.2.2.1, ?_⟩; rw [hvK.2.2.2, hkA.2.2, List.append_assoc])
      | (refine ⟨by simpa [diag] using hvA.1, rfl, ?_⟩; simpa [diag] using hvA.2.2.2)
      | (have h := hvD; simp only [diag] at h; exact ⟨h.1, by first | trivial | rfl | exact h.2.2.1, h.2.2.2⟩)
theorem refKids_exactI (rp : List Name) (d : Nat) (kids : List (Node α)) (A : Acc σ) (hI : I A.st) :
    I (refKids c ev rp d kids A).2.st ∧ (refKids c ev rp d kids A).1 = false ∧
      π (refKids c ev rp d kids A).2.st = π A.st ++ (visitsK c rp d kids).flatMap f := by
  match kids with
  | [] => simp [refKids, visitsK, hI]
  | n :: ns =>
    rw [refKids, visitsK]
    have h1 := refNode_exactI (n.name :: rp) d n A hI
    simp only [h1.2.1, Bool.false_eq_true, if_false]
    have h2 := refKids_exactI rp d ns (refNode c ev (n.name :: rp) d n A).2 h1.1
    refine ⟨h2.1, h2.2.1, ?_⟩
    rw [h2.2.2, h1.2.2, List.flatMap_append, List.append_assoc]
end
end exactI

end FuModel.Find.Walk
