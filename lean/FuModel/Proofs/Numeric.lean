import FuModel.Find.Numeric

namespace FuModel.Find

theorem two_pow_pos' (k : Nat) : 0 < 2 ^ k := Nat.pos_of_ne_zero (by simp)

theorem unitSize_eq_ceil (k b : Nat) : unitSize k b = (b + 2 ^ k - 1) / 2 ^ k := by
  have hp := two_pow_pos' k
  unfold unitSize
  split
  · subst b
    rw [Nat.zero_add]
    exact (Nat.div_eq_of_lt (by omega)).symm
  · split
    · subst k; simp
    · rw [Nat.shiftRight_eq_div_pow]
      have : b + 2 ^ k - 1 = (b - 1) + 2 ^ k := by omega
      rw [this, Nat.add_div_right _ hp]

theorem unitSize_iff (k b q : Nat) (hq : 0 < q) :
    unitSize k b = q ↔ (q - 1) * 2 ^ k < b ∧ b ≤ q * 2 ^ k := by
  have hp := two_pow_pos' k
  rw [unitSize_eq_ceil]
  generalize 2 ^ k = P at hp ⊢
  have e : q * P = (q - 1) * P + P := by
    obtain ⟨q', rfl⟩ : ∃ q', q = q' + 1 := ⟨q - 1, by omega⟩
    simp [Nat.add_mul]
  have e' : P * q = q * P := Nat.mul_comm _ _
  generalize hA : (q - 1) * P = A at e ⊢
  constructor
  · intro h
    have h1 := Nat.div_add_mod (b + P - 1) P
    have h2 := Nat.mod_lt (b + P - 1) hp
    rw [h] at h1
    generalize (b + P - 1) % P = r at h1 h2
    omega
  · intro ⟨h1, h2⟩
    apply Nat.div_eq_of_lt_le
    · omega
    · have : (q + 1) * P = q * P + P := by rw [Nat.add_mul]; simp
      rw [this]; omega

theorem unitSize_le (k b : Nat) : unitSize k b ≤ b := by
  unfold unitSize
  by_cases hb : b = 0
  · simp [hb]
  · by_cases hk : k = 0
    · simp [hb, hk]
    · simp only [hb, hk, if_false]
      rw [Nat.shiftRight_eq_div_pow]
      have := Nat.div_le_self (b - 1) (2 ^ k)
      calc (b - 1) / 2 ^ k + 1 ≤ (b - 1) + 1 := Nat.add_le_add_right this 1
        _ = b := by omega

theorem unitSize_eq_zero_iff (k b : Nat) : unitSize k b = 0 ↔ b = 0 := by
  unfold unitSize
  split
  · simp [*]
  · split
    · omega
    · generalize (b - 1) >>> k = d; omega

theorem size_lt_one_iff (k b : Nat) : sizeMatches (.less 1) k b ↔ b = 0 := by
  have := unitSize_eq_zero_iff k b
  simp only [sizeMatches, Cmp.matches, decide_eq_true_eq]
  omega

/-! ### parser characterisation -/

theorem splitSign_chars (s : List Char) : s = (splitSign s).1.chars ++ (splitSign s).2 := by
  unfold splitSign
  split <;> simp [Sign.chars]

theorem splitSign_digit (d : Char) (r : List Char) (h : isAsciiDigit d = true) :
    splitSign (d :: r) = (.none, d :: r) := by
  unfold splitSign
  split
  · rename_i heq; injection heq with h1 _; subst h1; exact absurd h (by decide)
  · rename_i heq; injection heq with h1 _; subst h1; exact absurd h (by decide)
  · rfl

/-- a digit string does not start with a sign -/
theorem splitSign_of_digits (sg : Sign) (ds : List Char) (hne : ds ≠ [])
    (hd : ∀ d, ds.head? = some d → isAsciiDigit d = true) : splitSign (sg.chars ++ ds) = (sg, ds) := by
  cases sg
  · simp [Sign.chars, splitSign]
  · simp [Sign.chars, splitSign]
  · match ds, hne, hd with
    | d :: r, _, hd => simpa [Sign.chars] using splitSign_digit d r (hd d rfl)

theorem head_of_all {p : Char → Bool} {ds : List Char} (hd : ∀ d ∈ ds, p d = true) :
    ∀ d, ds.head? = some d → p d = true := by
  intro d h
  cases ds with
  | nil => cases h
  | cons x xs => simp at h; subst h; exact hd _ (by simp)

theorem all_takeWhile (p : Char → Bool) (l : List Char) : ∀ d ∈ l.takeWhile p, p d = true := by
  induction l with
  | nil => simp
  | cons x xs ih =>
    rw [List.takeWhile_cons]
    split
    · intro d hd
      simp only [List.mem_cons] at hd
      rcases hd with rfl | hd
      · assumption
      · exact ih d hd
    · simp

theorem takeWhile_stop (p : Char → Bool) (ds suf : List Char) (hd : ∀ d ∈ ds, p d = true)
    (hs : ∀ d, suf.head? = some d → p d = false) :
    (ds ++ suf).takeWhile p = ds ∧ (ds ++ suf).dropWhile p = suf := by
  induction ds with
  | nil =>
    cases suf with
    | nil => simp
    | cons x xs => simp [hs x rfl]
  | cons x xs ih =>
    have hx := hd x (by simp)
    have := ih (fun d h => hd d (by simp [h]))
    simp [hx, this]

theorem parseCmp_iff (s : List Char) (c : Cmp) :
    parseCmp s = some c ↔
      ∃ (sg : Sign) (ds : List Char), s = sg.chars ++ ds ∧ ds ≠ [] ∧ (∀ d ∈ ds, isAsciiDigit d = true) ∧
        decVal ds < 2 ^ 64 ∧ c = sg.mk (decVal ds) := by
  constructor
  · intro h
    unfold parseCmp at h
    simp only at h
    split at h
    · rename_i hc
      simp only [Bool.and_eq_true, Bool.not_eq_true', List.isEmpty_eq_false_iff, List.all_eq_true,
        decide_eq_true_eq] at hc
      refine ⟨(splitSign s).1, (splitSign s).2, splitSign_chars s, hc.1.1, hc.1.2, hc.2, ?_⟩
      injection h with h; exact h.symm
    · cases h
  · rintro ⟨sg, ds, rfl, hne, hd, hv, rfl⟩
    unfold parseCmp
    rw [splitSign_of_digits sg ds hne (head_of_all hd)]
    have : ds.isEmpty = false := by simpa using hne
    simp only [this, Bool.not_false, Bool.true_and]
    have h2 : ds.all isAsciiDigit = true := by simpa using hd
    have h3 : decide (decVal ds < u64Bound) = true := decide_eq_true (by simpa [u64Bound] using hv)
    simp [h2, h3]

theorem takeWhile_append_dropWhile' (p : Char → Bool) (l : List Char) :
    l.takeWhile p ++ l.dropWhile p = l := List.takeWhile_append_dropWhile

theorem parseSize_iff (s : List Char) (c : Cmp) (k : Nat) :
    parseSize s = some (c, k) ↔
      ∃ (sg : Sign) (ds suf : List Char), s = sg.chars ++ ds ++ suf ∧ ds ≠ [] ∧ (∀ d ∈ ds, isAsciiDigit d = true) ∧
        (∀ d, suf.head? = some d → isAsciiDigit d = false) ∧
        decVal ds < 2 ^ 64 ∧ c = sg.mk (decVal ds) ∧ unitShift suf = some k := by
  constructor
  · intro h
    unfold parseSize at h
    simp only at h
    split at h
    · rename_i hc
      simp only [Bool.and_eq_true, Bool.not_eq_true', List.isEmpty_eq_false_iff,
        decide_eq_true_eq] at hc
      split at h
      · rename_i k' hk
        injection h with h
        injection h with h1 h2
        subst h2
        refine ⟨(splitSign s).1, (splitSign s).2.takeWhile isAsciiDigit,
          (splitSign s).2.dropWhile isAsciiDigit, ?_, hc.1, ?_, ?_, hc.2, h1.symm, hk⟩
        · rw [List.append_assoc, List.takeWhile_append_dropWhile]; exact splitSign_chars s
        · exact all_takeWhile _ _
        · intro d hd
          have := List.head?_dropWhile_not isAsciiDigit (splitSign s).2
          rw [hd] at this
          exact this
      · cases h
    · cases h
  · rintro ⟨sg, ds, suf, rfl, hne, hd, hs, hv, rfl, hk⟩
    unfold parseSize
    have hsp : splitSign (sg.chars ++ ds ++ suf) = (sg, ds ++ suf) := by
      rw [List.append_assoc]
      apply splitSign_of_digits sg (ds ++ suf) (by simp [hne])
      intro d hd'
      cases ds with
      | nil => exact absurd rfl hne
      | cons x xs => simp at hd'; subst hd'; exact hd _ (by simp)
    obtain ⟨ht, hdw⟩ := takeWhile_stop isAsciiDigit ds suf hd hs
    rw [hsp]
    simp only [ht, hdw, hk]
    have : ds.isEmpty = false := by simpa using hne
    have h3 : decide (decVal ds < u64Bound) = true := decide_eq_true (by simpa [u64Bound] using hv)
    simp [this, h3]

end FuModel.Find
