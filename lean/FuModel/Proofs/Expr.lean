import FuModel.Spec.ExprRef

namespace FuModel.Find.Expr
variable {P : Type}

/-! ### state evolution -/

def pushX (s : St P) (x : X P) : St P :=
  { s with cur := treeF s.inv x :: s.cur, inv := false, pend := false }

def orStep (s : St P) : St P := { s with cur := [], ands := s.cur :: s.ands, pend := true }

def commaStep (s : St P) : St P :=
  { s with cur := [], ands := [], ors := (s.cur :: s.ands) :: s.ors, pend := true }

def stA (s : St P) (g : List (X P)) : St P := g.foldl pushX s

def stO (s : St P) : List (List (X P)) → St P
  | [] => s
  | [g] => stA s g
  | g :: gs => stO (orStep (stA s g)) gs

def stL (s : St P) : List (List (List (X P))) → St P
  | [] => s
  | [o] => stO s o
  | o :: os => stL (commaStep (stO s o)) os

@[simp] theorem renderO_cons2 (g g' : List (X P)) (gs : List (List (X P))) :
    renderO (g :: g' :: gs) = renderA g ++ .or_ :: renderO (g' :: gs) := by rw [renderO]; intro h; cases h
@[simp] theorem renderL_cons2 (o o' : List (List (X P))) (os : List (List (List (X P)))) :
    renderL (o :: o' :: os) = renderO o ++ .comma :: renderL (o' :: os) := by rw [renderL]; intro h; cases h
@[simp] theorem wfO_cons2 (g g' : List (X P)) (gs : List (List (X P))) :
    wfO (g :: g' :: gs) = (wfA g && wfO (g' :: gs)) := by rw [wfO]; intro h; cases h
@[simp] theorem wfL_cons2 (o o' : List (List (X P))) (os : List (List (List (X P)))) :
    wfL (o :: o' :: os) = (wfO o && wfL (o' :: os)) := by rw [wfL]; intro h; cases h
@[simp] theorem stO_cons2 (s : St P) (g g' : List (X P)) (gs : List (List (X P))) :
    stO s (g :: g' :: gs) = stO (orStep (stA s g)) (g' :: gs) := by rw [stO]; intro h; cases h
@[simp] theorem stL_cons2 (s : St P) (o o' : List (List (X P))) (os : List (List (List (X P)))) :
    stL s (o :: o' :: os) = stL (commaStep (stO s o)) (o' :: os) := by rw [stL]; intro h; cases h

/-! ### a rendered expression starts with a primary, `!` or `(` -/

theorem more_F (x : X P) (h : wfF x = true) (rest : List (Tok P)) : moreExprs (renderF x ++ rest) = true := by
  cases x with
  | prim p => simp [renderF, moreExprs]
  | not x => simp [renderF, moreExprs]
  | a x => simp [wfF] at h
  | group l => simp [renderF, moreExprs]

theorem more_A (g : List (X P)) (h : wfA g = true) (rest : List (Tok P)) : moreExprs (renderA g ++ rest) = true := by
  cases g with
  | nil => simp [wfA] at h
  | cons x xs =>
    simp only [wfA, Bool.and_eq_true] at h
    rw [renderA, List.append_assoc]
    exact more_F x h.1 _

theorem wfO_head (g : List (X P)) (gs : List (List (X P))) (h : wfO (g :: gs) = true) : wfA g = true := by
  cases gs with
  | nil => simpa [wfO] using h
  | cons g' gs => simp only [wfO_cons2, Bool.and_eq_true] at h; exact h.1

theorem wfL_head (o : List (List (X P))) (os : List (List (List (X P)))) (h : wfL (o :: os) = true) : wfO o = true := by
  cases os with
  | nil => simpa [wfL] using h
  | cons o' os => simp only [wfL_cons2, Bool.and_eq_true] at h; exact h.1

theorem more_O (o : List (List (X P))) (h : wfO o = true) (rest : List (Tok P)) : moreExprs (renderO o ++ rest) = true := by
  cases o with
  | nil => simp [wfO] at h
  | cons g gs =>
    have hg := wfO_head g gs h
    cases gs with
    | nil => simpa [renderO] using more_A g hg rest
    | cons g' gs => rw [renderO_cons2, List.append_assoc]; exact more_A g hg _

theorem more_L (l : List (List (List (X P)))) (h : wfL l = true) (rest : List (Tok P)) : moreExprs (renderL l ++ rest) = true := by
  cases l with
  | nil => simp [wfL] at h
  | cons o os =>
    have ho := wfL_head o os h
    cases os with
    | nil => simpa [renderL] using more_O o ho rest
    | cons o' os => rw [renderL_cons2, List.append_assoc]; exact more_O o ho _

/-! ### shape of the state after an and-group -/

theorem pushX_cur_ne (s : St P) (x : X P) : (pushX s x).cur ≠ [] := by simp [pushX]
theorem pushX_pend (s : St P) (x : X P) : (pushX s x).pend = false := rfl
theorem pushX_inv (s : St P) (x : X P) : (pushX s x).inv = false := rfl

theorem foldl_pushX_ok (xs : List (X P)) (s : St P) (h1 : s.cur ≠ []) (h2 : s.pend = false) :
    (xs.foldl pushX s).cur ≠ [] ∧ (xs.foldl pushX s).pend = false := by
  induction xs generalizing s with
  | nil => exact ⟨h1, h2⟩
  | cons x xs ih => exact ih _ (pushX_cur_ne s x) rfl

theorem stA_ok (g : List (X P)) (h : wfA g = true) (s : St P) : (stA s g).cur ≠ [] ∧ (stA s g).pend = false := by
  cases g with
  | nil => simp [wfA] at h
  | cons x xs => exact foldl_pushX_ok xs _ (pushX_cur_ne s x) rfl

theorem pushX_a (s : St P) (x : X P) : pushX s (.a x) = pushX s x := by simp [pushX, treeF]

theorem pushX_pend_irrel (s : St P) (x : X P) (b : Bool) : pushX { s with pend := b } x = pushX s x := rfl

theorem stO_ok (o : List (List (X P))) (h : wfO o = true) (s : St P) : (stO s o).cur ≠ [] ∧ (stO s o).pend = false := by
  induction o generalizing s with
  | nil => simp [wfO] at h
  | cons g gs ih =>
    cases gs with
    | nil => simpa [stO] using stA_ok g (by simpa [wfO] using h) s
    | cons g' gs =>
      simp only [wfO_cons2, Bool.and_eq_true] at h
      rw [stO_cons2]
      exact ih h.2 _

/-! ### what the builders produce -/

theorem collapse_two (mk : List (M P) → M P) (ms : List (M P)) (h : 2 ≤ ms.length) : collapse mk ms = mk ms := by
  match ms, h with
  | _ :: _ :: _, _ => rfl

theorem buildAnd_eq (cur : List (M P)) : buildAnd cur = collapse .and cur.reverse := by
  match cur with
  | [] => rfl
  | [m] => rfl
  | a :: b :: t =>
    rw [collapse_two _ _ (by simp)]
    rfl

def GL : List (List (M P)) → M P
  | [] => .and []
  | c :: a => buildOr c a

theorem buildOr_eq (cur : List (M P)) (ands : List (List (M P))) :
    buildOr cur ands = collapse .or ((cur :: ands).reverse.map buildAnd) := by
  cases ands with
  | nil => simp [buildOr, collapse]
  | cons x xs =>
    rw [collapse_two _ _ (by simp)]
    rfl

theorem buildList_eq (cur : List (M P)) (ands : List (List (M P))) (ors : List (List (List (M P)))) :
    buildList cur ands ors = collapse .list (((cur :: ands) :: ors).reverse.map GL) := by
  cases ors with
  | nil => simp [buildList, collapse, GL]
  | cons x xs =>
    rw [collapse_two _ _ (by simp)]
    simp only [buildList]
    congr 1

theorem treesA_eq (g : List (X P)) : treesA g = g.map (treeF false) := by
  induction g with
  | nil => rfl
  | cons x xs ih => simp [treesA, ih]

theorem treesO_eq (o : List (List (X P))) : treesO o = o.map (fun g => collapse .and (treesA g)) := by
  induction o with
  | nil => rfl
  | cons x xs ih => simp [treesO, ih]

theorem treesL_eq (l : List (List (List (X P)))) : treesL l = l.map (fun o => collapse .or (treesO o)) := by
  induction l with
  | nil => rfl
  | cons x xs ih => simp [treesL, ih]

/-- and-group in builder form -/
def fA (g : List (X P)) : List (M P) := (treesA g).reverse
/-- or-group in builder form: newest and-group first -/
def fO (o : List (List (X P))) : List (List (M P)) := (o.map fA).reverse

theorem foldl_pushX_shape (g : List (X P)) (s : St P) (hi : s.inv = false) :
    (g.foldl pushX s).cur = fA g ++ s.cur ∧ (g.foldl pushX s).ands = s.ands ∧
    (g.foldl pushX s).ors = s.ors ∧ (g.foldl pushX s).inv = false := by
  induction g generalizing s with
  | nil => simp [fA, treesA, hi]
  | cons x xs ih =>
    have := ih (pushX s x) rfl
    simp only [List.foldl_cons]
    refine ⟨?_, this.2.1, this.2.2.1, this.2.2.2⟩
    rw [this.1]
    simp [fA, treesA, pushX, hi]

theorem stO_shape (o : List (List (X P))) (h : wfO o = true) (s : St P) (hc : s.cur = []) (hi : s.inv = false) :
    (stO s o).cur :: (stO s o).ands = fO o ++ s.ands ∧ (stO s o).ors = s.ors ∧ (stO s o).inv = false := by
  induction o generalizing s with
  | nil => simp [wfO] at h
  | cons g gs ih =>
    have hs := foldl_pushX_shape g s hi
    cases gs with
    | nil =>
      simp only [stO, stA, fO, List.map_cons, List.map_nil, List.reverse_cons, List.reverse_nil, List.nil_append,
        List.cons_append]
      rw [hs.1, hs.2.1, hc]
      exact ⟨by simp, hs.2.2.1, hs.2.2.2⟩
    | cons g' gs =>
      simp only [wfO_cons2, Bool.and_eq_true] at h
      rw [stO_cons2]
      have := ih h.2 (orStep (stA s g)) rfl (by simpa [orStep, stA] using hs.2.2.2)
      refine ⟨?_, ?_, this.2.2⟩
      · rw [this.1]
        simp only [orStep, stA, fO, List.map_cons, List.reverse_cons, List.append_assoc, List.cons_append,
          List.nil_append]
        rw [hs.1, hs.2.1, hc]
        simp
      · rw [this.2.1]; simpa [orStep, stA] using hs.2.2.1

theorem stL_shape (l : List (List (List (X P)))) (h : wfL l = true) (s : St P) (hc : s.cur = []) (ha : s.ands = [])
    (hi : s.inv = false) :
    ((stL s l).cur :: (stL s l).ands) :: (stL s l).ors = (l.map fO).reverse ++ s.ors := by
  induction l generalizing s with
  | nil => simp [wfL] at h
  | cons o os ih =>
    cases os with
    | nil =>
      have ho : wfO o = true := by simpa [wfL] using h
      have hs := stO_shape o ho s hc hi
      simp only [stL, List.map_cons, List.map_nil, List.reverse_cons, List.reverse_nil, List.nil_append,
        List.cons_append]
      rw [hs.1, hs.2.1, ha]
      simp
    | cons o' os =>
      simp only [wfL_cons2, Bool.and_eq_true] at h
      have hs := stO_shape o h.1 s hc hi
      rw [stL_cons2]
      have := ih h.2 (commaStep (stO s o)) rfl rfl (by simpa [commaStep] using hs.2.2)
      rw [this]
      simp only [commaStep, List.map_cons, List.reverse_cons, List.append_assoc, List.cons_append, List.nil_append]
      rw [hs.1, hs.2.1, ha]
      simp

theorem GL_fO (o : List (List (X P))) (h : wfO o = true) : GL (fO o) = collapse .or (treesO o) := by
  cases hf : fO o with
  | nil =>
    cases o with
    | nil => simp [wfO] at h
    | cons g gs => simp [fO] at hf
  | cons c a =>
    rw [GL, buildOr_eq, ← hf, treesO_eq]
    congr 1
    simp only [fO, List.reverse_reverse, List.map_map]
    apply List.map_congr_left
    intro g _
    simp [fA, buildAnd_eq]

theorem wfL_all (l : List (List (List (X P)))) (h : wfL l = true) : ∀ o ∈ l, wfO o = true := by
  induction l with
  | nil => simp
  | cons o os ih =>
    cases os with
    | nil => intro o' ho'; simp at ho'; subst ho'; simpa [wfL] using h
    | cons o' os =>
      simp only [wfL_cons2, Bool.and_eq_true] at h
      intro x hx
      rcases List.mem_cons.mp hx with rfl | hx
      · exact h.1
      · exact ih h.2 x hx

theorem stL_build (l : List (List (List (X P)))) (h : wfL l = true) : (stL St.empty l).build = treeL l := by
  have hs := stL_shape l h St.empty rfl rfl rfl
  rw [St.build, buildList_eq, hs, treeL, treesL_eq]
  simp only [St.empty, List.append_nil, List.reverse_reverse, List.map_map]
  congr 1
  apply List.map_congr_left
  intro o ho
  exact GL_fO o (wfL_all l h o ho)

/-! ### the parser consumes a rendered expression and ends in the predicted state -/

mutual
theorem run_F (x : X P) (h : wfF x = true) (rest : List (Tok P)) (stack : List (St P)) (s : St P) (f : Bool) :
    run (renderF x ++ rest) stack s f = run rest stack (pushX s x) false := by
  match x, h with
  | .prim p, _ => simp [renderF, run, pushX, St.push, treeF, wrap]
  | .not x, h =>
    have hx : wfF x = true := by simpa [wfF] using h
    simp only [renderF, List.cons_append, run, more_F x hx rest, if_true]
    rw [run_F x hx]
    simp [pushX, treeF]
  | .group l, h =>
    have hl : wfL l = true := by simpa [wfF] using h
    simp only [renderF, List.cons_append, List.append_assoc, run]
    rw [run_L l hl]
    simp [run, pushX, St.push, treeF, wrap, stL_build l hl, treeL]
termination_by sizeOf x
theorem run_rest (xs : List (X P)) (h : wfRest xs = true) (rest : List (Tok P)) (stack : List (St P)) (s : St P)
    (h1 : s.cur ≠ []) (h2 : s.pend = false) :
    run (renderA xs ++ rest) stack s false = run rest stack (xs.foldl pushX s) false := by
  match xs, h with
  | [], _ => simp [renderA]
  | .a x :: xs, h =>
    simp only [wfRest, Bool.and_eq_true] at h
    have hc : s.cur.isEmpty = false := by cases hs : s.cur <;> simp_all
    simp only [renderA, renderF, List.cons_append, List.append_assoc, run, more_F x h.1 _, hc, h2,
      Bool.not_true, Bool.or_self, if_false, Bool.false_eq_true]
    rw [run_F x h.1, pushX_pend_irrel, List.foldl_cons, pushX_a]
    exact run_rest xs h.2 rest stack _ (pushX_cur_ne s x) rfl
  | .prim p :: xs, h =>
    have hx : wfF (.prim p : X P) = true := by simp [wfF]
    simp only [wfRest] at h
    rw [renderA, List.append_assoc, run_F _ hx, List.foldl_cons]
    exact run_rest xs h rest stack _ (pushX_cur_ne s _) rfl
  | .not x :: xs, h =>
    simp only [wfRest, Bool.and_eq_true] at h
    have hx : wfF (.not x : X P) = true := by simpa [wfF] using h.1
    rw [renderA, List.append_assoc, run_F _ hx, List.foldl_cons]
    exact run_rest xs h.2 rest stack _ (pushX_cur_ne s _) rfl
  | .group l :: xs, h =>
    simp only [wfRest, Bool.and_eq_true] at h
    have hx : wfF (.group l : X P) = true := by simpa [wfF] using h.1
    rw [renderA, List.append_assoc, run_F _ hx, List.foldl_cons]
    exact run_rest xs h.2 rest stack _ (pushX_cur_ne s _) rfl
termination_by sizeOf xs
theorem run_A (g : List (X P)) (h : wfA g = true) (rest : List (Tok P)) (stack : List (St P)) (s : St P) (f : Bool) :
    run (renderA g ++ rest) stack s f = run rest stack (stA s g) false := by
  match g, h with
  | x :: xs, h =>
    simp only [wfA, Bool.and_eq_true] at h
    rw [renderA, List.append_assoc, run_F x h.1, stA, List.foldl_cons]
    exact run_rest xs h.2 rest stack _ (pushX_cur_ne s x) rfl
termination_by sizeOf g
theorem run_O (o : List (List (X P))) (h : wfO o = true) (rest : List (Tok P)) (stack : List (St P)) (s : St P) (f : Bool) :
    run (renderO o ++ rest) stack s f = run rest stack (stO s o) false := by
  match o, h with
  | [g], h =>
    have hg : wfA g = true := by simpa [wfO] using h
    simp only [renderO, stO]
    exact run_A g hg rest stack s f
  | g :: g' :: gs, h =>
    simp only [wfO_cons2, Bool.and_eq_true] at h
    have hok := stA_ok g h.1 s
    have hc : (stA s g).cur.isEmpty = false := by cases hs : (stA s g).cur <;> simp_all
    have hm : moreExprs (renderO (g' :: gs) ++ rest) = true := more_O _ h.2 rest
    rw [renderO_cons2, List.append_assoc, run_A g h.1]
    simp only [List.cons_append, run, hm, hc, hok.2, Bool.not_true, Bool.or_self, if_false, Bool.false_eq_true]
    rw [stO_cons2]
    exact run_O (g' :: gs) h.2 rest stack _ false
termination_by sizeOf o
theorem run_L (l : List (List (List (X P)))) (h : wfL l = true) (rest : List (Tok P)) (stack : List (St P)) (s : St P) (f : Bool) :
    run (renderL l ++ rest) stack s f = run rest stack (stL s l) false := by
  match l, h with
  | [o], h =>
    have ho : wfO o = true := by simpa [wfL] using h
    simp only [renderL, stL]
    exact run_O o ho rest stack s f
  | o :: o' :: os, h =>
    simp only [wfL_cons2, Bool.and_eq_true] at h
    have hok := stO_ok o h.1 s
    have hc : (stO s o).cur.isEmpty = false := by cases hs : (stO s o).cur <;> simp_all
    have hm : moreExprs (renderL (o' :: os) ++ rest) = true := more_L _ h.2 rest
    rw [renderL_cons2, List.append_assoc, run_O o h.1]
    simp only [List.cons_append, run, hm, hc, hok.2, Bool.not_true, Bool.or_self, if_false, Bool.false_eq_true]
    rw [stL_cons2]
    exact run_L (o' :: os) h.2 rest stack _ false
termination_by sizeOf l
end

end FuModel.Find.Expr
