import FuModel.Proofs.ExecWalk
import FuModel.Proofs.WalkExactInv
import FuModel.Proofs.OutWalk

/-!
# `find START TEST -exec CMD FIXED {} +`: exactly the matching entries, in order, once (C08)
-/
namespace FuModel.Find.Run
open FuModel.Find.Walk FuModel.Find.Expr

section exact
variable (id : Nat) (dir : Bool) (cmd : Bytes) (fixed : List Bytes) (B : Nat) (nb : Batch)

/-- the invariant carried through the walk: nothing has panicked, the budget is the initial one,
    and an open batch of the action has at most the room of a fresh one -/
def IX (g : GS) : Prop :=
  g.panicked = false ∧ g.budget = B ∧ ∀ b, g.pending.lookup id = some b → b.remaining ≤ nb.remaining

/-- does the path fit on a command line of its own? -/
def fitsFresh (a : Bytes) : Bool := (nb.tryArg a).isSome

theorem tryArg_remaining {b b' : Batch} {a : Bytes} (h : b.tryArg a = some b') : b'.remaining ≤ b.remaining := by
  unfold Batch.tryArg at h
  split at h
  · cases h
  · injection h with h; subst h
    simp only [argSize]; omega

theorem tryArg_mono {b b' : Batch} {a : Bytes} (h : b.tryArg a = some b') (hle : b.remaining ≤ nb.remaining) :
    (nb.tryArg a).isSome = true := by
  unfold Batch.tryArg at h ⊢
  split at h
  · cases h
  · rename_i hc
    simp only [Bool.or_eq_true, decide_eq_true_eq, not_or, Nat.not_lt, Int.not_lt] at hc
    have : ¬ (a.length > maxSingleArg ∨ argSize a > nb.remaining) := by
      rintro (h1 | h1)
      · omega
      · omega
    simp [this]

theorem rootCwd_remaining (d : Bool) (path : Bytes) (b : Batch) : (rootCwd d path b).remaining = b.remaining := by
  unfold rootCwd; split <;> rfl

theorem spawn_panicked (g : GS) (ok : Bool) (argv : List Bytes) (cwd : Option Bytes) : (g.spawn ok argv cwd).2.panicked = g.panicked := by
  unfold GS.spawn; split
  · split <;> rfl
  · rfl

theorem lookup_setPending (g : GS) (i : Nat) (b : Batch) : (setPending g i (some b)).pending.lookup i = some b := by
  simp [setPending]

theorem sem_keepsP (start : Bytes) (v : Visit Attr) (s : ES) :
    (sem start v (.execMulti id dir true cmd fixed) s).2.prune = s.prune := by
  simp only [sem]
  split
  · rfl
  · split
    · rfl
    · split
      · rfl
      · split
        · rfl
        · split <;> rfl

/-- one evaluation of the action, exactly -/
theorem sem_multi_exact (hnb : newBatch B cmd fixed = some nb) (start : Bytes) (v : Visit Attr) (s : ES)
    (hI : IX id B nb s.gs) :
    let r := sem start v (.execMulti id dir true cmd fixed) s
    let arg := execPath dir (pathOf start v.ent.rpath)
    IX id B nb r.2.gs ∧ r.2.prune = s.prune ∧ r.2.quit = s.quit ∧
      handed (cmd :: fixed) id r.2.gs = handed (cmd :: fixed) id s.gs ++ (if fitsFresh nb arg then [arg] else []) := by
  obtain ⟨hp, hB, hrem⟩ := hI
  have hnbp : nb.paths = [] := (C08_new_batch _ _ _ _ hnb).2
  have hnb' : newBatch s.gs.budget cmd fixed = some nb := by rw [hB]; exact hnb
  intro r arg
  simp only [r, arg, sem, hp, Bool.false_eq_true, if_false]
  cases hl : s.gs.pending.lookup id with
  | some b =>
    simp only
    have hb := hrem b hl
    cases ht : b.tryArg (execPath dir (pathOf start v.ent.rpath)) with
    | some b' =>
      have hb' : b'.paths = b.paths ++ [execPath dir (pathOf start v.ent.rpath)] := by
        unfold Batch.tryArg at ht; split at ht
        · cases ht
        · injection ht with ht; subst ht; rfl
      have hfit := tryArg_mono nb ht hb
      refine ⟨⟨hp, hB, ?_⟩, rfl, rfl, ?_⟩
      · intro bb hbb
        simp only [lookup_setPending] at hbb
        injection hbb with hbb; subst hbb
        rw [rootCwd_remaining]; exact Int.le_trans (tryArg_remaining ht) hb
      · simp [handed, pendingOf, delivered_setPending, lookup_setPending_some, hl, hb', rootCwd_paths, List.append_assoc,
          fitsFresh, hfit]
    | none =>
      simp only [hnb']
      have hrun : (runBatch s.gs true cmd fixed b (execCwd dir (pathOf start v.ent.rpath))).1 =
          (s.gs.spawn true ((cmd :: fixed) ++ b.paths) (execCwd dir (pathOf start v.ent.rpath))).2 := by
        simp [runBatch]
      have hpan : (runBatch s.gs true cmd fixed b (execCwd dir (pathOf start v.ent.rpath))).1.panicked = false := by
        rw [hrun, spawn_panicked]; exact hp
      have hbud : (runBatch s.gs true cmd fixed b (execCwd dir (pathOf start v.ent.rpath))).1.budget = B := by
        rw [runBatch_budget]; exact hB
      cases ht2 : nb.tryArg (execPath dir (pathOf start v.ent.rpath)) with
      | some nb' =>
        have hnb2 : nb'.paths = [execPath dir (pathOf start v.ent.rpath)] := by
          unfold Batch.tryArg at ht2; split at ht2
          · cases ht2
          · injection ht2 with ht2; subst ht2; simp [hnbp]
        refine ⟨⟨by simpa [setPending] using hpan, by simpa [setPending_budget] using hbud, ?_⟩, rfl, rfl, ?_⟩
        · intro bb hbb
          simp only [lookup_setPending] at hbb
          injection hbb with hbb; subst hbb
          rw [rootCwd_remaining]; exact tryArg_remaining ht2
        · simp only [handed, pendingOf, delivered_setPending, lookup_setPending_some, hl, hnb2, hrun, rootCwd_paths,
            delivered_spawn, List.append_assoc, fitsFresh, ht2, Option.isSome_some, if_true]
      | none =>
        refine ⟨⟨by simpa [setPending] using hpan, by simpa [setPending_budget] using hbud, ?_⟩, rfl, rfl, ?_⟩
        · intro bb hbb
          simp only [lookup_setPending] at hbb
          injection hbb with hbb; subst hbb
          rw [rootCwd_remaining]; exact Int.le_refl _
        · simp only [handed, pendingOf, delivered_setPending, lookup_setPending_some, hl, hnbp, hrun, rootCwd_paths,
            delivered_spawn, List.append_nil, fitsFresh, ht2, Option.isSome_none, Bool.false_eq_true, if_false]
  | none =>
    simp only [hnb']
    cases ht : nb.tryArg (execPath dir (pathOf start v.ent.rpath)) with
    | some b' =>
      have hb' : b'.paths = [execPath dir (pathOf start v.ent.rpath)] := by
        unfold Batch.tryArg at ht; split at ht
        · cases ht
        · injection ht with ht; subst ht; simp [hnbp]
      refine ⟨⟨hp, hB, ?_⟩, rfl, rfl, ?_⟩
      · intro bb hbb
        simp only [lookup_setPending] at hbb
        injection hbb with hbb; subst hbb
        rw [rootCwd_remaining]; exact tryArg_remaining ht
      · simp [handed, pendingOf, delivered_setPending, lookup_setPending_some, hl, hb', rootCwd_paths, fitsFresh, ht]
    | none =>
      have hd := delivered_spawn (cmd :: fixed) s.gs [] (execCwd dir (pathOf start v.ent.rpath))
      simp only [List.append_nil] at hd
      refine ⟨⟨?_, ?_, ?_⟩, rfl, rfl, ?_⟩
      · simp [runBatch, setPending, spawn_panicked, hp, hnbp]
      · simp [runBatch, setPending_budget, spawn_budget, hB, hnbp]
      · intro bb hbb
        simp only [lookup_setPending] at hbb
        injection hbb with hbb; subst hbb
        rw [rootCwd_remaining]; exact Int.le_refl _
      · simp [handed, pendingOf, delivered_setPending, lookup_setPending_some, hl, hnbp, runBatch, hd, ht, rootCwd_paths, fitsFresh]


/-- what one entry contributes to the action's sequence -/
def handedBy (t : Prim) (start : Bytes) (v : Visit Attr) : List Bytes :=
  if (sem start v t es0).1 then
    (if fitsFresh nb (execPath dir (pathOf start v.ent.rpath)) then [execPath dir (pathOf start v.ent.rpath)] else [])
  else []

theorem multis_testMulti (t : Prim) (ht : isTestP t = true) :
    M.multis (.and [.prim t, .prim (.execMulti id dir true cmd fixed)]) = [(id, dir, true, cmd, fixed)] := by
  cases t <;> simp [isTestP] at ht <;> rfl

theorem flushMultis_IX (e : Bool) (d : Bytes) (g : GS) (failed : Bool) (hI : IX id B nb g) :
    IX id B nb (flushMultis e d [(id, dir, true, cmd, fixed)] g failed).1 ∧
      handed (cmd :: fixed) id (flushMultis e d [(id, dir, true, cmd, fixed)] g failed).1 = handed (cmd :: fixed) id g := by
  obtain ⟨hp, hB, hrem⟩ := hI
  simp only [flushMultis]
  split
  · cases hl : g.pending.lookup id with
    | some b =>
      simp only
      have h1 := flush_one g id cmd fixed b (if e = true then some (FuModel.Path.join [46] d) else none) hl
      refine ⟨⟨?_, ?_, ?_⟩, h1.1⟩
      · simp [setPending, runBatch, spawn_panicked, hp]
      · simp [setPending_budget, runBatch_budget, hB]
      · intro bb hbb
        rw [lookup_setPending_none] at hbb
        cases hbb
    | none => exact ⟨⟨hp, hB, hrem⟩, rfl⟩
  · exact ⟨⟨hp, hB, hrem⟩, rfl⟩

/-- one entry with `process_dir`'s bookkeeping, exactly -/
theorem evalEntry_exact (hnb : newBatch B cmd fixed = some nb) (t : Prim) (ht : isTestP t = true)
    (start : Bytes) (v : Visit Attr) (g : GS) (hI : IX id B nb g) :
    let r := evalEntry (.and [.prim t, .prim (.execMulti id dir true cmd fixed)]) start v g
    IX id B nb r.2 ∧ r.1.prune = false ∧ r.1.quit = false ∧
      handed (cmd :: fixed) id r.2 = handed (cmd :: fixed) id g ++ handedBy dir nb t start v := by
  have hm := multis_testMulti id dir cmd fixed t ht
  have key : ∀ (g1 : GS) (ex : Nat), IX id B nb g1 → handed (cmd :: fixed) id g1 = handed (cmd :: fixed) id g →
      let q := M.eval (sem start v) (·.quit) (.and [.prim t, .prim (.execMulti id dir true cmd fixed)]) ⟨g1, false, false, ex⟩
      IX id B nb q.2.gs ∧ q.2.prune = false ∧ q.2.quit = false ∧
        handed (cmd :: fixed) id q.2.gs = handed (cmd :: fixed) id g ++ handedBy dir nb t start v := by
    intro g1 ex hI1 hh
    have hs := sem_testP start v t ht ⟨g1, false, false, ex⟩
    simp only [M.eval, evalAnd]
    simp only [hs]
    unfold handedBy
    cases hb : (sem start v t es0).1
    · simp [hI1, hh]
    · have hx := sem_multi_exact id dir cmd fixed B nb hnb start v ⟨g1, false, false, ex⟩ hI1
      simp only at hx
      obtain ⟨h1, h2, h3, h4⟩ := hx
      simp only [Bool.not_true, Bool.false_eq_true, if_false, h3, evalAnd, if_true]
      have htrue : (sem start v (.execMulti id dir true cmd fixed) ⟨g1, false, false, ex⟩).1 = true := by
        simp only [sem]
        split
        · rfl
        · split
          · rfl
          · split
            · rfl
            · split
              · rfl
              · split <;> rfl
      simp only [htrue, Bool.not_true, Bool.false_eq_true, if_false]
      refine ⟨h1, h2, h3, ?_⟩
      rw [h4, hh]
  unfold evalEntry
  simp only [hm]
  split
  · cases hc : g.curDir with
    | none => exact key _ _ hI rfl
    | some dd =>
      simp only
      have hf := flushMultis_IX id dir cmd fixed B nb true dd g false hI
      refine key _ _ ?_ ?_
      · obtain ⟨hp, hB, hrem⟩ := hf.1
        exact ⟨hp, hB, hrem⟩
      · simpa [handed, delivered, pendingOf] using hf.2
  · exact key _ _ hI rfl

/-- **`find START TEST -exec CMD FIXED {} +` (or `-execdir`), exactly.**  For every tree, follow
    mode, depth range and traversal order and every test that only looks at the entry: after
    `process_dir` has walked the starting point (walkdir's iterator, `finished_dir` at every change
    of directory, `finished` at the end) the paths delivered to started commands are what had been
    handed over before followed by exactly the paths of the in-range reachable entries that satisfy
    the test and fit on a command line of their own — in visit order, each once — and nothing is
    left waiting. -/
theorem whole_walk_exact (hnb : newBatch B cmd fixed = some nb) (t : Prim) (ht : isTestP t = true)
    (c : Config) (start : Bytes) (root : Node Attr) (g : GS) (hI : IX id B nb g) :
    let n := if c.sorted then sortNode root else root
    let r := processDir c (.and [.prim t, .prim (.execMulti id dir true cmd fixed)]) start (some root) g
    delivered (cmd :: fixed) r.gs =
      handed (cmd :: fixed) id g ++ (visitsN (refCfg c) [] 0 n).flatMap (handedBy dir nb t start) ∧
    pendingOf id r.gs = [] := by
  intro n r
  let m : M Prim := .and [.prim t, .prim (.execMulti id dir true cmd fixed)]
  have hev : ∀ v s, IX id B nb s → IX id B nb (evalEntry m start v s).2 ∧ (evalEntry m start v s).1.prune = false ∧
      (evalEntry m start v s).1.quit = false ∧
      handed (cmd :: fixed) id (evalEntry m start v s).2 = handed (cmd :: fixed) id s ++ handedBy dir nb t start v :=
    fun v s h => evalEntry_exact id dir cmd fixed B nb hnb t ht start v s h
  have hroot : processRoot (refCfg c) (evalEntry m start) n { g with curDir := none } =
      (let q := refRoot (refCfg c) (evalEntry m start) n ⟨{ g with curDir := none }, 0, 0⟩; resOf q.1 q.2) := by
    cases hdf : (refCfg c).depthFirst
    · refine processRoot_pre (refCfg c) (evalEntry m start) hdf ?_ n _
      intro v s hp
      -- the expression never prunes: `PruneOk` holds vacuously
      have : (evalEntry m start v s).1.prune = false := by
        have hm := multis_testMulti id dir cmd fixed t ht
        unfold evalEntry
        simp only [m, hm]
        have k : ∀ (g1 : GS) (ex : Nat),
            (M.eval (sem start v) (·.quit) (.and [.prim t, .prim (.execMulti id dir true cmd fixed)]) ⟨g1, false, false, ex⟩).2.prune = false := by
          intro g1 ex
          have hs := sem_testP start v t ht ⟨g1, false, false, ex⟩
          simp only [M.eval, evalAnd]
          simp only [hs]
          cases (sem start v t es0).1
          · simp
          · simp only [Bool.not_true, Bool.false_eq_true, if_false]
            have hk := sem_keepsP id dir cmd fixed start v ⟨g1, false, false, ex⟩
            (repeat' split) <;> first | exact hk | simp [hk]
        split
        · cases s.curDir <;> exact k _ _
        · exact k _ _
      rw [this] at hp; cases hp
    · exact processRoot_postAny (refCfg c) (evalEntry m start) hdf n _
  have hI0 : IX id B nb { g with curDir := none } := hI
  have hex := refNode_exactI (refCfg c) (evalEntry m start) (IX id B nb) (handed (cmd :: fixed) id)
    (handedBy dir nb t start) hev [] 0 n ⟨{ g with curDir := none }, 0, 0⟩ hI0
  have hall : m.AllP (Sole id dir cmd fixed) := by
    simp only [m, M.AllP, M.AllP.AllPs]
    exact ⟨Or.inl (by cases t <;> simp [isTestP] at ht <;> rfl), Or.inr rfl, trivial⟩
  have hmem : M.multis m ≠ [] := by simp [m, multis_testMulti id dir cmd fixed t ht]
  have hfin := finishDir_keeps id dir cmd fixed m hall hmem (refNode (refCfg c) (evalEntry m start) [] 0 n ⟨{ g with curDir := none }, 0, 0⟩).2.st
  have hr : r.gs = (finishDir m (refNode (refCfg c) (evalEntry m start) [] 0 n ⟨{ g with curDir := none }, 0, 0⟩).2.st).1 := by
    show (processDir c m start (some root) g).gs = _
    unfold processDir
    simp only
    rw [show (if c.sorted then sortNode root else root) = n from rfl, hroot]
    rfl
  have hp : pendingOf id r.gs = [] := by rw [hr]; exact hfin.2
  refine ⟨?_, hp⟩
  have : handed (cmd :: fixed) id r.gs =
      handed (cmd :: fixed) id g ++ (visitsN (refCfg c) [] 0 n).flatMap (handedBy dir nb t start) := by
    rw [hr, hfin.1.2, hex.2.2]
    simp [handed, delivered, pendingOf]
  simpa [handed, hp] using this

end exact
end FuModel.Find.Run
