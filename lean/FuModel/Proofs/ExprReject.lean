import FuModel.Find.Expr

/-!
# What the tree builder refuses (C11), for every context

`Rejects r` = the builder answers with an error.  `run_prefix` lifts "refused in every state" from
a suffix of the token string to the whole string: the builder reads left to right and never
recovers from an error, so a fragment that cannot be continued in any state cannot be rescued by
what stands before it.
-/
namespace FuModel.Find.Expr
variable {P : Type}

def Rejects (r : Except Err (M P)) : Prop := ∃ e, r = .error e

theorem rejects_error (e : Err) : Rejects (.error e : Except Err (M P)) := ⟨e, rfl⟩

theorem not_ok_of_rejects {r : Except Err (M P)} (h : Rejects r) (m : M P) : r ≠ .ok m := by
  obtain ⟨e, rfl⟩ := h; intro h; cases h

/-- a fragment refused in every builder state is refused after every prefix -/
theorem run_prefix (suf : List (Tok P)) (h : ∀ stack s f, Rejects (run suf stack s f)) :
    ∀ (pre : List (Tok P)) stack s f, Rejects (run (pre ++ suf) stack s f) := by
  intro pre
  induction pre with
  | nil => intro stack s f; exact h stack s f
  | cons t pre ih =>
    intro stack s f
    rw [List.cons_append]
    cases t with
    | prim p => rw [run]; exact ih _ _ _
    | bang =>
      rw [run]; split
      · exact ih _ _ _
      · exact rejects_error _
    | and_ =>
      rw [run]; split
      · exact rejects_error _
      · split
        · exact rejects_error _
        · exact ih _ _ _
    | or_ =>
      rw [run]; split
      · exact rejects_error _
      · split
        · exact rejects_error _
        · exact ih _ _ _
    | comma =>
      rw [run]; split
      · exact rejects_error _
      · split
        · exact rejects_error _
        · exact ih _ _ _
    | lp => rw [run]; exact ih _ _ _
    | rp =>
      cases stack with
      | nil => simp only [run]; exact rejects_error _
      | cons outer stack' =>
        simp only [run]
        split
        · exact rejects_error _
        · exact ih _ _ _

/-- the four operator tokens; `isBinary` = all but `!` -/
def Tok.isOp : Tok P → Bool
  | .bang | .and_ | .or_ | .comma => true
  | _ => false

def Tok.isBinary : Tok P → Bool
  | .and_ | .or_ | .comma => true
  | _ => false

/-- an operator (or `!`) as the last token -/
theorem run_op_last (op : Tok P) (h : op.isOp = true) (stack : List (St P)) (s : St P) (f : Bool) :
    Rejects (run [op] stack s f) := by
  cases op <;> simp [Tok.isOp] at h <;> simp [run, moreExprs] <;> exact rejects_error _

/-- an operator (or `!`) directly before `)` -/
theorem run_op_before_rp (op : Tok P) (h : op.isOp = true) (post : List (Tok P)) (stack : List (St P)) (s : St P) (f : Bool) :
    Rejects (run (op :: .rp :: post) stack s f) := by
  cases op <;> simp [Tok.isOp] at h <;> simp [run, moreExprs] <;> exact rejects_error _

/-- a binary operator directly after an operator or `!` -/
theorem run_op_op (op1 op2 : Tok P) (h1 : op1.isOp = true) (h2 : op2.isBinary = true) (post : List (Tok P))
    (stack : List (St P)) (s : St P) (f : Bool) :
    Rejects (run (op1 :: op2 :: post) stack s f) := by
  cases op1 <;> simp [Tok.isOp] at h1 <;> cases op2 <;> simp [Tok.isBinary] at h2 <;>
    (simp only [run]; repeat' split) <;> first | exact rejects_error _ | simp_all

/-- a binary operator directly after `(` -/
theorem run_lp_op (op : Tok P) (h : op.isBinary = true) (post : List (Tok P)) (stack : List (St P)) (s : St P) (f : Bool) :
    Rejects (run (.lp :: op :: post) stack s f) := by
  cases op <;> simp [Tok.isBinary] at h <;>
    (simp only [run, St.empty]; repeat' split) <;> first | exact rejects_error _ | simp_all

/-- `( )` -/
theorem run_lp_rp (post : List (Tok P)) (stack : List (St P)) (s : St P) (f : Bool) :
    Rejects (run (.lp :: .rp :: post) stack s f) := by
  simp only [run]; exact rejects_error _

/-! ### parentheses balance -/

/-- depth never negative, zero at the end -/
def balanced : Nat → List (Tok P) → Bool
  | d, [] => d == 0
  | d, .lp :: ts => balanced (d + 1) ts
  | 0, .rp :: _ => false
  | d + 1, .rp :: ts => balanced d ts
  | d, _ :: ts => balanced d ts

theorem run_balanced (ts : List (Tok P)) : ∀ (stack : List (St P)) (s : St P) (f : Bool) (m : M P),
    run ts stack s f = .ok m → balanced stack.length ts = true := by
  induction ts with
  | nil =>
    intro stack s f m h
    cases stack with
    | nil => rfl
    | cons a b => simp [run] at h
  | cons t ts ih =>
    intro stack s f m h
    cases t with
    | prim p => rw [run] at h; simpa [balanced] using ih _ _ _ _ h
    | bang =>
      rw [run] at h; split at h
      · simpa [balanced] using ih _ _ _ _ h
      · cases h
    | and_ =>
      rw [run] at h; split at h
      · cases h
      · split at h
        · cases h
        · simpa [balanced] using ih _ _ _ _ h
    | or_ =>
      rw [run] at h; split at h
      · cases h
      · split at h
        · cases h
        · simpa [balanced] using ih _ _ _ _ h
    | comma =>
      rw [run] at h; split at h
      · cases h
      · split at h
        · cases h
        · simpa [balanced] using ih _ _ _ _ h
    | lp => rw [run] at h; simpa [balanced] using ih _ _ _ _ h
    | rp =>
      cases stack with
      | nil => simp [run] at h
      | cons outer stack' =>
        simp only [run] at h
        split at h
        · cases h
        · simpa [balanced] using ih _ _ _ _ h

end FuModel.Find.Expr
