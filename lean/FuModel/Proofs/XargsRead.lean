import FuModel.Xargs.Read

namespace FuModel.Xargs

theorem scan_append (s : RS) (a b : List UInt8) :
    scan s (a ++ b) =
      match scan s a with
      | .done t h r => .done t h (r ++ b)
      | .more s' => scan s' b := by
  induction a generalizing s with
  | nil => simp [scan]
  | cons c cs ih =>
    simp only [List.cons_append, scan]
    cases hstep : stepByte s c with
    | cont s' => simp only []; exact ih s'
    | done t h => simp

theorem tokFrom_append (s : RS) (a b : List UInt8) :
    tokFrom s (a ++ b) =
      match scan s a with
      | .more s' => tokFrom s' b
      | .done t h r => (tokFrom RS.init (r ++ b)).cons (t, h) := by
  induction a generalizing s with
  | nil => simp [scan]
  | cons c cs ih =>
    simp only [List.cons_append, scan, tokFrom]
    cases hstep : stepByte s c with
    | cont s' => simp only []; exact ih s'
    | done t h => simp

/-- What one `next()` call returns, expressed on the flattened remaining input. -/
theorem wsLoop_spec (s : RS) (chunks : List (List UInt8)) :
    tokFrom s chunks.flatten =
      match wsLoop s chunks with
      | .eof => .ok []
      | .err => .err []
      | .arg t h p c => (tokFrom RS.init (p ++ c.flatten)).cons (t, h) := by
  induction chunks generalizing s with
  | nil =>
    simp only [List.flatten_nil, tokFrom, wsLoop]
    cases s.esc <;> simp <;> split <;> simp_all [tokFrom, RS.init, ReadAll.cons]
  | cons c cs ih =>
    simp only [List.flatten_cons, wsLoop]
    rw [tokFrom_append]
    cases hsc : scan s c with
    | more s' => simp only []; exact ih s'
    | done t h r => simp

theorem wsNext_spec (pending : List UInt8) (chunks : List (List UInt8)) :
    tokFrom RS.init (pending ++ chunks.flatten) =
      match wsNext pending chunks with
      | .eof => .ok []
      | .err => .err []
      | .arg t h p c => (tokFrom RS.init (p ++ c.flatten)).cons (t, h) := by
  unfold wsNext
  rw [tokFrom_append]
  cases hsc : scan RS.init pending with
  | more s' => simp only []; exact wsLoop_spec s' chunks
  | done t h r => simp

/-- `scan` never invents bytes: a finished token leaves a strictly shorter rest. -/
theorem scan_done_length (s : RS) (a : List UInt8) {t h r} (hd : scan s a = .done t h r) :
    r.length < a.length := by
  induction a generalizing s with
  | nil => simp [scan] at hd
  | cons c cs ih =>
    simp only [scan] at hd
    cases hstep : stepByte s c with
    | cont s' => rw [hstep] at hd; have := ih s' hd; simp; omega
    | done t' h' => rw [hstep] at hd; simp at hd; simp [hd.2.2]

theorem scan_more_nil (s : RS) : scan s [] = .more s := rfl

theorem wsLoop_arg_measure (s : RS) (chunks : List (List UInt8)) {t h p c}
    (hd : wsLoop s chunks = .arg t h p c) :
    (p.length + c.flatten.length < chunks.flatten.length) ∨
    (p = [] ∧ c = [] ∧ chunks.flatten = [] ∧ s.res ≠ []) := by
  induction chunks generalizing s with
  | nil =>
    simp only [wsLoop] at hd
    cases hesc : s.esc <;> rw [hesc] at hd <;> simp at hd <;> (try split at hd) <;> simp_all
  | cons ch cs ih =>
    simp only [wsLoop] at hd
    have hlen : (ch :: cs).flatten.length = ch.length + cs.flatten.length := by
      rw [List.flatten_cons, List.length_append]
    cases hsc : scan s ch with
    | more s' =>
      rw [hsc] at hd
      rcases ih s' hd with h1 | ⟨hp, hc, hfl, hres⟩
      · left; omega
      · cases ch with
        | nil =>
          right
          simp only [scan] at hsc
          injection hsc with hsc
          subst hsc
          exact ⟨hp, hc, by simp [hfl], hres⟩
        | cons x xs =>
          left; subst hp; subst hc; simp only [List.length_cons] at hlen; simp only [List.length_nil, List.flatten_nil]; omega
    | done t' h' r =>
      rw [hsc] at hd
      injection hd with h1 h2 h3 h4
      have := scan_done_length s ch hsc
      left; subst h3; subst h4; omega

theorem wsNext_arg_measure (pending : List UInt8) (chunks : List (List UInt8)) {t h p c}
    (hd : wsNext pending chunks = .arg t h p c) :
    (p ++ c.flatten).length < (pending ++ chunks.flatten).length := by
  unfold wsNext at hd
  rw [List.length_append, List.length_append]
  cases hsc : scan RS.init pending with
  | more s' =>
    rw [hsc] at hd
    rcases wsLoop_arg_measure s' chunks hd with h1 | ⟨hp, hc, hfl, hres⟩
    · omega
    · cases pending with
      | nil =>
        simp only [scan] at hsc
        injection hsc with hsc
        subst hsc
        simp [RS.init] at hres
      | cons x xs => subst hp; subst hc; simp only [List.length_cons, List.length_nil, List.flatten_nil]; omega
  | done t' h' r =>
    rw [hsc] at hd
    injection hd with h1 h2 h3 h4
    have := scan_done_length RS.init pending hsc
    subst h3; subst h4; omega

/-- The buffered reader, driven call by call over any chunking, produces exactly
    the one-pass tokenisation of the concatenated input. -/
theorem wsAllFuel_spec (fuel : Nat) (pending : List UInt8) (chunks : List (List UInt8))
    (hf : (pending ++ chunks.flatten).length + 1 ≤ fuel) :
    wsAllFuel fuel pending chunks = tokFrom RS.init (pending ++ chunks.flatten) := by
  induction fuel generalizing pending chunks with
  | zero => omega
  | succ n ih =>
    rw [wsNext_spec]
    simp only [wsAllFuel]
    cases hn : wsNext pending chunks with
    | eof => rfl
    | err => rfl
    | arg t h p c =>
      simp only []
      have := wsNext_arg_measure pending chunks hn
      rw [ih p c (by omega)]

theorem wsAll_eq_tokenize (chunks : List (List UInt8)) :
    wsAll chunks = tokenizeWs chunks.flatten := by
  unfold wsAll tokenizeWs
  have := wsAllFuel_spec (chunks.flatten.length + 2) [] chunks (by simp)
  simpa using this

end FuModel.Xargs
