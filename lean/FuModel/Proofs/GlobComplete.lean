import FuModel.Proofs.GlobBase

/-!
# The converse of `C12_whole_string`: greedy first match = whole string whenever one exists

`Mt is s a`: the items match exactly the first `a` characters of `s`.  The engine's search
(`firstEnd`: greedy `.*`, backtracking from the longest choice) returns the **largest** `a` with
`Mt is s a`.  The reason is a monotonicity of glob patterns (no alternation, every item but `*`
takes exactly one character): if the pattern can match from two starting positions, then from
the later one it can reach at least as far (`mt_mono`).  Hence if the whole subject is in the
language, the first match the engine reports is the whole subject.
-/
namespace FuModel.Find.Glob

inductive Mt (icase : Bool) : List Item → List Char → Nat → Prop
  | nil (s : List Char) : Mt icase [] s 0
  | one {it : Item} {r : List Item} {x : Char} {xs : List Char} {a : Nat} :
      it ≠ .star → it.accepts icase x = true → Mt icase r xs a → Mt icase (it :: r) (x :: xs) (a + 1)
  | star {r : List Item} {s : List Char} {m a : Nat} :
      m ≤ s.length → Mt icase r (s.drop m) a → Mt icase (.star :: r) s (m + a)

theorem mt_le {icase : Bool} {is : List Item} {s : List Char} {a : Nat} (h : Mt icase is s a) : a ≤ s.length := by
  induction h with
  | nil s => omega
  | one _ _ _ ih => simp; omega
  | star hm _ ih => simp at ih; omega

/-! ### the search over the length of a star -/

theorem range_succ_reverse (n : Nat) : (List.range (n + 1)).reverse = n :: (List.range n).reverse := by
  rw [List.range_succ, List.reverse_append]; rfl

/-- the last index in `0..n` at which `f` succeeds -/
theorem findSome_rev_some {α : Type} (f : Nat → Option α) (n : Nat) (e : α)
    (h : (List.range (n + 1)).reverse.findSome? f = some e) :
    ∃ j, j ≤ n ∧ f j = some e ∧ ∀ j', j < j' → j' ≤ n → f j' = none := by
  induction n with
  | zero =>
    simp [List.range_succ, List.findSome?] at h
    refine ⟨0, by omega, ?_, fun j' h1 h2 => by omega⟩
    cases hf : f 0 with
    | none => simp [hf] at h
    | some v => simp [hf] at h; rw [h]
  | succ n ih =>
    rw [range_succ_reverse, List.findSome?_cons] at h
    cases hf : f (n + 1) with
    | some v =>
      simp [hf] at h
      exact ⟨n + 1, by omega, by rw [hf, h], fun j' h1 h2 => by omega⟩
    | none =>
      simp only [hf] at h
      obtain ⟨j, hj, hfj, hlast⟩ := ih h
      refine ⟨j, by omega, hfj, fun j' h1 h2 => ?_⟩
      by_cases hj' : j' = n + 1
      · rw [hj']; exact hf
      · exact hlast j' h1 (by omega)

theorem findSome_rev_isSome {α : Type} (f : Nat → Option α) (n j : Nat) (hj : j ≤ n) (hs : (f j).isSome = true) :
    ((List.range (n + 1)).reverse.findSome? f).isSome = true := by
  induction n with
  | zero =>
    have : j = 0 := by omega
    subst this
    simp [List.range_succ, List.findSome?]
    cases hf : f 0 with
    | none => simp [hf] at hs
    | some v => simp
  | succ n ih =>
    rw [range_succ_reverse, List.findSome?_cons]
    cases hf : f (n + 1) with
    | some v => simp
    | none =>
      simp only
      by_cases hjn : j = n + 1
      · subst hjn; simp [hf] at hs
      · exact ih (by omega)

/-! ### the engine's result is a match, exists whenever a match exists, and is the longest -/

theorem firstEnd_mt (icase : Bool) (is : List Item) : ∀ (s : List Char) (pos e : Nat),
    firstEnd icase is s pos = some e → ∃ a, e = pos + a ∧ Mt icase is s a := by
  induction is with
  | nil => intro s pos e h; simp only [firstEnd, Option.some.injEq] at h; exact ⟨0, by omega, .nil s⟩
  | cons it r ih =>
    intro s pos e h
    cases it with
    | star =>
      simp only [firstEnd] at h
      obtain ⟨j, hj, hfj, _⟩ := findSome_rev_some _ s.length e h
      obtain ⟨a, he, hm⟩ := ih (s.drop j) (pos + j) e hfj
      exact ⟨j + a, by omega, .star hj hm⟩
    | lit c =>
      cases s with
      | nil => simp [firstEnd] at h
      | cons x xs =>
        simp only [firstEnd] at h
        split at h
        · rename_i ha
          obtain ⟨a, he, hm⟩ := ih xs (pos + 1) e h
          exact ⟨a + 1, by omega, .one (by simp) ha hm⟩
        · cases h
    | any =>
      cases s with
      | nil => simp [firstEnd] at h
      | cons x xs =>
        simp only [firstEnd] at h
        split at h
        · rename_i ha
          obtain ⟨a, he, hm⟩ := ih xs (pos + 1) e h
          exact ⟨a + 1, by omega, .one (by simp) ha hm⟩
        · cases h
    | set neg ms raw =>
      cases s with
      | nil => simp [firstEnd] at h
      | cons x xs =>
        simp only [firstEnd] at h
        split at h
        · rename_i ha
          obtain ⟨a, he, hm⟩ := ih xs (pos + 1) e h
          exact ⟨a + 1, by omega, .one (by simp) ha hm⟩
        · cases h

theorem firstEnd_one (icase : Bool) (it : Item) (hne : it ≠ .star) (r : List Item) (x : Char) (xs : List Char) (pos : Nat) :
    firstEnd icase (it :: r) (x :: xs) pos = (if it.accepts icase x then firstEnd icase r xs (pos + 1) else none) := by
  cases it with
  | star => exact absurd rfl hne
  | lit c => simp [firstEnd]
  | any => simp [firstEnd]
  | set neg ms raw => simp [firstEnd]

theorem firstEnd_exists (icase : Bool) {is : List Item} {s : List Char} {a : Nat} (h : Mt icase is s a) :
    ∀ pos, (firstEnd icase is s pos).isSome = true := by
  induction h with
  | nil s => intro pos; simp [firstEnd]
  | one hne hacc _ ih =>
    intro pos
    rw [firstEnd_one icase _ hne, if_pos hacc]
    exact ih (pos + 1)
  | star hm _ ih =>
    intro pos
    simp only [firstEnd]
    exact findSome_rev_isSome _ _ _ hm (ih _)

/-- monotonicity: from a later start the pattern reaches at least as far -/
theorem mt_mono (icase : Bool) (is : List Item) : ∀ (s : List Char) (j j2 a b : Nat), j ≤ j2 →
    Mt icase is (s.drop j) a → Mt icase is (s.drop j2) b → ∃ b', j + a ≤ j2 + b' ∧ Mt icase is (s.drop j2) b' := by
  induction is with
  | nil =>
    intro s j j2 a b hj h1 h2
    cases h1
    exact ⟨0, by omega, .nil _⟩
  | cons it r ih =>
    intro s j j2 a b hj h1 h2
    generalize hs1 : s.drop j = t1 at h1
    generalize hs2 : s.drop j2 = t2 at h2
    cases h1 with
    | one hne hacc hr =>
      rename_i x xs a1
      cases h2 with
      | one hne2 hacc2 hr2 =>
        rename_i x2 xs2 b1
        have e1 : xs = s.drop (j + 1) := by
          have := congrArg List.tail hs1; simpa [List.tail_drop] using this.symm
        have e2 : xs2 = s.drop (j2 + 1) := by
          have := congrArg List.tail hs2; simpa [List.tail_drop] using this.symm
        rw [e1] at hr; rw [e2] at hr2
        obtain ⟨b', hb, hm⟩ := ih s (j + 1) (j2 + 1) a1 b1 (by omega) hr hr2
        refine ⟨b' + 1, by omega, ?_⟩
        rw [← e2] at hm
        exact .one hne2 hacc2 hm
      | star _ _ => exact absurd rfl hne
    | star hm1 hr1 =>
      rename_i m a1
      cases h2 with
      | one hne2 _ _ => exact absurd rfl hne2
      | star hm2 hr2 =>
        rename_i m2 b1
        subst hs1; subst hs2
        simp only [List.drop_drop] at hr1 hr2
        simp only [List.length_drop] at hm1 hm2
        by_cases hc : j2 ≤ j + m
        · -- the star of the later start stretches to where the earlier match continued
          refine ⟨(j + m - j2) + a1, by omega, ?_⟩
          refine .star (by simp only [List.length_drop]; omega) ?_
          simp only [List.drop_drop]
          have : j2 + (j + m - j2) = j + m := by omega
          rw [this]; exact hr1
        · obtain ⟨b', hb, hm⟩ := ih s (j + m) (j2 + m2) a1 b1 (by omega) hr1 hr2
          refine ⟨m2 + b', by omega, ?_⟩
          refine .star (by simp only [List.length_drop]; omega) ?_
          simp only [List.drop_drop]; exact hm

/-- the engine's first match is the longest one -/
theorem firstEnd_max (icase : Bool) (is : List Item) : ∀ (s : List Char) (pos k a : Nat),
    firstEnd icase is s pos = some (pos + k) → Mt icase is s a → a ≤ k := by
  induction is with
  | nil => intro s pos k a _ hm; cases hm; omega
  | cons it r ih =>
    intro s pos k a h hm
    cases hm with
    | one hne hacc hr =>
      rename_i x xs a1
      rw [firstEnd_one icase _ hne, if_pos hacc] at h
      have := ih xs (pos + 1) (k - 1) a1
      obtain ⟨a', he, _⟩ := firstEnd_mt icase r xs (pos + 1) (pos + k) h
      have hk : pos + k = pos + 1 + (k - 1) := by omega
      rw [hk] at h
      have := this h hr
      omega
    | star hmle hr =>
      rename_i m a1
      simp only [firstEnd] at h
      obtain ⟨j, hj, hfj, hlast⟩ := findSome_rev_some _ s.length _ h
      obtain ⟨aj, he, hmj⟩ := firstEnd_mt icase r (s.drop j) (pos + j) _ hfj
      -- m ≤ j: at m a match exists, and j is the last index where the search succeeds
      have hmj_le : m ≤ j := by
        by_cases hlt : j < m
        · have := hlast m hlt hmle
          have hex := firstEnd_exists icase hr (pos + m)
          rw [this] at hex; cases hex
        · omega
      have hk : pos + k = pos + j + (k - j) := by omega
      have hkj : j ≤ k := by omega
      rw [hk] at hfj
      by_cases heq : m = j
      · subst heq
        have := ih (s.drop m) (pos + m) (k - m) a1 hfj hr
        omega
      · -- m < j: by monotonicity the pattern reaches at least as far from j
        have h0 : Mt icase r ((s.drop 0).drop m) a1 := by simpa using hr
        have hr' : Mt icase r (s.drop m) a1 := hr
        obtain ⟨b', hb, hmb⟩ := mt_mono icase r s m j a1 aj (by omega) hr' hmj
        have := ih (s.drop j) (pos + j) (k - j) b' hfj hmb
        omega

/-! ### `Mt` and the denotation -/

theorem mt_of_denot (icase : Bool) (is : List Item) : ∀ s, denot icase is s = true → Mt icase is s s.length := by
  induction is with
  | nil => intro s h; simp [denot] at h; subst h; exact .nil []
  | cons it r ih =>
    intro s h
    cases it with
    | star =>
      simp only [denot, List.any_eq_true, List.mem_range] at h
      obtain ⟨k, hk, hd⟩ := h
      have := ih (s.drop k) hd
      have hl : s.length = k + (s.drop k).length := by simp; omega
      rw [hl]
      exact .star (by omega) this
    | lit c =>
      cases s with
      | nil => simp [denot] at h
      | cons x xs =>
        simp only [denot, Bool.and_eq_true] at h
        exact .one (by simp) h.1 (ih xs h.2)
    | any =>
      cases s with
      | nil => simp [denot] at h
      | cons x xs =>
        simp only [denot, Bool.and_eq_true] at h
        exact .one (by simp) h.1 (ih xs h.2)
    | set neg ms raw =>
      cases s with
      | nil => simp [denot] at h
      | cons x xs =>
        simp only [denot, Bool.and_eq_true] at h
        exact .one (by simp) h.1 (ih xs h.2)

/-- **Completeness of the matching mechanism**: if the whole subject is in the language of the
    items, `Pattern::matches` says yes — the first match found by the greedy backtracking search
    is then the whole subject. -/
theorem matchesItems_complete (icase : Bool) (is : List Item) (s : List Char) (h : denot icase is s = true) :
    matchesItems icase is s = true := by
  have hm := mt_of_denot icase is s h
  have hex := firstEnd_exists icase hm 0
  cases hf : firstEnd icase is s 0 with
  | none => rw [hf] at hex; cases hex
  | some e =>
    obtain ⟨a, he, hma⟩ := firstEnd_mt icase is s 0 e hf
    have hle := mt_le hma
    have hf' : firstEnd icase is s 0 = some (0 + a) := by rw [hf, he]
    have hmax := firstEnd_max icase is s 0 a s.length hf' hm
    have : e = s.length := by omega
    simp [matchesItems, hf, this]

/-- the mechanism decides exactly the language of the items -/
theorem matchesItems_iff (icase : Bool) (is : List Item) (s : List Char) :
    matchesItems icase is s = true ↔ denot icase is s = true :=
  ⟨C12_whole_string icase is s, matchesItems_complete icase is s⟩

end FuModel.Find.Glob
