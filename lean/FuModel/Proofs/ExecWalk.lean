import FuModel.Proofs.ExecLossless
import FuModel.Proofs.WalkSublog

/-!
# `-exec … {} +` over a whole starting point (C08)

Lifts `C08_step_lossless` / `C08_finish_lossless` through the evaluation of an arbitrary expression
(`relW_M`: a weighted version of `rel_M`), through `process_dir`'s `current_dir` bookkeeping
(`evalEntry`) and through the traversal (`refNode_sub` + the refinement theorems of C02).
-/

namespace FuModel.Find.Expr
variable {P σ : Type}

/-- every primary of the tree satisfies `q` -/
def M.AllP (q : P → Prop) : M P → Prop
  | .prim p => q p
  | .not m => m.AllP q
  | .and ms => AllPs ms
  | .or ms => AllPs ms
  | .list ms => AllPs ms
where AllPs : List (M P) → Prop
  | [] => True
  | m :: ms => m.AllP q ∧ AllPs ms

/-- the sum of the weights of the primaries of the tree -/
def M.weight (w : P → Nat) : M P → Nat
  | .prim p => w p
  | .not m => m.weight w
  | .and ms => weights ms
  | .or ms => weights ms
  | .list ms => weights ms
where weights : List (M P) → Nat
  | [] => 0
  | m :: ms => m.weight w + weights ms

section relW
variable (sem : P → σ → Bool × σ) (quit : σ → Bool) (q : P → Prop) (w : P → Nat) (T : σ → σ → Nat → Prop)
  (hr : ∀ s, T s s 0) (ht : ∀ a b c n1 n2, T a b n1 → T b c n2 → T a c (n1 + n2))
  (hw : ∀ a b n n', T a b n → n ≤ n' → T a b n')
  (hs : ∀ p, q p → ∀ s, T s (sem p s).2 (w p))
include hr ht hw hs
set_option linter.unusedSectionVars false

mutual
theorem relW_M (m : M P) (hall : m.AllP q) (s : σ) : T s (M.eval sem quit m s).2 (m.weight w) := by
  match m with
  | .prim p => simpa [M.eval, M.weight] using hs p (by simpa [M.AllP] using hall) s
  | .not m => simpa [M.eval, M.weight] using relW_M m (by simpa [M.AllP] using hall) s
  | .and ms => simpa [M.eval, M.weight] using relW_and ms (by simpa [M.AllP] using hall) s
  | .or ms => simpa [M.eval, M.weight] using relW_or ms (by simpa [M.AllP] using hall) s
  | .list ms => simpa [M.eval, M.weight] using relW_list ms (by simpa [M.AllP] using hall) false s
theorem relW_and (ms : List (M P)) (hall : M.AllP.AllPs q ms) (s : σ) :
    T s (evalAnd sem quit ms s).2 (M.weight.weights w ms) := by
  match ms with
  | [] => simpa [evalAnd, M.weight.weights] using hr s
  | m :: ms =>
    simp only [M.AllP.AllPs] at hall
    simp only [evalAnd, M.weight.weights]
    have h1 := relW_M m hall.1 s
    split
    · exact hw _ _ _ _ h1 (Nat.le_add_right _ _)
    · split
      · exact hw _ _ _ _ h1 (Nat.le_add_right _ _)
      · exact ht _ _ _ _ _ h1 (relW_and ms hall.2 _)
theorem relW_or (ms : List (M P)) (hall : M.AllP.AllPs q ms) (s : σ) :
    T s (evalOr sem quit ms s).2 (M.weight.weights w ms) := by
  match ms with
  | [] => simpa [evalOr, M.weight.weights] using hr s
  | m :: ms =>
    simp only [M.AllP.AllPs] at hall
    simp only [evalOr, M.weight.weights]
    have h1 := relW_M m hall.1 s
    split
    · exact hw _ _ _ _ h1 (Nat.le_add_right _ _)
    · split
      · exact hw _ _ _ _ h1 (Nat.le_add_right _ _)
      · exact ht _ _ _ _ _ h1 (relW_or ms hall.2 _)
theorem relW_list (ms : List (M P)) (hall : M.AllP.AllPs q ms) (rc : Bool) (s : σ) :
    T s (evalList sem quit ms rc s).2 (M.weight.weights w ms) := by
  match ms with
  | [] => simpa [evalList, M.weight.weights] using hr s
  | m :: ms =>
    simp only [M.AllP.AllPs] at hall
    simp only [evalList, M.weight.weights]
    have h1 := relW_M m hall.1 s
    split
    · exact hw _ _ _ _ h1 (Nat.le_add_right _ _)
    · exact ht _ _ _ _ _ h1 (relW_list ms hall.2 _ _)
end
end relW
end FuModel.Find.Expr

namespace FuModel.Find.Run
open FuModel.Find.Walk FuModel.Find.Expr

/-- primaries that neither start commands nor touch the batches -/
def quiet : Prim → Bool
  | .exec _ _ _ _ => false
  | .execMulti _ _ _ _ _ => false
  | _ => true

section target
variable (id : Nat) (dir : Bool) (cmd : Bytes) (fixed : List Bytes)

/-- the expression's only command-running primary is the `+` action under study -/
def Sole (p : Prim) : Prop := quiet p = true ∨ p = .execMulti id dir true cmd fixed

def wT (p : Prim) : Nat := if quiet p then 0 else 1

theorem spawn_budget (g : GS) (ok : Bool) (argv : List Bytes) (cwd : Option Bytes) : (g.spawn ok argv cwd).2.budget = g.budget := by
  unfold GS.spawn; split
  · split <;> rfl
  · rfl

theorem runBatch_budget (g : GS) (ok : Bool) (c : Bytes) (fx : List Bytes) (b : Batch) (cwd : Option Bytes) :
    (runBatch g ok c fx b cwd).1.budget = g.budget := by
  simp [runBatch, spawn_budget]

theorem setPending_budget (g : GS) (i : Nat) (b : Option Batch) : (setPending g i b).budget = g.budget := rfl

theorem sem_multi_budget (start : Bytes) (v : Visit Attr) (i : Nat) (d ok : Bool) (c : Bytes) (fx : List Bytes) (s : ES) :
    (sem start v (.execMulti i d ok c fx) s).2.gs.budget = s.gs.budget := by
  simp only [sem]
  split
  · rfl
  · split
    · rfl
    · split
      · simp [setPending_budget]
      · split
        · simp [runBatch_budget]
        · split <;> simp [setPending_budget, runBatch_budget]

/-- a quiet primary leaves the started commands, the open batches and the budget alone -/
theorem sem_quiet (start : Bytes) (v : Visit Attr) (p : Prim) (hq : quiet p = true) (s : ES) :
    (sem start v p s).2.gs.execs = s.gs.execs ∧ (sem start v p s).2.gs.pending = s.gs.pending ∧
      (sem start v p s).2.gs.budget = s.gs.budget := by
  cases p with
  | exec _ _ _ _ => simp [quiet] at hq
  | execMulti _ _ _ _ _ => simp [quiet] at hq
  | delete =>
    simp only [sem]
    split
    · exact ⟨rfl, rfl, rfl⟩
    · split <;> (split <;> exact ⟨rfl, rfl, rfl⟩)
  | prune => simp only [sem]; split <;> exact ⟨rfl, rfl, rfl⟩
  | _ => exact ⟨rfl, rfl, rfl⟩

theorem handed_congr (pre : List Bytes) (a b : GS) (h1 : b.execs = a.execs) (h2 : b.pending = a.pending) :
    handed pre id b = handed pre id a := by
  simp [handed, delivered, pendingOf, h1, h2]

/-- what one evaluation of an expression entry may do to the action's sequence -/
def TE (arg : Bytes) (a b : ES) (n : Nat) : Prop :=
  b.gs.budget = a.gs.budget ∧
  ((∃ nb, newBatch a.gs.budget cmd fixed = some nb) →
    ∃ L, handed (cmd :: fixed) id b.gs = handed (cmd :: fixed) id a.gs ++ L ∧ L.Sublist (List.replicate n arg))

theorem sem_TE (start : Bytes) (v : Visit Attr) (p : Prim) (hp : Sole id dir cmd fixed p) (s : ES) :
    TE id cmd fixed (execPath dir (pathOf start v.ent.rpath)) s (sem start v p s).2 (wT p) := by
  rcases hp with hq | rfl
  · obtain ⟨h1, h2, h3⟩ := sem_quiet start v p hq s
    refine ⟨h3, fun _ => ⟨[], ?_, by simp⟩⟩
    simp [handed_congr id (cmd :: fixed) _ _ h1 h2]
  · refine ⟨sem_multi_budget start v id dir true cmd fixed s, fun hb => ?_⟩
    have hw : wT (.execMulti id dir true cmd fixed) = 1 := by simp [wT, quiet]
    rw [hw]
    cases hpan : s.gs.panicked
    · rcases C08_step_lossless start v id dir cmd fixed s hpan hb with h | h
      · exact ⟨[_], h, by simp⟩
      · exact ⟨[], by simpa using h.1, by simp⟩
    · refine ⟨[], ?_, by simp⟩
      simp [sem, hpan]

theorem TE_refl (arg : Bytes) (s : ES) : TE id cmd fixed arg s s 0 :=
  ⟨rfl, fun _ => ⟨[], by simp, by simp⟩⟩

theorem TE_trans (arg : Bytes) (a b c : ES) (n1 n2 : Nat) (h1 : TE id cmd fixed arg a b n1) (h2 : TE id cmd fixed arg b c n2) :
    TE id cmd fixed arg a c (n1 + n2) := by
  refine ⟨h2.1.trans h1.1, fun hb => ?_⟩
  obtain ⟨L1, e1, s1⟩ := h1.2 hb
  obtain ⟨L2, e2, s2⟩ := h2.2 (by rw [h1.1]; exact hb)
  refine ⟨L1 ++ L2, by rw [e2, e1, List.append_assoc], ?_⟩
  rw [← List.replicate_append_replicate]
  exact List.Sublist.append s1 s2

theorem TE_weaken (arg : Bytes) (a b : ES) (n n' : Nat) (h : TE id cmd fixed arg a b n) (hle : n ≤ n') :
    TE id cmd fixed arg a b n' := by
  refine ⟨h.1, fun hb => ?_⟩
  obtain ⟨L, e, s⟩ := h.2 hb
  exact ⟨L, e, s.trans (List.replicate_sublist_replicate _ |>.mpr hle)⟩

/-- the whole expression on one entry -/
theorem eval_TE (m : M Prim) (hall : m.AllP (Sole id dir cmd fixed)) (start : Bytes) (v : Visit Attr) (s : ES) :
    TE id cmd fixed (execPath dir (pathOf start v.ent.rpath)) s (M.eval (sem start v) (·.quit) m s).2 (m.weight wT) :=
  relW_M (sem start v) (·.quit) (Sole id dir cmd fixed) wT (TE id cmd fixed (execPath dir (pathOf start v.ent.rpath)))
    (TE_refl id cmd fixed _) (TE_trans id cmd fixed _) (TE_weaken id cmd fixed _)
    (fun p hp s => sem_TE id dir cmd fixed start v p hp s) m hall s


abbrev target : Nat × Bool × Bool × Bytes × List Bytes := (id, dir, true, cmd, fixed)

mutual
theorem multis_sole (m : M Prim) (hall : m.AllP (Sole id dir cmd fixed)) :
    ∀ x ∈ M.multis m, x = target id dir cmd fixed := by
  match m with
  | .prim p =>
    simp only [M.AllP] at hall
    rcases hall with hq | rfl
    · cases p <;> simp [quiet] at hq <;> simp [M.multis]
    · simp [M.multis]
  | .not m => simpa [M.multis] using multis_sole m (by simpa [M.AllP] using hall)
  | .and ms => simpa [M.multis] using multis_go ms (by simpa [M.AllP] using hall)
  | .or ms => simpa [M.multis] using multis_go ms (by simpa [M.AllP] using hall)
  | .list ms => simpa [M.multis] using multis_go ms (by simpa [M.AllP] using hall)
theorem multis_go (ms : List (M Prim)) (hall : M.AllP.AllPs (Sole id dir cmd fixed) ms) :
    ∀ x ∈ M.multis.go ms, x = target id dir cmd fixed := by
  match ms with
  | [] => simp [M.multis.go]
  | m :: ms =>
    simp only [M.AllP.AllPs] at hall
    intro x hx
    simp only [M.multis.go, List.mem_append] at hx
    rcases hx with hx | hx
    · exact multis_sole m hall.1 x hx
    · exact multis_go ms hall.2 x hx
end

/-- budget and the action's sequence are untouched -/
def Keeps (a b : GS) : Prop := b.budget = a.budget ∧ handed (cmd :: fixed) id b = handed (cmd :: fixed) id a

theorem flushMultis_keeps (e : Bool) (d : Bytes) (ms : List (Nat × Bool × Bool × Bytes × List Bytes))
    (hms : ∀ x ∈ ms, x = target id dir cmd fixed) :
    ∀ (g : GS) (failed : Bool), Keeps id cmd fixed g (flushMultis e d ms g failed).1 := by
  induction ms with
  | nil => intro g failed; exact ⟨rfl, rfl⟩
  | cons x xs ih =>
    intro g failed
    have hx := hms x (by simp)
    subst hx
    have ih' := ih (fun y hy => hms y (by simp [hy]))
    simp only [flushMultis]
    split
    · cases hl : g.pending.lookup id with
      | some b =>
        simp only
        have h1 := flush_one g id cmd fixed b (if e = true then some (FuModel.Path.join [46] d) else none) hl
        have h2 := ih' (setPending (runBatch g true cmd fixed b (if e = true then some (FuModel.Path.join [46] d) else none)).1 id none)
          (failed || (runBatch g true cmd fixed b (if e = true then some (FuModel.Path.join [46] d) else none)).2)
        exact ⟨h2.1.trans (by simp [setPending_budget, runBatch_budget]), h2.2.trans h1.1⟩
      | none => exact ih' g failed
    · exact ih' g failed

theorem flushAll_keeps (ms : List (Nat × Bool × Bool × Bytes × List Bytes))
    (hms : ∀ x ∈ ms, x = target id dir cmd fixed) :
    ∀ (g : GS) (failed : Bool), Keeps id cmd fixed g (flushAll ms g failed).1 ∧
      ((ms ≠ [] ∨ pendingOf id g = []) → pendingOf id (flushAll ms g failed).1 = []) := by
  induction ms with
  | nil => intro g failed; exact ⟨⟨rfl, rfl⟩, fun h => by rcases h with h | h; exact absurd rfl h; simpa [flushAll] using h⟩
  | cons x xs ih =>
    intro g failed
    have hx := hms x (by simp)
    subst hx
    have ih' := ih (fun y hy => hms y (by simp [hy]))
    simp only [flushAll]
    cases hl : g.pending.lookup id with
    | some b =>
      simp only
      have h1 := flush_one g id cmd fixed b b.cwd hl
      have h2 := ih' (setPending (runBatch g true cmd fixed b b.cwd).1 id none) (failed || (runBatch g true cmd fixed b b.cwd).2)
      exact ⟨⟨h2.1.1.trans (by simp [setPending_budget, runBatch_budget]), h2.1.2.trans h1.1⟩, fun _ => h2.2 (Or.inr h1.2)⟩
    | none =>
      have h2 := ih' g failed
      exact ⟨h2.1, fun _ => h2.2 (Or.inr (by simp [pendingOf, hl]))⟩

variable (start : Bytes)

/-- what the walk may do to the action's sequence while evaluating (some of) the entries `l` -/
def TW (a b : GS) (l : List (Visit Attr)) : Prop :=
  b.budget = a.budget ∧
  ((∃ nb, newBatch a.budget cmd fixed = some nb) →
    ∃ L, handed (cmd :: fixed) id b = handed (cmd :: fixed) id a ++ L ∧
      L.Sublist (l.map fun v => execPath dir (pathOf start v.ent.rpath)))

theorem TW_refl (s : GS) : TW id dir cmd fixed start s s [] := ⟨rfl, fun _ => ⟨[], by simp, by simp⟩⟩

theorem TW_trans (a b c : GS) (l1 l2 : List (Visit Attr)) (h1 : TW id dir cmd fixed start a b l1)
    (h2 : TW id dir cmd fixed start b c l2) : TW id dir cmd fixed start a c (l1 ++ l2) := by
  refine ⟨h2.1.trans h1.1, fun hb => ?_⟩
  obtain ⟨L1, e1, s1⟩ := h1.2 hb
  obtain ⟨L2, e2, s2⟩ := h2.2 (by rw [h1.1]; exact hb)
  refine ⟨L1 ++ L2, by rw [e2, e1, List.append_assoc], ?_⟩
  rw [List.map_append]
  exact List.Sublist.append s1 s2

theorem TW_weaken (a b : GS) (l l' : List (Visit Attr)) (h : TW id dir cmd fixed start a b l) (hs : l.Sublist l') :
    TW id dir cmd fixed start a b l' := by
  refine ⟨h.1, fun hb => ?_⟩
  obtain ⟨L, e, s⟩ := h.2 hb
  exact ⟨L, e, s.trans (hs.map _)⟩

theorem keeps_TW (a b : GS) (h : Keeps id cmd fixed a b) : TW id dir cmd fixed start a b [] :=
  ⟨h.1, fun _ => ⟨[], by simp [h.2], by simp⟩⟩

/-- one entry with `process_dir`'s bookkeeping -/
theorem evalEntry_TW (m : M Prim) (hall : m.AllP (Sole id dir cmd fixed)) (hone : m.weight wT ≤ 1)
    (v : Visit Attr) (g : GS) : TW id dir cmd fixed start g (evalEntry m start v g).2 [v] := by
  have hms := multis_sole id dir cmd fixed m hall
  -- the bookkeeping before the expression
  have hpre : ∀ (g1 : GS) (ex : Nat), Keeps id cmd fixed g g1 →
      TW id dir cmd fixed start g (M.eval (sem start v) (·.quit) m ⟨g1, false, false, ex⟩).2.gs [v] := by
    intro g1 ex hk
    have h := eval_TE id dir cmd fixed m hall start v ⟨g1, false, false, ex⟩
    refine ⟨h.1.trans hk.1, fun hb => ?_⟩
    obtain ⟨L, e, s⟩ := h.2 (by simp only; rw [hk.1]; exact hb)
    refine ⟨L, by rw [e]; simp only; rw [hk.2], ?_⟩
    refine s.trans ?_
    simp only [List.map_cons, List.map_nil]
    have : List.replicate (m.weight wT) (execPath dir (pathOf start v.ent.rpath)) =
        List.replicate (m.weight wT) (execPath dir (pathOf start v.ent.rpath)) := rfl
    exact (List.replicate_sublist_replicate _ |>.mpr hone).trans (by simp)
  unfold evalEntry
  simp only
  split
  · cases hc : g.curDir with
    | none => exact hpre _ _ ⟨rfl, rfl⟩
    | some dd =>
      simp only
      have hk := flushMultis_keeps id dir cmd fixed true dd (M.multis m) hms g false
      exact hpre _ _ ⟨hk.1, by simpa [handed, delivered, pendingOf] using hk.2⟩
  · exact hpre _ _ ⟨rfl, rfl⟩

theorem finishDir_keeps (m : M Prim) (hall : m.AllP (Sole id dir cmd fixed)) (hmem : M.multis m ≠ []) (g : GS) :
    Keeps id cmd fixed g (finishDir m g).1 ∧ pendingOf id (finishDir m g).1 = [] := by
  have hms := multis_sole id dir cmd fixed m hall
  unfold finishDir
  simp only
  cases hc : g.curDir with
  | none =>
    simp only
    have h2 := flushAll_keeps id dir cmd fixed (M.multis m) hms g false
    exact ⟨⟨h2.1.1, by simpa [handed, delivered, pendingOf] using h2.1.2⟩, by simpa [pendingOf] using h2.2 (Or.inl hmem)⟩
  | some dd =>
    simp only
    have h1 := flushMultis_keeps id dir cmd fixed true dd (M.multis m) hms g false
    have h2 := flushAll_keeps id dir cmd fixed (M.multis m) hms (flushMultis true dd (M.multis m) g false).1
      (flushMultis true dd (M.multis m) g false).2
    exact ⟨⟨h2.1.1.trans h1.1, by simpa [handed, delivered, pendingOf] using h2.1.2.trans h1.2⟩,
      by simpa [pendingOf] using h2.2 (Or.inl hmem)⟩

end target
end FuModel.Find.Run

namespace FuModel.Find.Run
open FuModel.Find.Walk FuModel.Find.Expr

/-- **A whole starting point.**  `process_dir` over the real walk (walkdir's iterator, the depth
    guard, the `current_dir` bookkeeping with `finished_dir`, then `finished`), for an arbitrary
    expression whose only command-running primary is one `-exec`/`-execdir CMD FIXED {} +`: the
    paths delivered to started commands afterwards are what had been handed over before, followed
    by a subsequence — in visit order, nothing twice, nothing foreign — of the entries of this
    starting point (`visitsN`: the in-range entries reachable under the follow mode, whose paths are
    pairwise distinct by `visitsN_paths` and `pathsN_nodup`), and nothing is left waiting. -/
theorem whole_walk_lossless (id : Nat) (dir : Bool) (cmd : Bytes) (fixed : List Bytes)
    (c : Config) (m : M Prim) (start : Bytes) (root : Node Attr) (g : GS)
    (hall : m.AllP (Sole id dir cmd fixed)) (hone : m.weight wT ≤ 1) (hmem : M.multis m ≠ [])
    (hb : ∃ nb, newBatch g.budget cmd fixed = some nb)
    (hwalk : ((refCfg c).depthFirst = false ∧ PruneOkN (refCfg c) (evalEntry m start) [] 0 (if c.sorted then sortNode root else root)) ∨
             (refCfg c).depthFirst = true) :
    let n := if c.sorted then sortNode root else root
    let r := processDir c m start (some root) g
    ∃ L, delivered (cmd :: fixed) r.gs = handed (cmd :: fixed) id g ++ L ∧
      L.Sublist ((visitsN (refCfg c) [] 0 n).map fun v => execPath dir (pathOf start v.ent.rpath)) ∧
      pendingOf id r.gs = [] := by
  intro n r
  have hroot : processRoot (refCfg c) (evalEntry m start) n { g with curDir := none } =
      (let q := refRoot (refCfg c) (evalEntry m start) n ⟨{ g with curDir := none }, 0, 0⟩; resOf q.1 q.2) := by
    rcases hwalk with ⟨h1, h2⟩ | h1
    · exact processRoot_preN (refCfg c) (evalEntry m start) h1 n h2 _
    · exact processRoot_postAny (refCfg c) (evalEntry m start) h1 n _
  have hsub := refNode_sub (refCfg c) (evalEntry m start) (TW id dir cmd fixed start)
    (TW_refl id dir cmd fixed start) (TW_trans id dir cmd fixed start) (TW_weaken id dir cmd fixed start)
    (fun v s => evalEntry_TW id dir cmd fixed start m hall hone v s) [] 0 n ⟨{ g with curDir := none }, 0, 0⟩
  obtain ⟨L, hL, hs⟩ := hsub.2 hb
  have hfin := finishDir_keeps id dir cmd fixed m hall hmem (refNode (refCfg c) (evalEntry m start) [] 0 n ⟨{ g with curDir := none }, 0, 0⟩).2.st
  have hr : r.gs = (finishDir m (refNode (refCfg c) (evalEntry m start) [] 0 n ⟨{ g with curDir := none }, 0, 0⟩).2.st).1 := by
    show (processDir c m start (some root) g).gs = _
    unfold processDir
    simp only
    rw [show (if c.sorted then sortNode root else root) = n from rfl, hroot]
    rfl
  have hp : pendingOf id r.gs = [] := by rw [hr]; exact hfin.2
  refine ⟨L, ?_, hs, hp⟩
  have : handed (cmd :: fixed) id r.gs = handed (cmd :: fixed) id g ++ L := by
    rw [hr, hfin.1.2, hL]
    simp [handed, delivered, pendingOf]
  simpa [handed, hp] using this

end FuModel.Find.Run
