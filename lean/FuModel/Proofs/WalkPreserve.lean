import FuModel.Proofs.WalkRef

/-!
# A relation every evaluation respects is respected by the whole traversal
-/
namespace FuModel.Find.Walk
variable {α σ : Type} (c : RefCfg) (ev : Visit α → σ → EvalOut × σ)

/-- whatever reflexive, transitive relation on the evaluator's state every single evaluation
    respects, the whole reference traversal respects (diagnostics do not touch that state) -/
theorem visit_preserves (Q : σ → σ → Prop) (hr : ∀ s, Q s s) (hev : ∀ v s, Q s (ev v s).2)
    (rp : List Name) (d : Nat) (n : Node α) (A : Acc σ) : Q A.st (visit c ev rp d n A).2.2.st := by
  unfold visit
  split
  · exact hev _ _
  · exact hr _

mutual
theorem refNode_preserves (Q : σ → σ → Prop) (hr : ∀ s, Q s s) (ht : ∀ a b c, Q a b → Q b c → Q a c)
    (hev : ∀ v s, Q s (ev v s).2) (rp : List Name) (d : Nat) (n : Node α) (A : Acc σ) :
    Q A.st (refNode c ev rp d n A).2.st := by
  match n with
  | .leaf nm k a =>
    rw [refNode]
    split
    · split
      · exact hr _
      · exact hr _
    · exact visit_preserves c ev Q hr hev rp d _ A
  | .dir nm l r a kids =>
    rw [refNode]
    have hk := fun A' => refKids_preserves Q hr ht hev rp (d + 1) kids A'
    have hv := fun A' => visit_preserves c ev Q hr hev rp d (.dir nm l r a kids) A'
    cases c.depthFirst
    · simp only [Bool.false_eq_true, if_false]
      split
      · exact hv A
      · split
        · exact hv A
        · split
          · split
            · exact ht _ _ _ (hv A) (hk _)
            · exact ht _ _ _ (hv A) (hr _)
          · exact hv A
    · simp only [if_true]
      split
      · split
        · split
          · exact hk A
          · exact ht _ _ _ (hk A) (hv _)
        · simp only [Bool.false_eq_true, if_false]
          exact ht _ _ _ (hr _) (hv (diag A))
      · simp only [Bool.false_eq_true, if_false]
        exact hv A
theorem refKids_preserves (Q : σ → σ → Prop) (hr : ∀ s, Q s s) (ht : ∀ a b c, Q a b → Q b c → Q a c)
    (hev : ∀ v s, Q s (ev v s).2) (rp : List Name) (d : Nat) (kids : List (Node α)) (A : Acc σ) :
    Q A.st (refKids c ev rp d kids A).2.st := by
  match kids with
  | [] => simpa [refKids] using hr A.st
  | n :: ns =>
    rw [refKids]
    have h1 := refNode_preserves Q hr ht hev (n.name :: rp) d n A
    split
    · exact h1
    · exact ht _ _ _ h1 (refKids_preserves Q hr ht hev rp d ns _)
end

end FuModel.Find.Walk

