import FuModel.Proofs.WalkOnce

/-!
# What a traversal does to the evaluator's state is a subsequence of what it would do entry by entry

`visitsN` is the list of entry views the reference traversal evaluates when nothing is pruned and
nobody quits (in visit order); with pruning and `-quit` the evaluated entries are a subsequence of
it.  `refNode_sub`: for every relation `T a b l` ("from `a` to `b` by evaluating, in order, some of
the entries `l`") that is reflexive, composes by appending, may be weakened along sublists and
holds for one evaluation, the whole traversal satisfies `T` with `visitsN`.
-/
namespace FuModel.Find.Walk
set_option linter.unusedSectionVars false
variable {α σ : Type}

def selfVisit (c : RefCfg) (rpath : List Name) (depth : Nat) (n : Node α) : List (Visit α) :=
  if inRange c depth then [mkVisit c rpath depth n] else []

mutual
def visitsN (c : RefCfg) (rpath : List Name) (depth : Nat) : Node α → List (Visit α)
  | .leaf nm k a => if k == .linkLoop && c.follows depth then [] else selfVisit c rpath depth (.leaf nm k a)
  | .dir nm isLink readable a kids =>
    let below :=
      if (!isLink || c.follows depth) && decide (depth < c.maxDepth) then
        (if readable then visitsK c rpath (depth + 1) kids else [])
      else []
    if c.depthFirst then below ++ selfVisit c rpath depth (.dir nm isLink readable a kids)
    else selfVisit c rpath depth (.dir nm isLink readable a kids) ++ below
def visitsK (c : RefCfg) (rpath : List Name) (depth : Nat) : List (Node α) → List (Visit α)
  | [] => []
  | n :: ns => visitsN c (n.name :: rpath) depth n ++ visitsK c rpath depth ns
end

theorem selfVisit_path (c : RefCfg) (rp : List Name) (d : Nat) (n : Node α) :
    (selfVisit c rp d n).map (·.ent.rpath) = selfPath c rp d := by
  unfold selfVisit selfPath; split <;> simp [mkVisit_rpath]

mutual
/-- the paths of `visitsN` are `pathsN` (hence pairwise distinct, `pathsN_nodup`) -/
theorem visitsN_paths (c : RefCfg) (rp : List Name) (d : Nat) (n : Node α) :
    (visitsN c rp d n).map (·.ent.rpath) = pathsN c rp d n := by
  match n with
  | .leaf nm k a => rw [visitsN, pathsN]; split <;> simp [selfVisit_path]
  | .dir nm l r a kids =>
    rw [visitsN, pathsN]
    have hk := visitsK_paths c rp (d + 1) kids
    split <;> (simp only [List.map_append, selfVisit_path]; split <;> (try split) <;> simp [hk])
theorem visitsK_paths (c : RefCfg) (rp : List Name) (d : Nat) (kids : List (Node α)) :
    (visitsK c rp d kids).map (·.ent.rpath) = pathsK c rp d kids := by
  match kids with
  | [] => simp [visitsK, pathsK]
  | n :: ns => rw [visitsK, pathsK, List.map_append, visitsN_paths c (n.name :: rp) d n, visitsK_paths c rp d ns]
end

section sub
variable (c : RefCfg) (ev : Visit α → σ → EvalOut × σ) (T : σ → σ → List (Visit α) → Prop)
  (hr : ∀ s, T s s [])
  (ht : ∀ a b cc l1 l2, T a b l1 → T b cc l2 → T a cc (l1 ++ l2))
  (hw : ∀ a b l l', T a b l → l.Sublist l' → T a b l')
  (hev : ∀ v s, T s (ev v s).2 [v])
include hr ht hw hev

omit ht hw in
theorem visit_sub (rp : List Name) (d : Nat) (n : Node α) (A : Acc σ) :
    T A.st (visit c ev rp d n A).2.2.st (selfVisit c rp d n) := by
  unfold visit selfVisit
  split
  · exact hev _ _
  · exact hr _

mutual
theorem refNode_sub (rp : List Name) (d : Nat) (n : Node α) (A : Acc σ) :
    T A.st (refNode c ev rp d n A).2.st (visitsN c rp d n) := by
  match n with
  | .leaf nm k a =>
    rw [refNode, visitsN]
    split
    · split <;> exact hr _
    · exact visit_sub c ev T hr hev rp d _ A
  | .dir nm l r a kids =>
    rw [refNode, visitsN]
    have hk := fun A' => refKids_sub rp (d + 1) kids A'
    have hv := fun A' => visit_sub c ev T hr hev rp d (.dir nm l r a kids) A'
    cases hdesc : ((!l || c.follows d) && decide (d < c.maxDepth)) <;> cases r <;> cases c.depthFirst <;>
      simp only [Bool.false_eq_true, if_false, if_true, List.append_nil, List.nil_append]
    all_goals ((repeat' split) <;> first
      | exact hv A
      | exact hv (diag A)
      | exact hw _ _ _ _ (hv A) (List.sublist_append_left _ _)
      | exact ht _ _ _ _ _ (hv A) (hk _)
      | exact hw _ _ _ _ (hk A) (List.sublist_append_left _ _)
      | exact ht _ _ _ _ _ (hk A) (hv _))
theorem refKids_sub (rp : List Name) (d : Nat) (kids : List (Node α)) (A : Acc σ) :
    T A.st (refKids c ev rp d kids A).2.st (visitsK c rp d kids) := by
  match kids with
  | [] => simpa [refKids, visitsK] using hr A.st
  | n :: ns =>
    rw [refKids, visitsK]
    have h1 := refNode_sub (n.name :: rp) d n A
    split
    · exact hw _ _ _ _ h1 (List.sublist_append_left _ _)
    · exact ht _ _ _ _ _ h1 (refKids_sub rp d ns _)
end
end sub

end FuModel.Find.Walk
