import FuModel.Xargs.BatchSpec
/-
Helper lemmas for the batching theorems (C04): the limiter chain (`tryArg`,
`foldTry`), the maximality chain and the invariant of `processInput`.
-/
namespace FuModel.Xargs

/-! ### the limiter chain -/

/-- the state `tryArg` produces when it accepts -/
def stepState (lim : Limits) (st : LState) (a : Arg) : LState :=
  { args := if a.kind ≠ .initial then st.args + 1 else st.args
    line := if a.kind = .hard then st.line + 1 else st.line
    sizeS := st.sizeS + cost a.bytes
    sizeSys := st.sizeSys + cost a.bytes + lim.ptr }

/-- the five tests of the chain -/
def Accepts (lim : Limits) (st : LState) (a : Arg) : Prop :=
  (∀ n, lim.n = some n → st.args < n) ∧
  (∀ l, lim.l = some l → st.line ≤ l) ∧
  (∀ s, lim.s = some s → st.sizeS + cost a.bytes ≤ s) ∧
  cost a.bytes ≤ lim.maxArg ∧
  st.sizeSys + cost a.bytes + lim.ptr ≤ lim.sys

theorem tryArg_ok_iff (lim : Limits) (st st' : LState) (a : Arg) :
    tryArg lim st a = .ok st' ↔ Accepts lim st a ∧ st' = stepState lim st a := by
  rcases lim with ⟨n, l, s, sys, ptr, maxArg⟩
  unfold tryArg Accepts stepState
  cases n <;> cases l <;> cases s <;> simp <;> grind

theorem tryArg_ok_of_accepts {lim : Limits} {st : LState} {a : Arg} (h : Accepts lim st a) :
    tryArg lim st a = .ok (stepState lim st a) :=
  (tryArg_ok_iff lim st _ a).2 ⟨h, rfl⟩

theorem not_accepts_of_error {lim : Limits} {st : LState} {a : Arg} {e : Bool}
    (h : tryArg lim st a = .error e) : ¬ Accepts lim st a := by
  intro hacc
  rw [tryArg_ok_of_accepts hacc] at h
  cases h

/-- componentwise order on limiter states -/
def LState.le (s t : LState) : Prop :=
  s.args ≤ t.args ∧ s.line ≤ t.line ∧ s.sizeS ≤ t.sizeS ∧ s.sizeSys ≤ t.sizeSys

theorem LState.le_refl (s : LState) : s.le s := ⟨Nat.le_refl _, Nat.le_refl _, Nat.le_refl _, Nat.le_refl _⟩

theorem LState.le_trans {s t u : LState} (h₁ : s.le t) (h₂ : t.le u) : s.le u := by
  unfold LState.le at *; omega

theorem stepState_le (lim : Limits) (st : LState) (a : Arg) : st.le (stepState lim st a) := by
  unfold LState.le stepState
  refine ⟨?_, ?_, ?_, ?_⟩ <;> simp <;> (try split) <;> omega

theorem Accepts.mono {lim : Limits} {s t : LState} {a : Arg} (hle : s.le t)
    (h : Accepts lim t a) : Accepts lim s a := by
  obtain ⟨h1, h2, h3, h4, h5⟩ := h
  obtain ⟨l1, l2, l3, l4⟩ := hle
  refine ⟨fun n hn => ?_, fun l hl => ?_, fun x hx => ?_, h4, ?_⟩
  · have := h1 n hn; omega
  · have := h2 l hl; omega
  · have := h3 x hx; omega
  · omega

/-! ### foldTry -/

theorem foldTry_append (lim : Limits) (st : LState) (b c : List Arg) :
    foldTry lim st (b ++ c) = (foldTry lim st b).bind (fun st' => foldTry lim st' c) := by
  induction b generalizing st with
  | nil => simp [foldTry]
  | cons a b ih =>
    simp only [List.cons_append, foldTry]
    cases tryArg lim st a with
    | ok st' => simpa using ih st'
    | error e => simp

theorem foldTry_snoc_ok {lim : Limits} {init st st' : LState} {b : List Arg} {a : Arg}
    (hb : foldTry lim init b = some st) (ha : tryArg lim st a = .ok st') :
    foldTry lim init (b ++ [a]) = some st' := by
  simp [foldTry_append, hb, foldTry, ha]

theorem foldTry_snoc_error {lim : Limits} {init st : LState} {b : List Arg} {a : Arg} {e : Bool}
    (hb : foldTry lim init b = some st) (ha : tryArg lim st a = .error e) :
    foldTry lim init (b ++ [a]) = none := by
  simp [foldTry_append, hb, foldTry, ha]

theorem foldTry_le {lim : Limits} {st st' : LState} {b : List Arg}
    (h : foldTry lim st b = some st') : st.le st' := by
  induction b generalizing st with
  | nil => simp [foldTry] at h; subst h; exact LState.le_refl _
  | cons a b ih =>
    simp only [foldTry] at h
    cases hta : tryArg lim st a with
    | ok s =>
      rw [hta] at h
      have := ((tryArg_ok_iff lim st s a).1 hta).2
      subst this
      exact LState.le_trans (stepState_le lim st a) (ih h)
    | error e => rw [hta] at h; cases h

theorem fitsB_nil (lim : Limits) (init : LState) : fitsB lim init [] = true := by
  simp [fitsB, foldTry]

theorem fitsB_singleton_iff (lim : Limits) (init : LState) (a : Arg) :
    fitsB lim init [a] = true ↔ Accepts lim init a := by
  unfold fitsB
  simp only [foldTry]
  cases h : tryArg lim init a with
  | ok s => simpa using ((tryArg_ok_iff lim init s a).1 h).1
  | error e => simpa using not_accepts_of_error h

theorem fitsB_singleton_false {lim : Limits} {init : LState} {a : Arg} {e : Bool}
    (h : tryArg lim init a = .error e) : fitsB lim init [a] = false := by
  rw [Bool.eq_false_iff]
  intro hf
  exact not_accepts_of_error h ((fitsB_singleton_iff lim init a).1 hf)

theorem fitsB_of_foldTry {lim : Limits} {init st : LState} {b : List Arg}
    (h : foldTry lim init b = some st) : fitsB lim init b = true := by
  simp [fitsB, h]

/-- every member of a command that fits also fits alone -/
theorem fitsB_singleton_of_mem {lim : Limits} {init : LState} {b : List Arg} {a : Arg}
    (hb : fitsB lim init b = true) (ha : a ∈ b) : fitsB lim init [a] = true := by
  obtain ⟨pre, post, rfl⟩ := List.append_of_mem ha
  unfold fitsB at hb
  rw [foldTry_append] at hb
  cases hpre : foldTry lim init pre with
  | none => simp [hpre] at hb
  | some st1 =>
    rw [hpre] at hb
    simp only [Option.bind_some, foldTry] at hb
    cases hta : tryArg lim st1 a with
    | error e => rw [hta] at hb; simp at hb
    | ok s =>
      have hacc := ((tryArg_ok_iff lim st1 s a).1 hta).1
      exact (fitsB_singleton_iff lim init a).2 (hacc.mono (foldTry_le hpre))

/-! ### operational versus declarative reading -/

theorem hardCount_cons (a : Arg) (b : List Arg) :
    hardCount (a :: b) = (if a.kind = .hard then 1 else 0) + hardCount b := by
  unfold hardCount
  by_cases h : a.kind = .hard <;> simp [h] <;> omega

theorem hardCount_nil : hardCount [] = 0 := rfl

theorem totalCost_cons (a : Arg) (b : List Arg) :
    totalCost (a :: b) = cost a.bytes + totalCost b := by
  simp [totalCost]

theorem totalCost_nil : totalCost [] = 0 := rfl

/-- the second disjunct of `FitsSpec` -/
def SpecBody (lim : Limits) (init : LState) (b : List Arg) : Prop :=
  (∀ n, lim.n = some n → init.args + b.length ≤ n) ∧
  (∀ l, lim.l = some l → init.line + hardCount b.dropLast ≤ l) ∧
  (∀ s, lim.s = some s → init.sizeS + totalCost b ≤ s) ∧
  (∀ a ∈ b, cost a.bytes ≤ lim.maxArg) ∧
  (init.sizeSys + totalCost b + lim.ptr * b.length ≤ lim.sys)

theorem specBody_singleton_iff (lim : Limits) (st : LState) (a : Arg) :
    SpecBody lim st [a] ↔ Accepts lim st a := by
  unfold SpecBody Accepts
  simp only [List.dropLast_singleton, hardCount_nil, totalCost_cons, totalCost_nil,
    List.length_cons, List.length_nil, List.mem_singleton, forall_eq, Nat.add_zero, Nat.zero_add,
    Nat.mul_one]
  constructor
  · rintro ⟨h1, h2, h3, h4, h5⟩
    exact ⟨fun n hn => by have := h1 n hn; omega, h2, h3, h4, by omega⟩
  · rintro ⟨h1, h2, h3, h4, h5⟩
    exact ⟨fun n hn => by have := h1 n hn; omega, h2, h3, h4, by omega⟩

theorem specBody_cons_cons_iff (lim : Limits) (st : LState) (a a' : Arg) (b : List Arg)
    (hk : a.kind ≠ .initial) :
    SpecBody lim st (a :: a' :: b) ↔
      Accepts lim st a ∧ SpecBody lim (stepState lim st a) (a' :: b) := by
  unfold SpecBody Accepts stepState
  simp only [List.dropLast_cons_cons, hardCount_cons, totalCost_cons, List.length_cons,
    Nat.mul_add, Nat.mul_one, List.mem_cons, forall_eq_or_imp, hk, ne_eq, not_false_eq_true,
    if_true]
  generalize hardCount (a' :: b).dropLast = hc
  by_cases hh : a.kind = .hard <;> simp only [hh, if_true, if_false] <;>
  · constructor
    · rintro ⟨h1, h2, h3, ⟨h4, h4'⟩, h5⟩
      refine ⟨⟨fun n hn => ?_, fun l hl => ?_, fun x hx => ?_, h4, ?_⟩,
        fun n hn => ?_, fun l hl => ?_, fun x hx => ?_, h4', ?_⟩
      · have := h1 n hn; omega
      · have := h2 l hl; omega
      · have := h3 x hx; omega
      · omega
      · have := h1 n hn; omega
      · have := h2 l hl; omega
      · have := h3 x hx; omega
      · omega
    · rintro ⟨⟨g1, g2, g3, g4, g5⟩, h1, h2, h3, h4', h5⟩
      refine ⟨fun n hn => ?_, fun l hl => ?_, fun x hx => ?_, ⟨g4, h4'⟩, ?_⟩
      · have := h1 n hn; omega
      · have := h2 l hl; omega
      · have := h3 x hx; omega
      · omega

theorem foldTry_cons_isSome_iff (lim : Limits) (b : List Arg) :
    ∀ (st : LState) (a : Arg), (∀ x ∈ a :: b, x.kind ≠ .initial) →
      ((foldTry lim st (a :: b)).isSome = true ↔ SpecBody lim st (a :: b)) := by
  induction b with
  | nil =>
    intro st a _
    rw [specBody_singleton_iff]
    exact fitsB_singleton_iff lim st a
  | cons a' b ih =>
    intro st a hk
    have hka : a.kind ≠ .initial := hk a (by simp)
    have hk' : ∀ x ∈ a' :: b, x.kind ≠ .initial := fun x hx => hk x (List.mem_cons_of_mem _ hx)
    rw [specBody_cons_cons_iff lim st a a' b hka]
    rw [foldTry]
    cases hta : tryArg lim st a with
    | ok s =>
      obtain ⟨hacc, rfl⟩ := (tryArg_ok_iff lim st s a).1 hta
      simp only [ih _ a' hk', hacc, true_and]
    | error e =>
      have := not_accepts_of_error hta
      simp [this]

theorem fitsB_iff_fitsSpec (lim : Limits) (init : LState) (b : List Arg)
    (hk : ∀ a ∈ b, a.kind ≠ .initial) :
    fitsB lim init b = true ↔ FitsSpec lim init b := by
  cases b with
  | nil => simp [fitsB_nil, FitsSpec]
  | cons a b =>
    have := foldTry_cons_isSome_iff lim b init a hk
    unfold fitsB FitsSpec
    rw [this]
    simp [SpecBody]

/-! ### maximality chain -/

/-- the first argument of `b'` could not be added to `b` -/
def HeldBack (lim : Limits) (init : LState) (b b' : List Arg) : Prop :=
  ∃ a, b'.head? = some a ∧ fitsB lim init (b ++ [a]) = false

/-- consecutive commands satisfy `HeldBack` -/
def MaxChain (lim : Limits) (init : LState) (l : List (List Arg)) : Prop :=
  ∀ i (h : i + 1 < l.length), HeldBack lim init (l[i]'(by omega)) (l[i + 1])

theorem MaxChain.nil (lim : Limits) (init : LState) : MaxChain lim init [] := by
  intro i h; simp at h

theorem MaxChain.singleton (lim : Limits) (init : LState) (x : List Arg) :
    MaxChain lim init [x] := by
  intro i h; simp at h

theorem maxChain_snoc_iff (lim : Limits) (init : LState) (l : List (List Arg)) (x : List Arg) :
    MaxChain lim init (l ++ [x]) ↔
      MaxChain lim init l ∧ ∀ z, l.getLast? = some z → HeldBack lim init z x := by
  constructor
  · intro H
    refine ⟨fun i h => ?_, fun z hz => ?_⟩
    · have := H i (by simp; omega)
      rwa [List.getElem_append_left (by omega), List.getElem_append_left (by omega)] at this
    · have hne : l ≠ [] := by rintro rfl; simp at hz
      have hlen : 0 < l.length := List.length_pos_iff.2 hne
      have := H (l.length - 1) (by simp; omega)
      rw [List.getElem_append_left (by omega)] at this
      rw [List.getLast?_eq_getElem?, List.getElem?_eq_getElem (by omega)] at hz
      cases hz
      have hx : (l ++ [x])[l.length - 1 + 1]'(by simp; omega) = x := by
        rw [List.getElem_append_right (by omega)]; simp
      rwa [hx] at this
  · rintro ⟨H, hl⟩ i h
    simp at h
    by_cases hi : i + 1 < l.length
    · rw [List.getElem_append_left (by omega), List.getElem_append_left hi]
      exact H i hi
    · have hi' : i + 1 = l.length := by omega
      have hx : (l ++ [x])[i + 1]'(by simp; omega) = x := by
        rw [List.getElem_append_right (by omega)]; simp
      rw [hx, List.getElem_append_left (by omega)]
      apply hl
      rw [List.getLast?_eq_getElem?, List.getElem?_eq_getElem (by omega)]
      congr 2
      omega

/-! ### classification of outcomes -/

theorem classify_fatal_status {o : Outcome} {s : Nat} (h : classify o = .fatal s) :
    s ≠ 0 ∧ s ≠ 1 ∧ s ≠ 123 := by
  cases o with
  | exit c =>
    unfold classify at h
    split at h <;> simp_all <;> omega
  | signal n => simp [classify] at h; omega
  | notFound => simp [classify] at h; omega
  | cannotRun => simp [classify] at h; omega

/-! ### the invariant of `processInput` -/

structure Inv (cfg : Config) (init : LState) (cur : Builder) (pend : Bool)
    (log : List (List Arg)) : Prop where
  fold : foldTry cfg.lim init cur.extra = some cur.st
  pend_iff : pend = true ↔ cur.extra ≠ []
  logFits : ∀ b ∈ log, fitsB cfg.lim init b = true
  logNe : ∀ b ∈ log, b ≠ []
  chain : MaxChain cfg.lim init (log ++ [cur.extra])
  logEmpty : cur.extra = [] → log = []

/-- why a run ended with status 1 -/
def OneWitness (cfg : Config) (init : LState) (input : List Arg) (run : Run) : Prop :=
  ∃ pending a post, input = run.batches.flatten ++ pending ++ a :: post ∧
    fitsB cfg.lim init pending = true ∧
    ((pending = [] ∧ fitsB cfg.lim init [a] = false) ∨
     (cfg.x = true ∧ (cfg.lim.n.isSome ∨ cfg.lim.l.isSome) ∧
      ∃ st, foldTry cfg.lim init pending = some st ∧ tryArg cfg.lim st a = .error true))

structure Post (cfg : Config) (init : LState) (input : List Arg) (run : Run) : Prop where
  fits : ∀ b ∈ run.batches, fitsB cfg.lim init b = true
  chain : MaxChain cfg.lim init run.batches
  pre : ∃ rest, input = run.batches.flatten ++ rest ∧
    ((run.status = 0 ∨ run.status = 123) → rest = [])
  ne : input ≠ [] → ∀ b ∈ run.batches, b ≠ []
  one : run.status = 1 → OneWitness cfg init input run

theorem Inv.initial (cfg : Config) (init : LState) : Inv cfg init ⟨init, []⟩ false [] where
  fold := rfl
  pend_iff := by simp
  logFits := by simp
  logNe := by simp
  chain := MaxChain.singleton _ _ _
  logEmpty := fun _ => rfl

theorem Inv.push {cfg : Config} {init : LState} {cur : Builder} {pend : Bool}
    {log : List (List Arg)} (I : Inv cfg init cur pend log) {a : Arg} {st' : LState}
    (h : tryArg cfg.lim cur.st a = .ok st') :
    Inv cfg init ⟨st', cur.extra ++ [a]⟩ true log where
  fold := foldTry_snoc_ok I.fold h
  pend_iff := by simp
  logFits := I.logFits
  logNe := I.logNe
  chain := by
    have hc := I.chain
    rw [maxChain_snoc_iff] at hc ⊢
    refine ⟨hc.1, fun z hz => ?_⟩
    by_cases he : cur.extra = []
    · have := I.logEmpty he; subst this; simp at hz
    · obtain ⟨x, hx, hfit⟩ := hc.2 z hz
      refine ⟨x, ?_, hfit⟩
      show (cur.extra ++ [a]).head? = some x
      cases hce : cur.extra with
      | nil => exact absurd hce he
      | cons y ys => rw [hce] at hx; simpa using hx
  logEmpty := by simp

theorem Inv.flush {cfg : Config} {init : LState} {cur : Builder} {pend : Bool}
    {log : List (List Arg)} (I : Inv cfg init cur pend log) (hp : pend = true) {a : Arg}
    {e : Bool} {st' : LState} (herr : tryArg cfg.lim cur.st a = .error e)
    (h : tryArg cfg.lim init a = .ok st') :
    Inv cfg init ⟨st', [a]⟩ true (log ++ [cur.extra]) where
  fold := by simp [foldTry, h]
  pend_iff := by simp
  logFits := by
    intro b hb
    rcases List.mem_append.1 hb with hb | hb
    · exact I.logFits b hb
    · simp at hb; subst hb; exact fitsB_of_foldTry I.fold
  logNe := by
    intro b hb
    rcases List.mem_append.1 hb with hb | hb
    · exact I.logNe b hb
    · simp at hb; subst hb; exact I.pend_iff.1 hp
  chain := by
    rw [maxChain_snoc_iff]
    refine ⟨I.chain, fun z hz => ?_⟩
    simp at hz; subst hz
    exact ⟨a, rfl, by simp [fitsB, foldTry_snoc_error I.fold herr]⟩
  logEmpty := by simp

theorem Inv.flushLog {cfg : Config} {init : LState} {cur : Builder} {pend : Bool}
    {log : List (List Arg)} (I : Inv cfg init cur pend log) (hp : pend = true) :
    (∀ b ∈ log ++ [cur.extra], fitsB cfg.lim init b = true) ∧
    (∀ b ∈ log ++ [cur.extra], b ≠ []) := by
  constructor
  · intro b hb
    rcases List.mem_append.1 hb with hb | hb
    · exact I.logFits b hb
    · simp at hb; subst hb; exact fitsB_of_foldTry I.fold
  · intro b hb
    rcases List.mem_append.1 hb with hb | hb
    · exact I.logNe b hb
    · simp at hb; subst hb; exact I.pend_iff.1 hp

theorem Inv.fresh {cfg : Config} {init : LState} {cur : Builder}
    {log : List (List Arg)} (I : Inv cfg init cur false log) {a : Arg}
    {st' : LState} (h : tryArg cfg.lim init a = .ok st') :
    Inv cfg init ⟨st', [a]⟩ true log := by
  have he : cur.extra = [] := by
    have := I.pend_iff; simpa using this
  have hl : log = [] := I.logEmpty he
  subst hl
  exact {
    fold := by simp [foldTry, h]
    pend_iff := by simp
    logFits := by simp
    logNe := by simp
    chain := MaxChain.singleton _ _ _
    logEmpty := by simp }

/-- the run ends by starting the command under construction -/
theorem Post.snoc {cfg : Config} {init : LState} {cur : Builder} {pend : Bool}
    {log : List (List Arg)} (I : Inv cfg init cur pend log) (rest : List Arg) (s : Nat)
    (hs : (s = 0 ∨ s = 123) → rest = []) (hs1 : s ≠ 1) (hrest : cur.extra = [] → rest = []) :
    Post cfg init (log.flatten ++ cur.extra ++ rest) ⟨log ++ [cur.extra], s⟩ where
  fits := by
    intro b hb
    rcases List.mem_append.1 hb with hb | hb
    · exact I.logFits b hb
    · simp at hb; subst hb; exact fitsB_of_foldTry I.fold
  chain := I.chain
  pre := ⟨rest, by simp, hs⟩
  ne := by
    intro hin b hb
    rcases List.mem_append.1 hb with hb | hb
    · exact I.logNe b hb
    · simp at hb; subst hb
      intro he
      apply hin
      simp [he, hrest he, I.logEmpty he]
  one := fun h => absurd h hs1

/-- the run ends without starting the (empty) command under construction -/
theorem Post.skip {cfg : Config} {init : LState} {cur : Builder}
    {log : List (List Arg)} (I : Inv cfg init cur false log) (s : Nat) (hs1 : s ≠ 1) :
    Post cfg init (log.flatten ++ cur.extra ++ []) ⟨log, s⟩ := by
  have he : cur.extra = [] := by
    have := I.pend_iff; simpa using this
  have hl : log = [] := I.logEmpty he
  subst hl
  exact {
    fits := by simp
    chain := MaxChain.nil _ _
    pre := ⟨[], by simp [he], fun _ => rfl⟩
    ne := by simp
    one := fun h => absurd h hs1 }

/-- the run stops with status 1 at `a`, the command under construction is dropped -/
theorem Post.stop {cfg : Config} {init : LState} {log : List (List Arg)}
    (hfits : ∀ b ∈ log, fitsB cfg.lim init b = true) (hne : ∀ b ∈ log, b ≠ [])
    (hchain : MaxChain cfg.lim init log) (pending : List Arg) (a : Arg) (post : List Arg)
    (hpend : fitsB cfg.lim init pending = true)
    (hwhy : (pending = [] ∧ fitsB cfg.lim init [a] = false) ∨
      (cfg.x = true ∧ (cfg.lim.n.isSome ∨ cfg.lim.l.isSome) ∧
        ∃ st, foldTry cfg.lim init pending = some st ∧ tryArg cfg.lim st a = .error true)) :
    Post cfg init (log.flatten ++ pending ++ a :: post) ⟨log, 1⟩ where
  fits := hfits
  chain := hchain
  pre := ⟨pending ++ a :: post, by simp, by simp⟩
  ne := fun _ => hne
  one := fun _ => ⟨pending, a, post, rfl, hpend, hwhy⟩

theorem processInput_post (cfg : Config) (init : LState) :
    ∀ (as : List Arg) (cur : Builder) (pend failed : Bool) (log : List (List Arg))
      (script : List Outcome), Inv cfg init cur pend log →
      Post cfg init (log.flatten ++ cur.extra ++ as)
        (processInput cfg init false cur pend failed log script as) := by
  intro as
  induction as with
  | nil =>
    intro cur pend failed log script I
    rw [processInput]
    simp only [Bool.false_eq_true, if_false]
    by_cases hc : (!cfg.r || pend) = true
    · simp only [hc, if_true]
      have hrest : cur.extra = [] → ([] : List Arg) = [] := fun _ => rfl
      cases hcl : classify (nextOutcome script).1 with
      | success =>
        simp only []
        cases failed
        · exact Post.snoc I [] 0 (fun _ => rfl) (by decide) hrest
        · exact Post.snoc I [] 123 (fun _ => rfl) (by decide) hrest
      | failure => exact Post.snoc I [] 123 (fun _ => rfl) (by decide) hrest
      | fatal s => exact Post.snoc I [] s (fun _ => rfl) (classify_fatal_status hcl).2.1 hrest
    · simp only [hc]
      have hp : pend = false := by
        cases pend <;> simp_all
      subst hp
      cases failed
      · exact Post.skip I 0 (by decide)
      · exact Post.skip I 123 (by decide)
  | cons a as ih =>
    intro cur pend failed log script I
    rw [processInput]
    cases hta : tryArg cfg.lim cur.st a with
    | ok st' =>
      simp only []
      have := ih ⟨st', cur.extra ++ [a]⟩ true failed log script (I.push hta)
      simpa using this
    | error ooc =>
      simp only []
      have hchain := ((maxChain_snoc_iff _ _ _ _).1 I.chain).1
      by_cases hx : (ooc && cfg.x && (cfg.lim.n.isSome || cfg.lim.l.isSome)) = true
      · simp only [hx, if_true]
        have hx' : ooc = true ∧ cfg.x = true ∧
            (cfg.lim.n.isSome = true ∨ cfg.lim.l.isSome = true) := by
          simpa [Bool.and_eq_true, Bool.or_eq_true, and_assoc] using hx
        obtain ⟨rfl, hx1, hx2⟩ := hx'
        exact Post.stop I.logFits I.logNe hchain cur.extra a as (fitsB_of_foldTry I.fold)
          (Or.inr ⟨hx1, hx2, cur.st, I.fold, hta⟩)
      · simp only [hx]
        cases pend with
        | false =>
          have he : cur.extra = [] := by
            have := I.pend_iff; simpa using this
          simp only [Bool.false_eq_true, if_false, Option.getD_none]
          cases hti : tryArg cfg.lim init a with
          | ok st' =>
            simp only []
            have := ih ⟨st', [a]⟩ true failed log script (I.fresh hti)
            simpa [he] using this
          | error e =>
            simp only []
            have := Post.stop (post := as) I.logFits I.logNe hchain [] a (fitsB_nil _ _)
              (Or.inl ⟨rfl, fitsB_singleton_false hti⟩)
            simpa [he] using this
        | true =>
          simp only [if_true]
          obtain ⟨hlf, hln⟩ := I.flushLog rfl
          cases hcl : classify (nextOutcome script).1 with
          | success =>
            simp only [Option.getD_some]
            cases hti : tryArg cfg.lim init a with
            | ok st' =>
              simp only []
              have := ih ⟨st', [a]⟩ true failed (log ++ [cur.extra]) (nextOutcome script).2
                (I.flush rfl hta hti)
              simpa using this
            | error e =>
              simp only []
              have := Post.stop (post := as) hlf hln I.chain [] a (fitsB_nil _ _)
                (Or.inl ⟨rfl, fitsB_singleton_false hti⟩)
              simpa using this
          | failure =>
            simp only [Option.getD_some]
            cases hti : tryArg cfg.lim init a with
            | ok st' =>
              simp only []
              have := ih ⟨st', [a]⟩ true true (log ++ [cur.extra]) (nextOutcome script).2
                (I.flush rfl hta hti)
              simpa using this
            | error e =>
              simp only []
              have := Post.stop (post := as) hlf hln I.chain [] a (fitsB_nil _ _)
                (Or.inl ⟨rfl, fitsB_singleton_false hti⟩)
              simpa using this
          | fatal s =>
            simp only []
            obtain ⟨h0, h1, h123⟩ := classify_fatal_status hcl
            exact Post.snoc I (a :: as) s (fun h => by omega) h1
              (fun he => absurd he (I.pend_iff.1 rfl))

/-- the post-condition for a whole run -/
theorem run_post (cfg : Config) (init : LState) (script : List Outcome) (args : List Arg) :
    Post cfg init args (processInput cfg init false ⟨init, []⟩ false false [] script args) := by
  have := processInput_post cfg init args ⟨init, []⟩ false false [] script (Inv.initial cfg init)
  simpa using this

/-- status 1 never comes from a child, so the justification of status 1 needs no
    hypothesis on the script -/
theorem run_status_one (cfg : Config) (init : LState) (script : List Outcome) (args : List Arg) :
    (processInput cfg init false ⟨init, []⟩ false false [] script args).status = 1 →
    OneWitness cfg init args (processInput cfg init false ⟨init, []⟩ false false [] script args) :=
  (run_post cfg init script args).one

end FuModel.Xargs
