import FuModel.Find.Cmdline
import FuModel.Proofs.ExprReject

/-!
# Lemmas about the word-level reader of find's command line (C11)
-/
namespace FuModel.Find.Cmdline
open FuModel.Find.Expr FuModel.Find.Regex

def consT (ts : List (Tok Word)) (r : List (Tok Word) × Ending) : List (Tok Word) × Ending := (ts ++ r.1, r.2)

theorem consT_cons (t : Tok Word) (ts : List (Tok Word)) (r : List (Tok Word) × Ending) :
    cons' t (consT ts r) = consT (t :: ts) r := rfl

theorem cons'_done {t : Tok Word} {r : List (Tok Word) × Ending} {ts : List (Tok Word)}
    (h : cons' t r = (ts, Ending.done)) : ∃ ts', ts = t :: ts' ∧ r = (ts', Ending.done) := by
  obtain ⟨a, b⟩ := r
  simp only [cons', Prod.mk.injEq] at h
  exact ⟨a, h.1.symm, by rw [h.2]⟩

/-- The reader is compositional: words that were read completely (no error, no `-help`, not in
    the middle of `-exec`) leave a state (`rt'` = the regex syntax in force, `olp'`) from which the
    rest is read as if it stood alone. -/
theorem lex_append (e : Ext) (rt : RType) (mode : Option (List Word)) (olp : Bool) (pre : List Word) :
    ∀ ts, lex e rt mode olp pre = (ts, .done) →
    ∃ rt' olp', ∀ suf, lex e rt mode olp (pre ++ suf) = consT ts (lex e rt' none olp' suf) := by
  fun_induction lex e rt mode olp pre <;> intro ts h
  all_goals first
    | (simp at h; done)
    | (rename_i ih
       obtain ⟨ts', rfl, h'⟩ := cons'_done h
       obtain ⟨rt', olp', hs⟩ := ih _ h'
       clear ih h
       refine ⟨rt', olp', fun suf => ?_⟩
       rw [List.cons_append, lex.eq_def]
       simp [*, consT_cons]
       done)
    | (rename_i ih
       obtain ⟨rt', olp', hs⟩ := ih _ h
       clear ih
       refine ⟨rt', olp', fun suf => ?_⟩
       rw [List.cons_append, lex.eq_def]
       simp [*]
       done)
    | (rename_i rt0 olp0
       simp only [Prod.mk.injEq, and_true] at h
       subst h
       exact ⟨rt0, olp0, fun suf => by simp [consT]⟩)

/-! ### words that end the reading with an error, wherever a primary may stand -/

theorem lex_unknown (e : Ext) (rt : RType) (olp : Bool) (w : Word) (ws : List Word) (h : classify w = .unknown) :
    lex e rt none olp (w :: ws) = ([], .bad) := by
  rw [lex.eq_def]; simp [h]

theorem lex_missing_operand (e : Ext) (rt : RType) (olp : Bool) (w : Word) (c : Check) (h : classify w = .unary c) :
    lex e rt none olp [w] = ([], .bad) := by
  rw [lex.eq_def]; simp [h]

theorem lex_bad_operand (e : Ext) (rt : RType) (olp : Bool) (w op : Word) (ws : List Word) (c : Check)
    (h : classify w = .unary c) (hb : checkOperand e rt c op = .bad) :
    lex e rt none olp (w :: op :: ws) = ([], .bad) := by
  rw [lex.eq_def]; simp [h, hb]

theorem lex_fprintf_short (e : Ext) (rt : RType) (olp : Bool) (w : Word) (ws : List Word)
    (h : classify w = .fprintf) (hl : ws.length < 2) :
    lex e rt none olp (w :: ws) = ([], .bad) := by
  rw [lex.eq_def]
  match ws, hl with
  | [], _ => simp [h]
  | [_], _ => simp [h]

theorem lex_fprintf_bad_format (e : Ext) (rt : RType) (olp : Bool) (w f fmt : Word) (ws : List Word)
    (h : classify w = .fprintf) (hf : e.outFile f = some true) (hb : checkPrintf e fmt = .bad) :
    lex e rt none olp (w :: f :: fmt :: ws) = ([], .bad) := by
  rw [lex.eq_def]; simp [h, hf, hb]

theorem lex_exec_scan (e : Ext) (rt : RType) (ws : List Word) :
    ∀ (seen : List Word) (olp : Bool), (∀ x ∈ ws, x ≠ [';'] ∧ x ≠ ['+']) → lex e rt (some seen) olp ws = ([], .bad) := by
  induction ws with
  | nil => intro seen olp _; rw [lex.eq_def]
  | cons x xs ih =>
    intro seen olp h
    have hx := h x (by simp)
    have h1 : (x == [';']) = false := by simpa using hx.1
    have h2 : (x == ['+']) = false := by simpa using hx.2
    rw [lex.eq_def]
    simp only [h1, h2, Bool.false_and, Bool.false_eq_true, if_false]
    exact ih _ _ (fun y hy => h y (by simp [hy]))

/-- `-exec` / `-execdir` without `;` and without `+` -/
theorem lex_exec_unterminated (e : Ext) (rt : RType) (olp : Bool) (w : Word) (ws : List Word)
    (h : classify w = .exec) (hn : ∀ x ∈ ws, x ≠ [';'] ∧ x ≠ ['+']) :
    lex e rt none olp (w :: ws) = ([], .bad) := by
  rw [lex.eq_def]; simp only [h]; exact lex_exec_scan e rt ws [] false hn

/-- `-exec ;` (no command) -/
theorem lex_exec_no_command (e : Ext) (rt : RType) (olp : Bool) (w : Word) (ws : List Word) (h : classify w = .exec) :
    lex e rt none olp (w :: [';'] :: ws) = ([], .bad) := by
  rw [lex.eq_def]; simp only [h]; rw [lex.eq_def]; simp

/-- an error after completely read words is an error of the whole -/
theorem lex_bad_after (e : Ext) (rt : RType) (olp : Bool) (pre suf : List Word) (ts : List (Tok Word))
    (hp : lex e rt none olp pre = (ts, .done))
    (hs : ∀ rt' olp', (lex e rt' none olp' suf).2 = .bad) :
    (lex e rt none olp (pre ++ suf)).2 = .bad := by
  obtain ⟨rt', olp', h⟩ := lex_append e rt none olp pre ts hp
  rw [h suf]; exact hs rt' olp'

/-! ### `verdict` -/

theorem verdict_of_bad (e : Ext) (argv : List Word)
    (h : (lex e .emacs none false (FuModel.Find.Run.parseLeading argv).rest).2 = .bad) :
    verdict e argv = .reject := by
  rw [verdict, h]; rfl

theorem verdict_of_tree_reject (e : Ext) (argv : List Word) (ts : List (Tok Word))
    (h : lex e .emacs none false (FuModel.Find.Run.parseLeading argv).rest = (ts, .done))
    (hr : Rejects (buildTree ts)) :
    verdict e argv = .reject := by
  obtain ⟨err, he⟩ := hr
  rw [verdict, h]
  simp only [verdictOf, he]

/-- conversely: an accepted command line was read to the end and its tokens were accepted by the
    tree builder -/
theorem verdict_accept (e : Ext) (argv : List Word) (h : verdict e argv = .accept) :
    ∃ ts m, lex e .emacs none false (FuModel.Find.Run.parseLeading argv).rest = (ts, .done) ∧ buildTree ts = .ok m := by
  rw [verdict] at h
  generalize hl : lex e .emacs none false (FuModel.Find.Run.parseLeading argv).rest = r at h
  obtain ⟨ts, en⟩ := r
  cases en with
  | bad => cases h
  | unk => cases h
  | help =>
    simp only [verdictOf] at h
    split at h
    · split at h <;> cases h
    · split at h <;> cases h
    · cases h
  | done =>
    simp only [verdictOf] at h
    split at h
    · cases h
    · rename_i m hm; exact ⟨ts, m, rfl, hm⟩

end FuModel.Find.Cmdline
