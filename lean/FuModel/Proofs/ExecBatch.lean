import FuModel.Find.Run
import FuModel.Xargs.ExecLimit

/-!
# C08 — -exec … {} + : each path delivered once, in order, within OS limits

Model: `Find/Run.lean`: `MultiExecMatcher::matches` over a model of `argmax::Command`
(`available_argument_length`, `arg_size`, the per-argument cap), `finished_dir` / `finished`, and
the `current_dir` bookkeeping of `process_dir` (`evalEntry`, `finishDir`).  The kernel's `execve`
acceptance predicate is the one of C06 (`Xargs/ExecLimit.lean`).
The theorems below are about one step of the batch; that the steps compose over a whole walk into
"every reached path in exactly one invocation, in visit order, all dispatched at the end" is carried
by the correspondence runs (predicate `Pred/C08.lean`) — see the evidence (`partial`).
-/
namespace FuModel.Find.Run
open FuModel.Xargs

/-- what has been charged against the budget: the fixed arguments and the paths so far -/
def Batch.Inv (budget : Nat) (cmd : Bytes) (fixed : List Bytes) (b : Batch) : Prop :=
  b.remaining = availableLength budget cmd - ((fixed ++ b.paths).map argSize).foldl (· + ·) 0 ∧
  0 ≤ b.remaining ∧ ∀ a ∈ fixed ++ b.paths, a.length ≤ maxSingleArg

theorem foldl_add_shift (l : List Int) (x : Int) : l.foldl (· + ·) x = x + l.foldl (· + ·) 0 := by
  induction l generalizing x with
  | nil => simp
  | cons a as ih => rw [List.foldl_cons, List.foldl_cons, ih, ih (0 + a)]; omega

theorem availableLength_nonneg (budget : Nat) (cmd : Bytes) : 0 ≤ availableLength budget cmd := by
  unfold availableLength; simp only; split <;> (try split) <;> omega

/-- a fresh batch satisfies the accounting invariant … -/
theorem C08_new_batch (budget : Nat) (cmd : Bytes) (fixed : List Bytes) (b : Batch)
    (h : newBatch budget cmd fixed = some b) : b.Inv budget cmd fixed ∧ b.paths = [] := by
  unfold newBatch at h
  simp only at h
  split at h
  · cases h
  · rename_i hc
    injection h with h; subst h
    simp only [Bool.or_eq_true, List.any_eq_true, decide_eq_true_eq, not_or, not_exists, not_and, Nat.not_lt,
      Int.not_lt] at hc
    refine ⟨⟨by simp, by show (0 : Int) ≤ availableLength budget cmd - _; omega, ?_⟩, rfl⟩
    intro a ha
    simp only [List.append_nil] at ha
    exact hc.1 a ha

/-- … and appending a path keeps it: the path goes to the end of the command line. -/
theorem C08_try_arg (budget : Nat) (cmd : Bytes) (fixed : List Bytes) (b b' : Batch) (a : Bytes)
    (hi : b.Inv budget cmd fixed) (h : b.tryArg a = some b') :
    b'.Inv budget cmd fixed ∧ b'.paths = b.paths ++ [a] := by
  unfold Batch.tryArg at h
  split at h
  · cases h
  · rename_i hc
    injection h with h; subst h
    simp only [Bool.or_eq_true, decide_eq_true_eq, not_or, Nat.not_lt, Int.not_lt] at hc
    refine ⟨⟨?_, by simp only; omega, ?_⟩, rfl⟩
    · show b.remaining - argSize a = _
      have key : ((fixed ++ (b.paths ++ [a])).map argSize).foldl (· + ·) 0 =
          ((fixed ++ b.paths).map argSize).foldl (· + ·) 0 + argSize a := by
        rw [← List.append_assoc, List.map_append, List.foldl_append]
        rfl
      rw [key, hi.1]
      omega
    · intro x hx
      rw [← List.append_assoc] at hx
      rcases List.mem_append.mp hx with hx | hx
      · exact hi.2.2 x hx
      · simp at hx; subst hx; exact hc.1

/-- A path is refused only if it does not fit what is left (or is longer than any argument may be):
    batches are filled as far as the budget allows. -/
theorem C08_refused_iff (b : Batch) (a : Bytes) :
    b.tryArg a = none ↔ a.length > maxSingleArg ∨ argSize a > b.remaining := by
  unfold Batch.tryArg
  split <;> simp_all

theorem sum_argSize (l : List Bytes) :
    (l.map argSize).foldl (· + ·) 0 = ((8 * l.length + strCostL (l.map List.length) : Nat) : Int) := by
  induction l with
  | nil => simp [strCostL]
  | cons a as ih =>
    rw [List.map_cons, List.foldl_cons, foldl_add_shift, ih]
    simp only [argSize, strCostL, List.map_cons, List.sum_cons, List.length_cons, List.map_map]
    have : (List.map ((fun x => x + 1) ∘ List.length) as).sum = (List.map (fun x => x + 1) (List.map List.length as)).sum := by
      simp [List.map_map]
    omega

/-- Every command line built this way is accepted by the operating system: with `ARG_MAX` the
    kernel's limit, the budget `ARG_MAX` minus the size of the environment as argmax counts it, a
    program name whose resolved path is shorter than 6 KiB, and environment strings the kernel
    accepted for find itself — `execve(file, cmd :: fixed ++ paths, envp)` satisfies the kernel's
    acceptance predicate, however many or long the paths are. -/
theorem C08_os_accepts (limit : Nat) (envp : List Nat) (fileLen : Nat) (cmd : Bytes) (fixed : List Bytes) (b : Batch)
    (hb : b.Inv (limit - (strCostL envp + 8 * envp.length)) cmd fixed)
    (hfile : fileLen + 1 ≤ 6144) (hcmd : cmd.length ≤ maxSingleArg)
    (henv : ∀ l ∈ envp, l + 1 ≤ 131072) (hpos : 0 < availableLength (limit - (strCostL envp + 8 * envp.length)) cmd) :
    execAcceptsL limit fileLen ((cmd :: fixed ++ b.paths).map List.length) envp = true := by
  obtain ⟨hrem, hnn, hlen⟩ := hb
  rw [sum_argSize] at hrem
  have hav : availableLength (limit - (strCostL envp + 8 * envp.length)) cmd ≤
      ((limit - (strCostL envp + 8 * envp.length) : Nat) : Int) - 8 - argSize cmd - 8 - 4096 - 2048 := by
    unfold availableLength at hpos ⊢
    simp only at hpos ⊢
    split
    · rename_i h; simp [h] at hpos
    · split <;> omega
  simp only [argSize] at hav
  unfold execAcceptsL
  simp only [Bool.and_eq_true, List.all_eq_true, decide_eq_true_eq, List.mem_append, List.mem_map]
  have hlen' : (List.map List.length (cmd :: fixed ++ b.paths)).length = 1 + (fixed ++ b.paths).length := by
    simp; omega
  have hcost : strCostL (List.map List.length (cmd :: fixed ++ b.paths)) =
      (cmd.length + 1) + strCostL ((fixed ++ b.paths).map List.length) := by
    simp [strCostL]
  refine ⟨⟨?_, ?_⟩, ?_⟩
  · rintro l (⟨a, ha, rfl⟩ | hl)
    · have ha' : a = cmd ∨ a ∈ fixed ++ b.paths := by
        simp only [List.mem_cons, List.mem_append] at ha ⊢
        rcases ha with (h | h) | h
        · exact Or.inl h
        · exact Or.inr (Or.inl h)
        · exact Or.inr (Or.inr h)
      rcases ha' with rfl | ha'
      · unfold maxSingleArg at hcmd; omega
      · have := hlen a ha'; unfold maxSingleArg at this; omega
    · exact henv l hl
  · rw [hlen']; omega
  · rw [hlen', hcost]; omega

example : (newBatch 200000 [99] [[45, 120]]).map (·.remaining) = some (200000 - 8 - 10 - 8 - 4096 - 2048 - 11) := by decide

end FuModel.Find.Run
