import FuModel.Proofs.WalkSublog

/-!
# An evaluator that never prunes or quits sees every entry of `visitsN`, in order

The exact counterpart of `refNode_sub`: if every evaluation appends `f v` to a projection `π` of the
state (and neither prunes nor quits), the whole traversal appends `(visitsN …).flatMap f`.
-/
namespace FuModel.Find.Walk
set_option linter.unusedSectionVars false
set_option linter.unusedSimpArgs false
variable {α σ β : Type}

section exact
variable (c : RefCfg) (ev : Visit α → σ → EvalOut × σ) (π : σ → List β) (f : Visit α → List β)
  (hev : ∀ v s, (ev v s).1.prune = false ∧ (ev v s).1.quit = false ∧ π (ev v s).2 = π s ++ f v)
include hev

theorem visit_exact (rp : List Name) (d : Nat) (n : Node α) (A : Acc σ) :
    (visit c ev rp d n A).1 = false ∧ (visit c ev rp d n A).2.1 = false ∧
      π (visit c ev rp d n A).2.2.st = π A.st ++ (selfVisit c rp d n).flatMap f := by
  unfold visit selfVisit
  split
  · have := hev (mkVisit c rp d n) A.st
    simp [this.1, this.2.1, this.2.2]
  · simp

mutual
theorem refNode_exact (rp : List Name) (d : Nat) (n : Node α) (A : Acc σ) :
    (refNode c ev rp d n A).1 = false ∧ π (refNode c ev rp d n A).2.st = π A.st ++ (visitsN c rp d n).flatMap f := by
  match n with
  | .leaf nm k a =>
    rw [refNode, visitsN]
    split
    · split <;> simp [diag]
    · have := visit_exact c ev π f hev rp d (.leaf nm k a) A
      exact ⟨this.2.1, this.2.2⟩
  | .dir nm l r a kids =>
    rw [refNode, visitsN]
    have hk := fun A' => refKids_exact rp (d + 1) kids A'
    have hv := fun A' => visit_exact c ev π f hev rp d (.dir nm l r a kids) A'
    cases hdesc : ((!l || c.follows d) && decide (d < c.maxDepth)) <;> cases r <;> cases c.depthFirst <;>
      simp only [Bool.false_eq_true, if_false, if_true, List.append_nil, List.nil_append, List.flatMap_append,
        (hv A).1, (hv A).2.1, (hv (diag A)).1, (hv (diag A)).2.1, (hk A).1]
    all_goals first
      | exact ⟨trivial, (hv A).2.2⟩
      | exact ⟨rfl, (hv A).2.2⟩
      | exact ⟨(hv A).2.1, (hv A).2.2⟩
      | exact ⟨(hv (diag A)).2.1, by simpa [diag] using (hv (diag A)).2.2⟩
      | (refine ⟨(hk _).1, ?_⟩; rw [(hk _).2, (hv A).2.2, List.append_assoc])
      | (refine ⟨(hv _).2.1, ?_⟩; rw [(hv _).2.2, (hk A).2, List.append_assoc])
      | (refine ⟨rfl, ?_⟩; simpa [diag] using (hv A).2.2)
      | (have h := hv (diag A); simp only [diag] at h; exact ⟨by first | trivial | rfl | exact h.2.1, h.2.2⟩)
theorem refKids_exact (rp : List Name) (d : Nat) (kids : List (Node α)) (A : Acc σ) :
    (refKids c ev rp d kids A).1 = false ∧ π (refKids c ev rp d kids A).2.st = π A.st ++ (visitsK c rp d kids).flatMap f := by
  match kids with
  | [] => simp [refKids, visitsK]
  | n :: ns =>
    rw [refKids, visitsK]
    have h1 := refNode_exact (n.name :: rp) d n A
    simp only [h1.1, Bool.false_eq_true, if_false]
    have h2 := refKids_exact rp d ns (refNode c ev (n.name :: rp) d n A).2
    refine ⟨h2.1, ?_⟩
    rw [h2.2, h1.2, List.flatMap_append, List.append_assoc]
end
end exact

end FuModel.Find.Walk
