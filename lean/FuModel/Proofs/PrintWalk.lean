import FuModel.Proofs.WalkExact
import FuModel.Proofs.ExprEval
import FuModel.Find.Run

/-!
# `find START TEST -print0` over a whole starting point (C07, with C02/C03)

For an expression "one pure test, then a path-printing action" the bytes written during the walk of
a starting point are, exactly and in visit order, the paths of the in-range reachable entries that
satisfy the test — each entry once (the paths of `visitsN` are pairwise distinct), each path as
`-print`/`-print0` writes it, nothing else.
-/
namespace FuModel.Find.Run
open FuModel.Find.Walk FuModel.Find.Expr

/-- the tests: primaries that only look at the entry -/
def isTest : Prim → Bool
  | .true_ | .false_ | .opt | .name _ | .typeIs _ | .xtype _ | .perm _ _ | .statCmp _ _ | .empty
  | .samefile _ _ | .lname _ | .regex _ _ => true
  | _ => false

def s0 : ES := ⟨{}, false, false, 0⟩

/-- a test's answer does not depend on the state, and it leaves the state alone -/
theorem sem_test (start : Bytes) (v : Visit Attr) (t : Prim) (ht : isTest t = true) (s : ES) :
    sem start v t s = ((sem start v t s0).1, s) := by
  cases t <;> simp [isTest] at ht <;> rfl

theorem multis_test (t : Prim) (ht : isTest t = true) (pre term : Bytes) :
    M.multis (.and [.prim t, .prim (.pathOut pre term)]) = [] := by
  cases t <;> simp [isTest] at ht <;> rfl

/-- what one entry contributes to the output -/
def printed (start : Bytes) (t : Prim) (pre term : Bytes) (v : Visit Attr) : Bytes :=
  if (sem start v t s0).1 then pre ++ FuModel.Utf8.lossy (pathOf start v.ent.rpath) ++ term else []

theorem evalEntry_print (start : Bytes) (t : Prim) (ht : isTest t = true) (pre term : Bytes) (v : Visit Attr) (g : GS) :
    let r := evalEntry (.and [.prim t, .prim (.pathOut pre term)]) start v g
    r.1.prune = false ∧ r.1.quit = false ∧ r.2.out = g.out ++ printed start t pre term v := by
  have hm := multis_test t ht pre term
  unfold evalEntry
  simp only [hm, flushMultis]
  have key : ∀ (g1 : GS) (ex : Nat), g1.out = g.out →
      let q := M.eval (sem start v) (·.quit) (.and [.prim t, .prim (.pathOut pre term)]) ⟨g1, false, false, ex⟩
      q.2.prune = false ∧ q.2.quit = false ∧ q.2.gs.out = g.out ++ printed start t pre term v := by
    intro g1 ex hg
    have hs := sem_test start v t ht ⟨g1, false, false, ex⟩
    simp only [M.eval, evalAnd]
    simp only [hs]
    unfold printed
    cases hb : (sem start v t s0).1
    · simp [hg]
    · simp [sem, hg, evalAnd, List.append_assoc]
  split
  · cases hc : g.curDir <;> exact key _ _ rfl
  · exact key _ _ rfl

theorem finishDir_print (t : Prim) (ht : isTest t = true) (pre term : Bytes) (g : GS) :
    (finishDir (.and [.prim t, .prim (.pathOut pre term)]) g).1.out = g.out := by
  have hm := multis_test t ht pre term
  unfold finishDir
  simp only [hm, flushMultis, flushAll]
  cases g.curDir <;> rfl

/-- **Whole starting point.**  `find [-H|-L|-P] START TEST -print0` (any depth range, pre- or
    post-order, sorted or not): the output is exactly the concatenation, in visit order, of the
    printed paths of the in-range reachable entries that satisfy the test. -/
theorem whole_walk_print (c : Config) (t : Prim) (ht : isTest t = true) (pre term : Bytes)
    (start : Bytes) (root : Node Attr) (g : GS)
    (hH : (refCfg c).depthFirst = true → ¬ HRootLink (refCfg c) (if c.sorted then sortNode root else root)) :
    let n := if c.sorted then sortNode root else root
    (processDir c (.and [.prim t, .prim (.pathOut pre term)]) start (some root) g).gs.out =
      g.out ++ (visitsN (refCfg c) [] 0 n).flatMap (printed start t pre term) := by
  intro n
  let m : M Prim := .and [.prim t, .prim (.pathOut pre term)]
  have hev := fun v s => evalEntry_print start t ht pre term v s
  have hroot : processRoot (refCfg c) (evalEntry m start) n { g with curDir := none } =
      (let q := refRoot (refCfg c) (evalEntry m start) n ⟨{ g with curDir := none }, 0, 0⟩; resOf q.1 q.2) := by
    cases hdf : (refCfg c).depthFirst
    · refine processRoot_pre (refCfg c) (evalEntry m start) hdf ?_ n _
      intro v s hp
      rw [(hev v s).1] at hp; cases hp
    · exact processRoot_post (refCfg c) (evalEntry m start) hdf n (hH hdf) _
  have hex := refNode_exact (refCfg c) (evalEntry m start) GS.out (printed start t pre term) hev [] 0 n
    ⟨{ g with curDir := none }, 0, 0⟩
  show (processDir c m start (some root) g).gs.out = _
  unfold processDir
  simp only
  rw [show (if c.sorted then sortNode root else root) = n from rfl, hroot]
  simp only [resOf, refRoot]
  rw [finishDir_print t ht pre term, hex.2]

end FuModel.Find.Run
