import FuModel.Proofs.Expr

/-!
# The converse of C01_parse: every token string the builder accepts is a sentence (C11)

`run` is followed with a ghost copy of its state in which the syntax read so far is kept as
syntax (`G`: the closed comma members, the closed and-groups of the open or-group, the factors of
the open and-group, and the pending `-a` / `!`s).  `G.render` is the token string the frame has
consumed, `renderStack` that of the suspended outer frames.  The invariant says the ghost is a
well-formed prefix; at the end of the input the ghost is a syntax tree of the grammar whose
rendering is exactly the input.
-/
namespace FuModel.Find.Expr
variable {P : Type}

def nots : Nat → X P → X P
  | 0, x => x
  | n + 1, x => .not (nots n x)

structure G (P : Type) where
  ors : List (List (List (X P)))
  ands : List (List (X P))
  cur : List (X P)
  bangs : Nat
  pa : Bool

def G.empty : G P := ⟨[], [], [], 0, false⟩
def G.factor (g : G P) (x : X P) : X P := if g.pa then .a (nots g.bangs x) else nots g.bangs x
def G.push (g : G P) (x : X P) : G P := { g with cur := g.cur ++ [g.factor x], bangs := 0, pa := false }
def sepO (o : List (List (X P))) : List (Tok P) := renderO o ++ [.comma]
def sepA (a : List (X P)) : List (Tok P) := renderA a ++ [.or_]
def G.pending (g : G P) : List (Tok P) := (if g.pa then [.and_] else []) ++ List.replicate g.bangs .bang
def G.render (g : G P) : List (Tok P) :=
  g.ors.flatMap sepO ++ (g.ands.flatMap sepA ++ (renderA g.cur ++ g.pending))
def G.done (g : G P) : List (List (List (X P))) := g.ors ++ [g.ands ++ [g.cur]]
def renderStack : List (G P) → List (Tok P)
  | [] => []
  | g :: rest => renderStack rest ++ (g.render ++ [.lp])

/-! ### rendering -/

theorem renderA_append (xs ys : List (X P)) : renderA (xs ++ ys) = renderA xs ++ renderA ys := by
  induction xs with
  | nil => simp [renderA]
  | cons x xs ih => simp [renderA, ih, List.append_assoc]

theorem renderA_single (x : X P) : renderA [x] = renderF x := by simp [renderA]

theorem renderF_nots (n : Nat) (x : X P) : renderF (nots n x) = List.replicate n .bang ++ renderF x := by
  induction n with
  | zero => simp [nots]
  | succ n ih => simp [nots, renderF, ih, List.replicate_succ]

theorem renderO_snoc (as : List (List (X P))) (c : List (X P)) :
    renderO (as ++ [c]) = as.flatMap sepA ++ renderA c := by
  induction as with
  | nil => simp [renderO]
  | cons a as ih =>
    cases as with
    | nil => simp [renderO, sepA]
    | cons a' as' =>
      rw [List.cons_append, List.cons_append, renderO_cons2, ← List.cons_append, ih]
      simp [sepA, List.append_assoc]

theorem renderL_snoc (os : List (List (List (X P)))) (o : List (List (X P))) :
    renderL (os ++ [o]) = os.flatMap sepO ++ renderO o := by
  induction os with
  | nil => simp [renderL]
  | cons a as ih =>
    cases as with
    | nil => simp [renderL, sepO]
    | cons a' as' =>
      rw [List.cons_append, List.cons_append, renderL_cons2, ← List.cons_append, ih]
      simp [sepO, List.append_assoc]

theorem render_factor (g : G P) (x : X P) : renderF (g.factor x) = g.pending ++ renderF x := by
  unfold G.factor G.pending
  cases g.pa <;> simp [renderF, renderF_nots]

theorem render_push (g : G P) (x : X P) : (g.push x).render = g.render ++ renderF x := by
  simp [G.render, G.push, G.pending, renderA_append, renderA_single, render_factor, List.append_assoc]

theorem render_done (g : G P) (hb : g.bangs = 0) (hp : g.pa = false) : renderL g.done = g.render := by
  simp [G.done, G.render, G.pending, renderL_snoc, renderO_snoc, hb, hp, List.append_assoc]

/-! ### well-formedness -/

def wfItem : X P → Bool
  | .a z => wfF z
  | y => wfF y

theorem wfF_nots (n : Nat) (x : X P) : wfF (nots n x) = wfF x := by
  induction n with
  | zero => rfl
  | succ n ih => simp [nots, wfF, ih]

theorem wfRest_snoc (xs : List (X P)) (y : X P) : wfRest (xs ++ [y]) = (wfRest xs && wfItem y) := by
  induction xs with
  | nil => cases y <;> simp [wfRest, wfItem, wfF]
  | cons x xs ih => cases x <;> simp [wfRest, ih, Bool.and_assoc]

theorem wfA_snoc (xs : List (X P)) (y : X P) (h : xs ≠ []) : wfA (xs ++ [y]) = (wfA xs && wfItem y) := by
  cases xs with
  | nil => exact absurd rfl h
  | cons x xs => simp [wfA, wfRest_snoc, Bool.and_assoc]

theorem wfA_single (y : X P) : wfA [y] = wfF y := by simp [wfA, wfRest]

theorem wfO_snoc (as : List (List (X P))) (c : List (X P)) : wfO (as ++ [c]) = (as.all wfA && wfA c) := by
  induction as with
  | nil => simp [wfO]
  | cons a as ih =>
    cases as with
    | nil => simp [wfO]
    | cons a' as' =>
      rw [List.cons_append, List.cons_append, wfO_cons2, ← List.cons_append, ih]
      simp [Bool.and_assoc]

theorem wfL_snoc (os : List (List (List (X P)))) (o : List (List (X P))) : wfL (os ++ [o]) = (os.all wfO && wfO o) := by
  induction os with
  | nil => simp [wfL]
  | cons a as ih =>
    cases as with
    | nil => simp [wfL]
    | cons a' as' =>
      rw [List.cons_append, List.cons_append, wfL_cons2, ← List.cons_append, ih]
      simp [Bool.and_assoc]

/-- `x` is a primary or a group -/
def plain : X P → Bool
  | .prim _ => true
  | .group _ => true
  | _ => false

theorem wfItem_nots (n : Nat) (x : X P) (hx : plain x = true) : wfItem (nots n x) = wfF x := by
  cases n with
  | zero => cases x <;> simp [plain] at hx <;> simp [nots, wfItem]
  | succ n => simp [nots, wfItem, wfF, wfF_nots]

theorem wfItem_factor (g : G P) (x : X P) (hx : plain x = true) : wfItem (g.factor x) = wfF x := by
  unfold G.factor
  cases g.pa
  · simpa using wfItem_nots g.bangs x hx
  · simp [wfItem, wfF_nots]

theorem wfF_factor (g : G P) (x : X P) (hp : g.pa = false) : wfF (g.factor x) = wfF x := by
  simp [G.factor, hp, wfF_nots]

/-! ### the invariant -/

structure FrameOk (s : St P) (g : G P) : Prop where
  c1 : s.cur.isEmpty = g.cur.isEmpty
  c2 : s.pend = false → g.bangs = 0 ∧ g.pa = false
  c3 : g.pa = true → g.cur ≠ []
  c4o : ∀ o ∈ g.ors, wfO o = true
  c4a : ∀ a ∈ g.ands, wfA a = true
  c4c : g.cur ≠ [] → wfA g.cur = true

def SRel : List (St P) → List (G P) → Prop
  | [], [] => True
  | s :: ss, g :: gs => FrameOk s g ∧ SRel ss gs
  | _, _ => False

structure InputOk (s : St P) (g : G P) (f : Bool) (stack : List (St P)) (rest : List (Tok P)) : Prop where
  c6 : s.pend = true → moreExprs rest = true
  c5 : g.cur = [] → s.pend = false → g.ors = [] ∧ g.ands = [] ∧ (stack ≠ [] → f = true)

theorem frameOk_empty : FrameOk (St.empty : St P) G.empty :=
  ⟨rfl, fun _ => ⟨rfl, rfl⟩, fun h => (by cases h), fun _ h => (by cases h), fun _ h => (by cases h), fun h => absurd rfl h⟩

/-- pushing a primary or a completed group -/
theorem frameOk_push (s : St P) (g : G P) (m : M P) (x : X P) (h : FrameOk s g) (hx : plain x = true) (hw : wfF x = true) :
    FrameOk (s.push m) (g.push x) := by
  refine ⟨(by simp [St.push, G.push]), fun _ => ⟨rfl, rfl⟩, fun hp => (by cases hp), h.c4o, h.c4a, fun _ => ?_⟩
  simp only [G.push]
  by_cases hc : g.cur = []
  · have hp : g.pa = false := by
      cases hpa : g.pa
      · rfl
      · exact absurd hc (h.c3 hpa)
    rw [hc, List.nil_append, wfA_single, wfF_factor g x hp, hw]
  · rw [wfA_snoc _ _ hc, h.c4c hc, wfItem_factor g x hx, hw]; rfl

theorem inputOk_push (s : St P) (g : G P) (m : M P) (x : X P) (stack : List (St P)) (rest : List (Tok P)) :
    InputOk (s.push m) (g.push x) false stack rest :=
  ⟨fun h => (by simp [St.push] at h), fun h => (by simp [G.push] at h)⟩

theorem wfL_done (s : St P) (g : G P) (h : FrameOk s g) (hc : g.cur ≠ []) : wfL g.done = true := by
  simp only [G.done, wfL_snoc, wfO_snoc, Bool.and_eq_true, List.all_eq_true]
  exact ⟨h.c4o, h.c4a, h.c4c hc⟩

theorem cur_ne_of (s : St P) (g : G P) (h : FrameOk s g) (hs : s.cur.isEmpty = false) : g.cur ≠ [] := by
  have := h.c1
  rw [hs] at this
  intro hc
  rw [hc] at this
  cases this

/-! ### the theorem -/

theorem run_conv (ts : List (Tok P)) : ∀ (stack : List (St P)) (s : St P) (f : Bool) (gs : List (G P)) (g : G P) (m : M P),
    run ts stack s f = .ok m → SRel stack gs → FrameOk s g → InputOk s g f stack ts →
    (renderStack gs ++ (g.render ++ ts) = []) ∨
      ∃ l, wfL l = true ∧ renderL l = renderStack gs ++ (g.render ++ ts) := by
  induction ts with
  | nil =>
    intro stack s f gs g m h hS hF hI
    cases stack with
    | cons a b => simp [run] at h
    | nil =>
      cases gs with
      | cons a b => simp [SRel] at hS
      | nil =>
        have hpend : s.pend = false := by
          cases hp : s.pend
          · rfl
          · have := hI.c6 hp; simp [moreExprs] at this
        obtain ⟨hb, hpa⟩ := hF.c2 hpend
        by_cases hc : g.cur = []
        · left
          obtain ⟨ho, ha, _⟩ := hI.c5 hc hpend
          simp [renderStack, G.render, G.pending, ho, ha, hc, hb, hpa, renderA]
        · right
          refine ⟨g.done, wfL_done s g hF hc, ?_⟩
          simp [renderStack, render_done g hb hpa]
  | cons t ts ih =>
    intro stack s f gs g m h hS hF hI
    cases t with
    | prim p =>
      rw [run] at h
      have := ih stack (s.push (.prim p)) false gs (g.push (.prim p)) m h hS
        (frameOk_push s g _ _ hF rfl rfl) (inputOk_push s g _ _ stack ts)
      simpa [render_push, renderF, List.append_assoc] using this
    | bang =>
      rw [run] at h
      split at h
      · rename_i hm
        have hF' : FrameOk { s with inv := !s.inv, pend := true } { g with bangs := g.bangs + 1 } :=
          ⟨hF.c1, fun hp => (by simp at hp), hF.c3, hF.c4o, hF.c4a, hF.c4c⟩
        have hI' : InputOk { s with inv := !s.inv, pend := true } { g with bangs := g.bangs + 1 } false stack ts :=
          ⟨fun _ => hm, fun _ hp => (by simp at hp)⟩
        have := ih stack _ false gs _ m h hS hF' hI'
        have hr : ({ g with bangs := g.bangs + 1 } : G P).render = g.render ++ [.bang] := by
          simp [G.render, G.pending, List.replicate_succ', List.append_assoc]
        simpa [hr, List.append_assoc] using this
      · cases h
    | and_ =>
      rw [run] at h
      split at h
      · cases h
      · rename_i hm
        split at h
        · cases h
        · rename_i hc
          simp only [Bool.or_eq_true, not_or, Bool.not_eq_true] at hc
          obtain ⟨hb, hpa⟩ := hF.c2 hc.2
          have hcur := cur_ne_of s g hF hc.1
          have hF' : FrameOk { s with pend := true } { g with pa := true } :=
            ⟨hF.c1, fun hp => (by simp at hp), fun _ => hcur, hF.c4o, hF.c4a, hF.c4c⟩
          have hI' : InputOk { s with pend := true } { g with pa := true } false stack ts :=
            ⟨fun _ => (by simpa using hm), fun _ hp => (by simp at hp)⟩
          have := ih stack _ false gs _ m h hS hF' hI'
          have hr : ({ g with pa := true } : G P).render = g.render ++ [.and_] := by
            simp [G.render, G.pending, hb, hpa, List.append_assoc]
          simpa [hr, List.append_assoc] using this
    | or_ =>
      rw [run] at h
      split at h
      · cases h
      · rename_i hm
        split at h
        · cases h
        · rename_i hc
          simp only [Bool.or_eq_true, not_or, Bool.not_eq_true] at hc
          obtain ⟨hb, hpa⟩ := hF.c2 hc.2
          have hcur := cur_ne_of s g hF hc.1
          have hF' : FrameOk { s with cur := [], ands := s.cur :: s.ands, pend := true }
              { g with ands := g.ands ++ [g.cur], cur := [] } :=
            { c1 := rfl
              c2 := fun hp => by simp at hp
              c3 := fun hp => by rw [hpa] at hp; cases hp
              c4o := hF.c4o
              c4a := fun a ha => by
                rcases List.mem_append.mp ha with ha | ha
                · exact hF.c4a a ha
                · simp at ha; rw [ha]; exact hF.c4c hcur
              c4c := fun hne => absurd rfl hne }
          have hI' : InputOk { s with cur := [], ands := s.cur :: s.ands, pend := true }
              { g with ands := g.ands ++ [g.cur], cur := [] } false stack ts :=
            ⟨fun _ => (by simpa using hm), fun _ hp => (by simp at hp)⟩
          have := ih stack _ false gs _ m h hS hF' hI'
          have hr : ({ g with ands := g.ands ++ [g.cur], cur := [] } : G P).render = g.render ++ [.or_] := by
            simp [G.render, G.pending, hb, hpa, sepA, renderA, List.append_assoc]
          simpa [hr, List.append_assoc] using this
    | comma =>
      rw [run] at h
      split at h
      · cases h
      · rename_i hm
        split at h
        · cases h
        · rename_i hc
          simp only [Bool.or_eq_true, not_or, Bool.not_eq_true] at hc
          obtain ⟨hb, hpa⟩ := hF.c2 hc.2
          have hcur := cur_ne_of s g hF hc.1
          have hF' : FrameOk { s with cur := [], ands := [], ors := (s.cur :: s.ands) :: s.ors, pend := true }
              { g with ors := g.ors ++ [g.ands ++ [g.cur]], ands := [], cur := [] } :=
            { c1 := rfl
              c2 := fun hp => by simp at hp
              c3 := fun hp => by rw [hpa] at hp; cases hp
              c4o := fun o ho => by
                rcases List.mem_append.mp ho with ho | ho
                · exact hF.c4o o ho
                · simp at ho; rw [ho, wfO_snoc]
                  simp only [Bool.and_eq_true, List.all_eq_true]
                  exact ⟨hF.c4a, hF.c4c hcur⟩
              c4a := fun a ha => by cases ha
              c4c := fun hne => absurd rfl hne }
          have hI' : InputOk { s with cur := [], ands := [], ors := (s.cur :: s.ands) :: s.ors, pend := true }
              { g with ors := g.ors ++ [g.ands ++ [g.cur]], ands := [], cur := [] } false stack ts :=
            ⟨fun _ => (by simpa using hm), fun _ hp => (by simp at hp)⟩
          have := ih stack _ false gs _ m h hS hF' hI'
          have hr : ({ g with ors := g.ors ++ [g.ands ++ [g.cur]], ands := [], cur := [] } : G P).render
              = g.render ++ [.comma] := by
            simp [G.render, G.pending, hb, hpa, sepO, renderO_snoc, renderA, List.append_assoc]
          simpa [hr, List.append_assoc] using this
    | lp =>
      rw [run] at h
      have hI' : InputOk (St.empty : St P) G.empty true (s :: stack) ts :=
        ⟨fun hp => (by simp [St.empty] at hp), fun _ _ => ⟨rfl, rfl, fun _ => rfl⟩⟩
      have := ih (s :: stack) St.empty true (g :: gs) G.empty m h ⟨hF, hS⟩ frameOk_empty hI'
      simpa [renderStack, G.render, G.empty, G.pending, renderA, List.append_assoc] using this
    | rp =>
      cases stack with
      | nil => simp [run] at h
      | cons outer stack' =>
        cases gs with
        | nil => simp [SRel] at hS
        | cons go gs' =>
          obtain ⟨hFo, hS'⟩ := hS
          simp only [run] at h
          split at h
          · cases h
          · rename_i hf
            have hpend : s.pend = false := by
              cases hp : s.pend
              · rfl
              · have := hI.c6 hp; simp [moreExprs] at this
            obtain ⟨hb, hpa⟩ := hF.c2 hpend
            have hcur : g.cur ≠ [] := by
              intro hc
              obtain ⟨_, _, hff⟩ := hI.c5 hc hpend
              exact hf (hff (by simp))
            have hwf := wfL_done s g hF hcur
            have := ih stack' (outer.push s.build) false gs' (go.push (.group g.done)) m h hS'
              (frameOk_push outer go _ _ hFo rfl (by simpa [wfF] using hwf)) (inputOk_push outer go _ _ stack' ts)
            simpa [render_push, renderF, render_done g hb hpa, renderStack, List.append_assoc] using this

/-- **Every token string the tree builder accepts is a sentence of the grammar** (or empty):
    the converse of `C01_parse`. -/
theorem buildTree_sentence (ts : List (Tok P)) (m : M P) (h : buildTree ts = .ok m) :
    ts = [] ∨ ∃ l, WF l ∧ renderL l = ts := by
  have hI : InputOk (St.empty : St P) G.empty false [] ts :=
    ⟨fun hp => (by simp [St.empty] at hp), fun _ _ => ⟨rfl, rfl, fun hne => absurd rfl hne⟩⟩
  have := run_conv ts [] St.empty false [] G.empty m h trivial frameOk_empty hI
  simpa [renderStack, G.render, G.empty, G.pending, renderA, WF] using this

end FuModel.Find.Expr
