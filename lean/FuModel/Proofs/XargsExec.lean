import FuModel.Proofs.XargsBatch
import FuModel.Xargs.ExecLimit

namespace FuModel.Xargs

theorem strCostL_map_length (xs : List (List UInt8)) :
    strCostL (xs.map List.length) = (xs.map (fun a => cost a)).sum := by
  induction xs with
  | nil => rfl
  | cons x xs ih => simp only [strCostL, cost, List.map_cons, List.sum_cons] at *; omega

theorem strCostL_append (a b : List Nat) : strCostL (a ++ b) = strCostL a + strCostL b := by
  simp [strCostL, List.sum_append]

/-- what the command word and the initial arguments leave in the system limiter -/
theorem initState_sys (lim : Limits) (st init : LState) (cmd : List (List UInt8))
    (h : initState lim st cmd = some init) :
    init.sizeSys = st.sizeSys + (cmd.map (fun a => cost a)).sum + lim.ptr * cmd.length ∧
    (∀ c ∈ cmd, cost c ≤ lim.maxArg) ∧
    (st.sizeSys ≤ lim.sys → init.sizeSys ≤ lim.sys) := by
  induction cmd generalizing st with
  | nil => simp [initState] at h; subst h; simp
  | cons c cs ih =>
    simp only [initState] at h
    cases htry : tryArg lim st ⟨c, .initial⟩ with
    | error e => rw [htry] at h; simp at h
    | ok st' =>
      rw [htry] at h
      have ⟨h1, h2, h3⟩ := ih st' h
      obtain ⟨hacc, hst'⟩ := (tryArg_ok_iff lim st st' ⟨c, .initial⟩).mp htry
      obtain ⟨_, _, _, hmax, hsys⟩ := hacc
      have hs' : st'.sizeSys = st.sizeSys + cost c + lim.ptr := by rw [hst']; rfl
      refine ⟨?_, ?_, ?_⟩
      · simp only [List.map_cons, List.sum_cons, List.length_cons]
        rw [h1, hs', Nat.mul_succ]; omega
      · intro x hx
        rcases List.mem_cons.mp hx with rfl | hx
        · exact hmax
        · exact h2 x hx
      · intro _
        apply h3
        rw [hs']; exact hsys

theorem totalCost_eq (b : List Arg) :
    totalCost b = strCostL ((b.map (·.bytes)).map List.length) := by
  induction b with
  | nil => rfl
  | cons a as ih =>
    simp only [totalCost, strCostL, cost, List.map_cons, List.sum_cons, List.map_map] at *
    omega

end FuModel.Xargs
