import FuModel.Proofs.RegexSound

/-!
# The executable language specification of C17 is sound for the inductive language

`Spec/RegexLang.lean` (`member`, the predicate of the correspondence runs) only says "in the
language" of strings that the relation `Matches` - the one the theorems of `Props/C17.lean` are
stated with - contains.
-/
namespace FuModel.Find.Regex
open FuModel.Spec.RegexLang

theorem slice_take {full : List Char} {pos n k : Nat} {s : List Char}
    (h : (full.drop pos).take n = s) (hk : k ≤ n) : (full.drop pos).take k = s.take k := by
  rw [← h, List.take_take]; congr 1; omega

theorem slice_drop {full : List Char} {pos n k : Nat} {s : List Char}
    (h : (full.drop pos).take n = s) (_hk : k ≤ n) : (full.drop (pos + k)).take (n - k) = s.drop k := by
  rw [← h, List.drop_take, List.drop_drop]

theorem slice_get {full : List Char} {pos : Nat} {c : Char} (h : (full.drop pos).take 1 = [c]) : full[pos]? = some c := by
  have : (full.drop pos).head? = some c := by
    cases hd : full.drop pos with
    | nil => rw [hd] at h; simp at h
    | cons x xs => rw [hd] at h; simp at h; simp [h]
  rw [List.head?_drop] at this
  exact this

/-- the executable language specification only accepts strings in the inductive language -/
theorem inLang_matches (icase : Bool) : ∀ (fuel : Nat) (r : Re) (s : List Char), inLang icase fuel r s = true →
    ∀ (full : List Char) (pos : Nat), (full.drop pos).take s.length = s →
      Matches icase full r pos (pos + s.length) := by
  intro fuel
  induction fuel with
  | zero => intro r s h; simp [inLang] at h
  | succ fuel ih =>
    intro r s h full pos hs
    cases r with
    | chr c =>
      simp only [inLang] at h
      match s, h with
      | [x], h => exact .chr c x pos (slice_get (by simpa using hs)) h
    | any =>
      simp only [inLang] at h
      match s, h with
      | [x], h => exact .any x pos (slice_get (by simpa using hs)) h
    | set neg ms =>
      simp only [inLang] at h
      match s, h with
      | [x], h => exact .set neg ms x pos (slice_get (by simpa using hs)) h
    | seq a b =>
      simp only [inLang, List.any_eq_true, List.mem_range, Bool.and_eq_true] at h
      obtain ⟨k, hk, ha, hb⟩ := h
      have hk' : k ≤ s.length := by omega
      have h1 := ih a (s.take k) ha full pos (by simpa [List.length_take, Nat.min_eq_left hk'] using slice_take hs hk')
      have h2 := ih b (s.drop k) hb full (pos + k) (by simpa [List.length_drop] using slice_drop hs hk')
      simp only [List.length_take, Nat.min_eq_left hk'] at h1
      simp only [List.length_drop] at h2
      have : pos + k + (s.length - k) = pos + s.length := by omega
      rw [this] at h2
      exact .seq h1 h2
    | alt a b =>
      simp only [inLang, Bool.or_eq_true] at h
      rcases h with h | h
      · exact .altL (ih a s h full pos hs)
      · exact .altR (ih b s h full pos hs)
    | star a =>
      simp only [inLang, Bool.or_eq_true, List.any_eq_true, List.mem_range, Bool.and_eq_true] at h
      rcases h with h | ⟨k, hk, ha, hb⟩
      · have : s = [] := by simpa using h
        subst this
        simpa using Matches.starNil (icase := icase) (s := full) a pos
      · have hk' : k + 1 ≤ s.length := by omega
        have h1 := ih a (s.take (k + 1)) ha full pos (by simpa [List.length_take, Nat.min_eq_left hk'] using slice_take hs hk')
        have h2 := ih (.star a) (s.drop (k + 1)) hb full (pos + (k + 1)) (by simpa [List.length_drop] using slice_drop hs hk')
        simp only [List.length_take, Nat.min_eq_left hk'] at h1
        simp only [List.length_drop] at h2
        have : pos + (k + 1) + (s.length - (k + 1)) = pos + s.length := by omega
        rw [this] at h2
        exact .starCons h1 h2
    | plus a =>
      simp only [inLang] at h
      have := ih (.seq a (.star a)) s h full pos hs
      cases this with
      | seq h1 h2 => exact .plus h1 h2
    | opt a =>
      simp only [inLang, Bool.or_eq_true] at h
      rcases h with h | h
      · have : s = [] := by simpa using h
        subst this
        simpa using Matches.optNil (icase := icase) (s := full) a pos
      · exact .optSome (ih a s h full pos hs)
    | interval lo hi a =>
      simp only [inLang] at h
      split at h
      · rename_i hlo
        have := ih _ s h full pos hs
        cases this with
        | seq h1 h2 => exact .intCons (Or.inl (by omega)) h1 h2
      · rename_i hlo
        have hlo0 : lo = 0 := by omega
        subst hlo0
        split at h
        · rename_i hhi
          simp only [Bool.or_eq_true] at h
          rcases h with h | h
          · have : s = [] := by simpa using h
            subst this
            simpa using Matches.intNil (icase := icase) (s := full) hi a pos
          · have := ih _ s h full pos hs
            cases this with
            | seq h1 h2 => exact .intCons (Or.inr (by omega)) h1 (by simpa using h2)
        · have : s = [] := by simpa using h
          subst this
          simpa using Matches.intNil (icase := icase) (s := full) hi a pos
    | group a =>
      simp only [inLang] at h
      exact .group (ih a s h full pos hs)

/-- the predicate's notion of "in the language" implies the relation the theorems are stated with -/
theorem member_matches (icase : Bool) (r : Re) (s : List Char) (h : member icase r s = true) :
    Matches icase s r 0 s.length := by
  have := inLang_matches icase _ r s h s 0 (by simp)
  simpa using this

end FuModel.Find.Regex
