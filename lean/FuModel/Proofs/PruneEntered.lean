import FuModel.Proofs.NoPrune

/-!
# `-prune` takes effect only on directories the walk entered

`PruneMatcher` marks an entry whose own type is "directory"; `process_dir` acts on the mark
unless (`-xdev`) the directory lies on another device than its starting point, where walkdir
yielded it without pushing its listing (`cutRoot`).  Whatever the expression, a prune request
leaves the evaluation of an entry only for an entry of that kind.
-/
namespace FuModel.Find.Run
open FuModel.Find.Walk FuModel.Find.Expr

/-- a directory by its own type that `-xdev` did not cut off -/
def enteredDir (v : Visit Attr) : Bool := fileType v == 'd' && !(attrOf v).foreign

mutual
theorem allP_true (m : M Prim) : m.AllP (fun _ => True) := by
  match m with
  | .prim _ => simp [M.AllP]
  | .not m => simpa [M.AllP] using allP_true m
  | .and ms => simpa [M.AllP] using allPs_true ms
  | .or ms => simpa [M.AllP] using allPs_true ms
  | .list ms => simpa [M.AllP] using allPs_true ms
theorem allPs_true (ms : List (M Prim)) : M.AllP.AllPs (fun _ => True) ms := by
  match ms with
  | [] => simp [M.AllP.AllPs]
  | m :: ms => exact ⟨allP_true m, allPs_true ms⟩
end

theorem sem_prune_entered (start : Bytes) (v : Visit Attr) (p : Prim) (s : ES) :
    (sem start v p s).2.prune = true → s.prune = true ∨ enteredDir v = true := by
  by_cases hp : notPrune p = true
  · rw [sem_keeps_prune start v p hp s]; exact Or.inl
  · cases p <;> simp [notPrune] at hp
    intro h
    simp only [sem] at h
    by_cases he : (fileType v == 'd' && !(attrOf v).foreign) = true
    · exact Or.inr he
    · simp only [he] at h
      exact Or.inl h

theorem eval_prune_entered (m : M Prim) (start : Bytes) (v : Visit Attr) (s : ES) :
    (M.eval (sem start v) (·.quit) m s).2.prune = true → s.prune = true ∨ enteredDir v = true :=
  relW_M (sem start v) (·.quit) (fun _ => True) (fun _ => 0)
    (fun a b _ => b.prune = true → a.prune = true ∨ enteredDir v = true)
    (fun _ => Or.inl)
    (fun _ _ _ _ _ h1 h2 hc => (h2 hc).elim h1 Or.inr)
    (fun _ _ _ _ h _ => h)
    (fun p _ s => sem_prune_entered start v p s) m (allP_true m) s

/-- **Whatever the expression**, `process_dir` is asked to skip the listing of an entry only when
    the entry is a directory by its own type and was not cut off by `-xdev`. -/
theorem evalEntry_prune_entered (m : M Prim) (start : Bytes) (v : Visit Attr) (g : GS) :
    (evalEntry m start v g).1.prune = true → enteredDir v = true := by
  intro h
  unfold evalEntry at h
  simp only at h
  split at h
  · cases hc : g.curDir <;> simp only [hc] at h <;>
      exact (eval_prune_entered m start v _ h).elim (fun h' => by cases h') id
  · exact (eval_prune_entered m start v _ h).elim (fun h' => by cases h') id

/-- how the entry's type relates to what the walk did with it (walkdir pushes the listing of a
    real directory, of a followed link to one, and of a starting point that is one under `-H`/`-L`):
    the condition a well-formed world satisfies at every visit -/
def VisitTyped (c : RefCfg) (v : Visit Attr) : Prop :=
  match v.ent.node with
  | .dir _ l _ _ _ => (l && !c.follows v.ent.depth) = true → fileType v ≠ 'd'
  | .leaf _ _ a => fileType v = 'd' → a.foreign = true

/-- on such visits a prune request concerns exactly a directory whose listing the walk pushed:
    the pre-order hypothesis `PruneOk` of C03's refinement, visit by visit -/
theorem prune_only_pushed (c : RefCfg) (m : M Prim) (start : Bytes) (v : Visit Attr) (g : GS)
    (hv : VisitTyped c v) (h : (evalEntry m start v g).1.prune = true) :
    match v.ent.node with
    | .dir _ l _ _ _ => (!l || c.follows v.ent.depth) = true
    | .leaf _ _ _ => False := by
  have he := evalEntry_prune_entered m start v g h
  simp only [enteredDir, Bool.and_eq_true, beq_iff_eq, Bool.not_eq_true'] at he
  unfold VisitTyped at hv
  cases hn : v.ent.node with
  | leaf nm k a =>
    simp only [hn] at hv ⊢
    have := hv he.1
    have h2 : (attrOf v).foreign = false := he.2
    simp [attrOf, hn] at h2
    simp [h2] at this
  | dir nm l r a kids =>
    simp only [hn] at hv ⊢
    cases l <;> cases hf : c.follows v.ent.depth <;> simp_all

end FuModel.Find.Run
