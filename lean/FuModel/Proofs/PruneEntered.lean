import FuModel.Proofs.NoPrune

/-!
# `-prune` takes effect only on directories the walk entered

`PruneMatcher` marks an entry whose own type is "directory"; `process_dir` acts on the mark
unless (`-xdev`) the directory lies on another device than its starting point, where walkdir
yielded it without pushing its listing (`cutRoot`).  Whatever the expression, a prune request
leaves the evaluation of an entry only for an entry of that kind.
-/
namespace FuModel.Find.Run
open FuModel.Find.Walk FuModel.Find.Expr

/-- a directory by its own type that `-xdev` did not cut off -/
def enteredDir (v : Visit Attr) : Bool := fileType v == 'd' && !(attrOf v).foreign

mutual
theorem allP_true (m : M Prim) : m.AllP (fun _ => True) := by
  match m with
  | .prim _ => simp [M.AllP]
  | .not m => simpa [M.AllP] using allP_true m
  | .and ms => simpa [M.AllP] using allPs_true ms
  | .or ms => simpa [M.AllP] using allPs_true ms
  | .list ms => simpa [M.AllP] using allPs_true ms
theorem allPs_true (ms : List (M Prim)) : M.AllP.AllPs (fun _ => True) ms := by
  match ms with
  | [] => simp [M.AllP.AllPs]
  | m :: ms => exact ⟨allP_true m, allPs_true ms⟩
end

theorem sem_prune_entered (start : Bytes) (v : Visit Attr) (p : Prim) (s : ES) :
    (sem start v p s).2.prune = true → s.prune = true ∨ enteredDir v = true := by
  by_cases hp : notPrune p = true
  · rw [sem_keeps_prune start v p hp s]; exact Or.inl
  · cases p <;> simp [notPrune] at hp
    intro h
    simp only [sem] at h
    by_cases he : (fileType v == 'd' && !(attrOf v).foreign) = true
    · exact Or.inr he
    · simp only [he] at h
      exact Or.inl h

theorem eval_prune_entered (m : M Prim) (start : Bytes) (v : Visit Attr) (s : ES) :
    (M.eval (sem start v) (·.quit) m s).2.prune = true → s.prune = true ∨ enteredDir v = true :=
  relW_M (sem start v) (·.quit) (fun _ => True) (fun _ => 0)
    (fun a b _ => b.prune = true → a.prune = true ∨ enteredDir v = true)
    (fun _ => Or.inl)
    (fun _ _ _ _ _ h1 h2 hc => (h2 hc).elim h1 Or.inr)
    (fun _ _ _ _ h _ => h)
    (fun p _ s => sem_prune_entered start v p s) m (allP_true m) s

/-- **Whatever the expression**, `process_dir` is asked to skip the listing of an entry only when
    the entry is a directory by its own type and was not cut off by `-xdev`. -/
theorem evalEntry_prune_entered (m : M Prim) (start : Bytes) (v : Visit Attr) (g : GS) :
    (evalEntry m start v g).1.prune = true → enteredDir v = true := by
  intro h
  unfold evalEntry at h
  simp only at h
  split at h
  · cases hc : g.curDir <;> simp only [hc] at h <;>
      exact (eval_prune_entered m start v _ h).elim (fun h' => by cases h') id
  · exact (eval_prune_entered m start v _ h).elim (fun h' => by cases h') id

/-- how the entry's type relates to what the walk did with it (walkdir pushes the listing of a
    real directory, of a followed link to one, and of a starting point that is one under `-H`/`-L`):
    the condition a well-formed world satisfies at every visit -/
def VisitTyped (c : RefCfg) (v : Visit Attr) : Prop :=
  match v.ent.node with
  | .dir _ l _ _ _ => (l && !c.follows v.ent.depth) = true → fileType v ≠ 'd'
  | .leaf _ _ a => fileType v = 'd' → a.foreign = true

/-- on such visits a prune request concerns exactly a directory whose listing the walk pushed:
    the pre-order hypothesis `PruneOk` of C03's refinement, visit by visit -/
theorem prune_only_pushed (c : RefCfg) (m : M Prim) (start : Bytes) (v : Visit Attr) (g : GS)
    (hv : VisitTyped c v) (h : (evalEntry m start v g).1.prune = true) :
    match v.ent.node with
    | .dir _ l _ _ _ => (!l || c.follows v.ent.depth) = true
    | .leaf _ _ _ => False := by
  have he := evalEntry_prune_entered m start v g h
  simp only [enteredDir, Bool.and_eq_true, beq_iff_eq, Bool.not_eq_true'] at he
  unfold VisitTyped at hv
  cases hn : v.ent.node with
  | leaf nm k a =>
    simp only [hn] at hv ⊢
    have := hv he.1
    have h2 : (attrOf v).foreign = false := he.2
    simp [attrOf, hn] at h2
    simp [h2] at this
  | dir nm l r a kids =>
    simp only [hn] at hv ⊢
    cases l <;> cases hf : c.follows v.ent.depth <;> simp_all


/-! ### from well-formed worlds to the hypothesis of the refinement

`wfNode` (`Find/Run.lean`) is what an observed world looks like; the driver's parser refuses anything else. -/

theorem typed_leaf (c : RefCfg) (rp : List Name) (d : Nat) (nm : Name) (k : LeafKind) (a : Attr)
    (hw : (wfLeaf k a || a.foreign) = true) (hno : (k == .linkLoop && c.follows d) = false) :
    VisitTyped c (mkVisit c rp d (.leaf nm k a)) := by
  unfold VisitTyped
  rw [mkVisit_node]
  simp only
  intro hft
  cases hfo : a.foreign
  · exfalso
    simp only [hfo, Bool.or_false] at hw
    have hfc : c.follow = .never ∨ c.follow = .roots ∨ c.follow = .always := by cases c.follow <;> simp
    have hfol := follows_iff c d
    cases k <;> rcases hfc with hf | hf | hf <;> cases hD : (d == 0) <;>
      simp_all [wfLeaf, mkVisit, fileType, attrOf, followAt, LeafKind.isLink, RefCfg.follows]
    all_goals
      split at hft
      · exact absurd hft (by decide)
      · split at hft
        · exact absurd hft (by decide)
        · exact hw.1.2 hft
  · rfl

theorem typed_dir (c : RefCfg) (rp : List Name) (d : Nat) (nm : Name) (l r : Bool) (a : Attr) (kids : List (Node Attr))
    (hw : wfDir l a = true) : VisitTyped c (mkVisit c rp d (.dir nm l r a kids)) := by
  unfold VisitTyped
  rw [mkVisit_node, mkVisit_depth]
  simp only
  intro hl
  have hfc : c.follow = .never ∨ c.follow = .roots ∨ c.follow = .always := by cases c.follow <;> simp
  cases l <;> rcases hfc with hf | hf | hf <;> cases hD : (d == 0) <;>
    simp_all [wfDir, mkVisit, fileType, attrOf, followAt, RefCfg.follows]


theorem pruneOkV_of_typed (c : RefCfg) (m : M Prim) (start : Bytes) (v : Visit Attr) (hv : VisitTyped c v) :
    PruneOkV c (evalEntry m start) v := by
  intro g h
  have := prune_only_pushed c m start v g hv h
  cases hn : v.ent.node with
  | leaf nm k a => simp only [hn] at this
  | dir nm l r a kids => simp only [hn] at this ⊢; exact this

mutual
/-- a well-formed tree gives the refinement its hypothesis, whatever the expression -/
theorem pruneOkN_of_wf (c : RefCfg) (m : M Prim) (start : Bytes) (rp : List Name) (d : Nat) (n : Node Attr)
    (hw : wfNode n = true) : PruneOkN c (evalEntry m start) rp d n := by
  match n with
  | .leaf nm k a =>
    intro hno
    exact pruneOkV_of_typed c m start _ (typed_leaf c rp d nm k a (by simpa [wfNode] using hw) hno)
  | .dir nm l r a kids =>
    simp only [wfNode, Bool.and_eq_true] at hw
    exact ⟨pruneOkV_of_typed c m start _ (typed_dir c rp d nm l r a kids hw.1),
      pruneOkK_of_wf c m start rp (d + 1) kids hw.2⟩
theorem pruneOkK_of_wf (c : RefCfg) (m : M Prim) (start : Bytes) (rp : List Name) (d : Nat) (kids : List (Node Attr))
    (hw : wfNode.wfKids kids = true) : PruneOkN.PruneOkK c (evalEntry m start) rp d kids := by
  match kids with
  | [] => trivial
  | n :: ns =>
    simp only [wfNode.wfKids, Bool.and_eq_true] at hw
    exact ⟨pruneOkN_of_wf c m start (n.name :: rp) d n hw.1, pruneOkK_of_wf c m start rp d ns hw.2⟩
end

/-! `-xdev` and `-sorted` keep a tree well formed -/

mutual
theorem wf_cutNode (fl : Bool) (dev : Nat) (n : Node Attr) (hw : wfNode n = true) : wfNode (cutNode fl dev n) = true := by
  match n with
  | .leaf nm k a => simpa [cutNode] using hw
  | .dir nm l r a kids =>
    simp only [wfNode, Bool.and_eq_true] at hw
    simp only [cutNode]
    split
    · simp [wfNode]
    · simp only [wfNode, Bool.and_eq_true]
      exact ⟨hw.1, wf_cutKids fl dev kids hw.2⟩
theorem wf_cutKids (fl : Bool) (dev : Nat) (kids : List (Node Attr)) (hw : wfNode.wfKids kids = true) :
    wfNode.wfKids (cutKids fl dev kids) = true := by
  match kids with
  | [] => simp [cutKids, wfNode.wfKids]
  | n :: ns =>
    simp only [wfNode.wfKids, Bool.and_eq_true] at hw
    simp only [cutKids, wfNode.wfKids, Bool.and_eq_true]
    exact ⟨wf_cutNode fl dev n hw.1, wf_cutKids fl dev ns hw.2⟩
end

theorem wf_cutRoot (f : Follow) (n : Node Attr) (hw : wfNode n = true) : wfNode (cutRoot f n) = true := by
  match n with
  | .leaf nm k a => simpa [cutRoot] using hw
  | .dir nm l r a kids =>
    simp only [wfNode, Bool.and_eq_true] at hw
    simp only [cutRoot, wfNode, Bool.and_eq_true]
    exact ⟨hw.1, wf_cutKids _ _ kids hw.2⟩

theorem wfKids_insert (x : Node Attr) (ks : List (Node Attr)) (hx : wfNode x = true) (hk : wfNode.wfKids ks = true) :
    wfNode.wfKids (insertNode x ks) = true := by
  induction ks with
  | nil => simp [insertNode, wfNode.wfKids, hx]
  | cons k ks ih =>
    simp only [wfNode.wfKids, Bool.and_eq_true] at hk
    simp only [insertNode]
    split
    · simp [wfNode.wfKids, hx, hk.1, hk.2]
    · simp [wfNode.wfKids, hk.1, ih hk.2]

mutual
theorem wf_sortNode (n : Node Attr) (hw : wfNode n = true) : wfNode (sortNode n) = true := by
  match n with
  | .leaf nm k a => simpa [sortNode] using hw
  | .dir nm l r a kids =>
    simp only [wfNode, Bool.and_eq_true] at hw
    simp only [sortNode, wfNode, Bool.and_eq_true]
    exact ⟨hw.1, wf_sortKids kids hw.2⟩
theorem wf_sortKids (kids : List (Node Attr)) (hw : wfNode.wfKids kids = true) : wfNode.wfKids (sortKids kids) = true := by
  match kids with
  | [] => simp [sortKids, wfNode.wfKids]
  | n :: ns =>
    simp only [wfNode.wfKids, Bool.and_eq_true] at hw
    simp only [sortKids]
    exact wfKids_insert _ _ (wf_sortNode n hw.1) (wf_sortKids ns hw.2)
end

/-- the tree `process_dir` walks for a starting point: cut by `-xdev` (done by `run`), sorted by `-sorted` -/
def viewOf (c : Config) (root : Node Attr) : Node Attr :=
  let n := if c.xdev then cutRoot c.follow root else root
  if c.sorted then sortNode n else n

theorem wf_viewOf (c : Config) (root : Node Attr) (hw : wfNode root = true) : wfNode (viewOf c root) = true := by
  unfold viewOf
  have h1 : wfNode (if c.xdev then cutRoot c.follow root else root) = true := by
    split
    · exact wf_cutRoot _ _ hw
    · exact hw
  simp only
  split
  · exact wf_sortNode _ h1
  · exact h1

/-- **Pre-order, whole starting point, any expression, any options** (`-xdev`, `-sorted`, depth
    bounds, `-P`/`-H`/`-L`): on a well-formed world `process_dir` over walkdir's iterator computes
    exactly the reference traversal - a pruned directory loses exactly its descendants, everything
    else is visited in listing order.  No hypothesis on the evaluator is left. -/
theorem order_pre_wf (c : Config) (m : M Prim) (start : Bytes) (root : Node Attr) (g : GS)
    (hpre : c.depthFirst = false) (hw : wfNode root = true) :
    processRoot (refCfg c) (evalEntry m start) (viewOf c root) g =
      (let r := refRoot (refCfg c) (evalEntry m start) (viewOf c root) ⟨g, 0, 0⟩
       resOf r.1 r.2) :=
  processRoot_preN (refCfg c) (evalEntry m start) hpre (viewOf c root)
    (pruneOkN_of_wf (refCfg c) m start [] 0 (viewOf c root) (wf_viewOf c root hw)) g

end FuModel.Find.Run
