import FuModel.Proofs.Expr

namespace FuModel.Find.Expr
variable {P σ : Type} (sem : P → σ → Bool × σ) (quit : σ → Bool)

def negIf (inv : Bool) (r : Bool × σ) : Bool × σ := (if inv then !r.1 else r.1, r.2)

theorem eval_wrap (inv : Bool) (m : M P) (s : σ) :
    M.eval sem quit (wrap inv m) s = negIf inv (M.eval sem quit m s) := by
  cases inv <;> simp [wrap, negIf, M.eval]

theorem evalAnd_single (m : M P) (s : σ) : evalAnd sem quit [m] s = M.eval sem quit m s := by
  simp only [evalAnd]
  generalize M.eval sem quit m s = r
  obtain ⟨v, t⟩ := r
  cases v <;> simp

theorem evalOr_single (m : M P) (s : σ) : evalOr sem quit [m] s = M.eval sem quit m s := by
  simp only [evalOr]
  generalize M.eval sem quit m s = r
  obtain ⟨v, t⟩ := r
  cases v <;> simp

theorem evalList_single (m : M P) (rc : Bool) (s : σ) : evalList sem quit [m] rc s = M.eval sem quit m s := by
  simp only [evalList]
  split <;> rfl

theorem eval_collapse_and (ms : List (M P)) (s : σ) :
    M.eval sem quit (collapse .and ms) s = evalAnd sem quit ms s := by
  match ms with
  | [] => simp [collapse, M.eval]
  | [m] => simp [collapse, evalAnd_single]
  | _ :: _ :: _ => simp [collapse, M.eval]

theorem eval_collapse_or (ms : List (M P)) (s : σ) :
    M.eval sem quit (collapse .or ms) s = evalOr sem quit ms s := by
  match ms with
  | [] => simp [collapse, M.eval]
  | [m] => simp [collapse, evalOr_single]
  | _ :: _ :: _ => simp [collapse, M.eval]

theorem eval_collapse_list (ms : List (M P)) (s : σ) :
    M.eval sem quit (collapse .list ms) s = evalList sem quit ms false s := by
  match ms with
  | [] => simp [collapse, M.eval]
  | [m] => simp [collapse, evalList_single]
  | _ :: _ :: _ => simp [collapse, M.eval]

mutual
theorem eval_F (x : X P) (inv : Bool) (s : σ) :
    M.eval sem quit (treeF inv x) s = negIf inv (refF sem quit x s) := by
  match x with
  | .prim p => simp [treeF, eval_wrap, M.eval, refF]
  | .not x =>
    rw [treeF, eval_F x (!inv) s, refF]
    cases inv <;> simp [negIf]
  | .a x => rw [treeF, eval_F x inv s, refF]
  | .group l => rw [treeF, eval_wrap, eval_collapse_list, eval_L l false s, refF]
theorem eval_A (g : List (X P)) (s : σ) : evalAnd sem quit (treesA g) s = refA sem quit g s := by
  match g with
  | [] => simp [treesA, evalAnd, refA]
  | x :: xs =>
    simp only [treesA, evalAnd, refA]
    rw [eval_F x false s]
    simp only [negIf, Bool.false_eq_true, if_false]
    generalize refF sem quit x s = r
    obtain ⟨v, t⟩ := r
    cases v <;> cases hq : quit t <;> simp [eval_A xs t]
theorem eval_O (o : List (List (X P))) (s : σ) : evalOr sem quit (treesO o) s = refO sem quit o s := by
  match o with
  | [] => simp [treesO, evalOr, refO]
  | g :: gs =>
    simp only [treesO, evalOr, refO]
    rw [eval_collapse_and, eval_A g s]
    generalize refA sem quit g s = r
    obtain ⟨v, t⟩ := r
    cases v <;> cases hq : quit t <;> simp [eval_O gs t]
theorem eval_L (l : List (List (List (X P)))) (rc : Bool) (s : σ) :
    evalList sem quit (treesL l) rc s = refL sem quit l rc s := by
  match l with
  | [] => simp [treesL, evalList, refL]
  | o :: os =>
    simp only [treesL, evalList, refL]
    rw [eval_collapse_or, eval_O o s]
    generalize refO sem quit o s = r
    obtain ⟨v, t⟩ := r
    cases hq : quit t <;> simp [eval_L os v t]
end

theorem eval_treeL (l : List (List (List (X P)))) (s : σ) :
    M.eval sem quit (treeL l) s = refL sem quit l false s := by
  rw [treeL, eval_collapse_list, eval_L]

/-! ### has_side_effects = "contains an action", syntactically -/

theorem hasSE_wrap (isAction : P → Bool) (inv : Bool) (m : M P) : (wrap inv m).hasSE isAction = m.hasSE isAction := by
  cases inv <;> simp [wrap, M.hasSE]

theorem hasSE_collapse (isAction : P → Bool) (mk : List (M P) → M P)
    (hmk : ∀ ms, (mk ms).hasSE isAction = M.hasSE.hasSEs isAction ms) (ms : List (M P)) :
    (collapse mk ms).hasSE isAction = M.hasSE.hasSEs isAction ms := by
  match ms with
  | [] => simp [collapse, hmk]
  | [m] => simp [collapse, M.hasSE.hasSEs]
  | _ :: _ :: _ => simp [collapse, hmk]

mutual
theorem hasSE_F (isAction : P → Bool) (x : X P) (inv : Bool) : (treeF inv x).hasSE isAction = actF isAction x := by
  match x with
  | .prim p => simp [treeF, hasSE_wrap, M.hasSE, actF]
  | .not x => rw [treeF, hasSE_F isAction x, actF]
  | .a x => rw [treeF, hasSE_F isAction x, actF]
  | .group l =>
    rw [treeF, hasSE_wrap, hasSE_collapse isAction .list (fun _ => by simp [M.hasSE]), hasSE_L isAction l, actF]
theorem hasSE_A (isAction : P → Bool) (g : List (X P)) : M.hasSE.hasSEs isAction (treesA g) = actA isAction g := by
  match g with
  | [] => rfl
  | x :: xs => simp only [treesA, M.hasSE.hasSEs, actA]; rw [hasSE_F isAction x, hasSE_A isAction xs]
theorem hasSE_O (isAction : P → Bool) (o : List (List (X P))) : M.hasSE.hasSEs isAction (treesO o) = actO isAction o := by
  match o with
  | [] => rfl
  | g :: gs =>
    simp only [treesO, M.hasSE.hasSEs, actO]
    rw [hasSE_collapse isAction .and (fun _ => by simp [M.hasSE]), hasSE_A isAction g, hasSE_O isAction gs]
theorem hasSE_L (isAction : P → Bool) (l : List (List (List (X P)))) : M.hasSE.hasSEs isAction (treesL l) = actL isAction l := by
  match l with
  | [] => rfl
  | o :: os =>
    simp only [treesL, M.hasSE.hasSEs, actL]
    rw [hasSE_collapse isAction .or (fun _ => by simp [M.hasSE]), hasSE_O isAction o, hasSE_L isAction os]
end

theorem hasSE_treeL (isAction : P → Bool) (l : List (List (List (X P)))) :
    (treeL l).hasSE isAction = actL isAction l := by
  rw [treeL, hasSE_collapse isAction .list (fun _ => by simp [M.hasSE]), hasSE_L]

/-! ### nothing is evaluated once the state says quit -/

/-- instrumented semantics: counts the primaries evaluated in a state where quit already holds -/
def instr (p : P) (t : σ × Nat) : Bool × (σ × Nat) :=
  let r := sem p t.1
  (r.1, (r.2, if quit t.1 then t.2 + 1 else t.2))

def quit' (t : σ × Nat) : Bool := quit t.1

mutual
theorem late_M (m : M P) (t : σ × Nat) (h : quit t.1 = false) :
    (M.eval (instr sem quit) (quit' quit) m t).2.2 = t.2 := by
  match m with
  | .prim p => simp [M.eval, instr, h]
  | .not m => simp only [M.eval]; exact late_M m t h
  | .and ms => simp only [M.eval]; exact late_and ms t h
  | .or ms => simp only [M.eval]; exact late_or ms t h
  | .list ms => simp only [M.eval]; exact late_list ms false t h
theorem late_and (ms : List (M P)) (t : σ × Nat) (h : quit t.1 = false) :
    (evalAnd (instr sem quit) (quit' quit) ms t).2.2 = t.2 := by
  match ms with
  | [] => rfl
  | m :: ms =>
    simp only [evalAnd]
    have h1 := late_M m t h
    split
    · exact h1
    · split
      · exact h1
      · rename_i hq
        rw [late_and ms _ (by simpa [quit'] using hq), h1]
theorem late_or (ms : List (M P)) (t : σ × Nat) (h : quit t.1 = false) :
    (evalOr (instr sem quit) (quit' quit) ms t).2.2 = t.2 := by
  match ms with
  | [] => rfl
  | m :: ms =>
    simp only [evalOr]
    have h1 := late_M m t h
    split
    · exact h1
    · split
      · exact h1
      · rename_i hq
        rw [late_or ms _ (by simpa [quit'] using hq), h1]
theorem late_list (ms : List (M P)) (rc : Bool) (t : σ × Nat) (h : quit t.1 = false) :
    (evalList (instr sem quit) (quit' quit) ms rc t).2.2 = t.2 := by
  match ms with
  | [] => rfl
  | m :: ms =>
    simp only [evalList]
    have h1 := late_M m t h
    split
    · exact h1
    · rename_i hq
      rw [late_list ms _ _ (by simpa [quit'] using hq), h1]
end

-- the instrumentation does not change what is computed
mutual
theorem instr_M (m : M P) (t : σ × Nat) :
    ((M.eval (instr sem quit) (quit' quit) m t).1, (M.eval (instr sem quit) (quit' quit) m t).2.1) = M.eval sem quit m t.1 := by
  match m with
  | .prim p => simp [M.eval, instr]
  | .not m =>
    simp only [M.eval]
    have := instr_M m t
    rw [← this]
  | .and ms => simp only [M.eval]; exact instr_and ms t
  | .or ms => simp only [M.eval]; exact instr_or ms t
  | .list ms => simp only [M.eval]; exact instr_list ms false t
theorem instr_and (ms : List (M P)) (t : σ × Nat) :
    ((evalAnd (instr sem quit) (quit' quit) ms t).1, (evalAnd (instr sem quit) (quit' quit) ms t).2.1) = evalAnd sem quit ms t.1 := by
  match ms with
  | [] => rfl
  | m :: ms =>
    simp only [evalAnd]
    have h1 := instr_M m t
    have h2 := instr_and ms (M.eval (instr sem quit) (quit' quit) m t).2
    rw [← h1]
    generalize M.eval (instr sem quit) (quit' quit) m t = r at h2 ⊢
    obtain ⟨v, s', n⟩ := r
    cases v <;> cases hq : quit s' <;> simp_all [quit']
theorem instr_or (ms : List (M P)) (t : σ × Nat) :
    ((evalOr (instr sem quit) (quit' quit) ms t).1, (evalOr (instr sem quit) (quit' quit) ms t).2.1) = evalOr sem quit ms t.1 := by
  match ms with
  | [] => rfl
  | m :: ms =>
    simp only [evalOr]
    have h1 := instr_M m t
    have h2 := instr_or ms (M.eval (instr sem quit) (quit' quit) m t).2
    rw [← h1]
    generalize M.eval (instr sem quit) (quit' quit) m t = r at h2 ⊢
    obtain ⟨v, s', n⟩ := r
    cases v <;> cases hq : quit s' <;> simp_all [quit']
theorem instr_list (ms : List (M P)) (rc : Bool) (t : σ × Nat) :
    ((evalList (instr sem quit) (quit' quit) ms rc t).1, (evalList (instr sem quit) (quit' quit) ms rc t).2.1) = evalList sem quit ms rc t.1 := by
  match ms with
  | [] => rfl
  | m :: ms =>
    simp only [evalList]
    have h1 := instr_M m t
    have h2 := instr_list ms (M.eval (instr sem quit) (quit' quit) m t).1 (M.eval (instr sem quit) (quit' quit) m t).2
    rw [← h1]
    generalize M.eval (instr sem quit) (quit' quit) m t = r at h2 ⊢
    obtain ⟨v, s', n⟩ := r
    cases hq : quit s' <;> simp_all [quit']
end

end FuModel.Find.Expr

namespace FuModel.Find.Expr
variable {P σ : Type} (sem : P → σ → Bool × σ) (quit : σ → Bool)

-- whatever relation (reflexive, transitive) every primary respects, the evaluation of a whole tree respects
mutual
theorem rel_M (R : σ → σ → Prop) (hr : ∀ s, R s s) (ht : ∀ a b c, R a b → R b c → R a c)
    (hs : ∀ p s, R s (sem p s).2) (m : M P) (s : σ) : R s (M.eval sem quit m s).2 := by
  match m with
  | .prim p => simpa [M.eval] using hs p s
  | .not m => simpa [M.eval] using rel_M R hr ht hs m s
  | .and ms => simpa [M.eval] using rel_and R hr ht hs ms s
  | .or ms => simpa [M.eval] using rel_or R hr ht hs ms s
  | .list ms => simpa [M.eval] using rel_list R hr ht hs ms false s
theorem rel_and (R : σ → σ → Prop) (hr : ∀ s, R s s) (ht : ∀ a b c, R a b → R b c → R a c)
    (hs : ∀ p s, R s (sem p s).2) (ms : List (M P)) (s : σ) : R s (evalAnd sem quit ms s).2 := by
  match ms with
  | [] => simpa [evalAnd] using hr s
  | m :: ms =>
    simp only [evalAnd]
    have h1 := rel_M R hr ht hs m s
    split
    · exact h1
    · split
      · exact h1
      · exact ht _ _ _ h1 (rel_and R hr ht hs ms _)
theorem rel_or (R : σ → σ → Prop) (hr : ∀ s, R s s) (ht : ∀ a b c, R a b → R b c → R a c)
    (hs : ∀ p s, R s (sem p s).2) (ms : List (M P)) (s : σ) : R s (evalOr sem quit ms s).2 := by
  match ms with
  | [] => simpa [evalOr] using hr s
  | m :: ms =>
    simp only [evalOr]
    have h1 := rel_M R hr ht hs m s
    split
    · exact h1
    · split
      · exact h1
      · exact ht _ _ _ h1 (rel_or R hr ht hs ms _)
theorem rel_list (R : σ → σ → Prop) (hr : ∀ s, R s s) (ht : ∀ a b c, R a b → R b c → R a c)
    (hs : ∀ p s, R s (sem p s).2) (ms : List (M P)) (rc : Bool) (s : σ) : R s (evalList sem quit ms rc s).2 := by
  match ms with
  | [] => simpa [evalList] using hr s
  | m :: ms =>
    simp only [evalList]
    have h1 := rel_M R hr ht hs m s
    split
    · exact h1
    · exact ht _ _ _ h1 (rel_list R hr ht hs ms _ _)
end

end FuModel.Find.Expr
