import FuModel.Proofs.WalkRef

/-!
# "Exactly once" for the reference traversal (C02)

With an evaluator that only records the entry it is called on (never prunes, never quits), the
reference traversal appends the list `pathsN` — the in-range entries reachable under the follow
mode, in visit order — to the record.  Every element of that list extends the path of the node it
was produced for, and when the names inside every directory are pairwise distinct (as they are in
a file system) no path occurs twice: every in-range entry is evaluated exactly once.
-/
namespace FuModel.Find.Walk
variable {α : Type}

/-- the evaluator that records the relative path of the entry and nothing else -/
def logEv : Visit α → List (List Name) → EvalOut × List (List Name) :=
  fun v s => (⟨false, false, 0⟩, s ++ [v.ent.rpath])

def selfPath (c : RefCfg) (rpath : List Name) (depth : Nat) : List (List Name) :=
  if inRange c depth then [rpath] else []

mutual
def pathsN (c : RefCfg) (rpath : List Name) (depth : Nat) : Node α → List (List Name)
  | .leaf _ k _ => if k == .linkLoop && c.follows depth then [] else selfPath c rpath depth
  | .dir _ isLink readable _ kids =>
    let below :=
      if (!isLink || c.follows depth) && decide (depth < c.maxDepth) then
        (if readable then pathsK c rpath (depth + 1) kids else [])
      else []
    if c.depthFirst then below ++ selfPath c rpath depth else selfPath c rpath depth ++ below
def pathsK (c : RefCfg) (rpath : List Name) (depth : Nat) : List (Node α) → List (List Name)
  | [] => []
  | n :: ns => pathsN c (n.name :: rpath) depth n ++ pathsK c rpath depth ns
end

theorem mkVisit_rpath (c : RefCfg) (rp : List Name) (d : Nat) (n : Node α) : (mkVisit c rp d n).ent.rpath = rp := by
  unfold mkVisit
  cases n with
  | leaf nm k a => simp only; split <;> rfl
  | dir nm l r a kids => rfl

theorem visit_log (c : RefCfg) (rp : List Name) (d : Nat) (n : Node α) (A : Acc (List (List Name))) :
    (visit c logEv rp d n A).1 = false ∧ (visit c logEv rp d n A).2.1 = false ∧
      (visit c logEv rp d n A).2.2.st = A.st ++ selfPath c rp d := by
  unfold visit selfPath
  split
  · simp [logEv, mkVisit_rpath]
  · simp

mutual
theorem refNode_log (c : RefCfg) (rp : List Name) (d : Nat) (n : Node α) (A : Acc (List (List Name))) :
    (refNode c logEv rp d n A).1 = false ∧ (refNode c logEv rp d n A).2.st = A.st ++ pathsN c rp d n := by
  match n with
  | .leaf nm k a =>
    rw [refNode, pathsN]
    split
    · split <;> simp [diag]
    · have := visit_log c rp d (.leaf nm k a) A
      exact ⟨this.2.1, this.2.2⟩
  | .dir nm l r a kids =>
    rw [refNode, pathsN]
    have hk := fun A' => refKids_log c rp (d + 1) kids A'
    cases hdf : c.depthFirst
    · -- pre-order
      simp only [Bool.false_eq_true, if_false]
      have hv := visit_log c rp d (.dir nm l r a kids) A
      simp only [hv.2.1, hv.1, Bool.false_eq_true, if_false]
      split
      · split
        · have := hk (visit c logEv rp d (.dir nm l r a kids) A).2.2
          refine ⟨this.1, ?_⟩
          rw [this.2, hv.2.2, List.append_assoc]
        · simp [diag, hv.2.2]
      · simp [hv.2.2]
    · -- post-order
      simp only [if_true]
      split
      · split
        · have h1 := hk A
          simp only [h1.1, Bool.false_eq_true, if_false]
          have hv := visit_log c rp d (.dir nm l r a kids) (refKids c logEv rp (d + 1) kids A).2
          refine ⟨hv.2.1, ?_⟩
          rw [hv.2.2, h1.2, List.append_assoc]
        · simp only [Bool.false_eq_true, if_false]
          have hv := visit_log c rp d (.dir nm l r a kids) (diag A)
          refine ⟨hv.2.1, ?_⟩
          rw [hv.2.2]; simp [diag]
      · simp only [Bool.false_eq_true, if_false]
        have hv := visit_log c rp d (.dir nm l r a kids) A
        refine ⟨hv.2.1, ?_⟩
        rw [hv.2.2]; simp
theorem refKids_log (c : RefCfg) (rp : List Name) (d : Nat) (kids : List (Node α)) (A : Acc (List (List Name))) :
    (refKids c logEv rp d kids A).1 = false ∧ (refKids c logEv rp d kids A).2.st = A.st ++ pathsK c rp d kids := by
  match kids with
  | [] => simp [refKids, pathsK]
  | n :: ns =>
    rw [refKids, pathsK]
    have h1 := refNode_log c (n.name :: rp) d n A
    simp only [h1.1, Bool.false_eq_true, if_false]
    have h2 := refKids_log c rp d ns (refNode c logEv (n.name :: rp) d n A).2
    refine ⟨h2.1, ?_⟩
    rw [h2.2, h1.2, List.append_assoc]
end

/-! ### every recorded path extends the path of the node it belongs to -/

mutual
theorem pathsN_suffix (c : RefCfg) (rp : List Name) (d : Nat) (n : Node α) :
    ∀ p ∈ pathsN c rp d n, ∃ e, p = e ++ rp := by
  match n with
  | .leaf nm k a =>
    rw [pathsN]
    intro p hp
    split at hp
    · cases hp
    · unfold selfPath at hp; split at hp
      · simp at hp; exact ⟨[], by simp [hp]⟩
      · cases hp
  | .dir nm l r a kids =>
    rw [pathsN]
    intro p hp
    have hself : ∀ q ∈ selfPath c rp d, ∃ e, q = e ++ rp := by
      intro q hq; unfold selfPath at hq; split at hq
      · simp at hq; exact ⟨[], by simp [hq]⟩
      · cases hq
    have hbelow : ∀ q ∈ (if (!l || c.follows d) && decide (d < c.maxDepth) then
        (if r then pathsK c rp (d + 1) kids else []) else []), ∃ e, q = e ++ rp := by
      intro q hq
      split at hq
      · split at hq
        · obtain ⟨e, k, _, he⟩ := pathsK_suffix c rp (d + 1) kids q hq
          exact ⟨e ++ [k.name], by rw [he]; simp⟩
        · cases hq
      · cases hq
    split at hp
    · rcases List.mem_append.mp hp with h | h
      · exact hbelow p h
      · exact hself p h
    · rcases List.mem_append.mp hp with h | h
      · exact hself p h
      · exact hbelow p h
theorem pathsK_suffix (c : RefCfg) (rp : List Name) (d : Nat) (kids : List (Node α)) :
    ∀ p ∈ pathsK c rp d kids, ∃ e k, k ∈ kids ∧ p = e ++ k.name :: rp := by
  match kids with
  | [] => intro p hp; simp [pathsK] at hp
  | n :: ns =>
    rw [pathsK]
    intro p hp
    rcases List.mem_append.mp hp with h | h
    · obtain ⟨e, he⟩ := pathsN_suffix c (n.name :: rp) d n p h
      exact ⟨e, n, by simp, he⟩
    · obtain ⟨e, k, hk, he⟩ := pathsK_suffix c rp d ns p h
      exact ⟨e, k, by simp [hk], he⟩
end

/-! ### no path twice -/

mutual
/-- the names inside every directory are pairwise distinct -/
def distinctN : Node α → Prop
  | .leaf _ _ _ => True
  | .dir _ _ _ _ kids => distinctK kids
def distinctK : List (Node α) → Prop
  | [] => True
  | n :: ns => distinctN n ∧ (∀ k ∈ ns, k.name ≠ n.name) ∧ distinctK ns
end

theorem selfPath_nodup (c : RefCfg) (rp : List Name) (d : Nat) : (selfPath c rp d).Nodup := by
  unfold selfPath; split <;> simp

theorem append_cons_cancel {e1 e2 : List Name} {a b : Name} {rp : List Name}
    (h : e1 ++ a :: rp = e2 ++ b :: rp) : a = b := by
  have h' : (e1 ++ [a]) ++ rp = (e2 ++ [b]) ++ rp := by simpa using h
  have := List.append_cancel_right h'
  have hl := congrArg List.getLast? this
  simpa using hl

theorem length_lt_of_kid {e : List Name} {a : Name} {rp : List Name} : (e ++ a :: rp) ≠ rp := by
  intro h
  have := congrArg List.length h
  simp at this
  omega

mutual
theorem pathsN_nodup (c : RefCfg) (rp : List Name) (d : Nat) (n : Node α) (h : distinctN n) :
    (pathsN c rp d n).Nodup := by
  match n with
  | .leaf nm k a =>
    rw [pathsN]; split
    · simp
    · exact selfPath_nodup c rp d
  | .dir nm l r a kids =>
    rw [pathsN]
    have hk : (pathsK c rp (d + 1) kids).Nodup := pathsK_nodup c rp (d + 1) kids (by simpa [distinctN] using h)
    have hbelow : (if (!l || c.follows d) && decide (d < c.maxDepth) then
        (if r then pathsK c rp (d + 1) kids else []) else []).Nodup := by
      split
      · split
        · exact hk
        · simp
      · simp
    have hdisj : ∀ p, p ∈ selfPath c rp d → p ∈ (if (!l || c.follows d) && decide (d < c.maxDepth) then
        (if r then pathsK c rp (d + 1) kids else []) else []) → False := by
      intro p hp hq
      have hp' : p = rp := by
        unfold selfPath at hp; split at hp
        · simpa using hp
        · cases hp
      split at hq
      · split at hq
        · obtain ⟨e, k, _, he⟩ := pathsK_suffix c rp (d + 1) kids p hq
          rw [hp'] at he
          exact length_lt_of_kid he.symm
        · cases hq
      · cases hq
    split
    · exact List.nodup_append.mpr ⟨hbelow, selfPath_nodup c rp d, fun a ha b hb hab => hdisj a (hab ▸ hb) ha⟩
    · exact List.nodup_append.mpr ⟨selfPath_nodup c rp d, hbelow, fun a ha b hb hab => hdisj a ha (hab ▸ hb)⟩
theorem pathsK_nodup (c : RefCfg) (rp : List Name) (d : Nat) (kids : List (Node α)) (h : distinctK kids) :
    (pathsK c rp d kids).Nodup := by
  match kids with
  | [] => simp [pathsK]
  | n :: ns =>
    rw [pathsK]
    simp only [distinctK] at h
    obtain ⟨hn, hne, hns⟩ := h
    refine List.nodup_append.mpr ⟨pathsN_nodup c (n.name :: rp) d n hn, pathsK_nodup c rp d ns hns, ?_⟩
    intro a ha b hb hab
    obtain ⟨e1, he1⟩ := pathsN_suffix c (n.name :: rp) d n a ha
    obtain ⟨e2, k, hk, he2⟩ := pathsK_suffix c rp d ns b hb
    rw [hab, he2] at he1
    exact hne k hk (append_cons_cancel he1)
end

/-! ## the traversal order changes the order only

Two configurations that differ at most in `depthFirst` list the same entries, each as often -/

mutual
theorem pathsN_order_perm (c c' : RefCfg) (hmin : c'.minDepth = c.minDepth) (hmax : c'.maxDepth = c.maxDepth)
    (hf : c'.follow = c.follow) (rp : List Name) (d : Nat) (n : Node α) :
    (pathsN c' rp d n).Perm (pathsN c rp d n) := by
  have hfol : ∀ k, c'.follows k = c.follows k := fun k => by simp [RefCfg.follows, hf]
  have hself : selfPath c' rp d = selfPath c rp d := by simp [selfPath, inRange, hmin, hmax]
  match n with
  | .leaf nm k a => rw [pathsN, pathsN, hfol, hself]
  | .dir nm l r a kids =>
    have hk := pathsK_order_perm c c' hmin hmax hf rp (d + 1) kids
    rw [pathsN, pathsN, hfol, hself, hmax]
    have hb : (if (!l || c.follows d) && decide (d < c.maxDepth) then (if r then pathsK c' rp (d + 1) kids else []) else []).Perm
        (if (!l || c.follows d) && decide (d < c.maxDepth) then (if r then pathsK c rp (d + 1) kids else []) else []) := by
      split
      · split
        · exact hk
        · exact List.Perm.refl _
      · exact List.Perm.refl _
    cases c'.depthFirst <;> cases c.depthFirst <;> simp only [Bool.false_eq_true, if_false, if_true]
    · exact List.Perm.append (List.Perm.refl _) hb
    · exact (List.Perm.append (List.Perm.refl _) hb).trans List.perm_append_comm
    · exact (List.Perm.append hb (List.Perm.refl _)).trans List.perm_append_comm
    · exact List.Perm.append hb (List.Perm.refl _)
theorem pathsK_order_perm (c c' : RefCfg) (hmin : c'.minDepth = c.minDepth) (hmax : c'.maxDepth = c.maxDepth)
    (hf : c'.follow = c.follow) (rp : List Name) (d : Nat) (kids : List (Node α)) :
    (pathsK c' rp d kids).Perm (pathsK c rp d kids) := by
  match kids with
  | [] => rw [pathsK, pathsK]
  | n :: ns =>
    rw [pathsK, pathsK]
    exact List.Perm.append (pathsN_order_perm c c' hmin hmax hf (n.name :: rp) d n)
      (pathsK_order_perm c c' hmin hmax hf rp d ns)
end

end FuModel.Find.Walk
