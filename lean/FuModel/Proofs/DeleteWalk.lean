import FuModel.Proofs.DeleteBase
import FuModel.Proofs.WalkSublog
/-!
# `-delete` over a whole starting point: a subsequence of the visited entries (C10)
-/
namespace FuModel.Find.Run
open FuModel.Find.Walk FuModel.Find.Expr

/-- one primary: the removed set is unchanged, or the entry's own path — not removed before — is appended -/
theorem sem_deleted_fresh (start : Bytes) (v : Visit Attr) (p : Prim) (s : ES) :
    (sem start v p s).2.gs.deleted = s.gs.deleted ∨
    ((sem start v p s).2.gs.deleted = s.gs.deleted ++ [pathOf start v.ent.rpath] ∧
      s.gs.deleted.contains (pathOf start v.ent.rpath) = false) := by
  cases p with
  | delete =>
    rw [sem_delete_eq]
    split
    · exact Or.inl rfl
    · split
      · rename_i hr
        refine Or.inr ⟨rfl, ?_⟩
        unfold removable at hr
        simp only [Bool.and_eq_true, Bool.not_eq_true'] at hr
        exact hr.1
      · exact Or.inl rfl
  | exec dir ok cmd tmpl => left; simp [sem, spawn_deleted]
  | execMulti id dir ok cmd fixed =>
    left
    simp only [sem]
    split
    · rfl
    · split
      · rfl
      · split
        · simp [setPending_deleted]
        · split
          · simp [runBatch_deleted]
          · split <;> simp [setPending_deleted, runBatch_deleted]
  | prune => left; simp only [sem]; split <;> rfl
  | _ => left; rfl

/-- from `a` to `b` the entry's path was removed at most once, and only if it had not been removed before -/
def DelStep (path : Bytes) (a b : ES) : Prop :=
  b.gs.deleted = a.gs.deleted ∨ (b.gs.deleted = a.gs.deleted ++ [path] ∧ a.gs.deleted.contains path = false)

theorem eval_delstep (m : M Prim) (start : Bytes) (v : Visit Attr) (s : ES) :
    DelStep (pathOf start v.ent.rpath) s (M.eval (sem start v) (·.quit) m s).2 := by
  refine rel_M (sem start v) (·.quit) (DelStep (pathOf start v.ent.rpath)) (fun s => Or.inl rfl) ?_
    (fun p s => sem_deleted_fresh start v p s) m s
  intro a b c hab hbc
  rcases hab with h1 | ⟨h1, n1⟩
  · rcases hbc with h2 | ⟨h2, n2⟩
    · exact Or.inl (h2.trans h1)
    · exact Or.inr ⟨by rw [h2, h1], by rw [← h1]; exact n2⟩
  · rcases hbc with h2 | ⟨h2, n2⟩
    · exact Or.inr ⟨by rw [h2, h1], n1⟩
    · exfalso
      rw [h1] at n2
      simp at n2

/-- the walk removed, in order, some of the entries `l` -/
def TD (start : Bytes) (a b : GS) (l : List (Visit Attr)) : Prop :=
  ∃ L, b.deleted = a.deleted ++ L ∧ L.Sublist (l.map fun v => pathOf start v.ent.rpath)

theorem evalEntry_TD (m : M Prim) (start : Bytes) (v : Visit Attr) (g : GS) :
    TD start g (evalEntry m start v g).2 [v] := by
  have hpre : ∀ (g1 : GS) (ex : Nat), g1.deleted = g.deleted →
      TD start g (M.eval (sem start v) (·.quit) m ⟨g1, false, false, ex⟩).2.gs [v] := by
    intro g1 ex hk
    rcases eval_delstep m start v ⟨g1, false, false, ex⟩ with h | ⟨h, _⟩
    · exact ⟨[], by rw [h]; simp [hk], by simp⟩
    · exact ⟨[pathOf start v.ent.rpath], by rw [h]; simp [hk], by simp⟩
  unfold evalEntry
  simp only
  split
  · cases hc : g.curDir with
    | none => exact hpre _ _ rfl
    | some dd => exact hpre _ _ (by simp [flushMultis_deleted])
  · exact hpre _ _ rfl

theorem flushAll_deleted (ms : List (Nat × Bool × Bool × Bytes × List Bytes)) :
    ∀ (g : GS) (failed : Bool), (flushAll ms g failed).1.deleted = g.deleted := by
  induction ms with
  | nil => intro g failed; rfl
  | cons m ms ih =>
    intro g failed
    obtain ⟨id, dir, ok, cmd, fixed⟩ := m
    simp only [flushAll]
    split
    · rw [ih]; simp [setPending_deleted, runBatch_deleted]
    · exact ih _ _

theorem finishDir_deleted (m : M Prim) (g : GS) : (finishDir m g).1.deleted = g.deleted := by
  unfold finishDir
  simp only
  cases g.curDir with
  | none => simp [flushAll_deleted]
  | some d => simp [flushAll_deleted, flushMultis_deleted]

/-- **Whole starting point**: whatever the expression, the entries removed while `process_dir`
    walks a starting point (post-order, as `-delete` forces) are — appended to those removed
    before — a subsequence, in visit order, of the paths of the in-range reachable entries of this
    starting point: nothing is removed that the walk does not visit, nothing twice (those paths are
    pairwise distinct: `visitsN_paths`, `pathsN_nodup`), nothing out of order. -/
theorem whole_walk_deleted (c : Config) (m : M Prim) (start : Bytes) (root : Node Attr) (g : GS)
    (hpost : (refCfg c).depthFirst = true) :
    let n := if c.sorted then sortNode root else root
    ∃ L, (processDir c m start (some root) g).gs.deleted = g.deleted ++ L ∧
      L.Sublist ((visitsN (refCfg c) [] 0 n).map fun v => pathOf start v.ent.rpath) := by
  intro n
  have hroot := processRoot_postAny (refCfg c) (evalEntry m start) hpost n { g with curDir := none }
  have hsub := refNode_sub (refCfg c) (evalEntry m start) (TD start)
    (fun s => ⟨[], by simp, by simp⟩)
    (fun a b cc l1 l2 h1 h2 => by
      obtain ⟨L1, e1, s1⟩ := h1
      obtain ⟨L2, e2, s2⟩ := h2
      refine ⟨L1 ++ L2, by rw [e2, e1, List.append_assoc], ?_⟩
      rw [List.map_append]
      exact List.Sublist.append s1 s2)
    (fun a b l l' h hs => by
      obtain ⟨L, e, s⟩ := h
      exact ⟨L, e, s.trans (hs.map _)⟩)
    (fun v s => evalEntry_TD m start v s) [] 0 n ⟨{ g with curDir := none }, 0, 0⟩
  obtain ⟨L, hL, hs⟩ := hsub
  refine ⟨L, ?_, hs⟩
  show (processDir c m start (some root) g).gs.deleted = _
  unfold processDir
  simp only
  rw [show (if c.sorted then sortNode root else root) = n from rfl, hroot]
  simp only [resOf, refRoot]
  rw [finishDir_deleted, hL]

end FuModel.Find.Run
