import FuModel.Proofs.XargsRead

/-!
Generative specification of the default-mode tokenizer: an input that is a
sequence of (quoted) words separated by blanks tokenizes to the words' values.
-/
namespace FuModel.Xargs

inductive Piece where
  | plain (c : UInt8)
  | esc (c : UInt8)
  | sq (body : List UInt8)
  | dq (body : List UInt8)

def Piece.ok : Piece → Prop
  | .plain c => isWs c = false ∧ isQuoteByte c = false ∧ c ≠ 92
  | .esc _ => True
  | .sq b => 39 ∉ b
  | .dq b => 34 ∉ b

def Piece.render : Piece → List UInt8
  | .plain c => [c]
  | .esc c => [92, c]
  | .sq b => 39 :: (b ++ [39])
  | .dq b => 34 :: (b ++ [34])

def Piece.value : Piece → List UInt8
  | .plain c => [c]
  | .esc c => [c]
  | .sq b => b
  | .dq b => b

def renderWord (w : List Piece) : List UInt8 := w.flatMap Piece.render
def valueWord (w : List Piece) : List UInt8 := w.flatMap Piece.value

def allWs (s : List UInt8) : Prop := ∀ c ∈ s, isWs c = true

/-- a word followed by its (non-empty, all-blank) separator -/
structure Item where
  word : List Piece
  sep : List UInt8

def Item.ok (it : Item) : Prop :=
  (∀ p ∈ it.word, p.ok) ∧ allWs it.sep ∧ it.sep ≠ []

def renderItems (items : List Item) : List UInt8 :=
  items.flatMap (fun it => renderWord it.word ++ it.sep)

/-- the arguments a list of items denotes: the value of every word whose value
    is non-empty, hard-terminated iff the first separator byte is a newline -/
def expected (items : List Item) : List (List UInt8 × Bool) :=
  items.filterMap (fun it =>
    if valueWord it.word = [] then none else some (valueWord it.word, it.sep.head? == some 10))

def ReadAll.prepend (xs : List (List UInt8 × Bool)) (r : ReadAll) : ReadAll :=
  xs.foldr ReadAll.cons r

theorem isWs_not_special {c : UInt8} (h : isWs c = true) : isQuoteByte c = false ∧ c ≠ 92 := by
  simp only [isWs, isQuoteByte, Bool.or_eq_true, beq_iff_eq] at *
  rcases h with (((h | h) | h) | h) | h <;> subst h <;> decide

theorem tok_in_quote (q : UInt8) (r b rest : List UInt8) (hq : q ∉ b) :
    tokFrom ⟨.quote q, r⟩ (b ++ q :: rest) = tokFrom ⟨.none, r ++ b⟩ rest := by
  induction b generalizing r with
  | nil => simp [tokFrom, stepByte]
  | cons c cs ih =>
    have hc : (c == q) = false := by
      simp only [List.mem_cons, not_or] at hq
      simpa [beq_eq_false_iff_ne] using fun h => hq.1 h.symm
    have hq' : q ∉ cs := fun h => hq (List.mem_cons_of_mem _ h)
    simp only [List.cons_append, tokFrom, stepByte, hc]
    simpa using ih (r ++ [c]) hq'

theorem tok_piece (p : Piece) (hp : p.ok) (r rest : List UInt8) :
    tokFrom ⟨.none, r⟩ (p.render ++ rest) = tokFrom ⟨.none, r ++ p.value⟩ rest := by
  cases p with
  | plain c =>
    obtain ⟨h1, h2, h3⟩ := hp
    have h3' : (c == 92) = false := by simpa [beq_eq_false_iff_ne] using h3
    simp [Piece.render, Piece.value, tokFrom, stepByte, h1, h2, h3']
  | esc c =>
    simp [Piece.render, Piece.value, tokFrom, stepByte, isQuoteByte]
  | sq b =>
    have := tok_in_quote 39 r b rest hp
    simp only [Piece.render, Piece.value, List.cons_append, tokFrom, stepByte]
    simpa [isQuoteByte] using this
  | dq b =>
    have := tok_in_quote 34 r b rest hp
    simp only [Piece.render, Piece.value, List.cons_append, tokFrom, stepByte]
    simpa [isQuoteByte] using this

theorem tok_word (w : List Piece) (hw : ∀ p ∈ w, p.ok) (r rest : List UInt8) :
    tokFrom ⟨.none, r⟩ (renderWord w ++ rest) = tokFrom ⟨.none, r ++ valueWord w⟩ rest := by
  induction w generalizing r with
  | nil => simp [renderWord, valueWord]
  | cons p ps ih =>
    have hp := hw p (List.mem_cons_self)
    have hps : ∀ p ∈ ps, p.ok := fun p h => hw p (List.mem_cons_of_mem _ h)
    simp only [renderWord, valueWord, List.flatMap_cons, List.append_assoc] at *
    rw [tok_piece p hp, ih hps]
    simp

theorem tok_skip_ws (s rest : List UInt8) (hs : allWs s) :
    tokFrom RS.init (s ++ rest) = tokFrom RS.init rest := by
  induction s with
  | nil => rfl
  | cons c cs ih =>
    have hc := hs c (List.mem_cons_self)
    have ⟨h1, h2⟩ := isWs_not_special hc
    have h2' : (c == 92) = false := by simpa [beq_eq_false_iff_ne] using h2
    have hcs : allWs cs := fun x hx => hs x (List.mem_cons_of_mem _ hx)
    simp only [List.cons_append, tokFrom, stepByte, RS.init, h1, h2', hc]
    simpa [RS.init] using ih hcs

theorem tok_sep (r : List UInt8) (c : UInt8) (more rest : List UInt8) (hs : allWs (c :: more)) :
    tokFrom ⟨.none, r⟩ (c :: more ++ rest) =
      if r = [] then tokFrom RS.init rest else (tokFrom RS.init rest).cons (r, c == 10) := by
  have hc := hs c (List.mem_cons_self)
  have ⟨h1, h2⟩ := isWs_not_special hc
  have h2' : (c == 92) = false := by simpa [beq_eq_false_iff_ne] using h2
  have hmore : allWs more := fun x hx => hs x (List.mem_cons_of_mem _ hx)
  simp only [List.cons_append, tokFrom, stepByte, h1, h2', hc]
  by_cases hr : r = []
  · subst hr
    simpa [RS.init] using tok_skip_ws more rest hmore
  · have : r.isEmpty = false := by cases r <;> simp_all
    simp [this, hr, tok_skip_ws more rest hmore]

theorem tok_item (it : Item) (hit : it.ok) (rest : List UInt8) :
    tokFrom RS.init (renderWord it.word ++ it.sep ++ rest) =
      ReadAll.prepend (expected [it]) (tokFrom RS.init rest) := by
  obtain ⟨hw, hs, hne⟩ := hit
  rw [List.append_assoc]
  have := tok_word it.word hw [] (it.sep ++ rest)
  simp only [RS.init, List.nil_append] at this ⊢
  rw [this]
  cases hsep : it.sep with
  | nil => exact absurd hsep hne
  | cons c more =>
    rw [hsep] at hs
    have := tok_sep (valueWord it.word) c more rest hs
    simp only [List.cons_append] at this ⊢
    rw [this]
    by_cases hv : valueWord it.word = []
    · simp [expected, hv, ReadAll.prepend, RS.init]
    · simp [expected, hv, ReadAll.prepend, RS.init, hsep]

theorem prepend_append (xs ys : List (List UInt8 × Bool)) (r : ReadAll) :
    ReadAll.prepend (xs ++ ys) r = ReadAll.prepend xs (ReadAll.prepend ys r) := by
  simp [ReadAll.prepend, List.foldr_append]

theorem expected_cons (it : Item) (items : List Item) :
    expected (it :: items) = expected [it] ++ expected items := by
  simp [expected, List.filterMap_cons]
  split <;> simp

theorem tok_items (items : List Item) (h : ∀ it ∈ items, it.ok) (rest : List UInt8) :
    tokFrom RS.init (renderItems items ++ rest) =
      ReadAll.prepend (expected items) (tokFrom RS.init rest) := by
  induction items with
  | nil => simp [renderItems, expected, ReadAll.prepend]
  | cons it its ih =>
    have hit := h it (List.mem_cons_self)
    have hits : ∀ it ∈ its, it.ok := fun x hx => h x (List.mem_cons_of_mem _ hx)
    have e : renderItems (it :: its) ++ rest
        = renderWord it.word ++ it.sep ++ (renderItems its ++ rest) := by
      simp [renderItems, List.flatMap_cons, List.append_assoc]
    rw [e, tok_item it hit, ih hits]
    conv => rhs; rw [expected_cons, prepend_append]

theorem prepend_ok (xs ys : List (List UInt8 × Bool)) :
    ReadAll.prepend xs (.ok ys) = .ok (xs ++ ys) := by
  induction xs with
  | nil => rfl
  | cons x xs ih => simp only [ReadAll.prepend, List.foldr_cons] at *; rw [ih]; rfl

theorem prepend_err (xs ys : List (List UInt8 × Bool)) :
    ReadAll.prepend xs (.err ys) = .err (xs ++ ys) := by
  induction xs with
  | nil => rfl
  | cons x xs ih => simp only [ReadAll.prepend, List.foldr_cons] at *; rw [ih]; rfl

/-- every argument the tokenizer produces is non-empty -/
theorem tokFrom_nonempty (s : RS) (inp : List UInt8) :
    ∀ a, (tokFrom s inp = .ok a ∨ tokFrom s inp = .err a) → ∀ x ∈ a, x.1 ≠ [] := by
  induction inp generalizing s with
  | nil =>
    intro a h x hx
    simp only [tokFrom] at h
    cases hesc : s.esc <;> rw [hesc] at h <;> simp at h
    all_goals first
      | (split at h <;> simp at h <;> subst h <;> simp at hx
         subst hx; simp_all)
      | (subst h; simp at hx)
  | cons c cs ih =>
    intro a h x hx
    simp only [tokFrom] at h
    cases hstep : stepByte s c with
    | cont s' => rw [hstep] at h; exact ih s' a h x hx
    | done tok hard =>
      rw [hstep] at h
      have htok : tok ≠ [] := by
        unfold stepByte at hstep
        cases hesc : s.esc <;> rw [hesc] at hstep <;> simp at hstep
        · split at hstep <;> try simp at hstep
          split at hstep <;> try simp at hstep
          split at hstep <;> try simp at hstep
          split at hstep <;> simp at hstep
          obtain ⟨h1, _⟩ := hstep
          subst h1
          cases hr : s.res <;> simp_all
        · split at hstep <;> simp at hstep
      cases hrest : tokFrom RS.init cs with
      | ok as =>
        rw [hrest] at h
        simp [ReadAll.cons] at h
        subst h
        rcases List.mem_cons.mp hx with rfl | hx'
        · exact htok
        · exact ih RS.init as (Or.inl hrest) x hx'
      | err as =>
        rw [hrest] at h
        simp [ReadAll.cons] at h
        subst h
        rcases List.mem_cons.mp hx with rfl | hx'
        · exact htok
        · exact ih RS.init as (Or.inr hrest) x hx'

end FuModel.Xargs

namespace FuModel.Xargs

theorem bdFrom_seg (d : UInt8) (cur seg rest : List UInt8) (h : d ∉ seg) :
    bdFrom d cur (seg ++ rest) = bdFrom d (cur ++ seg) rest := by
  induction seg generalizing cur with
  | nil => simp
  | cons c cs ih =>
    have hc : (c == d) = false := by
      simp only [List.mem_cons, not_or] at h
      simpa [beq_eq_false_iff_ne] using fun e => h.1 e.symm
    have hcs : d ∉ cs := fun hx => h (List.mem_cons_of_mem _ hx)
    simp only [List.cons_append, bdFrom, hc]
    simpa using ih (cur ++ [c]) hcs

theorem bdFrom_delim (d : UInt8) (cur rest : List UInt8) :
    bdFrom d cur (d :: rest) = (if cur = [] then [] else [cur]) ++ bdFrom d [] rest := by
  simp only [bdFrom, beq_self_eq_true, if_true]
  cases cur <;> simp

theorem bdAll_segments (d : UInt8) (segs : List (List UInt8)) (last : List UInt8)
    (hs : ∀ s ∈ segs, d ∉ s) (hl : d ∉ last) :
    bdAll d (segs.flatMap (· ++ [d]) ++ last) = (segs ++ [last]).filter (· ≠ []) := by
  unfold bdAll
  induction segs with
  | nil =>
    have := bdFrom_seg d [] last [] hl
    simp only [List.append_nil, List.nil_append] at this
    simp only [List.flatMap_nil, List.nil_append, this, bdFrom]
    cases last <;> simp
  | cons s ss ih =>
    have hs' : ∀ s ∈ ss, d ∉ s := fun x hx => hs x (List.mem_cons_of_mem _ hx)
    have h1 := bdFrom_seg d [] s (d :: (ss.flatMap (· ++ [d]) ++ last)) (hs s List.mem_cons_self)
    simp only [List.flatMap_cons, List.append_assoc, List.cons_append, List.nil_append] at h1 ⊢
    rw [h1, bdFrom_delim, ih hs']
    cases s <;> simp

end FuModel.Xargs

namespace FuModel.Xargs

theorem tok_unterminated (q : UInt8) (body : List UInt8) (hb : q ∉ body) (r : List UInt8) :
    tokFrom ⟨.quote q, r⟩ body = .err [] := by
  induction body generalizing r with
  | nil => simp [tokFrom]
  | cons c cs ih =>
    have hc : (c == q) = false := by
      simp only [List.mem_cons, not_or] at hb
      simpa [beq_eq_false_iff_ne] using fun e => hb.1 e.symm
    simp only [tokFrom, stepByte, hc]
    exact ih (fun hx => hb (List.mem_cons_of_mem _ hx)) _

end FuModel.Xargs
