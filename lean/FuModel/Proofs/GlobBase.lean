import FuModel.Find.Glob
import FuModel.Spec.Fnmatch

/-!
# C12 — the tests -name, -path, -lname (and their -i forms) equal POSIX fnmatch on the whole string

Model: `Find/Glob.lean` (glob → items → regular expression text; Oniguruma's anchored
backtracking match `firstEnd`; `Pattern::matches` compares its length with the subject's).
Specification: `Spec/Fnmatch.lean`.

Proved here: the matching mechanism never accepts a substring or prefix — whenever
`Pattern::matches` is true the *whole* subject is in the language of the items, for every item
list, subject and case mode (`C12_whole_string`), and the basic readings of `*`, `?`, literals and
a lone trailing backslash.  PARTIAL: the converse (the first match the engine finds is the whole
string whenever a whole-string match exists) and the equality of the item translation with the
fnmatch specification on well-formed patterns are carried by the correspondence runs (exhaustive
over small alphabets, random from the grammar) with `Spec/Fnmatch.lean` as the predicate; three
deviations found that way are recorded as known findings.
-/
namespace FuModel.Find.Glob

/-- the language of an item list, denotationally: a star stands for any string -/
def denot (icase : Bool) : List Item → List Char → Bool
  | [], s => s.isEmpty
  | .star :: r, s => (List.range (s.length + 1)).any fun k => denot icase r (s.drop k)
  | it :: r, s =>
    match s with
    | [] => false
    | x :: xs => it.accepts icase x && denot icase r xs

theorem firstEnd_sound (icase : Bool) (is : List Item) (s : List Char) (pos e : Nat)
    (h : firstEnd icase is s pos = some e) :
    ∃ k, e = pos + k ∧ k ≤ s.length ∧ denot icase is (s.take k) = true := by
  induction is generalizing s pos e with
  | nil =>
    simp only [firstEnd, Option.some.injEq] at h
    exact ⟨0, by omega, by omega, by simp [denot]⟩
  | cons it r ih =>
    cases it with
    | star =>
      simp only [firstEnd] at h
      obtain ⟨k, hk, hke⟩ := List.exists_of_findSome?_eq_some h
      simp only [List.mem_reverse, List.mem_range] at hk
      obtain ⟨k', he, hk', hd⟩ := ih (s.drop k) (pos + k) e hke
      simp only [List.length_drop] at hk'
      refine ⟨k + k', by omega, by omega, ?_⟩
      simp only [denot, List.any_eq_true, List.mem_range]
      refine ⟨k, by simp; omega, ?_⟩
      have : (s.take (k + k')).drop k = (s.drop k).take k' := by
        rw [List.drop_take]; congr 1; omega
      rw [this]; exact hd
    | lit c =>
      cases s with
      | nil => simp [firstEnd] at h
      | cons x xs =>
        simp only [firstEnd] at h
        split at h
        · rename_i ha
          obtain ⟨k', he, hk', hd⟩ := ih xs (pos + 1) e h
          exact ⟨k' + 1, by omega, by simp; omega, by simp [denot, ha, hd]⟩
        · cases h
    | any =>
      cases s with
      | nil => simp [firstEnd] at h
      | cons x xs =>
        simp only [firstEnd] at h
        split at h
        · rename_i ha
          obtain ⟨k', he, hk', hd⟩ := ih xs (pos + 1) e h
          exact ⟨k' + 1, by omega, by simp; omega, by simp [denot, ha, hd]⟩
        · cases h
    | set neg ms raw =>
      cases s with
      | nil => simp [firstEnd] at h
      | cons x xs =>
        simp only [firstEnd] at h
        split at h
        · rename_i ha
          obtain ⟨k', he, hk', hd⟩ := ih xs (pos + 1) e h
          exact ⟨k' + 1, by omega, by simp; omega, by simp [denot, ha, hd]⟩
        · cases h

/-- The match is always against the entire string: if `Pattern::matches` says yes, the whole
    subject — not a prefix, not a substring — is in the language of the pattern's items. -/
theorem C12_whole_string (icase : Bool) (is : List Item) (s : List Char)
    (h : matchesItems icase is s = true) : denot icase is s = true := by
  unfold matchesItems at h
  have h' : firstEnd icase is s 0 = some s.length := by simpa using h
  obtain ⟨k, he, _, hd⟩ := firstEnd_sound icase is s 0 s.length h'
  have : k = s.length := by omega
  subst this
  simpa using hd

/-- `?` accepts every character — '/', a leading '.', newline included — and `*` every string. -/
theorem C12_any (icase : Bool) (c : Char) : Item.accepts icase .any c = true := rfl

theorem C12_star_all (icase : Bool) (s : List Char) : denot icase [.star] s = true := by
  simp only [denot, List.any_eq_true, List.mem_range]
  exact ⟨s.length, by omega, by simp⟩

/-- A literal accepts exactly its own character (case-sensitively), nothing else is special. -/
theorem C12_literal (c x : Char) : Item.accepts false (.lit c) x = true ↔ x = c := by
  simp only [Item.accepts, Bool.false_and, Bool.or_false, beq_iff_eq]
  exact eq_comm

/-- A pattern ending in a lone backslash matches nothing. -/
theorem C12_lone_backslash (icase : Bool) (p s : List Char) (h : items p = .never) :
    globMatches icase p s = .ok false := by
  simp [globMatches, h]

def outBool : Outcome Bool → Option Bool
  | .ok b => some b
  | _ => none

example : (match items ['a', '\\'] with | .never => true | _ => false) = true := by decide
example : outBool (globMatches false ['*', '.', 'c'] ['.', 'c']) = some true ∧
    outBool (globMatches false ['a'] ['x', 'a']) = some false ∧
    outBool (globMatches false ['[', '!', 'a', '-', 'c', ']', '?'] ['d', '\n']) = some true ∧
    outBool (globMatches false ['[', 'a'] ['[', 'a']) = some true := by decide

end FuModel.Find.Glob
