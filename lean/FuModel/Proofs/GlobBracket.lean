import FuModel.Proofs.GlobTranslate

/-!
# Plain bracket expressions are translated to the fnmatch specification (C12)

A *plain* bracket expression is `[` `!`? member+ `]` whose members are single characters other than
`] [ \ - ! ^ :` or ranges `a-b` between two such characters with `a ≤ b` — `[abc]`, `[a-z0-9_]`,
`[!a-z]`, `[.?*]`.  Patterns are described generatively (`PTok`): any sequence of ordinary
characters, quoted characters, `?`, `*` and plain bracket expressions.  For every such pattern the
scanner (`extract_bracket_expr`), the validity check and the engine's reading of the fragment
produce exactly the item the specification parses, and the whole pipeline is exactly fnmatch
(`glob_plain_is_fnmatch`).

Outside this class (a quoted or special character inside brackets, classes, `]` first, `[` inside)
the comparison is carried by the correspondence runs, and that is where the three known findings of
C12 live.
-/
namespace FuModel.Find.Glob
open FuModel.Spec.Fnmatch

def plain (c : Char) : Bool :=
  !(c == ']' || c == '[' || c == '\\' || c == '-' || c == '!' || c == '^' || c == ':')

inductive PM where
  | ch (c : Char)
  | range (a b : Char)

def PM.ok : PM → Bool
  | .ch c => plain c
  | .range a b => plain a && plain b && decide (a.toNat ≤ b.toNat)

def PM.text : PM → List Char
  | .ch c => [c]
  | .range a b => [a, '-', b]

def PM.mem : PM → Mem
  | .ch c => .ch c
  | .range a b => .range a b

def PM.smem : PM → SMem
  | .ch c => .ch c
  | .range a b => .range a b

def bodyText (ms : List PM) : List Char := ms.flatMap PM.text

inductive PTok where
  | lit (c : Char)
  | esc (c : Char)
  | any
  | star
  | set (neg : Bool) (ms : List PM)

def PTok.ok : PTok → Bool
  | .lit c => !(c == '?' || c == '*' || c == '\\' || c == '[')
  | .set _ ms => !ms.isEmpty && ms.all PM.ok
  | _ => true

def PTok.text : PTok → List Char
  | .lit c => [c]
  | .esc c => ['\\', c]
  | .any => ['?']
  | .star => ['*']
  | .set neg ms => '[' :: (if neg then ['!'] else []) ++ bodyText ms ++ [']']

def PTok.item : PTok → Item
  | .lit c => .lit c
  | .esc c => .lit c
  | .any => .any
  | .star => .star
  | .set neg ms => .set neg (ms.map PM.mem) ('[' :: (if neg then ['^'] else []) ++ bodyText ms ++ [']'])

def PTok.sitem : PTok → SItem
  | .lit c => .lit c
  | .esc c => .lit c
  | .any => .any
  | .star => .star
  | .set neg ms => .set neg (ms.map PM.smem)

def patText (ts : List PTok) : List Char := ts.flatMap PTok.text

/-! ### characters of a plain body -/

theorem plain_ne {c : Char} (h : plain c = true) :
    c ≠ ']' ∧ c ≠ '[' ∧ c ≠ '\\' ∧ c ≠ '-' ∧ c ≠ '!' ∧ c ≠ '^' ∧ c ≠ ':' := by
  simp [plain] at h
  exact ⟨h.1.1.1.1.1.1, h.1.1.1.1.1.2, h.1.1.1.1.2, h.1.1.1.2, h.1.1.2, h.1.2, h.2⟩

/-- every character of a plain body is a plain character or a `-` -/
def bodyChar (c : Char) : Bool := plain c || c == '-'

theorem body_chars (ms : List PM) (h : ms.all PM.ok = true) : ∀ c ∈ bodyText ms, bodyChar c = true := by
  induction ms with
  | nil => intro c hc; simp [bodyText] at hc
  | cons m r ih =>
    simp only [List.all_cons, Bool.and_eq_true] at h
    intro c hc
    simp only [bodyText, List.flatMap_cons, List.mem_append] at hc
    rcases hc with hc | hc
    · cases m with
      | ch x => simp [PM.text] at hc; subst hc; simp [bodyChar]; left; simpa [PM.ok] using h.1
      | range a b =>
        simp [PM.text] at hc
        simp [PM.ok] at h
        rcases hc with rfl | rfl | rfl
        · simp [bodyChar, h.1.1.1]
        · simp [bodyChar]
        · simp [bodyChar, h.1.1.2]
    · exact ih h.2 c hc

theorem bodyChar_ne {c : Char} (h : bodyChar c = true) : c ≠ ']' ∧ c ≠ '[' ∧ c ≠ '\\' ∧ c ≠ '!' ∧ c ≠ '^' ∧ c ≠ ':' := by
  simp only [bodyChar, Bool.or_eq_true, beq_iff_eq] at h
  rcases h with h | h
  · have := plain_ne h; exact ⟨this.1, this.2.1, this.2.2.1, this.2.2.2.2.1, this.2.2.2.2.2.1, this.2.2.2.2.2.2⟩
  · subst h; decide

theorem body_head (ms : List PM) (hne : ms.isEmpty = false) (h : ms.all PM.ok = true) :
    ∃ c r, bodyText ms = c :: r ∧ plain c = true := by
  cases ms with
  | nil => simp at hne
  | cons m r =>
    simp only [List.all_cons, Bool.and_eq_true] at h
    cases m with
    | ch x => exact ⟨x, bodyText r, by simp [bodyText, PM.text], by simpa [PM.ok] using h.1⟩
    | range a b =>
      simp [PM.ok] at h
      exact ⟨a, '-' :: b :: bodyText r, by simp [bodyText, PM.text], h.1.1.1⟩

/-- the head of what follows a member inside a plain body: a plain character or the closing bracket -/
theorem body_next (ms : List PM) (h : ms.all PM.ok = true) (rest : List Char) :
    ∃ c r, bodyText ms ++ ']' :: rest = c :: r ∧ c ≠ '-' ∧ c ≠ '\\' ∧ c ≠ '[' := by
  cases hm : ms.isEmpty
  · obtain ⟨c, r, h1, h2⟩ := body_head ms hm h
    have := plain_ne h2
    exact ⟨c, r ++ ']' :: rest, by simp [h1], this.2.2.2.1, this.2.2.1, this.2.1⟩
  · have : ms = [] := by simpa using hm
    subst this
    exact ⟨']', rest, by simp [bodyText], by decide, by decide, by decide⟩

/-! ### the scanner -/

theorem scanLoop_body (body rest : List Char) (hb : ∀ c ∈ body, bodyChar c = true) :
    ∀ (fuel : Nat) (acc : List Char), body.length < fuel →
      scanLoop fuel (body ++ ']' :: rest) acc = .ok (acc.reverse ++ body ++ [']']) rest := by
  induction body with
  | nil =>
    intro fuel acc hf
    cases fuel with
    | zero => omega
    | succ f => simp [scanLoop]
  | cons c cs ih =>
    intro fuel acc hf
    cases fuel with
    | zero => omega
    | succ f =>
      have hc := bodyChar_ne (hb c (by simp))
      have h1 : (c == ']') = false := by simpa using hc.1
      have h2 : (c == '[') = false := by simpa using hc.2.1
      have := ih (fun x hx => hb x (by simp [hx])) f (c :: acc) (by simp at hf; omega)
      simp only [List.cons_append, scanLoop, h1, h2, Bool.false_eq_true, if_false, this]
      simp

theorem scanBracket_cons (c : Char) (r : List Char) (h1 : c ≠ '!') (h2 : c ≠ ']') :
    scanBracket (c :: r) = (match scanLoop ((c :: r).length + 1) (c :: r) [] with | .ok raw rest => .ok raw rest | s => s) := by
  simp [scanBracket, h1, h2]
  split <;> simp_all

theorem scanBracket_bang (c : Char) (r : List Char) (h2 : c ≠ ']') :
    scanBracket ('!' :: c :: r) = (match scanLoop ((c :: r).length + 1) (c :: r) [] with | .ok raw rest => .ok ('^' :: raw) rest | s => s) := by
  simp [scanBracket, h2]
  split <;> simp_all

theorem scanBracket_plain (neg : Bool) (ms : List PM) (hne : ms.isEmpty = false) (h : ms.all PM.ok = true)
    (rest : List Char) :
    scanBracket ((if neg then ['!'] else []) ++ bodyText ms ++ ']' :: rest) =
      .ok ((if neg then ['^'] else []) ++ bodyText ms ++ [']']) rest := by
  obtain ⟨c, r, h1, h2⟩ := body_head ms hne h
  have hp := plain_ne h2
  have hb := body_chars ms h
  have hloop := scanLoop_body (bodyText ms) rest hb ((bodyText ms ++ ']' :: rest).length + 1) [] (by simp; omega)
  rw [h1] at hloop
  cases neg
  · simp only [Bool.false_eq_true, if_false, List.nil_append, h1, List.cons_append]
    rw [scanBracket_cons c _ hp.2.2.2.2.1 hp.1]
    simp only [List.cons_append] at hloop
    rw [hloop]; simp
  · simp only [if_true, List.cons_append, List.nil_append, h1]
    rw [scanBracket_bang c _ hp.1]
    simp only [List.cons_append] at hloop
    rw [hloop]; simp


theorem count_body (t : List Char) (hb : ∀ c ∈ t, bodyChar c = true) : simpleFragment.count (t ++ [']']) = 1 := by
  induction t with
  | nil => simp [simpleFragment.count]
  | cons c cs ih =>
    have hc := bodyChar_ne (hb c (by simp))
    have := ih (fun x hx => hb x (by simp [hx]))
    simp only [List.cons_append]
    rw [simpleFragment.count.eq_def]
    split
    · rename_i heq; simp at heq
    · rename_i heq; simp at heq; exact absurd heq.1 hc.2.2.2.2.2
    · rename_i heq; simp at heq; exact absurd heq.1 hc.1
    · rename_i heq; simp at heq; rw [← heq.2]; exact this

theorem collate_body (t : List Char) (hb : ∀ c ∈ t, bodyChar c = true) : simpleFragment.hasCollate (t ++ [']']) = false := by
  induction t with
  | nil => simp [simpleFragment.hasCollate]
  | cons c cs ih =>
    have hc := bodyChar_ne (hb c (by simp))
    have := ih (fun x hx => hb x (by simp [hx]))
    simp only [List.cons_append]
    rw [simpleFragment.hasCollate.eq_def]
    split
    · rename_i heq; simp at heq
    · rename_i heq; simp at heq; exact absurd heq.1 hc.2.1
    · rename_i heq; simp at heq; exact absurd heq.1 hc.2.1
    · rename_i heq; simp at heq; rw [← heq.2]; exact this

theorem simpleFragment_plain (neg : Bool) (ms : List PM) (hne : ms.isEmpty = false) (h : ms.all PM.ok = true) :
    simpleFragment ((if neg then ['^'] else []) ++ bodyText ms ++ [']']) = true := by
  obtain ⟨c, r, h1, h2⟩ := body_head ms hne h
  have hp := plain_ne h2
  have hb := body_chars ms h
  have hcnt := count_body (bodyText ms) hb
  have hcol := collate_body (bodyText ms) hb
  rw [h1] at hcnt hcol
  simp only [List.cons_append] at hcnt hcol
  have hlast : (c :: (r ++ [']'])).getLast? = some ']' := by
    have : c :: (r ++ [']']) = (c :: r) ++ [']'] := by simp
    rw [this, List.getLast?_append]; simp
  cases neg
  · simp only [Bool.false_eq_true, if_false, List.nil_append, h1, List.cons_append]
    simp [simpleFragment, hp.2.2.2.2.2.1, hp.1, hcnt, hcol, hlast]
  · simp only [if_true, List.cons_append, List.nil_append, h1]
    simp [simpleFragment, hp.1, hcnt, hcol, hlast]

theorem parseMembers_body (ms : List PM) (h : ms.all PM.ok = true) :
    ∀ fuel, (bodyText ms).length < fuel → parseMembers fuel (bodyText ms) = some (ms.map PM.mem) := by
  induction ms with
  | nil => intro fuel hf; cases fuel with
    | zero => omega
    | succ f => simp [bodyText, parseMembers]
  | cons m r ih =>
    intro fuel hf
    simp only [List.all_cons, Bool.and_eq_true] at h
    cases fuel with
    | zero => omega
    | succ f =>
      have ihr := ih h.2
      -- what follows the member
      have hnext : ∀ x xs, bodyText r = x :: xs → x ≠ '-' := by
        intro x xs hx
        cases hr : r.isEmpty
        · obtain ⟨c, r', h1, h2⟩ := body_head r hr h.2
          rw [h1] at hx; simp at hx; rw [← hx.1]; exact (plain_ne h2).2.2.2.1
        · have : r = [] := by simpa using hr
          subst this; simp [bodyText] at hx
      cases m with
      | ch c =>
        have hc := plain_ne (by simpa [PM.ok] using h.1 : plain c = true)
        have e : bodyText (PM.ch c :: r) = c :: bodyText r := by simp [bodyText, PM.text]
        rw [e] at hf ⊢
        have := ihr f (by simp at hf; omega)
        rw [parseMembers.eq_def]
        split
        · rename_i heq; simp at heq
        · rename_i heq; simp at heq
        · rename_i heq; simp at heq; exact absurd heq.1 hc.2.1
        · rename_i heq; simp at heq; exact absurd heq.1 hc.2.1
        · rename_i heq; simp at heq; exact absurd heq.1 hc.2.1
        · rename_i heq; simp at heq
          exact absurd rfl (hnext _ _ heq.2)
        · rename_i hf' heq
          simp at heq hf'
          obtain ⟨h1, h2⟩ := heq
          subst h1 h2 hf'
          simp [this, PM.mem]
      | range a b =>
        simp [PM.ok] at h
        have ha := plain_ne h.1.1.1
        have hb := plain_ne h.1.1.2
        have e : bodyText (PM.range a b :: r) = a :: '-' :: b :: bodyText r := by simp [bodyText, PM.text]
        rw [e] at hf ⊢
        have := ihr f (by simp at hf; omega)
        rw [parseMembers.eq_def]
        split
        · rename_i heq; simp at heq
        · rename_i heq; simp at heq
        · rename_i heq; simp at heq
        · rename_i heq; simp at heq
        · rename_i heq; simp at heq
        · rename_i hf' heq
          simp at heq hf'
          obtain ⟨h1, h3, h4⟩ := heq
          subst h1 h3 h4 hf'
          have hb' : (b == '[') = false := by simpa using hb.2.1
          simp only [hb', Bool.false_and, Bool.false_eq_true, if_false, h.1.2, if_true]
          split
          · rename_i heq2; exact absurd rfl (hnext _ _ heq2)
          · simp [this, PM.mem]
        · rename_i hno _ heq
          simp at heq
          exact absurd heq.2.symm (hno b (bodyText r))

theorem body_no_close (t : List Char) (hb : ∀ c ∈ t, bodyChar c = true) : t.contains ']' = false := by
  induction t with
  | nil => rfl
  | cons c cs ih =>
    have hc := bodyChar_ne (hb c (by simp))
    have := ih (fun x hx => hb x (by simp [hx]))
    simp only [List.contains_cons, this, Bool.or_false]
    simpa using hc.1.symm

theorem readFragment_plain (neg : Bool) (ms : List PM) (hne : ms.isEmpty = false) (h : ms.all PM.ok = true) :
    readFragment ((if neg then ['^'] else []) ++ bodyText ms ++ [']']) = some (neg, ms.map PM.mem) := by
  obtain ⟨c, r, h1, h2⟩ := body_head ms hne h
  have hp := plain_ne h2
  have hb := body_chars ms h
  have hpm := parseMembers_body ms h ((bodyText ms).length + 1) (by omega)
  have hnc := body_no_close (bodyText ms) hb
  have hme : ms ≠ [] := by
    intro h0; subst h0; simp at hne
  rw [h1] at hpm hnc
  have hnm : ¬ ']' ∈ r := by
    intro hm
    simp [hm] at hnc
  simp only [List.length_cons] at hpm
  cases neg
  · simp only [Bool.false_eq_true, if_false, List.nil_append, h1]
    simp [readFragment, hp.1, hp.2.2.2.2.2.1, hnm, hpm, hme, hp.1.symm]
  · simp only [if_true, List.cons_append, List.nil_append, h1]
    simp [readFragment, hp.1, hnm, hpm, hme, hp.1.symm]

theorem parseSet_body (ms : List PM) (h : ms.all PM.ok = true) (rest : List Char) :
    ∀ fuel first, (bodyText ms).length < fuel → (first = true → ms ≠ []) →
      parseSet fuel (bodyText ms ++ ']' :: rest) first = some (ms.map PM.smem, rest, false) := by
  induction ms with
  | nil =>
    intro fuel first hf hfirst
    cases fuel with
    | zero => omega
    | succ f =>
      cases first with
      | true => exact absurd rfl (hfirst rfl)
      | false => simp [bodyText, parseSet]
  | cons m r ih =>
    intro fuel first hf _
    simp only [List.all_cons, Bool.and_eq_true] at h
    cases fuel with
    | zero => omega
    | succ f =>
      have ihr := ih h.2
      obtain ⟨x, xs, hx, hx1, hx2, hx3⟩ := body_next r h.2 rest
      cases m with
      | ch c =>
        have hc := plain_ne (by simpa [PM.ok] using h.1 : plain c = true)
        have e : bodyText (PM.ch c :: r) = c :: bodyText r := by simp [bodyText, PM.text]
        rw [e] at hf ⊢
        have := ihr f false (by simp at hf; omega) (by simp)
        simp only [List.cons_append]
        rw [parseSet.eq_def]
        split
        · simp_all
        · simp_all
        · simp_all
        · simp_all
        · simp_all
        · simp_all
        · rename_i fu hfu _ _ _ _ _ _
          have : f = fu := by omega
          subst this
          rw [hx] at this ⊢
          simp [hc.2.2.1, hx1, this, PM.smem]
      | range a b =>
        simp [PM.ok] at h
        have ha := plain_ne h.1.1.1
        have hb := plain_ne h.1.1.2
        have e : bodyText (PM.range a b :: r) = a :: '-' :: b :: bodyText r := by simp [bodyText, PM.text]
        rw [e] at hf ⊢
        have := ihr f false (by simp at hf; omega) (by simp)
        simp only [List.cons_append]
        rw [parseSet.eq_def]
        split
        · simp_all
        · simp_all
        · simp_all
        · simp_all
        · simp_all
        · simp_all
        · rename_i fu hfu _ _ _ _ _ _
          have : f = fu := by omega
          subst this
          rw [hx] at this ⊢
          have hlt : ¬ b.toNat < a.toNat := by omega
          simp [ha.2.2.1, hb.2.2.1, hb.1, hb.2.1, hx1, this, PM.smem, hlt]

theorem mem_has_eq (m : PM) (c : Char) : m.mem.has c = m.smem.has c := by
  cases m <;> simp [PM.mem, PM.smem, Mem.has, SMem.has]

theorem accepts_plain (t : PTok) (c : Char) : t.item.accepts false c = t.sitem.accepts false c := by
  cases t with
  | set neg ms =>
    simp only [PTok.item, PTok.sitem, Item.accepts, SItem.accepts, Bool.false_and, Bool.or_false, List.any_map]
    have : (ms.any fun m => m.mem.has c) = (ms.any fun m => m.smem.has c) := by
      congr 1; funext m; exact mem_has_eq m c
    simp only [Function.comp_def, this]
  | _ => simp [PTok.item, PTok.sitem, Item.accepts, SItem.accepts]

theorem denot_plain (ts : List PTok) : ∀ s, specMatch false (ts.map PTok.sitem) s = denot false (ts.map PTok.item) s := by
  induction ts with
  | nil => intro s; simp [specMatch, denot]
  | cons t r ih =>
    intro s
    cases t with
    | star => simp only [List.map_cons, PTok.item, PTok.sitem, specMatch, denot, ih]
    | lit c =>
      cases s with
      | nil => simp [PTok.item, PTok.sitem, specMatch, denot]
      | cons x xs =>
        have := accepts_plain (.lit c) x
        simp only [PTok.item, PTok.sitem] at this
        simp only [List.map_cons, PTok.item, PTok.sitem, specMatch, denot, ih, this]
    | esc c =>
      cases s with
      | nil => simp [PTok.item, PTok.sitem, specMatch, denot]
      | cons x xs =>
        have := accepts_plain (.esc c) x
        simp only [PTok.item, PTok.sitem] at this
        simp only [List.map_cons, PTok.item, PTok.sitem, specMatch, denot, ih, this]
    | any =>
      cases s with
      | nil => simp [PTok.item, PTok.sitem, specMatch, denot]
      | cons x xs => simp only [List.map_cons, PTok.item, PTok.sitem, specMatch, denot, ih]; simp [SItem.accepts, Item.accepts]
    | set neg ms =>
      cases s with
      | nil => simp [PTok.item, PTok.sitem, specMatch, denot]
      | cons x xs =>
        have := accepts_plain (.set neg ms) x
        simp only [PTok.item, PTok.sitem] at this
        simp only [List.map_cons, PTok.item, PTok.sitem, specMatch, denot, ih, this]

theorem parse_plain (ts : List PTok) (hok : ts.all PTok.ok = true) :
    ∀ fuel, (patText ts).length < fuel →
      globItems fuel (patText ts) = .ok (ts.map PTok.item) ∧
      specParse fuel (patText ts) = some (ts.map PTok.sitem, false) := by
  induction ts with
  | nil =>
    intro fuel hf
    cases fuel with
    | zero => omega
    | succ f => simp [patText, globItems, specParse]
  | cons t r ih =>
    intro fuel hf
    simp only [List.all_cons, Bool.and_eq_true] at hok
    cases fuel with
    | zero => omega
    | succ f =>
      have e : patText (t :: r) = t.text ++ patText r := by simp [patText]
      rw [e] at hf ⊢
      have hlen : (patText r).length < f := by simp at hf; cases t <;> simp [PTok.text] at hf <;> omega
      obtain ⟨g1, g2⟩ := ih hok.2 f hlen
      cases t with
      | lit c =>
        have hc : c ≠ '?' ∧ c ≠ '*' ∧ c ≠ '\\' ∧ c ≠ '[' := by
          have := hok.1; simp [PTok.ok] at this; exact ⟨this.1.1.1, this.1.1.2, this.1.2, this.2⟩
        simp [PTok.text, globItems, specParse, g1, g2, hc.1, hc.2.1, hc.2.2.1, hc.2.2.2, PTok.item, PTok.sitem]
      | esc c =>
        simp [PTok.text, globItems, specParse, g1, g2, PTok.item, PTok.sitem]
      | any => simp [PTok.text, globItems, specParse, g1, g2, PTok.item, PTok.sitem]
      | star => simp [PTok.text, globItems, specParse, g1, g2, PTok.item, PTok.sitem]
      | set neg ms =>
        have hms : ms.isEmpty = false ∧ ms.all PM.ok = true := by
          have := hok.1; simp only [PTok.ok, Bool.and_eq_true, Bool.not_eq_true'] at this; exact this
        have hsb := scanBracket_plain neg ms hms.1 hms.2 (patText r)
        have hsf := simpleFragment_plain neg ms hms.1 hms.2
        have hrf := readFragment_plain neg ms hms.1 hms.2
        obtain ⟨c, r', h1, h2⟩ := body_head ms hms.1 hms.2
        have hp := plain_ne h2
        have hps := parseSet_body ms hms.2 (patText r) ((bodyText ms ++ ']' :: patText r).length + 1) true (by simp; omega)
          (by intro _ h0; subst h0; simp at hms)
        have hme : (ms.map PM.smem).isEmpty = false := by
          cases ms with
          | nil => simp at hms
          | cons _ _ => simp
        have et : (PTok.set neg ms).text ++ patText r = '[' :: ((if neg then ['!'] else []) ++ bodyText ms ++ ']' :: patText r) := by
          simp [PTok.text]
        rw [et]
        constructor
        · simp only [globItems, hsb, hsf, hrf, g1]
          simp [PTok.item]
        · have hne : ms ≠ [] := by intro h0; subst h0; simp at hms
          have hps' := parseSet_body ms hms.2 (patText r)
          cases neg
          · simp only [Bool.false_eq_true, if_false, List.nil_append]
            rw [h1]
            simp only [List.cons_append]
            simp [specParse, hp.2.2.2.2.1, hp.2.2.2.2.2.1]
            have hps2 := hps' (r'.length + ((patText r).length + 1) + 1 + 1) true (by rw [h1]; simp; omega) (fun _ => hne)
            rw [h1] at hps2
            simp only [List.cons_append] at hps2
            rw [hps2]
            simp [hne, g2, PTok.sitem]
          · simp only [if_true, List.cons_append, List.nil_append]
            simp [specParse]
            have hps2 := hps' ((bodyText ms).length + ((patText r).length + 1) + 1) true (by omega) (fun _ => hne)
            rw [hps2]
            simp [hne, g2, PTok.sitem]

/-- **Plain patterns: the whole pipeline is exactly fnmatch.** -/
theorem glob_plain_is_fnmatch (ts : List PTok) (hok : ts.all PTok.ok = true) (s : List Char) :
    (match globMatches false (patText ts) s with | .ok b => some b | _ => none) = fnmatch false (patText ts) s := by
  obtain ⟨g1, g2⟩ := parse_plain ts hok ((patText ts).length + 1) (by omega)
  unfold globMatches items fnmatch
  simp only [g1, g2, Bool.false_eq_true, if_false]
  congr 1
  rw [denot_plain ts s]
  have := matchesItems_iff false (ts.map PTok.item) s
  cases hm : matchesItems false (ts.map PTok.item) s <;> cases hd : denot false (ts.map PTok.item) s <;> simp_all

end FuModel.Find.Glob
