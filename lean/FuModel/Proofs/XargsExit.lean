import FuModel.Xargs.BatchSpec
/-
Helper lemmas for C19: the exit status of `processInput` as a function of the
outcomes of the commands it started.
-/
namespace FuModel.Xargs

/-! ### `classify` against the specification vocabulary -/

theorem classify_success {o : Outcome} (h : classify o = .success) :
    o = .exit 0 := by
  cases o with
  | exit c =>
    by_cases h0 : c = 0
    · subst h0; rfl
    · by_cases h255 : c = 255
      · subst h255; simp [classify] at h
      · unfold classify at h; split at h <;> simp_all
  | signal s => simp [classify] at h
  | notFound => simp [classify] at h
  | cannotRun => simp [classify] at h

theorem classify_failure {o : Outcome} (h : classify o = .failure) :
    o.isFatal = false ∧ o.isFailure = true := by
  cases o with
  | exit c =>
    by_cases h0 : c = 0
    · subst h0; simp [classify] at h
    · by_cases h255 : c = 255
      · subst h255; simp [classify] at h
      · constructor
        · unfold Outcome.isFatal; split <;> simp_all
        · unfold Outcome.isFailure; split <;> simp_all
  | signal s => simp [classify] at h
  | notFound => simp [classify] at h
  | cannotRun => simp [classify] at h

theorem classify_fatal {o : Outcome} {st : Nat} (h : classify o = .fatal st) :
    o.isFatal = true ∧ st = o.fatalStatus := by
  cases o with
  | exit c =>
    by_cases h0 : c = 0
    · subst h0; simp [classify] at h
    · by_cases h255 : c = 255
      · subst h255; simp [classify] at h; subst h; exact ⟨rfl, rfl⟩
      · unfold classify at h; split at h <;> simp_all
  | signal s => simp [classify] at h; subst h; exact ⟨rfl, rfl⟩
  | notFound => simp [classify] at h; subst h; exact ⟨rfl, rfl⟩
  | cannotRun => simp [classify] at h; subst h; exact ⟨rfl, rfl⟩

theorem classify_of_not_fatal {o : Outcome} (h : o.isFatal = false) :
    classify o = .success ∨ classify o = .failure := by
  cases hc : classify o with
  | success => exact Or.inl rfl
  | failure => exact Or.inr rfl
  | fatal st => have := (classify_fatal hc).1; simp_all

theorem eq_exit_zero_of_not_fatal_not_failure {o : Outcome}
    (h1 : o.isFatal = false) (h2 : o.isFailure = false) : o = .exit 0 := by
  rcases classify_of_not_fatal h1 with h | h
  · exact classify_success h
  · have := (classify_failure h).2; simp_all

theorem fatalStatus_ge (o : Outcome) : 124 ≤ o.fatalStatus := by
  cases o <;> simp [Outcome.fatalStatus]

/-! ### `startedOutcomes` -/

@[simp] theorem startedOutcomes_zero (script : List Outcome) : startedOutcomes script 0 = [] := by
  simp [startedOutcomes]

theorem startedOutcomes_succ (script : List Outcome) (k : Nat) :
    startedOutcomes script (k + 1)
      = (nextOutcome script).1 :: startedOutcomes (nextOutcome script).2 k := by
  cases script with
  | nil => simp [startedOutcomes, nextOutcome, List.replicate_succ]
  | cons o os =>
    simp only [startedOutcomes, nextOutcome, List.cons_append, List.take_succ_cons,
      List.take_append, List.take_replicate]
    congr 3
    omega

theorem mem_startedOutcomes {script : List Outcome} {k : Nat} {o : Outcome}
    (h : o ∈ startedOutcomes script k) : o ∈ script ∨ o = .exit 0 := by
  have := List.mem_of_mem_take h
  simp only [List.mem_append, List.mem_replicate] at this
  rcases this with h | h
  · exact Or.inl h
  · exact Or.inr h.2

theorem nextOutcome_not_fatal {script : List Outcome}
    (hnf : ∀ o ∈ script, o.isFatal = false) :
    (nextOutcome script).1.isFatal = false ∧ ∀ o ∈ (nextOutcome script).2, o.isFatal = false := by
  cases script with
  | nil => simp [nextOutcome, Outcome.isFatal]
  | cons o os =>
    simp only [nextOutcome]
    exact ⟨hnf o (by simp), fun o' ho' => hnf o' (by simp [ho'])⟩

/-! ### equations of `processInput` -/

theorem processInput_nil (cfg : Config) (init : LState) (rdErr : Bool) (cur : Builder)
    (pend failed : Bool) (log : List (List Arg)) (script : List Outcome) :
    processInput cfg init rdErr cur pend failed log script [] =
      if rdErr then ⟨log, 1⟩
      else if !cfg.r || pend then
        match classify (nextOutcome script).1 with
        | .success => ⟨log ++ [cur.extra], if failed then 123 else 0⟩
        | .failure => ⟨log ++ [cur.extra], 123⟩
        | .fatal st => ⟨log ++ [cur.extra], st⟩
      else ⟨log, if failed then 123 else 0⟩ := by
  rfl

theorem processInput_cons_ok {cfg : Config} {init : LState} {rdErr : Bool} {cur : Builder}
    {pend failed : Bool} {log : List (List Arg)} {script : List Outcome} {a : Arg} {as : List Arg}
    {st' : LState} (h : tryArg cfg.lim cur.st a = .ok st') :
    processInput cfg init rdErr cur pend failed log script (a :: as) =
      processInput cfg init rdErr ⟨st', cur.extra ++ [a]⟩ true failed log script as := by
  simp only [processInput, h]

theorem processInput_cons_x {cfg : Config} {init : LState} {rdErr : Bool} {cur : Builder}
    {pend failed : Bool} {log : List (List Arg)} {script : List Outcome} {a : Arg} {as : List Arg}
    {ooc : Bool} (h : tryArg cfg.lim cur.st a = .error ooc)
    (hx : (ooc && cfg.x && (cfg.lim.n.isSome || cfg.lim.l.isSome)) = true) :
    processInput cfg init rdErr cur pend failed log script (a :: as) = ⟨log, 1⟩ := by
  simp only [processInput, h, hx, if_true]

theorem processInput_cons_nopend {cfg : Config} {init : LState} {rdErr : Bool} {cur : Builder}
    {failed : Bool} {log : List (List Arg)} {script : List Outcome} {a : Arg} {as : List Arg}
    {ooc : Bool} (h : tryArg cfg.lim cur.st a = .error ooc)
    (hx : (ooc && cfg.x && (cfg.lim.n.isSome || cfg.lim.l.isSome)) = false) :
    processInput cfg init rdErr cur false failed log script (a :: as) =
      match tryArg cfg.lim init a with
      | .ok st' => processInput cfg init rdErr ⟨st', [a]⟩ true failed log script as
      | .error _ => ⟨log, 1⟩ := by
  simp only [processInput, h, hx]
  rfl

theorem processInput_cons_pend {cfg : Config} {init : LState} {rdErr : Bool} {cur : Builder}
    {failed : Bool} {log : List (List Arg)} {script : List Outcome} {a : Arg} {as : List Arg}
    {ooc : Bool} (h : tryArg cfg.lim cur.st a = .error ooc)
    (hx : (ooc && cfg.x && (cfg.lim.n.isSome || cfg.lim.l.isSome)) = false) :
    processInput cfg init rdErr cur true failed log script (a :: as) =
      match classify (nextOutcome script).1 with
      | .success =>
        (match tryArg cfg.lim init a with
         | .ok st' => processInput cfg init rdErr ⟨st', [a]⟩ true failed (log ++ [cur.extra])
                        (nextOutcome script).2 as
         | .error _ => ⟨log ++ [cur.extra], 1⟩)
      | .failure =>
        (match tryArg cfg.lim init a with
         | .ok st' => processInput cfg init rdErr ⟨st', [a]⟩ true true (log ++ [cur.extra])
                        (nextOutcome script).2 as
         | .error _ => ⟨log ++ [cur.extra], 1⟩)
      | .fatal st => ⟨log ++ [cur.extra], st⟩ := by
  simp only [processInput, h, hx]
  cases classify (nextOutcome script).1 <;> rfl

/-! ### the invariant relating status and started outcomes -/

/-- `s` is a correct status for a (sub)run that started `k` commands on `script`,
    entered with the failure flag `failed` and reader flag `rdErr`. -/
structure StatusInv (rdErr failed : Bool) (script : List Outcome) (k s : Nat) : Prop where
  stops : ∀ i o, (startedOutcomes script k)[i]? = some o → o.isFatal = true → i + 1 = k
  fatal : ∀ o, (startedOutcomes script k).find? (fun o => o.isFatal) = some o → s = o.fatalStatus
  plain : (startedOutcomes script k).find? (fun o => o.isFatal) = none →
    s = 1 ∨ s = (if failed || (startedOutcomes script k).any (fun o => o.isFailure) then 123 else 0)
  reader : rdErr = true → (∀ o ∈ startedOutcomes script k, o.isFatal = false) → s = 1

theorem StatusInv.zero_one (rdErr failed : Bool) (script : List Outcome) :
    StatusInv rdErr failed script 0 1 := by
  constructor <;> simp

theorem StatusInv.zero_end (failed : Bool) (script : List Outcome) :
    StatusInv false failed script 0 (if failed then 123 else 0) := by
  constructor <;> simp

theorem StatusInv.one_fatal {rdErr failed : Bool} {script : List Outcome} {st : Nat}
    (h : classify (nextOutcome script).1 = .fatal st) : StatusInv rdErr failed script 1 st := by
  obtain ⟨h1, h2⟩ := classify_fatal h
  constructor
  · intro i o
    simp only [startedOutcomes_succ, startedOutcomes_zero]
    cases i <;> simp
  · intro o
    simp only [startedOutcomes_succ, startedOutcomes_zero, List.find?_cons, h1,
      Option.some.injEq]
    intro ho; subst ho; exact h2
  · simp [startedOutcomes_succ, h1]
  · simp [startedOutcomes_succ, h1]

theorem StatusInv.cons {rdErr failed : Bool} {script : List Outcome} {k s : Nat}
    (hnf : (nextOutcome script).1.isFatal = false)
    (h : StatusInv rdErr (failed || (nextOutcome script).1.isFailure) (nextOutcome script).2 k s) :
    StatusInv rdErr failed script (k + 1) s := by
  constructor
  · intro i o
    rw [startedOutcomes_succ]
    cases i with
    | zero => simp only [List.getElem?_cons_zero, Option.some.injEq]; intro ho; subst ho; simp [hnf]
    | succ i =>
      simp only [List.getElem?_cons_succ]
      intro ho hf
      have := h.stops i o ho hf
      omega
  · intro o
    rw [startedOutcomes_succ]
    simp only [List.find?_cons, hnf]
    exact h.fatal o
  · rw [startedOutcomes_succ]
    simp only [List.find?_cons, hnf, List.any_cons, ← Bool.or_assoc]
    exact h.plain
  · rw [startedOutcomes_succ]
    intro hr hall
    exact h.reader hr (fun o ho => hall o (by simp [ho]))

theorem StatusInv.cons_success {rdErr failed : Bool} {script : List Outcome} {k s : Nat}
    (hc : classify (nextOutcome script).1 = .success)
    (h : StatusInv rdErr failed (nextOutcome script).2 k s) :
    StatusInv rdErr failed script (k + 1) s := by
  have h0 := classify_success hc
  apply StatusInv.cons
  · rw [h0]; rfl
  · rw [h0]; simpa [Outcome.isFailure] using h

theorem StatusInv.cons_failure {rdErr failed : Bool} {script : List Outcome} {k s : Nat}
    (hc : classify (nextOutcome script).1 = .failure)
    (h : StatusInv rdErr true (nextOutcome script).2 k s) :
    StatusInv rdErr failed script (k + 1) s := by
  obtain ⟨h1, h2⟩ := classify_failure hc
  apply StatusInv.cons h1
  rw [h2]; simpa using h

/-- Main invariant: the run appends `k` commands to `log`, and its status is correct
    for the first `k` outcomes of `script`. -/
theorem processInput_inv (cfg : Config) (init : LState) (rdErr : Bool) (as : List Arg) :
    ∀ (cur : Builder) (pend failed : Bool) (log : List (List Arg)) (script : List Outcome),
      ∃ k, (processInput cfg init rdErr cur pend failed log script as).batches.length
              = log.length + k ∧
           StatusInv rdErr failed script k
             (processInput cfg init rdErr cur pend failed log script as).status := by
  induction as with
  | nil =>
    intro cur pend failed log script
    rw [processInput_nil]
    cases rdErr with
    | true => exact ⟨0, by simp, StatusInv.zero_one _ _ _⟩
    | false =>
      simp only [Bool.false_eq_true, if_false]
      split
      · cases hc : classify (nextOutcome script).1 with
        | success =>
          refine ⟨1, by simp, ?_⟩
          exact StatusInv.cons_success hc (StatusInv.zero_end _ _)
        | failure =>
          refine ⟨1, by simp, ?_⟩
          exact StatusInv.cons_failure hc (StatusInv.zero_end true _)
        | fatal st =>
          exact ⟨1, by simp, StatusInv.one_fatal hc⟩
      · exact ⟨0, by simp, StatusInv.zero_end _ _⟩
  | cons a as ih =>
    intro cur pend failed log script
    cases h : tryArg cfg.lim cur.st a with
    | ok st' =>
      rw [processInput_cons_ok h]
      exact ih _ _ _ _ _
    | error ooc =>
      cases hx : (ooc && cfg.x && (cfg.lim.n.isSome || cfg.lim.l.isSome)) with
      | true =>
        rw [processInput_cons_x h hx]
        exact ⟨0, by simp, StatusInv.zero_one _ _ _⟩
      | false =>
        cases pend with
        | false =>
          rw [processInput_cons_nopend h hx]
          cases h2 : tryArg cfg.lim init a with
          | ok st' => exact ih _ _ _ _ _
          | error _ => exact ⟨0, by simp, StatusInv.zero_one _ _ _⟩
        | true =>
          rw [processInput_cons_pend h hx]
          cases hc : classify (nextOutcome script).1 with
          | success =>
            cases h2 : tryArg cfg.lim init a with
            | ok st' =>
              obtain ⟨k, hk, hinv⟩ := ih ⟨st', [a]⟩ true failed (log ++ [cur.extra])
                (nextOutcome script).2
              refine ⟨k + 1, ?_, StatusInv.cons_success hc hinv⟩
              simp only [hk, List.length_append, List.length_singleton]; omega
            | error _ =>
              exact ⟨1, by simp, StatusInv.cons_success hc (StatusInv.zero_one _ _ _)⟩
          | failure =>
            cases h2 : tryArg cfg.lim init a with
            | ok st' =>
              obtain ⟨k, hk, hinv⟩ := ih ⟨st', [a]⟩ true true (log ++ [cur.extra])
                (nextOutcome script).2
              refine ⟨k + 1, ?_, StatusInv.cons_failure hc hinv⟩
              simp only [hk, List.length_append, List.length_singleton]; omega
            | error _ =>
              exact ⟨1, by simp, StatusInv.cons_failure hc (StatusInv.zero_one _ _ _)⟩
          | fatal st =>
            exact ⟨1, by simp, StatusInv.one_fatal hc⟩

/-- Delivery invariant: without reader error and fatal outcomes, a run whose status is
    not 1 delivers the logged batches, the command under construction and the rest. -/
theorem processInput_flatten (cfg : Config) (init : LState) (as : List Arg) :
    ∀ (cur : Builder) (pend failed : Bool) (log : List (List Arg)) (script : List Outcome),
      (∀ o ∈ script, o.isFatal = false) → (pend = false → cur.extra = []) →
      (processInput cfg init false cur pend failed log script as).status ≠ 1 →
      (processInput cfg init false cur pend failed log script as).batches.flatten
        = log.flatten ++ cur.extra ++ as := by
  induction as with
  | nil =>
    intro cur pend failed log script hnf hp
    rw [processInput_nil]
    simp only [Bool.false_eq_true, if_false]
    split
    · rcases classify_of_not_fatal (nextOutcome_not_fatal hnf).1 with hc | hc <;>
        simp [hc]
    · rename_i hcond
      have : pend = false := by simpa using (by simp at hcond; exact hcond.2)
      simp [hp this]
  | cons a as ih =>
    intro cur pend failed log script hnf hp
    cases h : tryArg cfg.lim cur.st a with
    | ok st' =>
      rw [processInput_cons_ok h]
      intro hs
      rw [ih _ _ _ _ _ hnf (by simp) hs]
      simp
    | error ooc =>
      cases hx : (ooc && cfg.x && (cfg.lim.n.isSome || cfg.lim.l.isSome)) with
      | true =>
        rw [processInput_cons_x h hx]
        simp
      | false =>
        cases pend with
        | false =>
          rw [processInput_cons_nopend h hx]
          cases h2 : tryArg cfg.lim init a with
          | ok st' =>
            intro hs
            simp only at hs ⊢
            rw [ih _ _ _ _ _ hnf (by simp) hs]
            simp [hp rfl]
          | error _ => simp
        | true =>
          rw [processInput_cons_pend h hx]
          obtain ⟨hnf1, hnf2⟩ := nextOutcome_not_fatal hnf
          rcases classify_of_not_fatal hnf1 with hc | hc <;> rw [hc] <;>
          · cases h2 : tryArg cfg.lim init a with
            | ok st' =>
              intro hs
              simp only at hs ⊢
              rw [ih _ _ _ _ _ hnf2 (by simp) hs]
              simp
            | error _ => simp

/-- Reader error without fatal outcomes: status 1. -/
theorem processInput_reader (cfg : Config) (init : LState) (as : List Arg)
    (cur : Builder) (pend failed : Bool) (log : List (List Arg)) (script : List Outcome)
    (hnf : ∀ o ∈ script, o.isFatal = false) :
    (processInput cfg init true cur pend failed log script as).status = 1 := by
  obtain ⟨k, _, hinv⟩ := processInput_inv cfg init true as cur pend failed log script
  apply hinv.reader rfl
  intro o ho
  rcases mem_startedOutcomes ho with h | h
  · exact hnf o h
  · subst h; rfl

/-! ### data for the examples of `Props/C19.lean` -/

/-- `-n 2`, generous size limits, neither `-x` nor `-r` -/
def exCfg : Config := ⟨⟨some 2, none, none, 1000, 8, 131072⟩, false, false, none⟩
def exArg (b : UInt8) : Arg := ⟨[b], .soft⟩
def exArgs : List Arg := [exArg 97, exArg 98, exArg 99, exArg 100, exArg 101]

end FuModel.Xargs
