import FuModel.Proofs.ExecBatch
import FuModel.Proofs.ExprEval

/-!
# `-exec … {} +` loses nothing and keeps the order (C08): one evaluation, `finished_dir`, `finished`
-/

namespace FuModel.Find.Run
open FuModel.Find.Walk FuModel.Find.Expr

/-- the paths already handed to started commands of the action with command line prefix `pre` -/
def delivered (pre : List Bytes) (g : GS) : List Bytes :=
  g.execs.flatMap fun e => if e.argv.take pre.length == pre then e.argv.drop pre.length else []

/-- the paths waiting in the action's open batch -/
def pendingOf (id : Nat) (g : GS) : List Bytes :=
  match g.pending.lookup id with
  | some b => b.paths
  | none => []

/-- everything handed to the action so far, in order -/
def handed (pre : List Bytes) (id : Nat) (g : GS) : List Bytes := delivered pre g ++ pendingOf id g

theorem lookup_setPending_some (g : GS) (id : Nat) (b : Batch) : (setPending g id (some b)).pending.lookup id = some b := by
  simp [setPending]

theorem lookup_filter_ne (l : List (Nat × Batch)) (id : Nat) : (l.filter (·.1 != id)).lookup id = none := by
  induction l with
  | nil => rfl
  | cons x xs ih =>
    rw [List.filter_cons]
    split
    · rename_i h
      have hne : (id == x.1) = false := by
        simp only [bne_iff_ne, ne_eq] at h
        simpa using fun he : id = x.1 => h he.symm
      obtain ⟨k, v⟩ := x
      simp only [List.lookup, hne]
      simpa using ih
    · exact ih

theorem lookup_setPending_none (g : GS) (id : Nat) : (setPending g id none).pending.lookup id = none := by
  simp [setPending, lookup_filter_ne]

theorem rootCwd_paths (dir : Bool) (path : Bytes) (b : Batch) : (rootCwd dir path b).paths = b.paths := by
  unfold rootCwd; split <;> rfl

theorem delivered_setPending (pre : List Bytes) (g : GS) (id : Nat) (b : Option Batch) :
    delivered pre (setPending g id b) = delivered pre g := rfl

theorem delivered_spawn (pre : List Bytes) (g : GS) (paths : List Bytes) (cwd : Option Bytes) :
    delivered pre (g.spawn true (pre ++ paths) cwd).2 = delivered pre g ++ paths := by
  unfold GS.spawn delivered
  simp only [if_true]
  split <;> simp [List.flatMap_append]

theorem pending_spawn (g : GS) (ok : Bool) (argv : List Bytes) (cwd : Option Bytes) : (g.spawn ok argv cwd).2.pending = g.pending := by
  unfold GS.spawn; split
  · split <;> rfl
  · rfl

/-- **One evaluation of `-exec CMD FIXED {} +` loses nothing and keeps the order**: the sequence
    of paths handed to the action (those in commands already started, then those waiting in the
    open batch) grows by exactly the current entry's path at its end — or, if the path cannot fit
    on any command line, stays as it was while find's status becomes 1. -/
theorem C08_step_lossless (start : Bytes) (v : Visit Attr) (id : Nat) (dir : Bool) (cmd : Bytes) (fixed : List Bytes) (s : ES)
    (hp : s.gs.panicked = false) (hb : ∃ nb, newBatch s.gs.budget cmd fixed = some nb) :
    let r := sem start v (.execMulti id dir true cmd fixed) s
    let arg := execPath dir (pathOf start v.ent.rpath)
    handed (cmd :: fixed) id r.2.gs = handed (cmd :: fixed) id s.gs ++ [arg] ∨
      (handed (cmd :: fixed) id r.2.gs = handed (cmd :: fixed) id s.gs ∧ r.2.exit = 1) := by
  obtain ⟨nb, hnb⟩ := hb
  have hnbp : nb.paths = [] := (C08_new_batch _ _ _ _ hnb).2
  intro r arg
  simp only [r, arg, sem, hp, Bool.false_eq_true, if_false]
  cases hl : s.gs.pending.lookup id with
  | some b =>
    simp only
    cases ht : b.tryArg (execPath dir (pathOf start v.ent.rpath)) with
    | some b' =>
      left
      have hb' : b'.paths = b.paths ++ [execPath dir (pathOf start v.ent.rpath)] := by
        unfold Batch.tryArg at ht; split at ht
        · cases ht
        · injection ht with ht; subst ht; rfl
      simp [handed, pendingOf, delivered_setPending, lookup_setPending_some, hl, hb', rootCwd_paths, List.append_assoc]
    | none =>
      simp only [hnb]
      have hrun : (runBatch s.gs true cmd fixed b (execCwd dir (pathOf start v.ent.rpath))).1 =
          (s.gs.spawn true ((cmd :: fixed) ++ b.paths) (execCwd dir (pathOf start v.ent.rpath))).2 := by
        simp [runBatch]
      cases ht2 : nb.tryArg (execPath dir (pathOf start v.ent.rpath)) with
      | some nb' =>
        left
        have hnb' : nb'.paths = [execPath dir (pathOf start v.ent.rpath)] := by
          unfold Batch.tryArg at ht2; split at ht2
          · cases ht2
          · injection ht2 with ht2; subst ht2; simp [hnbp]
        simp only [handed, pendingOf, delivered_setPending, lookup_setPending_some, hl, hnb', hrun, rootCwd_paths,
          delivered_spawn, List.append_assoc]
      | none =>
        right
        refine ⟨?_, rfl⟩
        simp only [handed, pendingOf, delivered_setPending, lookup_setPending_some, hl, hnbp, hrun, rootCwd_paths,
          delivered_spawn, List.append_nil]
  | none =>
    simp only [hnb]
    cases ht : nb.tryArg (execPath dir (pathOf start v.ent.rpath)) with
    | some b' =>
      left
      have hb' : b'.paths = [execPath dir (pathOf start v.ent.rpath)] := by
        unfold Batch.tryArg at ht; split at ht
        · cases ht
        · injection ht with ht; subst ht; simp [hnbp]
      simp [handed, pendingOf, delivered_setPending, lookup_setPending_some, hl, hb', rootCwd_paths]
    | none =>
      right
      have hd := delivered_spawn (cmd :: fixed) s.gs [] (execCwd dir (pathOf start v.ent.rpath))
      simp only [List.append_nil] at hd
      simp [handed, pendingOf, delivered_setPending, lookup_setPending_some, hl, hnbp, runBatch, hd, ht, hnb, rootCwd_paths]


/-- dispatching the open batch of the action (at the end of a directory for `-execdir`, at the end
    of the walk otherwise) moves its paths, in order, into a started command: nothing handed over is
    lost, and nothing is left waiting -/
theorem flush_one (g : GS) (id : Nat) (cmd : Bytes) (fixed : List Bytes) (b : Batch) (cwd : Option Bytes)
    (hl : g.pending.lookup id = some b) :
    let g' := setPending (runBatch g true cmd fixed b cwd).1 id none
    handed (cmd :: fixed) id g' = handed (cmd :: fixed) id g ∧ pendingOf id g' = [] := by
  have hrun : (runBatch g true cmd fixed b cwd).1 = (g.spawn true ((cmd :: fixed) ++ b.paths) cwd).2 := by
    simp [runBatch]
  simp only [handed, pendingOf, delivered_setPending, lookup_setPending_none, hrun, delivered_spawn, hl,
    List.append_nil, and_self]

/-- `finished()`: after it, the single `+` action of the expression has nothing pending and
    everything that was handed to it has been delivered, in order -/
theorem C08_finish_lossless (g : GS) (id : Nat) (dir : Bool) (cmd : Bytes) (fixed : List Bytes) (failed : Bool) :
    let r := flushAll [(id, dir, true, cmd, fixed)] g failed
    handed (cmd :: fixed) id r.1 = handed (cmd :: fixed) id g ∧ pendingOf id r.1 = [] := by
  simp only [flushAll]
  cases hl : g.pending.lookup id with
  | some b => exact flush_one g id cmd fixed b b.cwd hl
  | none => simp [handed, pendingOf, hl]

/-- `finished_dir(d)`: the same for an `-execdir` action when a directory is left -/
theorem C08_finished_dir_lossless (g : GS) (id : Nat) (cmd : Bytes) (fixed : List Bytes) (d : Bytes) (failed : Bool) :
    let r := flushMultis true d [(id, true, true, cmd, fixed)] g failed
    handed (cmd :: fixed) id r.1 = handed (cmd :: fixed) id g ∧ pendingOf id r.1 = [] := by
  simp only [flushMultis, beq_self_eq_true, if_true]
  cases hl : g.pending.lookup id with
  | some b => exact flush_one g id cmd fixed b _ hl
  | none => simp [handed, pendingOf, hl]

end FuModel.Find.Run
