/-!
# A model of `std::path::Path` on Unix (external code: an assumption, validated by the
# correspondence verb `path-ops` against the real `std::path` on every run)

A path is a byte string.  Its components are the maximal runs of non-'/' bytes; a run `.` is
dropped unless it is the first run of a relative path.  `parent`, `file_name` and the last
component are read off the kept runs and their end offsets in the original string.
-/
namespace FuModel.Path

abbrev Bytes := List UInt8

def slash : UInt8 := 47
def dot : Bytes := [46]
def dotdot : Bytes := [46, 46]

/-- the runs of non-'/' bytes with the offset just past each run -/
def runs : Bytes → Nat → Bytes → List (Bytes × Nat)
  | [], pos, cur => if cur.isEmpty then [] else [(cur.reverse, pos)]
  | b :: bs, pos, cur =>
    if b == slash then
      (if cur.isEmpty then [] else [(cur.reverse, pos)]) ++ runs bs (pos + 1) []
    else runs bs (pos + 1) (b :: cur)

def rooted (p : Bytes) : Bool := p.head? == some slash

/-- the components `Path::components` yields (without the root): `.` only in first position of a relative path -/
def comps (p : Bytes) : List (Bytes × Nat) :=
  let rs := runs p 0 []
  match rs with
  | [] => []
  | r :: rest => (if r.1 == dot && rooted p then [] else [r]) ++ rest.filter (·.1 != dot)

/-- `Path::parent` -/
def parent (p : Bytes) : Option Bytes :=
  let cs := comps p
  match cs.reverse with
  | [] => none
  | _ :: before =>
    match before with
    | [] => some (if rooted p then [slash] else [])
    | prev :: _ => some (p.take prev.2)

/-- `Path::file_name` -/
def fileName (p : Bytes) : Option Bytes :=
  match (comps p).getLast? with
  | some c => if c.1 == dot || c.1 == dotdot then none else some c.1
  | none => none

/-- `components().next_back().map(as_os_str)` -/
def lastComponent (p : Bytes) : Option Bytes :=
  match (comps p).getLast? with
  | some c => some c.1
  | none => if rooted p then some [slash] else none

/-- `ancestors().nth(n)` -/
def ancestor : Nat → Bytes → Option Bytes
  | 0, p => some p
  | n + 1, p => (parent p).bind (ancestor n)

/-- `PathBuf::push` / `Path::join` with a relative or absolute operand -/
def join (p q : Bytes) : Bytes :=
  if rooted q then q
  else if p.isEmpty then q
  else if p.getLast? == some slash then p ++ q else p ++ slash :: q

end FuModel.Path
