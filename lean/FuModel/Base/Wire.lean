/-
Line-protocol codecs shared by every driver module (part of the trusted base of
the correspondence check, see DESIGN.md §7).  Byte strings are lower-case hex;
an empty byte string is written `-`.
-/
namespace FuModel.Wire

def hexDigit (n : Nat) : Char :=
  if n < 10 then Char.ofNat (48 + n) else Char.ofNat (87 + n)

def hexOfBytes (bs : List UInt8) : String :=
  if bs.isEmpty then "-" else
  String.ofList (bs.flatMap fun b => [hexDigit (b.toNat / 16), hexDigit (b.toNat % 16)])

def hexVal (c : Char) : Option Nat :=
  if '0' ≤ c ∧ c ≤ '9' then some (c.toNat - 48)
  else if 'a' ≤ c ∧ c ≤ 'f' then some (c.toNat - 87)
  else none

def bytesOfHexChars : List Char → Option (List UInt8)
  | [] => some []
  | [_] => none
  | a :: b :: rest => do
    let x ← hexVal a
    let y ← hexVal b
    let r ← bytesOfHexChars rest
    pure (UInt8.ofNat (x * 16 + y) :: r)

def bytesOfHex (s : String) : Option (List UInt8) :=
  if s == "-" then some [] else bytesOfHexChars s.toList

/-- comma separated list; `-` alone is the empty list, `_` an explicitly empty element -/
def splitList (s : String) : List String :=
  if s == "." then [] else s.splitOn ","

def joinList (xs : List String) : String :=
  if xs.isEmpty then "." else ",".intercalate xs

def bytesListOfHex (s : String) : Option (List (List UInt8)) :=
  (splitList s).mapM bytesOfHex

def charsOfHex (s : String) : Option (List Char) := do
  let bs ← bytesOfHex s
  let str ← String.fromUTF8? ⟨bs.toArray⟩
  pure str.toList

def hexOfChars (cs : List Char) : String :=
  hexOfBytes (String.ofList cs).toUTF8.toList

def boolStr (b : Bool) : String := if b then "1" else "0"

end FuModel.Wire
