/-!
# `String::from_utf8_lossy` / `OsStr::to_string_lossy` on byte strings

Every maximal invalid subpart becomes U+FFFD (`EF BF BD`); well-formed UTF-8 is left as it is
(which is how "valid UTF-8" is defined here: `validUtf8 b ↔ lossy b = b`).  find writes paths
through this conversion; the properties that speak of byte-exact output restrict themselves to
names that are valid UTF-8.
-/
namespace FuModel.Utf8

abbrev Bytes := List UInt8

def fffd : Bytes := [0xEF, 0xBF, 0xBD]

def cont (b : UInt8) : Bool := decide (0x80 ≤ b.toNat) && decide (b.toNat ≤ 0xBF)

/-- may `b1` follow the lead byte `b0` (the ranges that exclude overlong forms and surrogates) -/
def second (b0 b1 : UInt8) : Bool :=
  let n := b1.toNat
  if b0.toNat == 0xE0 then decide (0xA0 ≤ n) && decide (n ≤ 0xBF)
  else if b0.toNat == 0xED then decide (0x80 ≤ n) && decide (n ≤ 0x9F)
  else if b0.toNat == 0xF0 then decide (0x90 ≤ n) && decide (n ≤ 0xBF)
  else if b0.toNat == 0xF4 then decide (0x80 ≤ n) && decide (n ≤ 0x8F)
  else cont b1

def lossyF : Nat → Bytes → Bytes
  | 0, _ => []
  | _ + 1, [] => []
  | fuel + 1, b0 :: rest =>
    let n := b0.toNat
    if n < 0x80 then b0 :: lossyF fuel rest
    else if 0xC2 ≤ n && n ≤ 0xDF then
      match rest with
      | b1 :: r1 => if cont b1 then b0 :: b1 :: lossyF fuel r1 else fffd ++ lossyF fuel rest
      | [] => fffd
    else if 0xE0 ≤ n && n ≤ 0xEF then
      match rest with
      | b1 :: r1 =>
        if second b0 b1 then
          match r1 with
          | b2 :: r2 => if cont b2 then b0 :: b1 :: b2 :: lossyF fuel r2 else fffd ++ lossyF fuel r1
          | [] => fffd
        else fffd ++ lossyF fuel rest
      | [] => fffd
    else if 0xF0 ≤ n && n ≤ 0xF4 then
      match rest with
      | b1 :: r1 =>
        if second b0 b1 then
          match r1 with
          | b2 :: r2 =>
            if cont b2 then
              match r2 with
              | b3 :: r3 => if cont b3 then b0 :: b1 :: b2 :: b3 :: lossyF fuel r3 else fffd ++ lossyF fuel r2
              | [] => fffd
            else fffd ++ lossyF fuel r1
          | [] => fffd
        else fffd ++ lossyF fuel rest
      | [] => fffd
    else fffd ++ lossyF fuel rest

def lossy (b : Bytes) : Bytes := lossyF (b.length + 1) b

def validUtf8 (b : Bytes) : Bool := lossy b == b

example : lossy [0x63, 0xE9, 0x78] = [0x63, 0xEF, 0xBF, 0xBD, 0x78] := by decide
example : lossy [0xC3, 0xA9, 0xE6, 0x97, 0xA5] = [0xC3, 0xA9, 0xE6, 0x97, 0xA5] := by decide
example : lossy [0xE6, 0x97, 0x41] = [0xEF, 0xBF, 0xBD, 0x41] := by decide

end FuModel.Utf8
