import FuModel.Xargs.Batch

namespace FuModel.Xargs

/-- placeholder obligation, replaced by the batching theorems -/
theorem C04_classify_total (o : Outcome) : classify o = .success ∨ classify o = .failure ∨ ∃ s, classify o = .fatal s := by
  cases o with
  | exit c =>
    unfold classify
    split <;> simp_all
  | signal s => simp [classify]
  | notFound => simp [classify]
  | cannotRun => simp [classify]

end FuModel.Xargs
