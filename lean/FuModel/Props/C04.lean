import FuModel.Proofs.XargsBatch
/-
C04: batching of input arguments by `xargs` (limits -n, -L, -s and the system
limiter): losslessness, limits, maximality, empty input, oversized arguments and
the justification of status 1.  The proofs rest on the invariant of
`processInput` in `FuModel.Proofs.XargsBatch`.
-/
namespace FuModel.Xargs

/-- operational and declarative readings of the limits coincide for input arguments -/
theorem C04_fits_iff (lim : Limits) (init : LState) (b : List Arg)
    (hk : ∀ a ∈ b, a.kind ≠ .initial) :
    fitsB lim init b = true ↔ FitsSpec lim init b :=
  fitsB_iff_fitsSpec lim init b hk

/-- nothing lost, duplicated, merged, split or reordered: the appended arguments of the
    started commands, concatenated, are a prefix of the input, and all of it when the run completes -/
theorem C04_lossless (cfg : Config) (init : LState) (script : List Outcome) (args : List Arg) :
    let run := processInput cfg init false ⟨init, []⟩ false false [] script args
    run.batches.flatten <+: args ∧
    ((run.status = 0 ∨ run.status = 123) → run.batches.flatten = args) := by
  intro run
  obtain ⟨rest, hrest, hdone⟩ := (run_post cfg init script args).pre
  refine ⟨⟨rest, hrest.symm⟩, fun hs => ?_⟩
  have := hdone hs
  subst this
  simpa using hrest.symm

/-- every started command satisfies all limits simultaneously -/
theorem C04_limits (cfg : Config) (init : LState) (script : List Outcome) (args : List Arg) :
    ∀ b ∈ (processInput cfg init false ⟨init, []⟩ false false [] script args).batches,
      fitsB cfg.lim init b = true :=
  (run_post cfg init script args).fits

/-- maximality: the first argument of the next command was held back only because
    adding it to this command would break a limit -/
theorem C04_maximal (cfg : Config) (init : LState) (script : List Outcome) (args : List Arg) :
    let run := processInput cfg init false ⟨init, []⟩ false false [] script args
    ∀ i (h : i + 1 < run.batches.length),
      ∃ a, (run.batches[i + 1]).head? = some a ∧
        fitsB cfg.lim init (run.batches[i]'(by omega) ++ [a]) = false := by
  intro run i h
  exact (run_post cfg init script args).chain i h

/-- empty input: exactly one command without -r, none with -r -/
theorem C04_empty (cfg : Config) (init : LState) (script : List Outcome) :
    (processInput cfg init false ⟨init, []⟩ false false [] script []).batches
      = if cfg.r then [] else [[]] := by
  rw [processInput]
  cases hr : cfg.r <;> simp
  cases classify (nextOutcome script).1 <;> rfl

/-- with non-empty input no command is started without an appended argument -/
theorem C04_nonempty_batches (cfg : Config) (init : LState) (script : List Outcome) (args : List Arg)
    (hne : args ≠ []) :
    ∀ b ∈ (processInput cfg init false ⟨init, []⟩ false false [] script args).batches, b ≠ [] :=
  (run_post cfg init script args).ne hne

/-- an argument that does not fit even in an otherwise empty command prevents the run
    from completing (so it ends with status 1 or a child's fatal status) and, by C04_limits, is in no command -/
theorem C04_too_large (cfg : Config) (init : LState) (script : List Outcome) (args : List Arg)
    (a : Arg) (ha : a ∈ args) (hbig : fitsB cfg.lim init [a] = false) :
    let run := processInput cfg init false ⟨init, []⟩ false false [] script args
    run.status ≠ 0 ∧ run.status ≠ 123 := by
  intro run
  have hdone : ¬ (run.status = 0 ∨ run.status = 123) := by
    intro hs
    have hall := (C04_lossless cfg init script args).2 hs
    rw [← hall] at ha
    obtain ⟨b, hb, hab⟩ := List.mem_flatten.1 ha
    have := fitsB_singleton_of_mem (C04_limits cfg init script args b hb) hab
    rw [hbig] at this
    cases this
  exact ⟨fun h => hdone (Or.inl h), fun h => hdone (Or.inr h)⟩

/-- status 1 is justified: the first argument that was not delivered either does not fit
    alone, or (-x with -n or -L) overflowed the size limit of the command under construction -/
theorem C04_status_one (cfg : Config) (init : LState) (script : List Outcome) (args : List Arg) :
    let run := processInput cfg init false ⟨init, []⟩ false false [] script args
    run.status = 1 → (∀ o ∈ script, o.isFatal = false) →
    ∃ pending a post, args = run.batches.flatten ++ pending ++ a :: post ∧
      fitsB cfg.lim init pending = true ∧
      ((pending = [] ∧ fitsB cfg.lim init [a] = false) ∨
       (cfg.x = true ∧ (cfg.lim.n.isSome ∨ cfg.lim.l.isSome) ∧
        ∃ st, foldTry cfg.lim init pending = some st ∧ tryArg cfg.lim st a = .error true)) := by
  intro run h1 _
  exact run_status_one cfg init script args h1

/-! ### the hypotheses are satisfiable on concrete data -/

/-- `C04_fits_iff`: a command of three input arguments (one ending its line) that fits
    under -n 3 -L 2 -s 20 with a pointer charge of 8 bytes per argument -/
example :
    let lim : Limits := ⟨some 3, some 2, some 20, 100, 8, 50⟩
    let init : LState := ⟨0, 1, 5, 13⟩
    let b : List Arg := [⟨[97], .soft⟩, ⟨[98, 99], .hard⟩, ⟨[100], .soft⟩]
    (∀ a ∈ b, a.kind ≠ .initial) ∧ fitsB lim init b = true ∧
      fitsB lim init (b ++ [⟨[101], .hard⟩]) = false := by decide

/-- `C04_maximal`, `C04_nonempty_batches`: -n 2 on three arguments starts two commands,
    the first one failing (status 123) -/
example :
    let cfg : Config := ⟨⟨some 2, none, none, 100, 8, 50⟩, false, false, none⟩
    let init : LState := ⟨0, 1, 5, 13⟩
    let args : List Arg := [⟨[97], .soft⟩, ⟨[98], .soft⟩, ⟨[99], .hard⟩]
    let run := processInput cfg init false ⟨init, []⟩ false false [] [.exit 1] args
    args ≠ [] ∧ 0 + 1 < run.batches.length ∧ run.status = 123 ∧
      run.batches = [[⟨[97], .soft⟩, ⟨[98], .soft⟩], [⟨[99], .hard⟩]] := by decide

/-- `C04_too_large`, `C04_status_one` (first disjunct): under -s 10 a six-byte argument
    does not fit alone; the command before it is started, the run ends with status 1 -/
example :
    let cfg : Config := ⟨⟨none, none, some 10, 100, 8, 50⟩, false, false, none⟩
    let init : LState := ⟨0, 1, 5, 13⟩
    let big : Arg := ⟨[1, 2, 3, 4, 5, 6], .hard⟩
    let args : List Arg := [⟨[97], .hard⟩, big, ⟨[98], .hard⟩]
    let script : List Outcome := [.exit 1]
    let run := processInput cfg init false ⟨init, []⟩ false false [] script args
    big ∈ args ∧ fitsB cfg.lim init [big] = false ∧ run.status = 1 ∧
      (∀ o ∈ script, o.isFatal = false) ∧ run.batches = [[⟨[97], .hard⟩]] := by decide

/-- `C04_status_one` (second disjunct): -x -n 3 -s 12; the third argument fits alone but
    overflows the size of the command under construction, which is dropped -/
example :
    let cfg : Config := ⟨⟨some 3, none, some 12, 100, 8, 50⟩, true, false, none⟩
    let init : LState := ⟨0, 1, 5, 13⟩
    let args : List Arg := [⟨[97, 97], .soft⟩, ⟨[98, 98], .soft⟩, ⟨[99, 99], .soft⟩]
    let script : List Outcome := [.exit 3]
    let run := processInput cfg init false ⟨init, []⟩ false false [] script args
    run.status = 1 ∧ (∀ o ∈ script, o.isFatal = false) ∧ run.batches = [] ∧
      fitsB cfg.lim init [⟨[99, 99], .soft⟩] = true ∧
      fitsB cfg.lim init [⟨[97, 97], .soft⟩, ⟨[98, 98], .soft⟩] = true := by decide

end FuModel.Xargs
