import FuModel.Proofs.WalkRef
import FuModel.Proofs.WalkOnce

/-!
# C02 — traversal: every in-range entry exactly once under -P, -H, -L

Model: `Find/Walk.lean` (walkdir's `IntoIter::next` as a step machine with its two stacks, and
`process_dir`'s loop with the depth guard).  Reference: `Spec/WalkRef.lean` (plain recursive
descent written from the property text).  The theorems here hold for every tree, every
evaluator and every configuration (`HRootLink`, a link starting point under -H in post-order, was
the one exception - a known finding - until `/repo` c5fa7bc; `C02_refines_post_any` has none).
-/
namespace FuModel.Find.Walk
variable {α σ : Type}

/-- The walk terminates on every tree, cycles through links included: every step of the iterator
    decreases a measure of the machine state (so `loop` is a total function; a link closing a
    cycle is a leaf of the unfolded tree and yields an error item instead of a descent). -/
theorem C02_walk_terminates (o : Opts) (S : MState α) :
    (∀ S', step o S = .cont S' → S'.mu < S.mu) ∧ (∀ i S', step o S = .yield i S' → S'.mu < S.mu) :=
  step_mu o S

/-- Pre-order: what `process_dir` evaluates, in which order and with which entry views, the
    diagnostics it counts and its status are exactly those of the reference traversal — every entry
    whose depth is in range and that is reachable under the follow mode, once. -/
theorem C02_refines_pre (c : RefCfg) (ev : Visit α → σ → EvalOut × σ) (hpre : c.depthFirst = false)
    (hp : PruneOk c ev) (root : Node α) (acc : σ) :
    processRoot c ev root acc = (let r := refRoot c ev root ⟨acc, 0, 0⟩; resOf r.1 r.2) :=
  processRoot_pre c ev hpre hp root acc

/-- Post-order (-depth): the same, for every starting point except a link to a directory under -H. -/
theorem C02_refines_post (c : RefCfg) (ev : Visit α → σ → EvalOut × σ) (hpost : c.depthFirst = true)
    (root : Node α) (hH : ¬ HRootLink c root) (acc : σ) :
    processRoot c ev root acc = (let r := refRoot c ev root ⟨acc, 0, 0⟩; resOf r.1 r.2) :=
  processRoot_post c ev hpost root hH acc

/-- Post-order with no exception: since `process_dir` walks `LINK/` for a starting point that is a
    link to a directory under -H (`/repo` c5fa7bc; the walk machine defers such a root like any
    directory), the refinement holds for every starting point. -/
theorem C02_refines_post_any (c : RefCfg) (ev : Visit α → σ → EvalOut × σ) (hpost : c.depthFirst = true)
    (root : Node α) (acc : σ) :
    processRoot c ev root acc = (let r := refRoot c ev root ⟨acc, 0, 0⟩; resOf r.1 r.2) :=
  processRoot_postAny c ev hpost root acc

/-- mindepth > maxdepth: nothing at all is evaluated (the evaluator's state is untouched), whatever
    the tree; diagnostics for unreadable parts may still be produced. -/
theorem C02_empty_range (c : RefCfg) (ev : Visit α → σ → EvalOut × σ) (h : c.minDepth > c.maxDepth)
    (root : Node α) (A : Acc σ) :
    (refRoot c ev root A).1 = false ∧ (refRoot c ev root A).2.st = A.st :=
  refNode_empty_range c ev h [] 0 root A

/-- **Exactly once.**  With the evaluator that merely records the entry it is called on, the real
    walk (walkdir's iterator under `process_dir`'s loop and depth guard) records precisely the list
    `pathsN` of in-range entries reachable under the follow mode, and — the names inside every
    directory being distinct, as in a file system — that list has no repetition: every in-range entry
    is evaluated once, none twice, none outside the range.  Holds for every tree, every depth range
    and the three follow modes, in pre-order and in post-order. -/
theorem C02_exactly_once (c : RefCfg) (root : Node α) (hd : distinctN root) :
    (processRoot c logEv root []).st = pathsN c [] 0 root ∧ (pathsN c [] 0 root).Nodup := by
  refine ⟨?_, pathsN_nodup c [] 0 root hd⟩
  have hlog := refNode_log c [] 0 root ⟨[], 0, 0⟩
  have href : (refRoot c logEv root ⟨[], 0, 0⟩).2.st = pathsN c [] 0 root := by
    simpa [refRoot] using hlog.2
  cases hdf : c.depthFirst
  · have hp : PruneOk c (logEv (α := α)) := by
      intro v s h; simp [logEv] at h
    rw [C02_refines_pre c logEv hdf hp root []]
    simpa [resOf] using href
  · rw [C02_refines_post_any c logEv hdf root []]
    simpa [resOf] using href

/-- every recorded path lies below the starting point it was reached from: it extends the path
    of the node whose subtree produced it -/
theorem C02_paths_below (c : RefCfg) (rp : List Name) (d : Nat) (n : Node α) :
    ∀ p ∈ pathsN c rp d n, ∃ e, p = e ++ rp := pathsN_suffix c rp d n

/-- Non-vacuity: a two-level tree, -maxdepth 1 (the reference on a concrete run; `loop` itself is
    defined by well-founded recursion and does not reduce in the kernel, the refinement theorems
    carry the result over). -/
example :
    let t : Node Unit := .dir [116] false true () [.leaf [97] .plain (), .dir [98] false true () [.leaf [99] .plain ()]]
    let c : RefCfg := ⟨false, 0, 1, .never⟩
    let ev : Visit Unit → List (List Name) → EvalOut × List (List Name) := fun v s => (⟨false, false, 0⟩, s ++ [v.ent.rpath])
    (refRoot c ev t ⟨[], 0, 0⟩).2.st = [[], [[97]], [[98]]] := by decide

/-- **`-depth` changes the order, never the set.**  For every tree (sibling names distinct), depth
    range and follow mode, what the real walk evaluates in post-order is a permutation of what it
    evaluates in pre-order: the same in-range reachable entries, each once (with
    `C02_exactly_once`: both lists are duplicate-free). -/
theorem C02_depth_same_entries (c : RefCfg) (root : Node α) (hd : distinctN root) :
    (processRoot { c with depthFirst := true } logEv root []).st.Perm
      (processRoot { c with depthFirst := false } logEv root []).st := by
  rw [(C02_exactly_once _ root hd).1, (C02_exactly_once _ root hd).1]
  exact pathsN_order_perm { c with depthFirst := false } { c with depthFirst := true } rfl rfl rfl [] 0 root

/-- non-vacuity: the two orders on a two-level tree (reference side, kernel evaluation) -/
example :
    let t : Node Unit := .dir [116] false true () [.leaf [97] .plain (), .dir [98] false true () [.leaf [99] .plain ()]]
    pathsN ⟨true, 0, 5, .never⟩ [] 0 t = [[[97]], [[99], [98]], [[98]], []] ∧
      pathsN ⟨false, 0, 5, .never⟩ [] 0 t = [[], [[97]], [[98]], [[99], [98]]] := by decide

end FuModel.Find.Walk
