import FuModel.Proofs.Numeric

/-!
# C14 — numeric operands: N / +N / -N trichotomy and -size unit rounding

Property theorems only (lemmas in `Proofs/Numeric.lean`); the model is
`Find/Numeric.lean`, mirroring `ComparableValue::{matches,imatches}`,
`convert_arg_to_comparable_value(_and_suffix)`, `Unit::from_str` and
`byte_size_to_unit_size`.
-/
namespace FuModel.Find

/-- Exactly one of `N`, `+N`, `-N` holds of every measured value (unsigned tests:
    -size, -links, -inum, -uid, -gid). -/
theorem C14_trichotomy (n v : Nat) :
    ((Cmp.more n).matches v ∧ ¬ (Cmp.eq n).matches v ∧ ¬ (Cmp.less n).matches v) ∨
    (¬ (Cmp.more n).matches v ∧ (Cmp.eq n).matches v ∧ ¬ (Cmp.less n).matches v) ∨
    (¬ (Cmp.more n).matches v ∧ ¬ (Cmp.eq n).matches v ∧ (Cmp.less n).matches v) := by
  simp only [Cmp.matches, decide_eq_true_eq]
  omega

/-- The same for the signed reading used by the age tests (-atime … -mmin), for every
    integer age, negative ones included. -/
theorem C14_trichotomy_signed (n : Nat) (v : Int) :
    ((Cmp.more n).imatches v ∧ ¬ (Cmp.eq n).imatches v ∧ ¬ (Cmp.less n).imatches v) ∨
    (¬ (Cmp.more n).imatches v ∧ (Cmp.eq n).imatches v ∧ ¬ (Cmp.less n).imatches v) ∨
    (¬ (Cmp.more n).imatches v ∧ ¬ (Cmp.eq n).imatches v ∧ (Cmp.less n).imatches v) := by
  simp only [Cmp.imatches, Bool.and_eq_true, Bool.or_eq_true, decide_eq_true_eq]
  omega

/-- The forms mean what the property says: equal, greater, less. -/
theorem C14_meaning (n v : Nat) :
    ((Cmp.eq n).matches v ↔ v = n) ∧ ((Cmp.more n).matches v ↔ v > n) ∧ ((Cmp.less n).matches v ↔ v < n) := by
  simp [Cmp.matches]

theorem C14_meaning_signed (n : Nat) (v : Int) :
    ((Cmp.eq n).imatches v ↔ v = n) ∧ ((Cmp.more n).imatches v ↔ v > n) ∧ ((Cmp.less n).imatches v ↔ v < n) := by
  simp only [Cmp.imatches, Bool.and_eq_true, Bool.or_eq_true, decide_eq_true_eq]
  omega

/-- `+N` is antitone and `-N` monotone in `N`. -/
theorem C14_monotone (n n' v : Nat) (h : n ≤ n') :
    ((Cmp.more n').matches v → (Cmp.more n).matches v) ∧
    ((Cmp.less n).matches v → (Cmp.less n').matches v) := by
  simp only [Cmp.matches, decide_eq_true_eq]
  omega

theorem C14_monotone_signed (n n' : Nat) (v : Int) (h : n ≤ n') :
    ((Cmp.more n').imatches v → (Cmp.more n).imatches v) ∧
    ((Cmp.less n).imatches v → (Cmp.less n').imatches v) := by
  simp only [Cmp.imatches, Bool.and_eq_true, Bool.or_eq_true, decide_eq_true_eq]
  omega

/-- The operand parser accepts exactly `[+-]?` followed by one or more ASCII digits whose
    value fits 64 bits, and reads it as the sign's form of that value. -/
theorem C14_parse (s : List Char) (c : Cmp) :
    parseCmp s = some c ↔
      ∃ (sg : Sign) (ds : List Char), s = sg.chars ++ ds ∧ ds ≠ [] ∧ (∀ d ∈ ds, isAsciiDigit d = true) ∧
        decVal ds < 2 ^ 64 ∧ c = sg.mk (decVal ds) :=
  parseCmp_iff s c

/-- `-size` operands: the same sign/digits reading followed by exactly one of the unit
    suffixes, which selects the unit 2^k bytes. -/
theorem C14_parse_size (s : List Char) (c : Cmp) (k : Nat) :
    parseSize s = some (c, k) ↔
      ∃ (sg : Sign) (ds suf : List Char), s = sg.chars ++ ds ++ suf ∧ ds ≠ [] ∧ (∀ d ∈ ds, isAsciiDigit d = true) ∧
        (∀ d, suf.head? = some d → isAsciiDigit d = false) ∧
        decVal ds < 2 ^ 64 ∧ c = sg.mk (decVal ds) ∧ unitShift suf = some k :=
  parseSize_iff s c k

/-- The unit table: c=1, w=2, b or nothing=512, k=2^10, M=2^20, G=2^30 bytes. -/
theorem C14_units :
    (unitShift ['c']).map (2 ^ ·) = some 1 ∧ (unitShift ['w']).map (2 ^ ·) = some 2 ∧
    (unitShift ['b']).map (2 ^ ·) = some 512 ∧ (unitShift []).map (2 ^ ·) = some 512 ∧
    (unitShift ['k']).map (2 ^ ·) = some (2 ^ 10) ∧ (unitShift ['M']).map (2 ^ ·) = some (2 ^ 20) ∧
    (unitShift ['G']).map (2 ^ ·) = some (2 ^ 30) := by
  decide

/-- The measured size is the byte size divided by the unit, rounded up; no intermediate
    value exceeds the byte size (so 64-bit arithmetic never wraps). -/
theorem C14_unit_size (k b : Nat) :
    unitSize k b = (b + 2 ^ k - 1) / 2 ^ k ∧ unitSize k b ≤ b :=
  ⟨unitSize_eq_ceil k b, unitSize_le k b⟩

/-- Characterisation by whole units: the value is `q` iff `(q-1)·unit < bytes ≤ q·unit`. -/
theorem C14_unit_size_iff (k b q : Nat) (hq : 0 < q) :
    unitSize k b = q ↔ (q - 1) * 2 ^ k < b ∧ b ≤ q * 2 ^ k :=
  unitSize_iff k b q hq

/-- `-size -1k` matches only empty files; `-size 1M` matches sizes 1 … 2^20. -/
theorem C14_size_lt_1k_iff_empty (b : Nat) : sizeMatches (.less 1) 10 b ↔ b = 0 :=
  size_lt_one_iff 10 b

theorem C14_size_eq_1M_iff (b : Nat) : sizeMatches (.eq 1) 20 b ↔ 1 ≤ b ∧ b ≤ 2 ^ 20 := by
  have := unitSize_iff 20 b 1 (by omega)
  simp only [sizeMatches, Cmp.matches, decide_eq_true_eq]
  omega

/-- Non-vacuity: concrete operands and sizes. -/
example : parseCmp "+10".toList = some (.more 10) ∧ parseSize "-3M".toList = some (.less 3, 20) ∧
    parseCmp "18446744073709551616".toList = none ∧ parseSize "abc10k".toList = none ∧
    unitSize 10 1025 = 2 ∧ unitSize 10 1024 = 1 ∧ unitSize 30 0 = 0 := by decide

end FuModel.Find
