import FuModel.Props.C04
import FuModel.Props.C05
import FuModel.Props.C18
import FuModel.Proofs.OutWalk

/-!
# C07 — -print0 paths are byte-exact and survive the pipe into xargs -0

Composition of three models: the path construction of the walk and the `-print0` action
(`Find/Run.lean`), the NUL-delimited reader of xargs (`Xargs/Read.lean`, C05) and its batching
loop (`Xargs/Batch.lean`, C04).
-/
namespace FuModel.Find.Run
open FuModel.Find.Walk

/-- `-print0` (resp. `-print`) appends exactly the path followed by one NUL (resp. newline) to
    the output; nothing is escaped or added — for paths that are valid UTF-8 (the property's scope;
    the code writes paths through `to_string_lossy`, `Base/Utf8.lean`). -/
theorem C07_print_exact (start : Bytes) (v : Visit Attr) (s : ES) (term : UInt8)
    (hv : FuModel.Utf8.validUtf8 (pathOf start v.ent.rpath) = true) :
    sem start v (.pathOut [] [term]) s =
      (true, { s with gs := { s.gs with out := s.gs.out ++ pathOf start v.ent.rpath ++ [term] } }) := by
  have : FuModel.Utf8.lossy (pathOf start v.ent.rpath) = pathOf start v.ent.rpath := by
    simpa [FuModel.Utf8.validUtf8] using hv
  simp [sem, this]

def endsSlash (p : Bytes) : Bool := p.getLast? == some 47

/-- a name as the file system allows it: non-empty, no '/' -/
def NameOk (n : Name) : Prop := n ≠ [] ∧ (47 : UInt8) ∉ n

theorem pushName_noslash_end (p : Bytes) (n : Name) (hn : NameOk n) : endsSlash (pushName p n) = false := by
  have hl : n.getLast? ≠ some 47 := by
    intro h
    exact hn.2 (List.mem_of_getLast? h)
  unfold endsSlash pushName
  split
  · cases n with
    | nil => exact absurd rfl hn.1
    | cons x xs => simpa [List.getLast?_append] using hl
  · cases n with
    | nil => exact absurd rfl hn.1
    | cons x xs =>
      rw [List.getLast?_append]
      simpa [List.getLast?_cons_cons] using hl

/-- The printed path is the starting point exactly as given, then (unless it already ends in '/')
    one '/', then the names below it joined by single '/' — for all names, whatever bytes they
    contain. -/
theorem C07_path_form (start : Bytes) (names : List Name) (n : Name) (h : ∀ m ∈ n :: names, NameOk m) :
    (n :: names).foldl pushName start =
      start ++ (if endsSlash start then [] else [47]) ++ n ++ names.flatMap (47 :: ·) := by
  induction names generalizing start n with
  | nil => simp [pushName, endsSlash]; split <;> simp_all
  | cons m ms ih =>
    have hn : NameOk n := h n (by simp)
    rw [List.foldl_cons]
    have := ih (pushName start n) m (fun x hx => h x (List.mem_cons_of_mem _ hx))
    rw [this, pushName_noslash_end start n hn]
    simp only [pushName, endsSlash, Bool.false_eq_true, if_false, List.flatMap_cons]
    split <;> simp_all

theorem C07_path_of (start : Bytes) (rpath : List Name) (hne : rpath ≠ []) (h : ∀ m ∈ rpath, NameOk m) :
    ∃ n names, rpath.reverse = n :: names ∧
      pathOf start rpath = start ++ (if endsSlash start then [] else [47]) ++ n ++ names.flatMap (47 :: ·) := by
  cases hr : rpath.reverse with
  | nil => simp at hr; exact absurd hr hne
  | cons n names =>
    refine ⟨n, names, rfl, ?_⟩
    unfold pathOf
    rw [hr]
    apply C07_path_form
    intro m hm
    apply h m
    have : m ∈ rpath.reverse := by rw [hr]; exact hm
    simpa using this

end FuModel.Find.Run

namespace FuModel.Xargs

/-- What `find -print0` writes for paths `ps` is read back by `xargs -0` as exactly `ps`, for all
    non-empty NUL-free byte strings (blanks, quotes, backslashes, newlines, leading dashes … are
    not interpreted). -/
theorem C07_roundtrip (ps : List (List UInt8)) (h : ∀ p ∈ ps, p ≠ [] ∧ (0 : UInt8) ∉ p) :
    bdAll 0 (ps.flatMap (· ++ [0])) = ps := by
  have := C05_delim 0 ps [] (fun s hs => (h s hs).2) (by simp)
  simp only [List.append_nil] at this
  rw [this]
  simp only [List.filter_append, List.filter_cons, ne_eq, not_true_eq_false, decide_false, Bool.false_eq_true,
    if_false, List.filter_nil, List.append_nil, List.filter_eq_self, decide_eq_true_eq]
  intro p hp
  exact (h p hp).1

/-- … and every one of them reaches a command exactly once, in order, unmodified: when xargs
    completes (status 0 or 123) the appended arguments of its commands, concatenated, are the
    paths find printed. -/
theorem C07_delivered_once (cfg : Config) (init : LState) (script : List Outcome)
    (ps : List (List UInt8)) (h : ∀ p ∈ ps, p ≠ [] ∧ (0 : UInt8) ∉ p) :
    let args := (bdAll 0 (ps.flatMap (· ++ [0]))).map fun b => (⟨b, .hard⟩ : Arg)
    let run := processInput cfg init false ⟨init, []⟩ false false [] script args
    (run.status = 0 ∨ run.status = 123) → run.batches.flatten.map (·.bytes) = ps := by
  intro args run hs
  have hl := (C04_lossless cfg init script args).2 hs
  show (processInput cfg init false ⟨init, []⟩ false false [] script args).batches.flatten.map (·.bytes) = ps
  rw [hl]
  simp only [args, C07_roundtrip ps h, List.map_map]
  conv => rhs; rw [← List.map_id ps]
  apply List.map_congr_left
  intro p _
  rfl

end FuModel.Xargs

namespace FuModel.Find.Run
open FuModel.Find.Walk

/-- **Whole starting point**: `find [-P|-H|-L] START TEST -print0` (or `-print`, any prefix and
    terminator), for every tree, depth range, traversal order and test that only looks at the
    entry: the bytes written are exactly, in visit order, the printed paths of the in-range
    reachable entries that satisfy the test — every such entry once, nothing else — and the walk
    is not stopped.  Ties C02 (which entries), C03 (order) and this property's per-entry theorem
    together over the real walk (walkdir's iterator under `process_dir`); proof in
    `Proofs/OutWalk.lean` (`processDir_out`, for every action that only writes). -/
theorem C07_whole_walk (c : Config) (t : Prim) (ht : isTestP t = true) (pre term : Bytes)
    (start : Bytes) (root : Node Attr) (g : GS) :
    let n := if c.sorted then sortNode root else root
    let r := processDir c (.and [.prim t, .prim (.pathOut pre term)]) start (some root) g
    r.gs.out = g.out ++ (visitsN (refCfg c) [] 0 n).flatMap (written start t (.pathOut pre term)) ∧ r.quit = false :=
  processDir_out c t (.pathOut pre term) ht rfl start root g

/-- non-vacuity: `find t -type f -print0` on a two-level tree (the reference side of the equation,
    evaluated by the kernel) -/
example :
    let root : Node Attr := .dir [116] false true { lty := 'd', sty := 'd' }
      [.leaf [97] .plain { lty := 'f', sty := 'f' }, .dir [98] false true { lty := 'd', sty := 'd' } [.leaf [99] .plain { lty := 'f', sty := 'f' }]]
    (visitsN (refCfg {}) [] 0 root).flatMap (written [116] (.typeIs 'f') (.pathOut [] [0])) =
      [116, 47, 97, 0, 116, 47, 98, 47, 99, 0] := by decide

open FuModel.Xargs

/-- the entries that satisfy the test, in visit order -/
def matched (c : Config) (t : Prim) (start : Bytes) (n : Node Attr) : List Bytes :=
  ((visitsN (refCfg c) [] 0 n).filter fun v => (sem start v t es0).1).map fun v => pathOf start v.ent.rpath

theorem written_flat (t : Prim) (start : Bytes) (vs : List (Visit Attr))
    (hv : ∀ v ∈ vs, (sem start v t es0).1 = true → FuModel.Utf8.validUtf8 (pathOf start v.ent.rpath) = true) :
    vs.flatMap (written start t (.pathOut [] [0])) =
      ((vs.filter fun v => (sem start v t es0).1).map fun v => pathOf start v.ent.rpath).flatMap (· ++ [0]) := by
  induction vs with
  | nil => rfl
  | cons v vs ih =>
    have ih' := ih (fun x hx => hv x (by simp [hx]))
    simp only [List.flatMap_cons, List.filter_cons]
    cases hb : (sem start v t es0).1
    · simp [written, hb, ih']
    · have hl : FuModel.Utf8.lossy (pathOf start v.ent.rpath) = pathOf start v.ent.rpath := by
        simpa [FuModel.Utf8.validUtf8] using hv v (by simp) hb
      simp [written, hb, outOf, hl, ih']

/-- **The pipeline `find START TEST -print0 | xargs -0 CMD`.**  For every tree, follow mode, depth
    range and traversal order, every test that only looks at the entry, every xargs configuration
    (limits, command) and every behaviour of the commands: if the paths of the matching entries are
    valid UTF-8 (the property's scope), then — whenever xargs completes — the arguments appended to
    its commands, concatenated, are exactly the paths of the in-range reachable entries that satisfy
    the test, in visit order: each delivered to a command once, unmodified, nothing else. -/
theorem C07_pipeline (c : Config) (t : Prim) (ht : isTestP t = true) (start : Bytes) (root : Node Attr)
    (hv : ∀ p ∈ matched c t start (if c.sorted then sortNode root else root),
      FuModel.Utf8.validUtf8 p = true ∧ p ≠ [] ∧ (0 : UInt8) ∉ p)
    (cfg : Xargs.Config) (init : LState) (script : List Outcome) :
    let out := (processDir c (.and [.prim t, .prim (.pathOut [] [0])]) start (some root) {}).gs.out
    let args := (bdAll 0 out).map fun b => (⟨b, .hard⟩ : Xargs.Arg)
    let run := processInput cfg init false ⟨init, []⟩ false false [] script args
    (run.status = 0 ∨ run.status = 123) →
      run.batches.flatten.map (·.bytes) = matched c t start (if c.sorted then sortNode root else root) := by
  intro out args run hs
  have hw := (C07_whole_walk c t ht [] [0] start root {}).1
  have hvs : ∀ v ∈ visitsN (refCfg c) [] 0 (if c.sorted then sortNode root else root),
      (sem start v t es0).1 = true → FuModel.Utf8.validUtf8 (pathOf start v.ent.rpath) = true := by
    intro v hv' hb
    exact (hv _ (by
      simp only [matched, List.mem_map, List.mem_filter]
      exact ⟨v, ⟨hv', hb⟩, rfl⟩)).1
  have hout : out = (matched c t start (if c.sorted then sortNode root else root)).flatMap (· ++ [0]) := by
    show (processDir c (.and [.prim t, .prim (.pathOut [] [0])]) start (some root) {}).gs.out = _
    rw [hw, written_flat t start _ hvs]
    simp [matched]
  have := C07_delivered_once cfg init script (matched c t start (if c.sorted then sortNode root else root))
    (fun p hp => (hv p hp).2)
  simp only at this
  simp only [run, args] at hs ⊢
  rw [hout] at hs ⊢
  exact this hs
end FuModel.Find.Run
