import FuModel.Proofs.Cmdline
import FuModel.Proofs.Numeric
import FuModel.Proofs.ExprConv
import FuModel.Props.C01
import FuModel.Spec.CmdlineRef

/-!
# C11 — malformed command lines are rejected before any action

Model: `Find/Cmdline.lean` (`classify`, `lex`, `verdict` = `parse_args` with
`build_matcher_tree`'s word loop) on top of the tree builder of `Find/Expr.lean` (`run`).
Each class of malformed input the property lists is refused **in every context**: the token-level
theorems quantify over everything that stands before (and after) the offending fragment, the
word-level ones over every completely read prefix.  `C11_rejected_before_any_action`: a refused
command line ends the run with status 1 and one diagnostic before the walk starts.
The "never a panic" half of the property is about the Rust runtime (slicing, unwrap, arithmetic
overflow); it is carried by the correspondence runs: the model is total, so every panic of the
implementation is a disagreement with a concrete input.
-/
namespace FuModel.Find.Cmdline
open FuModel.Find FuModel.Find.Expr FuModel.Find.Regex FuModel.Spec.CmdlineRef

/-! ## the tree builder (operators and parentheses) -/

/-- a dangling operator or `!` at the end of the expression -/
theorem C11_dangling_operator {P : Type} (pre : List (Tok P)) (op : Tok P) (h : op.isOp = true) :
    Rejects (buildTree (pre ++ [op])) :=
  run_prefix [op] (run_op_last op h) pre [] St.empty false

/-- … or directly before a closing parenthesis -/
theorem C11_operator_before_close {P : Type} (pre post : List (Tok P)) (op : Tok P) (h : op.isOp = true) :
    Rejects (buildTree (pre ++ op :: .rp :: post)) :=
  run_prefix _ (run_op_before_rp op h post) pre [] St.empty false

/-- a binary operator that directly follows another operator or `!` -/
theorem C11_operator_after_operator {P : Type} (pre post : List (Tok P)) (op1 op2 : Tok P)
    (h1 : op1.isOp = true) (h2 : op2.isBinary = true) :
    Rejects (buildTree (pre ++ op1 :: op2 :: post)) :=
  run_prefix _ (run_op_op op1 op2 h1 h2 post) pre [] St.empty false

/-- a binary operator at the very beginning or directly after `(` -/
theorem C11_operator_first {P : Type} (post : List (Tok P)) (op : Tok P) (h : op.isBinary = true) :
    Rejects (buildTree (op :: post)) := by
  cases op <;> simp [Tok.isBinary] at h <;>
    (simp only [buildTree, run, St.empty]; repeat' split) <;> first | exact rejects_error _ | simp_all

theorem C11_operator_after_open {P : Type} (pre post : List (Tok P)) (op : Tok P) (h : op.isBinary = true) :
    Rejects (buildTree (pre ++ .lp :: op :: post)) :=
  run_prefix _ (run_lp_op op h post) pre [] St.empty false

/-- empty parentheses, anywhere -/
theorem C11_empty_parens {P : Type} (pre post : List (Tok P)) :
    Rejects (buildTree (pre ++ .lp :: .rp :: post)) :=
  run_prefix _ (run_lp_rp post) pre [] St.empty false

/-- unbalanced parentheses: a `)` without its `(`, or a `(` never closed -/
theorem C11_unbalanced {P : Type} (ts : List (Tok P)) (h : balanced 0 ts = false) : Rejects (buildTree ts) := by
  cases hr : buildTree ts with
  | error e => exact rejects_error e
  | ok m =>
    have := run_balanced ts [] St.empty false m hr
    simp [h] at this

/-- **The builder accepts exactly the sentences of the grammar** (and the empty expression):
    rejection holds for the whole complement of the grammar, not for listed classes only.
    `→` is the converse parser theorem (`Proofs/ExprConv.lean`), `←` is `C01_parse`. -/
theorem C11_parser_exact {P : Type} (ts : List (Tok P)) :
    (∃ m, buildTree ts = .ok m) ↔ (ts = [] ∨ ∃ l, WF l ∧ renderL l = ts) := by
  constructor
  · rintro ⟨m, h⟩; exact buildTree_sentence ts m h
  · rintro (rfl | ⟨l, hl, rfl⟩)
    · exact ⟨_, rfl⟩
    · exact ⟨_, C01_parse l hl⟩

/-- a non-empty token string that is not the rendering of a syntax tree of the grammar is refused -/
theorem C11_not_a_sentence {P : Type} (ts : List (Tok P)) (hne : ts ≠ [])
    (hn : ∀ l, WF l → renderL l ≠ ts) : Rejects (buildTree ts) := by
  cases hr : buildTree ts with
  | error e => exact rejects_error e
  | ok m =>
    rcases buildTree_sentence ts m hr with h | ⟨l, hl, h⟩
    · exact absurd h hne
    · exact absurd h (hn l hl)

/-! ## the words: primaries and their operands -/

/-- the setting of the word-level theorems: after the flags and starting points the expression
    begins with completely read words `pre` (no error in them, no `-help`), followed by `suf` -/
structure After (e : Ext) (argv pre suf : List Word) : Prop where
  split : (FuModel.Find.Run.parseLeading argv).rest = pre ++ suf
  read : ∃ ts, lex e .emacs none false pre = (ts, .done)

theorem reject_after {e : Ext} {argv pre suf : List Word} (a : After e argv pre suf)
    (h : ∀ rt olp, (lex e rt none olp suf).2 = .bad) : verdict e argv = .reject := by
  obtain ⟨ts, hts⟩ := a.read
  apply verdict_of_bad
  rw [a.split]
  exact lex_bad_after e .emacs false pre suf ts hts h

/-- an unknown primary, wherever a primary may stand -/
theorem C11_unknown_primary (e : Ext) (argv pre ws : List Word) (w : Word) (a : After e argv pre (w :: ws))
    (h : classify w = .unknown) : verdict e argv = .reject :=
  reject_after a fun rt olp => by rw [lex_unknown e rt olp w ws h]

/-- a primary that needs an operand as the last word -/
theorem C11_missing_operand (e : Ext) (argv pre : List Word) (w : Word) (c : Check) (a : After e argv pre [w])
    (h : classify w = .unary c) : verdict e argv = .reject :=
  reject_after a fun rt olp => by rw [lex_missing_operand e rt olp w c h]

/-- `-fprintf` with fewer than two words after it -/
theorem C11_fprintf_missing (e : Ext) (argv pre ws : List Word) (w : Word) (a : After e argv pre (w :: ws))
    (h : classify w = .fprintf) (hl : ws.length < 2) : verdict e argv = .reject :=
  reject_after a fun rt olp => by rw [lex_fprintf_short e rt olp w ws h hl]

/-- an operand its validator refuses, whatever the regex syntax in force: invalid -printf format,
    -regextype name, -type letter, -size / numeric operand, -perm mode, -maxdepth number, unknown
    -user / -group, missing reference file, undecodable -newerXt date, -newerBY -/
theorem C11_invalid_operand (e : Ext) (argv pre ws : List Word) (w op : Word) (c : Check)
    (a : After e argv pre (w :: op :: ws)) (h : classify w = .unary c)
    (hb : ∀ rt, checkOperand e rt c op = .bad) : verdict e argv = .reject :=
  reject_after a fun rt olp => by rw [lex_bad_operand e rt olp w op ws c h (hb rt)]

/-- `-exec` / `-execdir` without terminator, or without a command -/
theorem C11_exec_unterminated (e : Ext) (argv pre ws : List Word) (w : Word) (a : After e argv pre (w :: ws))
    (h : classify w = .exec) (hn : ∀ x ∈ ws, x ≠ [';'] ∧ x ≠ ['+']) : verdict e argv = .reject :=
  reject_after a fun rt olp => by rw [lex_exec_unterminated e rt olp w ws h hn]

theorem C11_exec_no_command (e : Ext) (argv pre ws : List Word) (w : Word) (a : After e argv pre (w :: [';'] :: ws))
    (h : classify w = .exec) : verdict e argv = .reject :=
  reject_after a fun rt olp => by rw [lex_exec_no_command e rt olp w ws h]

/-- what the operand validators accept, in the property's terms -/
theorem C11_numeric_operand (e : Ext) (rt : RType) (w : Word) :
    checkOperand e rt .cmp w = .ok ↔
      ∃ (sg : Sign) (ds : List Char), w = sg.chars ++ ds ∧ ds ≠ [] ∧ (∀ d ∈ ds, isAsciiDigit d = true) ∧ decVal ds < 2 ^ 64 := by
  simp only [checkOperand, Res.ofBool]
  cases hp : parseCmp w with
  | none =>
    simp only [Option.isSome_none, Bool.false_eq_true, if_false]
    refine ⟨fun h => (by cases h), ?_⟩
    rintro ⟨sg, ds, h1, h2, h3, h4⟩
    have := (parseCmp_iff w (sg.mk (decVal ds))).mpr ⟨sg, ds, h1, h2, h3, h4, rfl⟩
    rw [hp] at this; cases this
  | some c =>
    simp only [Option.isSome_some, if_true, true_iff]
    obtain ⟨sg, ds, h1, h2, h3, h4, _⟩ := (parseCmp_iff w c).mp hp
    exact ⟨sg, ds, h1, h2, h3, h4⟩

theorem C11_size_operand (e : Ext) (rt : RType) (w : Word) :
    checkOperand e rt .size w = .ok ↔
      ∃ (sg : Sign) (ds suf : List Char) (k : Nat), w = sg.chars ++ ds ++ suf ∧ ds ≠ [] ∧ (∀ d ∈ ds, isAsciiDigit d = true) ∧
        (∀ d, suf.head? = some d → isAsciiDigit d = false) ∧ decVal ds < 2 ^ 64 ∧ unitShift suf = some k := by
  simp only [checkOperand, Res.ofBool]
  cases hp : parseSize w with
  | none =>
    simp only [Option.isSome_none, Bool.false_eq_true, if_false]
    refine ⟨fun h => (by cases h), ?_⟩
    rintro ⟨sg, ds, suf, k, h1, h2, h3, h4, h5, h6⟩
    have := (parseSize_iff w (sg.mk (decVal ds)) k).mpr ⟨sg, ds, suf, h1, h2, h3, h4, h5, rfl, h6⟩
    rw [hp] at this; cases this
  | some ck =>
    simp only [Option.isSome_some, if_true, true_iff]
    obtain ⟨c, k⟩ := ck
    obtain ⟨sg, ds, suf, h1, h2, h3, h4, h5, _, h6⟩ := (parseSize_iff w c k).mp hp
    exact ⟨sg, ds, suf, k, h1, h2, h3, h4, h5, h6⟩

theorem C11_type_operand (e : Ext) (rt : RType) (w : Word) :
    checkOperand e rt .ftype w = .ok ↔ w ∈ [['f'], ['d'], ['l'], ['b'], ['c'], ['p'], ['s']] := by
  simp only [checkOperand, Res.ofBool, ftypeLetters]
  by_cases hc : (["f", "d", "l", "b", "c", "p", "s"].contains (String.ofList w)) = true
  · simp only [hc, if_true, true_iff]
    simp only [List.contains_eq_mem, List.mem_cons, List.not_mem_nil, or_false, decide_eq_true_eq] at hc
    have hw : w = (String.ofList w).toList := by simp
    rcases hc with hc | hc | hc | hc | hc | hc | hc <;> (rw [hw, hc]; decide)
  · simp only [hc, Bool.false_eq_true, if_false]
    refine ⟨fun h => (by cases h), fun h => ?_⟩
    exfalso; apply hc
    simp only [List.mem_cons, List.not_mem_nil, or_false] at h
    rcases h with rfl | rfl | rfl | rfl | rfl | rfl | rfl <;> decide

/-! ## rejection comes before everything else -/

/-- what `find_main` returns for a verdict; `walk` is everything `do_find` does after `parse_args` -/
def outcome (v : Verdict) (walk : Outcome) : Outcome :=
  match v with
  | .accept => walk
  | .unmodelled => walk
  | .help => ⟨0, 0, false⟩
  | .reject => rejected

/-- a rejected command line ends the run with a diagnostic and status 1; the walk — every visit,
    output, command and removal — is not started -/
theorem C11_rejected_before_any_action (e : Ext) (argv : List Word) (walk : Outcome) (h : verdict e argv = .reject) :
    outcome (verdict e argv) walk = ⟨1, 1, false⟩ := by rw [h]; rfl

/-- an accepted command line: every word was read (no unknown primary, every operand present
    and valid) and the tokens form a sentence of the grammar or are empty -/
theorem C11_accept_sound (e : Ext) (argv : List Word) (h : verdict e argv = .accept) :
    ∃ ts, lex e .emacs none false (FuModel.Find.Run.parseLeading argv).rest = (ts, .done) ∧
      (ts = [] ∨ ∃ l, WF l ∧ renderL l = ts) := by
  obtain ⟨ts, m, h1, h2⟩ := verdict_accept e argv h
  exact ⟨ts, h1, buildTree_sentence ts m h2⟩

/-! ## the vocabulary -/

def kindOf : Arity → Kind
  | .zero => .nullary
  | .one c => .unary c
  | .two => .fprintf
  | .execLike => .exec

/-- the implementation's word table and the reference vocabulary agree on every listed primary -/
theorem C11_vocabulary : ∀ p ∈ vocab, classify p.1.toList = kindOf p.2 := by decide +kernel

/-! Non-vacuity: concrete command lines in the scope of the theorems. -/
def noExt : Ext := ⟨fun _ _ _ => none, fun _ => none, fun _ => none, fun _ => none, fun _ => none, fun _ => none, fun _ => none, fun _ => none⟩

example : After noExt ["t".toList, "-print".toList, "-size".toList] ["-print".toList] ["-size".toList] :=
  ⟨by decide, ⟨[.prim "-print".toList], by decide⟩⟩
example : verdict noExt ["t".toList, "-print".toList, "-size".toList] = .reject := by decide
example : verdict noExt ["t".toList, "-delete".toList, "-bogus".toList] = .reject := by decide
example : verdict noExt ["t".toList, "-true".toList, "!".toList, "-a".toList, "-false".toList] = .reject := by decide
example : verdict noExt ["t".toList, "(".toList, "-name".toList, "x".toList, ")".toList, "-o".toList, "-size".toList, "+1k".toList] = .accept := by decide

end FuModel.Find.Cmdline
