import FuModel.Find.StartPoints
import FuModel.Proofs.OutWalk
import FuModel.Proofs.PureEval

/-!
# C18 — starting points: processed in order, spelled as given, isolated on error

Model: `Find/StartPoints.lean` (`parse_args`' flag and operand scan, `parse_files0_args`),
`Find/Run.lean` (`do_find`'s loop, the path construction of the walk).
-/
namespace FuModel.Find.Run
open FuModel.Find.Walk FuModel.Find.Expr

/-! ### -files0-from -/

theorem splitNul_name (cur n rest : Bytes) (h : ∀ b ∈ n, b ≠ 0) :
    splitNul cur (n ++ 0 :: rest) = (cur.reverse ++ n) :: splitNul [] rest := by
  induction n generalizing cur with
  | nil => simp [splitNul]
  | cons b bs ih =>
    have hb : (b == 0) = false := by simpa using h b (by simp)
    simp only [List.cons_append, splitNul, hb, Bool.false_eq_true, if_false]
    rw [ih (b :: cur) (fun x hx => h x (by simp [hx]))]
    simp

theorem splitNul_names (names : List Bytes) (h : ∀ n ∈ names, ∀ b ∈ n, b ≠ 0) :
    splitNul [] (names.flatMap (· ++ [0])) = names ++ [[]] := by
  induction names with
  | nil => simp [splitNul]
  | cons n ns ih =>
    simp only [List.flatMap_cons, List.append_assoc, List.singleton_append]
    rw [splitNul_name [] n _ (h n (by simp)), ih (fun m hm => h m (by simp [hm]))]
    simp

theorem splitNul_last (cur n : Bytes) (h : ∀ b ∈ n, b ≠ 0) : splitNul cur n = [cur.reverse ++ n] := by
  induction n generalizing cur with
  | nil => simp [splitNul]
  | cons b bs ih =>
    have hb : (b == 0) = false := by simpa using h b (by simp)
    simp only [splitNul, hb, Bool.false_eq_true, if_false]
    rw [ih (b :: cur) (fun x hx => h x (by simp [hx]))]
    simp

/-- A file holding the names each followed by a NUL names exactly those starting points, in order —
    whatever else the names contain (leading '-', newlines, blanks). -/
theorem C18_files0_terminated (names : List Bytes) (h : ∀ n ∈ names, n ≠ [] ∧ ∀ b ∈ n, b ≠ 0) :
    files0 (names.flatMap (· ++ [0])) = (names, false) := by
  unfold files0
  rw [splitNul_names names (fun n hn => (h n hn).2)]
  have hne : ∀ n ∈ names, n.isEmpty = false := fun n hn => by simpa using (h n hn).1
  have hlast : (names ++ [([] : Bytes)]).getLast? = some [] := by simp
  simp only [hlast, beq_self_eq_true, if_true, List.dropLast_concat]
  refine Prod.ext ?_ ?_
  · simp only [List.filter_eq_self]
    intro n hn; simp [hne n hn]
  · simp only [List.any_eq_false]
    intro n hn; simp [hne n hn]

/-- The final NUL is optional. -/
theorem C18_files0_unterminated (names : List Bytes) (last : Bytes)
    (h : ∀ n ∈ names, n ≠ [] ∧ ∀ b ∈ n, b ≠ 0) (hl : last ≠ [] ∧ ∀ b ∈ last, b ≠ 0) :
    files0 (names.flatMap (· ++ [0]) ++ last) = (names ++ [last], false) := by
  have key : splitNul [] (names.flatMap (· ++ [0]) ++ last) = names ++ [last] := by
    induction names with
    | nil => simpa using splitNul_last [] last hl.2
    | cons n ns ih =>
      have := ih (fun m hm => h m (by simp [hm]))
      simp only [List.flatMap_cons, List.append_assoc, List.singleton_append, List.cons_append]
      rw [splitNul_name [] n _ ((h n (by simp)).2)]
      simp [this]
  unfold files0
  rw [key]
  have hne : ∀ n ∈ names ++ [last], n.isEmpty = false := by
    intro n hn
    rcases List.mem_append.mp hn with hn | hn
    · simpa using (h n hn).1
    · simp at hn; subst hn; simpa using hl.1
  have hlast : (names ++ [last]).getLast? = some last := by simp
  have hl' : (some last == some ([] : Bytes)) = false := by
    have := hl.1
    cases last <;> simp_all
  simp only [hlast]
  have : (if (some last == some ([] : Bytes)) = true then (names ++ [last]).dropLast else names ++ [last]) = names ++ [last] := by
    simp [hl']
  simp only [this]
  refine Prod.ext ?_ ?_
  · simp only [List.filter_eq_self]
    intro n hn; simp [hne n hn]
  · simp only [List.any_eq_false]
    intro n hn; simp [hne n hn]

/-- A list of NUL-terminated names is accepted exactly when every name is valid UTF-8 (starting
    points are held as strings; the same word among the operands is refused by `main`): a name
    that is not is never left out silently - the whole list is refused. -/
theorem C18_files0_accepts_iff (names : List Bytes) (h : ∀ n ∈ names, ∀ b ∈ n, b ≠ 0) :
    files0Ok (names.flatMap (· ++ [0])) = true ↔ ∀ n ∈ names, FuModel.Utf8.validUtf8 n = true := by
  unfold files0Ok
  rw [splitNul_names names h]
  simp only [List.all_append, List.all_cons, List.all_nil, Bool.and_true, Bool.and_eq_true, List.all_eq_true]
  constructor
  · intro h1; exact h1.1
  · intro h1; exact ⟨h1, by decide⟩

example : files0Ok [99, 97, 102, 0xe9, 0, 100, 0] = false ∧ files0Ok [99, 97, 102, 0xc3, 0xa9, 0, 100, 0] = true := by decide

/-! ### paths are spelled with the starting point as given -/

theorem pushName_prefix (p : Bytes) (n : Name) : ∃ t, pushName p n = p ++ t := by
  unfold pushName; split
  · exact ⟨n, rfl⟩
  · exact ⟨47 :: n, rfl⟩

theorem foldl_pushName_prefix (names : List Name) (p : Bytes) : ∃ t, names.foldl pushName p = p ++ t := by
  induction names generalizing p with
  | nil => exact ⟨[], by simp⟩
  | cons n ns ih =>
    obtain ⟨t1, h1⟩ := pushName_prefix p n
    obtain ⟨t2, h2⟩ := ih (pushName p n)
    exact ⟨t1 ++ t2, by rw [List.foldl_cons, h2, h1, List.append_assoc]⟩

/-- Every path find reports begins with its starting point exactly as it was spelled — no
    normalisation of `./`, `..`, repeated or trailing slashes. -/
theorem C18_spelling (start : Bytes) (rpath : List Name) : ∃ t, pathOf start rpath = start ++ t :=
  foldl_pushName_prefix _ _

/-- … and below it the names are joined by single slashes (none is added after a starting point that
    already ends in one). -/
theorem C18_join (start : Bytes) (n : Name) (rpath : List Name) :
    pathOf start (n :: rpath) = pushName (pathOf start rpath) n := by
  simp [pathOf, List.foldl_append]

theorem C18_join_slash (p : Bytes) (n : Name) :
    pushName p n = if p.getLast? = some 47 then p ++ n else p ++ [47] ++ n := by
  unfold pushName; split <;> simp_all

/-! ### one after another, in order; errors are isolated -/

/-- `do_find` takes the starting points in the order given; each one is processed on its own (its
    result depends only on the configuration, the expression, its own tree and the output so far);
    after -quit nothing further is processed. -/
theorem C18_order (c : Config) (m : M Prim) (start : Bytes) (root : Option (Node Attr))
    (rest : List (Bytes × Option (Node Attr))) (g : GS) (ret diags : Nat) :
    doFind c m ((start, root) :: rest) g ret diags =
      (let r := processDir c m start root g
       let ret' := if r.ret != 0 then r.ret else ret
       if r.quit then ⟨r.gs, ret', true, diags + r.diags⟩
       else doFind c m rest r.gs ret' (diags + r.diags)) := by
  rw [doFind]

/-- A starting point that cannot be examined: one diagnostic, nothing printed (`finishDir` only
    dispatches pending `-exec … +` command lines), the others are processed as if it had not been given … -/
theorem C18_isolation (c : Config) (m : M Prim) (start : Bytes)
    (rest : List (Bytes × Option (Node Attr))) (g : GS) (ret diags : Nat) :
    (doFind c m ((start, none) :: rest) g ret diags) =
      doFind c m rest (finishDir m { g with curDir := none }).1 1 (diags + 1) := by
  rw [doFind]; simp [processDir]

/-- … and the exit status stays non-zero. -/
theorem C18_status_sticky (c : Config) (m : M Prim) (roots : List (Bytes × Option (Node Attr)))
    (g : GS) (ret diags : Nat) (h : ret ≠ 0) : (doFind c m roots g ret diags).ret ≠ 0 := by
  induction roots generalizing g ret diags with
  | nil => simpa [doFind] using h
  | cons r rs ih =>
    obtain ⟨start, root⟩ := r
    rw [doFind]
    split
    · split <;> simp_all
    · apply ih
      split <;> simp_all

/-- No starting point means `.`; the operands are taken in order up to the first word that starts
    the expression. -/
theorem C18_default_dot (argv : List (List Char)) (h : (scanOperands (scanFlags .never argv).2).1 = []) :
    (parseLeading argv).paths = [['.']] := by
  simp [parseLeading, h]

example : (parseLeading ["-L".toList, "a".toList, "./b/".toList, "-".toList, "-name".toList, "x".toList]).paths
    = ["a".toList, "./b/".toList, "-".toList] := by decide
example : (parseLeading ["-H".toList, "-print".toList]).paths = [['.']] ∧
    (parseLeading ["-H".toList, "-print".toList]).follow = .roots := by decide
example : files0 [45, 97, 0, 0, 98, 10, 99] = ([[45, 97], [98, 10, 99]], true) := by decide
example : pathOf [46, 47, 100, 47, 47] [[99], [98]] = [46, 47, 100, 47, 47, 98, 47, 99] := by decide

/-- **End to end over all starting points**: `find S1 S2 … TEST ACTION` with an action that only
    writes (`-print`, `-print0`, `-printf`): `do_find`'s loop over the starting points, each walked
    by `process_dir` over walkdir's iterator, writes exactly the concatenation — in command-line
    order — of what each starting point contributes (its in-range reachable entries that satisfy
    the test, in visit order, each once); a starting point that cannot be examined contributes
    nothing, does not stop the others and makes the exit status non-zero.  Proof: `doFind_out` in
    `Proofs/OutWalk.lean`. -/
theorem C18_roots_in_order (c : Config) (t a : Prim) (ht : isTestP t = true) (ha : isOutP a = true)
    (roots : List (Bytes × Option (Node Attr)))
    (g : GS) (ret diags : Nat) :
    let res := doFind c (.and [.prim t, .prim a]) roots g ret diags
    res.gs.out = g.out ++ roots.flatMap (writtenRoot c t a) ∧
    ((ret ≠ 0 ∨ ∃ x ∈ roots, x.2 = none) → res.ret ≠ 0) :=
  doFind_out c t a ht ha roots g ret diags

/-- non-vacuity: `find a missing b -print0` — the reference side, evaluated by the kernel -/
example :
    let fa : Node Attr := .leaf [97] .plain { lty := 'f', sty := 'f' }
    let fb : Node Attr := .leaf [98] .plain { lty := 'f', sty := 'f' }
    ([([97], some fa), ([109], none), ([98], some fb)] : List (Bytes × Option (Node Attr))).flatMap
        (writtenRoot {} .true_ (.pathOut [] [0])) = [97, 0, 98, 0] := by decide

theorem buildTop_single_test (t : Prim) (ht : isTestP t = true) :
    buildTop Prim.isAction (.pathOut [] [10]) [Tok.prim t] = .ok (.and [.prim t, .prim (.pathOut [] [10])]) := by
  cases t <;> simp [isTestP] at ht <;> rfl

/-- **`find [-P|-H|-L] S1 S2 … TEST`** (no action: `-print` is implied) — the whole run of the
    model, with no hypothesis on the trees: argument layer, tree builder with the default action
    (C01), `do_find` over the starting points (this property), `process_dir` over walkdir's iterator
    (C02, C03), the action (C07).  The output is the concatenation, in command-line order of the
    starting points and in visit order inside each, of `path ++ "\n"` for the reachable entries
    that satisfy the test; a starting point that cannot be examined contributes nothing and makes
    the status non-zero. -/
theorem C18_whole_run (follow : Follow) (t : Prim) (ht : isTestP t = true)
    (roots : List (Bytes × Option (Node Attr))) (g0 : GS) :
    ∃ res, run follow roots [.tok (.prim t)] g0 = some res ∧
      res.gs.out = g0.out ++ roots.flatMap (writtenRoot { follow := follow } t (.pathOut [] [10])) ∧
      ((∃ x ∈ roots, x.2 = none) → res.ret ≠ 0) := by
  have hb := buildTop_single_test t ht
  refine ⟨doFind { follow := follow } (.and [.prim t, .prim (.pathOut [] [10])]) roots g0 0 0, ?_, ?_⟩
  · simp only [run, List.foldl, applyArg, List.map, Arg.tok', hb, Bool.false_eq_true, if_false]
  · have h := doFind_out { follow := follow } t (.pathOut [] [10]) ht rfl roots g0 0 0
    exact ⟨h.1, fun hx => h.2 (Or.inr hx)⟩

/-- the statement evaluated on a concrete run: `find a missing b -type f` -/
example :
    let fa : Node Attr := .leaf [97] .plain { lty := 'f', sty := 'f' }
    let db : Node Attr := .dir [98] false true { lty := 'd', sty := 'd' } [.leaf [99] .plain { lty := 'f', sty := 'f' }]
    ([([97], some fa), ([109], none), ([98], some db)] : List (Bytes × Option (Node Attr))).flatMap
        (writtenRoot { follow := .never } (.typeIs 'f') (.pathOut [] [10])) = [97, 10, 98, 47, 99, 10] := by decide
/-- **`find [-P|-H|-L] S1 S2 … EXPR` for any well-formed expression of tests** (`-name a -o ! -type d`,
    parentheses, commas; no action, no option) — the whole run of the model with no hypothesis on
    the trees: the tree builder yields `mt` (C01, C11), the default `-print` is added (C01), and the
    output is the concatenation, in command-line order of the starting points and visit order inside
    each, of `path ++ "\n"` for the reachable entries on which the expression is true.  Generalises
    `C18_whole_run` from one test to test expressions (purity lemma `pure_M`: an expression of tests
    leaves the state alone and its truth does not depend on it).  Proof: `whole_run_tests`. -/
theorem C18_whole_run_expr (follow : Follow) (toks : List (Tok Prim)) (mt : M Prim)
    (hb : buildTree toks = .ok mt) (ht : TestsOnly mt)
    (roots : List (Bytes × Option (Node Attr))) (g0 : GS) :
    ∃ res, run follow roots (toks.map Arg.tok) g0 = some res ∧
      res.gs.out = g0.out ++ roots.flatMap (writtenRootM { follow := follow } mt (.pathOut [] [10])) ∧
      ((∃ x ∈ roots, x.2 = none) → res.ret ≠ 0) :=
  whole_run_tests follow toks mt hb ht roots g0

/-- non-vacuity: `-name a -o ! -type d` is such an expression, and on `t/{a, b/{a,c}}` … -/
example :
    let toks : List (Tok Prim) := [.prim (.name [97]), .or_, .bang, .prim (.typeIs 'd')]
    let mt : M Prim := .or [.prim (.name [97]), .not (.prim (.typeIs 'd'))]
    let root : Node Attr := .dir [116] false true { lty := 'd', sty := 'd' }
      [.dir [97] false true { lty := 'd', sty := 'd' } [], .dir [98] false true { lty := 'd', sty := 'd' } [.leaf [99] .plain { lty := 'f', sty := 'f' }]]
    buildTree toks = .ok mt ∧ TestsOnly mt ∧
      ([([116], some root)] : List (Bytes × Option (Node Attr))).flatMap (writtenRootM {} mt (.pathOut [] [10])) =
        [116, 47, 97, 10, 116, 47, 98, 47, 99, 10] := by
  intro toks mt root
  exact ⟨by rfl, by simp [mt, TestsOnly, M.AllP, M.AllP.AllPs, isTestP], by decide⟩
end FuModel.Find.Run
