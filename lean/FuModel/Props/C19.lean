import FuModel.Proofs.XargsExit

/-!
# C19 — xargs exit status as a function of the outcomes of the started commands

Property theorems only (lemmas are in `Proofs/XargsExit.lean`).  The model
(`Xargs/Batch.lean`) mirrors `process_input`, `CommandBuilder::execute` and the
status map of `xargs_main`; `startedOutcomes script k` (`Xargs/BatchSpec.lean`)
is the list of outcomes of the first `k` started commands.
-/
namespace FuModel.Xargs

/-- The commands consume the script in order: the k-th started command gets the k-th
    scripted outcome (exit 0 once the script is exhausted); nothing is started after a
    fatal outcome. -/
theorem C19_stops_at_fatal (cfg : Config) (init : LState) (rdErr : Bool) (script : List Outcome) (args : List Arg) :
    let run := processInput cfg init rdErr ⟨init, []⟩ false false [] script args
    let outs := startedOutcomes script run.batches.length
    ∀ i o, outs[i]? = some o → o.isFatal = true → i + 1 = run.batches.length := by
  intro run outs
  obtain ⟨k, hk, hinv⟩ := processInput_inv cfg init rdErr args ⟨init, []⟩ false false [] script
  have hk' : run.batches.length = k := by simpa using hk
  show ∀ i o, (startedOutcomes script run.batches.length)[i]? = some o → _
  rw [hk']
  exact hinv.stops

/-- The exit status is the documented function of the outcomes of the started commands:
    the status of the (necessarily last) fatal outcome if there is one; otherwise 1 for xargs'
    own errors, or else 123 if some command failed and 0 if none did. -/
theorem C19_exit_status (cfg : Config) (init : LState) (rdErr : Bool) (script : List Outcome) (args : List Arg) :
    let run := processInput cfg init rdErr ⟨init, []⟩ false false [] script args
    let outs := startedOutcomes script run.batches.length
    match outs.find? (fun o => o.isFatal) with
    | some o => run.status = o.fatalStatus
    | none => run.status = 1 ∨ run.status = (if outs.any (fun o => o.isFailure) then 123 else 0) := by
  intro run outs
  obtain ⟨k, hk, hinv⟩ := processInput_inv cfg init rdErr args ⟨init, []⟩ false false [] script
  have hk' : run.batches.length = k := by simpa using hk
  have houts : outs = startedOutcomes script k := by rw [← hk']
  split
  · rename_i o ho
    exact hinv.fatal o (houts ▸ ho)
  · rename_i ho
    have := hinv.plain (houts ▸ ho)
    rw [houts]
    simpa using this

/-- Status 0 means: every started command exited 0 (and, by C04_lossless, all input was processed). -/
theorem C19_zero_iff (cfg : Config) (init : LState) (rdErr : Bool) (script : List Outcome) (args : List Arg) :
    let run := processInput cfg init rdErr ⟨init, []⟩ false false [] script args
    let outs := startedOutcomes script run.batches.length
    run.status = 0 → ∀ o ∈ outs, o = Outcome.exit 0 := by
  intro run outs h0
  obtain ⟨k, hk, hinv⟩ := processInput_inv cfg init rdErr args ⟨init, []⟩ false false [] script
  have hk' : run.batches.length = k := by simpa using hk
  have houts : outs = startedOutcomes script k := by rw [← hk']
  have hs : (processInput cfg init rdErr ⟨init, []⟩ false false [] script args).status = 0 := h0
  rw [houts]
  cases hf : (startedOutcomes script k).find? (fun o => o.isFatal) with
  | some o =>
    have h1 := hinv.fatal o hf
    have h2 := fatalStatus_ge o
    omega
  | none =>
    have hp := hinv.plain hf
    rw [hs] at hp
    have hany : (startedOutcomes script k).any (fun o => o.isFailure) = false := by
      cases hb : (startedOutcomes script k).any (fun o => o.isFailure) with
      | false => rfl
      | true => rw [hb] at hp; simp at hp
    intro o ho
    apply eq_exit_zero_of_not_fatal_not_failure
    · have := List.find?_eq_none.mp hf o ho
      simpa using this
    · have := List.any_eq_false.mp hany o ho
      simpa using this

/-- A non-fatal failure does not stop the run: when no scripted outcome is fatal and xargs has
    no error of its own (status ≠ 1), every input argument is delivered. -/
theorem C19_continues_past_failures (cfg : Config) (init : LState) (script : List Outcome) (args : List Arg)
    (hnf : ∀ o ∈ script, o.isFatal = false) :
    let run := processInput cfg init false ⟨init, []⟩ false false [] script args
    run.status ≠ 1 → run.batches.flatten = args := by
  intro run hs
  have := processInput_flatten cfg init args ⟨init, []⟩ false false [] script hnf (fun _ => rfl) hs
  simpa using this

/-- xargs' own input error (unterminated quote) gives status 1 unless a child's fatal outcome came first. -/
theorem C19_reader_error (cfg : Config) (init : LState) (script : List Outcome) (args : List Arg)
    (hnf : ∀ o ∈ script, o.isFatal = false) :
    (processInput cfg init true ⟨init, []⟩ false false [] script args).status = 1 :=
  processInput_reader cfg init args ⟨init, []⟩ false false [] script hnf

/-! ### Examples on concrete data (`exCfg`: `-n 2`; `exArgs`: five one-byte arguments;
both defined in `Proofs/XargsExit.lean`) -/


/-- a failing command (exit 3) does not stop the run: three commands, status 123 -/
example : processInput exCfg LState.zero false ⟨LState.zero, []⟩ false false []
      [.exit 0, .exit 3, .exit 0] exArgs
    = ⟨[[exArg 97, exArg 98], [exArg 99, exArg 100], [exArg 101]], 123⟩ := by decide

/-- exit 255 of the second command stops the run at once with status 124; the
    third scripted outcome is never consumed and the last argument never delivered -/
example : processInput exCfg LState.zero false ⟨LState.zero, []⟩ false false []
      [.exit 1, .exit 255, .signal 9] exArgs
    = ⟨[[exArg 97, exArg 98], [exArg 99, exArg 100]], 124⟩ := by decide

/-- a command killed by a signal: status 125 even though an earlier command failed -/
example : (processInput exCfg LState.zero false ⟨LState.zero, []⟩ false false []
      [.exit 7, .exit 0, .signal 15] exArgs).status = 125 := by decide

/-- exhausted script means exit 0: everything delivered, status 0 -/
example : processInput exCfg LState.zero false ⟨LState.zero, []⟩ false false [] [.exit 0] exArgs
    = ⟨[[exArg 97, exArg 98], [exArg 99, exArg 100], [exArg 101]], 0⟩ := by decide

/-- reader error after the last argument: the command under construction is dropped, status 1 -/
example : processInput exCfg LState.zero true ⟨LState.zero, []⟩ false false []
      [.exit 0, .exit 3] exArgs
    = ⟨[[exArg 97, exArg 98], [exArg 99, exArg 100]], 1⟩ := by decide

/-- ... unless a fatal outcome (command not found, 127) came first -/
example : processInput exCfg LState.zero true ⟨LState.zero, []⟩ false false []
      [.notFound, .exit 3] exArgs
    = ⟨[[exArg 97, exArg 98]], 127⟩ := by decide

/-- the started outcomes of the second example -/
example : startedOutcomes [.exit 1, .exit 255, .signal 9] 2 = [.exit 1, .exit 255] := by decide

end FuModel.Xargs
