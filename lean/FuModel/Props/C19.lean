import FuModel.Xargs.Batch
namespace FuModel.Xargs
theorem C19_placeholder : classify (.exit 0) = .success := rfl
end FuModel.Xargs
