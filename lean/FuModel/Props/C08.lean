import FuModel.Proofs.ExecBatch
import FuModel.Proofs.ExecLossless
import FuModel.Proofs.ExecWalk
import FuModel.Proofs.NoPrune
import FuModel.Proofs.PruneEntered
import FuModel.Proofs.ExecExact

/-!
# C08 — property theorems (proofs in `Proofs/ExecBatch.lean`, `Proofs/ExecLossless.lean`)

* `C08_new_batch`, `C08_try_arg`, `C08_refused_iff` — the accounting of one command line: a path is
  appended at the end, and refused only when it does not fit what is left;
* `C08_os_accepts` — every command line built this way satisfies the kernel's acceptance predicate;
* `C08_step_lossless` — one evaluation of the action appends exactly the current entry's path to
  the sequence "already delivered ++ waiting" (or, if the path fits on no command line, leaves the
  sequence alone and sets find's status to 1);
* `C08_finished_dir_lossless`, `C08_finish_lossless` — leaving a directory (`-execdir`) and the end of
  the walk dispatch the open batch: the sequence is unchanged and nothing is left waiting — "every
  pending invocation has run by the time find exits".

* `C08_whole_walk` — the lift over a whole starting point: for an arbitrary expression whose only
  command-running primary is the `+` action, `process_dir` over the real walk (walkdir's iterator,
  the depth guard, `finished_dir` at every change of directory, `finished` at the end) delivers what
  was handed over before followed by a subsequence, in visit order, of the entries of the starting
  point — nothing twice, nothing foreign, nothing left waiting.  (Weighted relation lemma over
  `M.eval`, `relW_M`; subsequence lemma over the traversal, `refNode_sub`; refinement theorems of C02.)

*Which* entries reach the action (those for which the tests before it are true) is C01 for this
primary; with several command-running primaries in one expression, and for the working directories
of `-execdir` batches, the comparison is carried by the correspondence runs.
-/
namespace FuModel.Find.Run
open FuModel.Find.Walk

/-- the lift of the step theorems over a whole starting point (statement and proof:
    `whole_walk_lossless` in `Proofs/ExecWalk.lean`) -/
theorem C08_whole_walk (id : Nat) (dir : Bool) (cmd : Bytes) (fixed : List Bytes)
    (c : Config) (m : FuModel.Find.Expr.M Prim) (start : Bytes) (root : Node Attr) (g : GS)
    (hall : m.AllP (Sole id dir cmd fixed)) (hone : m.weight wT ≤ 1) (hmem : M.multis m ≠ [])
    (hb : ∃ nb, newBatch g.budget cmd fixed = some nb)
    (hwalk : ((refCfg c).depthFirst = false ∧ PruneOkN (refCfg c) (evalEntry m start) [] 0 (if c.sorted then sortNode root else root)) ∨
             (refCfg c).depthFirst = true) :
    let n := if c.sorted then sortNode root else root
    let r := processDir c m start (some root) g
    ∃ L, delivered (cmd :: fixed) r.gs = handed (cmd :: fixed) id g ++ L ∧
      L.Sublist ((visitsN (refCfg c) [] 0 n).map fun v => execPath dir (pathOf start v.ent.rpath)) ∧
      pendingOf id r.gs = [] :=
  whole_walk_lossless id dir cmd fixed c m start root g hall hone hmem hb hwalk

/-- non-vacuity of `C08_whole_walk`: `find t -depth -name a -exec c {} +` meets the hypotheses -/
example :
    let m : FuModel.Find.Expr.M Prim := .and [.prim (.name [97]), .prim (.execMulti 0 false true [99] [])]
    let c : Config := { depthFirst := true }
    let root : Node Attr := .dir [116] false true { lty := 'd', sty := 'd' } [.leaf [97] .plain { lty := 'f', sty := 'f' }]
    m.AllP (Sole 0 false [99] []) ∧ m.weight wT ≤ 1 ∧ M.multis m ≠ [] ∧
      (∃ nb, newBatch ({} : GS).budget [99] [] = some nb) ∧
      (refCfg c).depthFirst = true := by
  intro m c root
  refine ⟨by simp [m, FuModel.Find.Expr.M.AllP, FuModel.Find.Expr.M.AllP.AllPs, Sole, quiet], by decide, by decide,
    ?_, rfl⟩
  have h : (newBatch ({} : GS).budget [99] []).isSome = true := by decide
  cases hn : newBatch ({} : GS).budget [99] [] with
  | some nb => exact ⟨nb, rfl⟩
  | none => rw [hn] at h; cases h

/-- non-vacuity: two paths handed to a `+` action and the final flush -/
example :
    let v1 : Visit Attr := ⟨⟨[[97]], 1, .leaf [97] .plain { lty := 'f', sty := 'f' }, false⟩, false, .never⟩
    let s0 : ES := ⟨{}, false, false, 0⟩
    let s1 := (sem [116] v1 (.execMulti 0 false true [99] []) s0).2
    handed [[99]] 0 s1.gs = [[116, 47, 97]] ∧
      handed [[99]] 0 (flushAll [(0, false, true, [99], [])] s1.gs false).1 = [[116, 47, 97]] ∧
      pendingOf 0 (flushAll [(0, false, true, [99], [])] s1.gs false).1 = [] := by decide

/-- `C08_whole_walk` for expressions without `-prune`: in pre-order (no `-depth`) there is no
    hypothesis on the tree at all -/
theorem C08_whole_walk_pre (id : Nat) (dir : Bool) (cmd : Bytes) (fixed : List Bytes)
    (c : Config) (m : FuModel.Find.Expr.M Prim) (start : Bytes) (root : Node Attr) (g : GS)
    (hall : m.AllP (Sole id dir cmd fixed)) (hone : m.weight wT ≤ 1) (hmem : M.multis m ≠ [])
    (hnp : m.AllP (fun p => notPrune p = true))
    (hb : ∃ nb, newBatch g.budget cmd fixed = some nb) (hpre : (refCfg c).depthFirst = false) :
    let n := if c.sorted then sortNode root else root
    let r := processDir c m start (some root) g
    ∃ L, delivered (cmd :: fixed) r.gs = handed (cmd :: fixed) id g ++ L ∧
      L.Sublist ((visitsN (refCfg c) [] 0 n).map fun v => execPath dir (pathOf start v.ent.rpath)) ∧
      pendingOf id r.gs = [] :=
  whole_walk_lossless id dir cmd fixed c m start root g hall hone hmem hb
    (Or.inl ⟨hpre, pruneOkN_of_pruneOk _ _ (pruneOk_of_noPrune (refCfg c) m hnp start) [] 0 _⟩)
/-- `C08_whole_walk` on a well-formed world (`wfNode`: what the driver's parser admits): in pre-order
    there is no hypothesis on the expression either - `-prune` included (`pruneOkN_of_wf`) -/
theorem C08_whole_walk_wf (id : Nat) (dir : Bool) (cmd : Bytes) (fixed : List Bytes)
    (c : Config) (m : FuModel.Find.Expr.M Prim) (start : Bytes) (root : Node Attr) (g : GS)
    (hall : m.AllP (Sole id dir cmd fixed)) (hone : m.weight wT ≤ 1) (hmem : M.multis m ≠ [])
    (hb : ∃ nb, newBatch g.budget cmd fixed = some nb) (hpre : (refCfg c).depthFirst = false)
    (hw : wfNode root = true) :
    let n := if c.sorted then sortNode root else root
    let r := processDir c m start (some root) g
    ∃ L, delivered (cmd :: fixed) r.gs = handed (cmd :: fixed) id g ++ L ∧
      L.Sublist ((visitsN (refCfg c) [] 0 n).map fun v => execPath dir (pathOf start v.ent.rpath)) ∧
      pendingOf id r.gs = [] :=
  whole_walk_lossless id dir cmd fixed c m start root g hall hone hmem hb
    (Or.inl ⟨hpre, pruneOkN_of_wf (refCfg c) m start [] 0 _ (by split; exact wf_sortNode _ hw; exact hw)⟩)

/-- **`find START TEST -exec CMD FIXED {} +` / `-execdir … +`, exactly** (statement and proof:
    `whole_walk_exact` in `Proofs/ExecExact.lean`): for every tree, follow mode, depth range and
    traversal order, every test that only looks at the entry and every state in which nothing has
    panicked and an open batch has at most the room of a fresh command line (`IX`; the initial
    state is one), the paths delivered to started commands after the walk of a starting point are
    those handed over before followed by **exactly** the paths of the in-range reachable entries
    that satisfy the test and fit on a command line of their own — in visit order, each once — and
    nothing is left waiting. -/
theorem C08_exact (id : Nat) (dir : Bool) (cmd : Bytes) (fixed : List Bytes) (B : Nat) (nb : Batch)
    (hnb : newBatch B cmd fixed = some nb) (t : Prim) (ht : isTestP t = true)
    (c : Config) (start : Bytes) (root : Node Attr) (g : GS) (hI : IX id B nb g) :
    let n := if c.sorted then sortNode root else root
    let r := processDir c (.and [.prim t, .prim (.execMulti id dir true cmd fixed)]) start (some root) g
    delivered (cmd :: fixed) r.gs =
      handed (cmd :: fixed) id g ++ (visitsN (refCfg c) [] 0 n).flatMap (handedBy dir nb t start) ∧
    pendingOf id r.gs = [] :=
  whole_walk_exact id dir cmd fixed B nb hnb t ht c start root g hI

/-- non-vacuity: the initial state satisfies `IX`, and for `find t -type f -exec c {} +` on a
    two-level tree the right-hand side is the two files (kernel evaluation) -/
example :
    let nb : Batch := (newBatch ({} : GS).budget [99] []).getD ⟨[], 0, none⟩
    let root : Node Attr := .dir [116] false true { lty := 'd', sty := 'd' }
      [.leaf [97] .plain { lty := 'f', sty := 'f' }, .dir [98] false true { lty := 'd', sty := 'd' } [.leaf [99] .plain { lty := 'f', sty := 'f' }]]
    newBatch ({} : GS).budget [99] [] = some nb ∧ IX 0 ({} : GS).budget nb {} ∧
      (visitsN (refCfg {}) [] 0 root).flatMap (handedBy false nb (.typeIs 'f') [116]) = [[116, 47, 97], [116, 47, 98, 47, 99]] := by
  intro nb root
  refine ⟨?_, ⟨rfl, rfl, fun b hb => by cases hb⟩, by decide⟩
  have h : (newBatch ({} : GS).budget [99] []).isSome = true := by decide
  cases hn : newBatch ({} : GS).budget [99] [] with
  | some b => simp [nb, hn]
  | none => rw [hn] at h; cases h
end FuModel.Find.Run
