import FuModel.Proofs.ExecBatch
import FuModel.Proofs.ExecLossless

/-!
# C08 — property theorems (proofs in `Proofs/ExecBatch.lean`, `Proofs/ExecLossless.lean`)

* `C08_new_batch`, `C08_try_arg`, `C08_refused_iff` — the accounting of one command line: a path is
  appended at the end, and refused only when it does not fit what is left;
* `C08_os_accepts` — every command line built this way satisfies the kernel's acceptance predicate;
* `C08_step_lossless` — one evaluation of the action appends exactly the current entry's path to
  the sequence "already delivered ++ waiting" (or, if the path fits on no command line, leaves the
  sequence alone and sets find's status to 1);
* `C08_finished_dir_lossless`, `C08_finish_lossless` — leaving a directory (`-execdir`) and the end of
  the walk dispatch the open batch: the sequence is unchanged and nothing is left waiting — "every
  pending invocation has run by the time find exits".

Hence over any run the delivered paths are, in order, exactly those on which the action was
evaluated (minus paths too long for any command line, which set the status).  That the action is
evaluated on the right entries in the right order is C01/C02/C03; the glue between the two (the
matcher tree and the walk call `sem` and the two flushes at the places `process_dir` does) is carried
by the correspondence runs.
-/
namespace FuModel.Find.Run
open FuModel.Find.Walk

/-- non-vacuity: two paths handed to a `+` action and the final flush -/
example :
    let v1 : Visit Attr := ⟨⟨[[97]], 1, .leaf [97] .plain { lty := 'f', sty := 'f' }, false⟩, false, .never⟩
    let s0 : ES := ⟨{}, false, false, 0⟩
    let s1 := (sem [116] v1 (.execMulti 0 false true [99] []) s0).2
    handed [[99]] 0 s1.gs = [[116, 47, 97]] ∧
      handed [[99]] 0 (flushAll [(0, false, true, [99], [])] s1.gs false).1 = [[116, 47, 97]] ∧
      pendingOf 0 (flushAll [(0, false, true, [99], [])] s1.gs false).1 = [] := by decide

end FuModel.Find.Run
