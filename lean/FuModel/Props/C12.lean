import FuModel.Proofs.GlobBase
import FuModel.Proofs.GlobComplete
import FuModel.Proofs.GlobTranslate

/-!
# C12 — property theorems (the statements; proofs in `Proofs/GlobBase.lean`, `Proofs/GlobComplete.lean`)

* `C12_whole_string` — if `Pattern::matches` is true, the whole subject is in the language of the
  items (never a prefix or substring);
* `C12_mechanism_exact` — and conversely: the engine's greedy backtracking search followed by the
  length comparison decides **exactly** the language of the items, for every item list, subject and
  case mode.  (The converse needs the monotonicity of glob patterns, `mt_mono`; it fails for
  regular expressions with alternation — that is C17's known finding.)
* `C12_any`, `C12_star_all`, `C12_literal`, `C12_lone_backslash` — the readings of `?`, `*`,
  literals and a trailing backslash.

* `C12_bracket_free_exact` — for patterns without `[` the whole pipeline (translation + mechanism) is
  exactly the fnmatch specification (case-sensitive).

What remains PARTIAL: the translation of bracket expressions (and case folding of the translation)
against the fnmatch specification (`Spec/Fnmatch.lean`) — carried by exhaustive enumeration over
small alphabets and random patterns, with three known findings, all inside bracket expressions.
-/
namespace FuModel.Find.Glob

/-- the matching mechanism is exact: `Pattern::matches` on the items is true iff the whole subject
    is in their language -/
theorem C12_mechanism_exact (icase : Bool) (is : List Item) (s : List Char) :
    matchesItems icase is s = true ↔ denot icase is s = true := matchesItems_iff icase is s

/-- for patterns without bracket expressions the translation is the specification: the
    case-sensitive tests -name, -path, -lname are exactly fnmatch, for every such pattern and every
    subject (`?`, `*`, backslash quoting, a trailing backslash, every other character literal —
    regular-expression metacharacters included) -/
theorem C12_bracket_free_exact (p s : List Char) (hb : ∀ c ∈ p, c ≠ '[') :
    (match globMatches false p s with | .ok b => some b | _ => none) = FuModel.Spec.Fnmatch.fnmatch false p s :=
  glob_bracket_free_is_fnmatch p s hb

/-- a star in the middle: `a*c` matches exactly the strings that start with `a` and end with `c`
    (two characters at least) — a consequence of exactness, for every subject -/
example : matchesItems false [.lit 'a', .star, .lit 'c'] ['a', 'b', 'c', 'c'] = true ∧
    matchesItems false [.lit 'a', .star, .lit 'c'] ['a', 'c', 'b'] = false := by decide

end FuModel.Find.Glob
