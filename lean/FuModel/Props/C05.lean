import FuModel.Proofs.XargsRead
import FuModel.Proofs.XargsWords

/-!
# C05 — xargs input splitting: quoting, the -0 and -d modes, independent of read() chunking

Property theorems only (lemmas are in `Proofs/XargsRead.lean`, `Proofs/XargsWords.lean`).
The model (`Xargs/Read.lean`) mirrors `WhitespaceDelimitedArgumentReader::next` and
`ByteDelimitedArgumentReader::next`; `wsAll` drives `next()` call by call over a
list of `read()` results, `tokenizeWs` is the buffer-free one-pass function.
-/
namespace FuModel.Xargs

/-- The argument sequence (bytes and hard/soft kinds, or the error together with
    the arguments delivered before it) depends only on the concatenated input,
    never on how it is cut into `read()` results. -/
theorem C05_chunk_independent (chunks₁ chunks₂ : List (List UInt8))
    (h : chunks₁.flatten = chunks₂.flatten) : wsAll chunks₁ = wsAll chunks₂ := by
  rw [wsAll_eq_tokenize, wsAll_eq_tokenize, h]

/-- …and equals the one-pass tokenisation of the whole input. -/
theorem C05_buffered_eq_onepass (chunks : List (List UInt8)) :
    wsAll chunks = tokenizeWs chunks.flatten := wsAll_eq_tokenize chunks

/-- Default mode, generatively: an input made of words (each a sequence of plain
    bytes, backslash-quoted bytes, `'…'` and `"…"` pieces) each followed by a
    non-empty run of blanks yields exactly the words' values (quotes and
    backslashes removed, everything inside taken literally), one argument per
    word with a non-empty value, hard-terminated iff the first blank after it is
    a newline.  Leading, repeated and trailing separators add nothing
    (a leading run of blanks is an item with the empty word). -/
theorem C05_words (items : List Item) (h : ∀ it ∈ items, it.ok) :
    tokenizeWs (renderItems items) = .ok (expected items) := by
  have := tok_items items h []
  simp only [List.append_nil, tokFrom] at this
  unfold tokenizeWs
  rw [this]
  simp [RS.init, prepend_ok]

/-- …and a last word that is ended by the end of input instead of a blank is a
    soft-terminated argument (none if its value is empty). -/
theorem C05_words_last (items : List Item) (h : ∀ it ∈ items, it.ok)
    (w : List Piece) (hw : ∀ p ∈ w, p.ok) :
    tokenizeWs (renderItems items ++ renderWord w) =
      .ok (expected items ++ if valueWord w = [] then [] else [(valueWord w, false)]) := by
  have h1 := tok_items items h (renderWord w)
  have h2 := tok_word w hw [] []
  simp only [List.append_nil, List.nil_append] at h2
  unfold tokenizeWs
  rw [h1]
  change ReadAll.prepend (expected items) (tokFrom ⟨.none, []⟩ (renderWord w)) = _
  rw [h2]
  simp only [tokFrom]
  by_cases hv : valueWord w = []
  · simp [hv, prepend_ok]
  · have : (valueWord w).isEmpty = false := by cases hx : valueWord w <;> simp_all
    simp [hv, this, prepend_ok]

/-- An unmatched quote is an error, whatever precedes it (the arguments completed
    before it are still those of the preceding items). -/
theorem C05_unterminated (items : List Item) (h : ∀ it ∈ items, it.ok)
    (w : List Piece) (hw : ∀ p ∈ w, p.ok) (q : UInt8) (hq : q = 34 ∨ q = 39)
    (body : List UInt8) (hb : q ∉ body) :
    tokenizeWs (renderItems items ++ (renderWord w ++ q :: body)) = .err (expected items) := by
  have h1 := tok_items items h (renderWord w ++ q :: body)
  have h2 := tok_word w hw [] (q :: body)
  simp only [List.nil_append] at h2
  unfold tokenizeWs
  rw [h1]
  change ReadAll.prepend (expected items) (tokFrom ⟨.none, []⟩ (renderWord w ++ q :: body)) = _
  rw [h2]
  have h3 := tok_unterminated q body hb
  have hqb : isQuoteByte q = true := by rcases hq with rfl | rfl <;> decide
  simp only [tokFrom, stepByte, hqb, if_true, h3]
  simp [prepend_err]

/-- No argument is ever empty: in particular none is produced for leading,
    trailing or repeated separators (holds for *every* input byte string). -/
theorem C05_no_empty_argument (inp : List UInt8) :
    ∀ a, (tokenizeWs inp = .ok a ∨ tokenizeWs inp = .err a) → ∀ x ∈ a, x.1 ≠ [] :=
  tokFrom_nonempty RS.init inp

/-- `-0` / `-d C`: the input is split only at the delimiter byte; with segments
    `s₁ … sₙ` (none containing the delimiter) each followed by the delimiter and
    an optional unterminated last segment, the arguments are exactly the
    non-empty segments, byte for byte — no quote or backslash processing. -/
theorem C05_delim (d : UInt8) (segs : List (List UInt8)) (last : List UInt8)
    (hs : ∀ s ∈ segs, d ∉ s) (hl : d ∉ last) :
    bdAll d (segs.flatMap (· ++ [d]) ++ last) = (segs ++ [last]).filter (· ≠ []) :=
  bdAll_segments d segs last hs hl

/-! Non-vacuity: concrete inputs that meet the hypotheses. -/

example : wsAll [[97, 98], [32, 39], [99, 32, 100, 39, 10]] =
    .ok [([97, 98], false), ([99, 32, 100], true)] := by decide

example : (⟨[.plain 97, .sq [32, 34], .esc 39], [10, 32]⟩ : Item).ok := by
  refine ⟨?_, ?_, by simp⟩
  · intro p hp; simp at hp; rcases hp with rfl | rfl | rfl <;> simp [Piece.ok, isWs, isQuoteByte]
  · intro c hc; simp at hc; rcases hc with rfl | rfl <;> decide

example : tokenizeWs [32, 32, 97, 32, 32] = .ok [([97], false)] := by decide
example : tokenizeWs [97, 39, 98] = .err [] := by decide
example : bdAll 0 [97, 0, 0, 39, 32, 0] = [[97], [39, 32]] := by decide

end FuModel.Xargs
