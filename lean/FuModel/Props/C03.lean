import FuModel.Proofs.WalkRef
import FuModel.Proofs.PruneEntered

/-!
# C03 — visit order: pre/post-order (-depth); -prune cuts exactly one subtree

The order is that of the reference traversal `refNode`/`refKids` (`Spec/WalkRef.lean`): in
pre-order a directory, then its entries in listing order; in post-order its entries, then the
directory; a pruned directory contributes only itself.  The theorems transfer it to the model
of walkdir + `process_dir`.
-/
namespace FuModel.Find.Walk
variable {α σ : Type}

theorem C03_order_pre (c : RefCfg) (ev : Visit α → σ → EvalOut × σ) (hpre : c.depthFirst = false)
    (hp : PruneOk c ev) (root : Node α) (acc : σ) :
    processRoot c ev root acc = (let r := refRoot c ev root ⟨acc, 0, 0⟩; resOf r.1 r.2) :=
  processRoot_pre c ev hpre hp root acc

theorem C03_order_post (c : RefCfg) (ev : Visit α → σ → EvalOut × σ) (hpost : c.depthFirst = true)
    (root : Node α) (hH : ¬ HRootLink c root) (acc : σ) :
    processRoot c ev root acc = (let r := refRoot c ev root ⟨acc, 0, 0⟩; resOf r.1 r.2) :=
  processRoot_post c ev hpost root hH acc

/-- Post-order for every starting point and every evaluator: no configuration is excepted any more
    (`processRoot_postAny`; until `/repo` c5fa7bc a link to a directory under -H was). -/
theorem C03_order_post_any (c : RefCfg) (ev : Visit α → σ → EvalOut × σ) (hpost : c.depthFirst = true)
    (root : Node α) (acc : σ) :
    processRoot c ev root acc = (let r := refRoot c ev root ⟨acc, 0, 0⟩; resOf r.1 r.2) :=
  processRoot_postAny c ev hpost root acc

/-- The shape of the reference in pre-order: the directory is evaluated first; if that asks to
    prune, nothing below it is visited and the walk continues with whatever follows the directory
    (its siblings, other subtrees) — exactly that directory's descendants are left out. -/
theorem C03_prune_exact (c : RefCfg) (ev : Visit α → σ → EvalOut × σ) (hpre : c.depthFirst = false)
    (rp : List Name) (d : Nat) (nm : Name) (l r : Bool) (a : α) (kids : List (Node α)) (A : Acc σ) :
    refNode c ev rp d (.dir nm l r a kids) A =
      (let v := visit c ev rp d (.dir nm l r a kids) A
       if v.2.1 then (true, v.2.2)
       else if v.1 then (false, v.2.2)
       else belowRef c ev rp d ((!l || c.follows d) && decide (d < c.maxDepth)) r kids v.2.2) := by
  rw [refNode]
  simp only [hpre, Bool.false_eq_true, if_false, belowRef]

/-- … and in post-order: everything below, then the directory itself. -/
theorem C03_post_shape (c : RefCfg) (ev : Visit α → σ → EvalOut × σ) (hpost : c.depthFirst = true)
    (rp : List Name) (d : Nat) (nm : Name) (l r : Bool) (a : α) (kids : List (Node α)) (A : Acc σ) :
    refNode c ev rp d (.dir nm l r a kids) A =
      (let b := belowRef c ev rp d ((!l || c.follows d) && decide (d < c.maxDepth)) r kids A
       if b.1 then b
       else
        let v := visit c ev rp d (.dir nm l r a kids) b.2
        (v.2.1, v.2.2)) := by
  rw [refNode]
  simp only [hpost, if_true, belowRef]
  rfl

/-- Under -depth, -prune changes nothing: the traversal is the same as with every prune mark cleared. -/
theorem C03_prune_noop_depth (c : RefCfg) (ev : Visit α → σ → EvalOut × σ) (hpost : c.depthFirst = true)
    (root : Node α) (A : Acc σ) :
    refRoot c (clearPrune ev) root A = refRoot c ev root A :=
  refNode_prune_noop c ev hpost [] 0 root A

/-- The entries of a directory are taken one after another in listing order; a quit stops the rest. -/
theorem C03_siblings_in_order (c : RefCfg) (ev : Visit α → σ → EvalOut × σ) (rp : List Name) (d : Nat)
    (n : Node α) (ns : List (Node α)) (A : Acc σ) :
    refKids c ev rp d (n :: ns) A =
      (let r := refNode c ev (n.name :: rp) d n A
       if r.1 then r else refKids c ev rp d ns r.2) := by
  rw [refKids]

/-- Non-vacuity: pruning `b` in pre-order leaves out `b/c` only; in post-order nothing is left out. -/
example :
    let t : Node Unit := .dir [116] false true () [.dir [98] false true () [.leaf [99] .plain ()], .leaf [100] .plain ()]
    let ev : Visit Unit → List (List Name) → EvalOut × List (List Name) :=
      fun v s => (⟨v.ent.rpath == [[98]], false, 0⟩, s ++ [v.ent.rpath])
    (refRoot ⟨false, 0, 9, .never⟩ ev t ⟨[], 0, 0⟩).2.st = [[], [[98]], [[100]]] ∧
    (refRoot ⟨true, 0, 9, .never⟩ ev t ⟨[], 0, 0⟩).2.st = [[[99], [98]], [[98]], [[100]], []] := by decide

end FuModel.Find.Walk

namespace FuModel.Find.Run
open FuModel.Find.Walk FuModel.Find.Expr

/-- **`-prune` and `-xdev`.**  Whatever the expression, `process_dir` is asked to skip a listing only
    for an entry that is a directory by its own type and was not cut off by `-xdev` (a directory on
    another device than its starting point is yielded by the walk without being entered: there is
    nothing to skip, and skipping would drop its siblings). -/
theorem C03_prune_only_entered (m : M Prim) (start : Bytes) (v : Visit Attr) (g : GS) :
    (evalEntry m start v g).1.prune = true → enteredDir v = true :=
  evalEntry_prune_entered m start v g

/-- … so that on every visit of a well-formed world the request concerns a directory whose listing
    the walk pushed — the hypothesis `PruneOk` of `C03_order_pre`, visit by visit. -/
theorem C03_prune_only_pushed (c : RefCfg) (m : M Prim) (start : Bytes) (v : Visit Attr) (g : GS)
    (hv : VisitTyped c v) (h : (evalEntry m start v g).1.prune = true) :
    match v.ent.node with
    | .dir _ l _ _ _ => (!l || c.follows v.ent.depth) = true
    | .leaf _ _ _ => False :=
  prune_only_pushed c m start v g hv h

/-- **The pre-order statement with no hypothesis on the expression.**  For every expression, every
    option setting (`-xdev`, `-sorted`, depth bounds, follow mode) and every well-formed world
    (`wfNode`: what the driver's parser admits - the shape every observed tree has), `process_dir`
    over walkdir's iterator computes the reference traversal of the tree as the options present it
    (`viewOf`): a directory before its entries, entries in listing order, a pruned directory
    without exactly its descendants, a directory on another device reported but not entered.
    `C03_order_pre`'s hypothesis `PruneOk` is discharged by `C03_prune_only_entered` through the
    visit-relative refinement `processRoot_preN`. -/
theorem C03_order_pre_wf (c : Config) (m : M Prim) (start : Bytes) (root : Node Attr) (g : GS)
    (hpre : c.depthFirst = false) (hw : wfNode root = true) :
    processRoot (refCfg c) (evalEntry m start) (viewOf c root) g =
      (let r := refRoot (refCfg c) (evalEntry m start) (viewOf c root) ⟨g, 0, 0⟩
       resOf r.1 r.2) :=
  order_pre_wf c m start root g hpre hw

/-- Non-vacuity, on a whole run: `find r -xdev ( -name m -prune ) -o -print` where `r/m` is a mount
    point (device 2, the rest on device 1) with an entry `s` inside: `r/m` is pruned (not printed),
    its entry is not visited, and its sibling `r/z` is still visited. -/
example :
    let f : Attr := { lty := 'f', sty := 'f', l := { dev := 1 }, s := { dev := 1 } }
    let d (dev : Nat) : Attr := { lty := 'd', sty := 'd', l := { dev := dev }, s := { dev := dev } }
    let t : Node Attr := .dir [] false true (d 1)
      [.leaf [97] .plain f, .dir [109] false true (d 2) [.leaf [115] .plain f], .leaf [122] .plain f]
    (run .never [([114], some t)]
      [.xdev, .tok .lp, .tok (.prim (.name [109])), .tok (.prim .prune), .tok .rp, .tok .or_, .tok (.prim (.pathOut [] [10]))]).map
        (·.gs.out) = some [114, 10, 114, 47, 97, 10, 114, 47, 122, 10] ∧ wfNode t = true := by decide +kernel

/-- every directory node the walk would push (a real directory, or a link to one where links are
    followed) lies on device `dev` -/
def confined (followLinks : Bool) (dev : Nat) : Node Attr → Bool
  | .leaf _ _ _ => true
  | .dir _ l _ a kids => (!(!l || followLinks) || a.s.dev == dev) && confinedK kids
where confinedK : List (Node Attr) → Bool
  | [] => true
  | n :: ns => confined followLinks dev n && confinedK ns

mutual
theorem confined_cutNode (fl : Bool) (dev : Nat) (n : Node Attr) : confined fl dev (cutNode fl dev n) = true := by
  match n with
  | .leaf nm k a => simp [cutNode, confined]
  | .dir nm l r a kids =>
    simp only [cutNode]
    split
    · simp [confined]
    · rename_i h
      simp only [confined, Bool.and_eq_true]
      refine ⟨?_, confined_cutKids fl dev kids⟩
      cases hc : (!l || fl) <;> simp_all
theorem confined_cutKids (fl : Bool) (dev : Nat) (kids : List (Node Attr)) :
    confined.confinedK fl dev (cutKids fl dev kids) = true := by
  match kids with
  | [] => simp [cutKids, confined.confinedK]
  | n :: ns =>
    simp only [cutKids, confined.confinedK, Bool.and_eq_true]
    exact ⟨confined_cutNode fl dev n, confined_cutKids fl dev ns⟩
end

/-- **`-xdev` confines the walk.**  In the tree `-xdev` presents (`cutRoot`), every directory below
    the starting point whose listing the walk pushes lies on the starting point's device: a
    directory elsewhere is an entry (it is reported) that is never entered.  With C02's refinement
    (the visits are those of the reference traversal of this tree) nothing on another file system
    is visited except the mount points themselves. -/
theorem C03_xdev_confined (f : Follow) (nm : Name) (l r : Bool) (a : Attr) (kids : List (Node Attr)) :
    ∃ kids', cutRoot f (.dir nm l r a kids) = .dir nm l r a kids' ∧
      confined.confinedK (f == .always) a.s.dev kids' = true :=
  ⟨cutKids (f == .always) a.s.dev kids, rfl, confined_cutKids _ _ _⟩

/-- `viewOf` is the tree `process_dir` walks: `run` hands it the starting point as `-xdev` presents
    it (`cutRoot`), `process_dir` sorts the listings under `-sorted` - so `C03_order_pre_wf` and
    `C03_order_post_any` are statements about the walk `run` performs on each starting point. -/
theorem C03_processDir_view (c : Config) (m : M Prim) (start : Bytes) (root : Node Attr) (g : GS) :
    processDir c m start (some (if c.xdev then cutRoot c.follow root else root)) g =
      (let r := processRoot (refCfg c) (evalEntry m start) (viewOf c root) { g with curDir := none }
       let f := finishDir m r.st
       ⟨f.1, if f.2 then 1 else r.ret, r.quit, r.diags⟩) := rfl

end FuModel.Find.Run
