import FuModel.Proofs.WalkRef

/-!
# C03 — visit order: pre/post-order (-depth); -prune cuts exactly one subtree

The order is that of the reference traversal `refNode`/`refKids` (`Spec/WalkRef.lean`): in
pre-order a directory, then its entries in listing order; in post-order its entries, then the
directory; a pruned directory contributes only itself.  The theorems transfer it to the model
of walkdir + `process_dir`.
-/
namespace FuModel.Find.Walk
variable {α σ : Type}

theorem C03_order_pre (c : RefCfg) (ev : Visit α → σ → EvalOut × σ) (hpre : c.depthFirst = false)
    (hp : PruneOk c ev) (root : Node α) (acc : σ) :
    processRoot c ev root acc = (let r := refRoot c ev root ⟨acc, 0, 0⟩; resOf r.1 r.2) :=
  processRoot_pre c ev hpre hp root acc

theorem C03_order_post (c : RefCfg) (ev : Visit α → σ → EvalOut × σ) (hpost : c.depthFirst = true)
    (root : Node α) (hH : ¬ HRootLink c root) (acc : σ) :
    processRoot c ev root acc = (let r := refRoot c ev root ⟨acc, 0, 0⟩; resOf r.1 r.2) :=
  processRoot_post c ev hpost root hH acc

/-- The shape of the reference in pre-order: the directory is evaluated first; if that asks to
    prune, nothing below it is visited and the walk continues with whatever follows the directory
    (its siblings, other subtrees) — exactly that directory's descendants are left out. -/
theorem C03_prune_exact (c : RefCfg) (ev : Visit α → σ → EvalOut × σ) (hpre : c.depthFirst = false)
    (rp : List Name) (d : Nat) (nm : Name) (l r : Bool) (a : α) (kids : List (Node α)) (A : Acc σ) :
    refNode c ev rp d (.dir nm l r a kids) A =
      (let v := visit c ev rp d (.dir nm l r a kids) A
       if v.2.1 then (true, v.2.2)
       else if v.1 then (false, v.2.2)
       else belowRef c ev rp d ((!l || c.follows d) && decide (d < c.maxDepth)) r kids v.2.2) := by
  rw [refNode]
  simp only [hpre, Bool.false_eq_true, if_false, belowRef]

/-- … and in post-order: everything below, then the directory itself. -/
theorem C03_post_shape (c : RefCfg) (ev : Visit α → σ → EvalOut × σ) (hpost : c.depthFirst = true)
    (rp : List Name) (d : Nat) (nm : Name) (l r : Bool) (a : α) (kids : List (Node α)) (A : Acc σ) :
    refNode c ev rp d (.dir nm l r a kids) A =
      (let b := belowRef c ev rp d ((!l || c.follows d) && decide (d < c.maxDepth)) r kids A
       if b.1 then b
       else
        let v := visit c ev rp d (.dir nm l r a kids) b.2
        (v.2.1, v.2.2)) := by
  rw [refNode]
  simp only [hpost, if_true, belowRef]
  rfl

/-- Under -depth, -prune changes nothing: the traversal is the same as with every prune mark cleared. -/
theorem C03_prune_noop_depth (c : RefCfg) (ev : Visit α → σ → EvalOut × σ) (hpost : c.depthFirst = true)
    (root : Node α) (A : Acc σ) :
    refRoot c (clearPrune ev) root A = refRoot c ev root A :=
  refNode_prune_noop c ev hpost [] 0 root A

/-- The entries of a directory are taken one after another in listing order; a quit stops the rest. -/
theorem C03_siblings_in_order (c : RefCfg) (ev : Visit α → σ → EvalOut × σ) (rp : List Name) (d : Nat)
    (n : Node α) (ns : List (Node α)) (A : Acc σ) :
    refKids c ev rp d (n :: ns) A =
      (let r := refNode c ev (n.name :: rp) d n A
       if r.1 then r else refKids c ev rp d ns r.2) := by
  rw [refKids]

/-- Non-vacuity: pruning `b` in pre-order leaves out `b/c` only; in post-order nothing is left out. -/
example :
    let t : Node Unit := .dir [116] false true () [.dir [98] false true () [.leaf [99] .plain ()], .leaf [100] .plain ()]
    let ev : Visit Unit → List (List Name) → EvalOut × List (List Name) :=
      fun v s => (⟨v.ent.rpath == [[98]], false, 0⟩, s ++ [v.ent.rpath])
    (refRoot ⟨false, 0, 9, .never⟩ ev t ⟨[], 0, 0⟩).2.st = [[], [[98]], [[100]]] ∧
    (refRoot ⟨true, 0, 9, .never⟩ ev t ⟨[], 0, 0⟩).2.st = [[[99], [98]], [[98]], [[100]], []] := by decide

end FuModel.Find.Walk
