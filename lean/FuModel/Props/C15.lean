import FuModel.Find.Time

/-!
# C15 — time tests: whole elapsed periods, strict -newer, -newerXY uses X and Y

Model: `Find/Time.lean` (mirrors `FileTimeMatcher`, `FileAgeRangeMatcher`, `NewerMatcher`,
`NewerOptionMatcher`).  Timestamps are nanosecond counts.
-/
namespace FuModel.Find

theorem ageUnits_nonneg (period : Nat) (now t : Int) (h : t ≤ now) :
    ageUnits period now t = (((now - t).toNat / (period * 1000000000) : Nat) : Int) := by
  unfold ageUnits
  simp only [ge_iff_le, h, if_true, nsPerSec]
  rw [Int.tdiv_eq_ediv_of_nonneg (by omega), ← Int.natCast_ediv, Nat.div_div_eq_div_mul,
    Nat.mul_comm]

/-- `-mtime`, `-atime`, `-ctime` N compare N with the number of complete 24-hour periods in
    (now - timestamp): the floor of the nanosecond difference over 86400·10⁹, for every
    nanosecond value. -/
theorem C15_days (now t : Int) (h : t ≤ now) :
    ageUnits 86400 now t = (((now - t).toNat / (86400 * 1000000000) : Nat) : Int) :=
  ageUnits_nonneg 86400 now t h

/-- `-mmin`, `-amin`, `-cmin` likewise with complete minutes. -/
theorem C15_minutes (now t : Int) (h : t ≤ now) :
    ageUnits 60 now t = (((now - t).toNat / (60 * 1000000000) : Nat) : Int) :=
  ageUnits_nonneg 60 now t h

/-- Stated on the boundary the property singles out: with k complete periods and a
    remainder r < period, the age is exactly k (so k·period - ε gives k-1, k·period and
    k·period + ε give k). -/
theorem C15_boundary (periodSecs k r : Nat) (now t : Int) (hp : 0 < periodSecs)
    (hr : r < periodSecs * 1000000000) (hd : now - t = ((k * (periodSecs * 1000000000) + r : Nat) : Int)) :
    ageUnits periodSecs now t = k := by
  have hle : t ≤ now := by omega
  rw [ageUnits_nonneg _ _ _ hle, hd]
  simp only [Int.toNat_natCast]
  have hpos : 0 < periodSecs * 1000000000 := Nat.mul_pos hp (by decide)
  rw [Nat.mul_comm k, Nat.mul_add_div hpos, Nat.div_eq_of_lt hr]
  simp

/-- The comparison with N is the N, +N, -N reading of that number of periods. -/
theorem C15_forms (period n p : Nat) (now t : Int) (h : t ≤ now)
    (hp : p = (now - t).toNat / (period * 1000000000)) :
    (ageMatches (.eq n) period now t ↔ p = n) ∧ (ageMatches (.more n) period now t ↔ p > n) ∧
    (ageMatches (.less n) period now t ↔ p < n) := by
  have hp' : ageUnits period now t = (p : Int) := by rw [hp]; exact ageUnits_nonneg _ _ _ h
  unfold ageMatches
  rw [hp']
  simp only [Cmp.imatches, Bool.and_eq_true, Bool.or_eq_true, decide_eq_true_eq, Int.toNat_natCast]
  omega

/-- Each test reads its own timestamp. -/
theorem C15_kinds (c : Cmp) (period : Nat) (now : Int) (e : Times) :
    ageTest .a c period now e = ageMatches c period now e.atime ∧
    ageTest .c c period now e = ageMatches c period now e.ctime ∧
    ageTest .m c period now e = ageMatches c period now e.mtime := ⟨rfl, rfl, rfl⟩

/-- `-newer F`: strictly later modification time, at nanosecond resolution. -/
theorem C15_newer_strict (e f : Times) : newer e f ↔ e.mtime > f.mtime := by
  simp [newer, isLater]

/-- `-newerXY F`: the entry's X timestamp strictly later than F's Y timestamp. -/
theorem C15_newerXY (x y : TKind) (e f : Times) : newerXY x y e f ↔ e.get x > f.get y := by
  simp [newerXY, isLater]

/-- `-anewer` = `-neweram`, `-cnewer` = `-newercm`, `-newer` = `-newermm`. -/
theorem C15_aliases :
    newerArgs "-anewer" = newerArgs "-neweram" ∧ newerArgs "-cnewer" = newerArgs "-newercm" ∧
    newerArgs "-newer" = newerArgs "-newermm" ∧ newerArgs "-neweram" = some (.a, .m) ∧
    newerArgs "-newerca" = some (.c, .a) := by decide

theorem C15_newer_is_mm (e f : Times) : newer e f = newerXY .m .m e f := rfl

/-- Non-vacuity: one nanosecond short of a day is 0 days, a full day is 1; equal times are not newer;
    X and Y both matter (three distinct timestamps). -/
example : ageUnits 86400 (86400 * 1000000000 - 1) 0 = 0 ∧ ageUnits 86400 (86400 * 1000000000) 0 = 1 ∧
    newer ⟨0, 0, 5⟩ ⟨0, 0, 5⟩ = false ∧ newer ⟨0, 0, 6⟩ ⟨0, 0, 5⟩ = true ∧
    newerXY .a .c ⟨10, 0, 0⟩ ⟨99, 5, 99⟩ = true ∧ newerXY .a .c ⟨10, 99, 99⟩ ⟨0, 10, 0⟩ = false := by decide

end FuModel.Find
