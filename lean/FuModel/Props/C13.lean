import FuModel.Find.Perm
import FuModel.Spec.WalkRef

/-!
# C13 — the type, perm, owner and link tests are functions of the right stat record

Model: `Find/Run.lean` (`WalkEntry::metadata` / `file_type`, `Follow::metadata`, the matchers),
`Find/Perm.lean` (`-perm` operand parsing over a model of uucore's mode parser).
-/
namespace FuModel.Find.Run
open FuModel.Find.Walk FuModel.Find.Perm

/-- the status record the follow mode selects, from the property text: lstat under -P; stat —
    falling back to lstat for a dangling link — under -L; under -H stat for starting points only.
    `none` = the status cannot be obtained (too many levels of symbolic links). -/
def recordSpec (f : Follow) (depth : Nat) (a : Attr) : Option (Char × Rec) :=
  let stat : Option (Char × Rec) :=
    if a.sty == 'L' then none else if a.sty == 'N' then some (a.lty, a.l) else some (a.sty, a.s)
  match f with
  | .never => some (a.lty, a.l)
  | .always => stat
  | .roots => if depth == 0 then stat else some (a.lty, a.l)

/-- what the observation pass guarantees about a node and its records -/
def AttrOk : Node Attr → Prop
  | .leaf _ .plain a => a.sty = a.lty ∧ a.s = a.l ∧ a.lty ≠ 'N' ∧ a.lty ≠ 'L'
  | .leaf _ .linkFile a => a.sty ≠ 'N' ∧ a.sty ≠ 'L'
  | .leaf _ .linkDangling a => a.sty = 'N'
  | .leaf _ .linkLoop _ => True
  | .dir _ false _ a _ => a.sty = a.lty ∧ a.s = a.l ∧ a.lty ≠ 'N' ∧ a.lty ≠ 'L'
  | .dir _ true _ a _ => a.sty = 'd'

def nodeAttr : Node Attr → Attr
  | .leaf _ _ a => a
  | .dir _ _ _ a _ => a

/-- Every test that looks at the status record sees the record the follow mode selects: for every
    entry view the traversal hands to the expression (every node kind, depth and follow mode;
    a link closing a cycle is never evaluated where it would be followed). -/
theorem C13_record (c : RefCfg) (rp : List Name) (d : Nat) (n : Node Attr) (hok : AttrOk n)
    (hloop : ∀ nm a, n = .leaf nm .linkLoop a → c.follows d = false) :
    metaOf (mkVisit c rp d n) = recordSpec c.follow d (nodeAttr n) := by
  have hfc : c.follow = .never ∨ c.follow = .roots ∨ c.follow = .always := by cases c.follow <;> simp
  cases n with
  | leaf nm k a =>
    cases k <;> rcases hfc with hf | hf | hf <;> cases hd : (d == 0) <;>
      simp_all [mkVisit, metaOf, recordSpec, attrOf, nodeAttr, followAt, RefCfg.follows, LeafKind.isLink, AttrOk]
  | dir nm l r a kids =>
    cases l <;> rcases hfc with hf | hf | hf <;> cases hd : (d == 0) <;>
      simp_all [mkVisit, metaOf, recordSpec, attrOf, nodeAttr, followAt, RefCfg.follows, AttrOk]

/-- -links, -inum, -uid, -gid (and -user, -group, which are -uid, -gid after the name lookup) and
    -perm are functions of that record and of nothing else. -/
theorem C13_tests_pure (start : Bytes) (v : Visit Attr) (s : ES) (f : StatField) (cmp : FuModel.Find.Cmp)
    (k : PermKind) (m : Nat) :
    (sem start v (.statCmp f cmp) s = ((match metaOf v with | some (_, r) => cmp.matches (r.field f) | none => false), s)) ∧
    (sem start v (.perm k m) s = ((match metaOf v with | some (_, r) => permMatch k m r.perm | none => false), s)) :=
  ⟨rfl, rfl⟩

/-- -perm MODE: the twelve bits equal MODE; -perm -MODE: every bit of MODE is set; -perm /MODE:
    some bit of MODE is set, or MODE is 0. -/
theorem C13_perm_modes (m v : Nat) :
    (permMatch .exact m v = true ↔ v % 4096 = m) ∧
    (permMatch .atLeast m v = true ↔ v &&& m = m) ∧
    (permMatch .anyOf m v = true ↔ m = 0 ∨ v &&& m ≠ 0) := by
  simp [permMatch]

/-- Symbolic and octal spellings of the same mode are interchangeable: for each of the 4096 modes
    the octal spelling and the spelling `u=…,g=…,o=…` parse to that mode (complete enumeration,
    evaluated by the kernel). -/
theorem C13_perm_spelling :
    (List.range 4096).all (fun m => parseMode (octalSpelling m) == some m && parseMode (symbolicSpelling m) == some m) = true := by
  decide +kernel

/-- … with each of the three prefixes. -/
theorem C13_perm_prefix (rest : List Char) (m : Nat) (h : parseMode rest = some m) :
    parsePerm ('-' :: rest) = some (.atLeast, m) ∧ parsePerm ('/' :: rest) = some (.anyOf, m) := by
  simp [parsePerm, splitKind, h]

/-- -xtype makes the opposite choice from -type: where the entry's own view follows links it looks
    at the link itself, and where the view does not follow it looks through the link (a dangling
    link is then still a link; too many levels of links count as a link). -/
theorem C13_xtype_flips (v : Visit Attr) :
    xtypeOf v =
      (if followAt v.follow v.ent.depth then some (attrOf v).lty
       else if fileType v != 'l' then some (fileType v)
       else if (attrOf v).sty == 'N' then some 'l'
       else if (attrOf v).sty == 'L' then none else some (attrOf v).sty) := rfl

/-- -lname sees a symbolic link only where the link itself is the entry: it is false for every
    entry whose type, as the follow mode presents it, is not "link". -/
theorem C13_lname_needs_link (start : Bytes) (v : Visit Attr) (s : ES) (l : Bytes)
    (h : (sem start v (.lname l) s).1 = true) : fileType v = 'l' ∧ (attrOf v).target = l := by
  simpa [sem] using h

/-- -empty: a regular file of size 0 or a directory without entries, judged on the entry's own view. -/
theorem C13_empty (start : Bytes) (v : Visit Attr) (s : ES) :
    (sem start v .empty s).1 =
      (if fileType v == 'f' then (match metaOf v with | some (_, r) => r.size == 0 | none => false)
       else if fileType v == 'd' then (match v.ent.node with | .dir _ _ _ _ kids => kids.isEmpty | _ => false)
       else false) := rfl

example : parsePerm "-u=rwx,go=w".toList = some (.atLeast, 0o722) := by decide
example : permMatch .anyOf 0 0o644 = true ∧ permMatch .exact 0o4755 0o104755 = true ∧ permMatch .atLeast 0o111 0o644 = false := by decide

end FuModel.Find.Run
