import FuModel.Xargs.Opts
namespace FuModel.Xargs
theorem C20_placeholder : (normalize [.replI [95], .n 1]).replace = some [95] := by decide
end FuModel.Xargs
