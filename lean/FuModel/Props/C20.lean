import FuModel.Proofs.XargsReplace
import FuModel.Proofs.XargsReplaceMain

/-!
C20: replace mode (`-I R`, `-i`, `--replace`).  One command per input line, R replaced by
the whole line in every initial argument, empty input runs nothing, and the rule that
decides between `-n`, `-L` and the replace options (the last one wins, except that a
replace option together with `-n 1` and no `-L` is no conflict).
-/
namespace FuModel.Xargs

/-- Why `C20_one_run_per_line` needs its hypothesis `hr`: for an arbitrary configuration with
    `-r` off and no input line at all the main loop still runs the command once (with no appended
    argument), so `batches = [[]]`, not `[]`.  Replace mode always has `r` on (`xargsMain`,
    after the `fix:` for the empty-input panic), which is what `C20_empty_ok` uses. -/
theorem C20_without_r_empty_input_runs_once :
    ¬ (∀ (cfg : Config) (init : LState) (script : List Outcome) (lines : List (List UInt8)),
        cfg.lim.n = some 1 → cfg.lim.l = none →
        (∀ l ∈ lines, fitsB cfg.lim init [⟨l, .hard⟩] = true) →
        (∀ o ∈ script, o.isFatal = false) →
        (processInput cfg init false ⟨init, []⟩ false false [] script
            (lines.map (fun l => (⟨l, .hard⟩ : Arg)))).batches
          = lines.map (fun l => [(⟨l, .hard⟩ : Arg)])) := by
  intro h
  have h' := h ⟨⟨some 1, none, none, 1000, 8, 131072⟩, false, false, none⟩ LState.zero [] []
    rfl rfl (by simp) (by simp)
  revert h'
  decide

/-- Replace mode (`-n 1`, no `-L`, `-r` implied): one command per input line, in order, each with
    exactly that line as its only appended argument — blanks inside a line do not split it
    (lines are whole arguments here) — as long as no child outcome is fatal.
    `hr`: `-r` is in force (as it always is in replace mode, see `xargsMain`) or there is at
    least one line. -/
theorem C20_one_run_per_line (cfg : Config) (init : LState) (script : List Outcome)
    (lines : List (List UInt8))
    (hn : cfg.lim.n = some 1) (hl : cfg.lim.l = none)
    (hr : cfg.r = true ∨ lines ≠ [])
    (hfit : ∀ l ∈ lines, fitsB cfg.lim init [⟨l, .hard⟩] = true)
    (hnf : ∀ o ∈ script, o.isFatal = false) :
    (processInput cfg init false ⟨init, []⟩ false false [] script
        (lines.map (fun l => (⟨l, .hard⟩ : Arg)))).batches
      = lines.map (fun l => [(⟨l, .hard⟩ : Arg)]) :=
  have _ := hl
  processInput_one_per_line cfg init script lines hn hr hfit hnf

/-- The argv of a replace-mode command: the program, then every initial argument with R replaced
    by the whole line; nothing is appended. -/
theorem C20_argv (prog : List UInt8) (initial : List (List UInt8)) (R line : List UInt8) (k : Kind) :
    argvOf (prog :: initial) (some R) [⟨line, k⟩] = prog :: initial.map (replaceIn R line) := rfl

/-- An initial argument without R is passed unchanged. -/
theorem C20_replace_absent (pat rep s : List UInt8) (hp : pat ≠ []) (h : ¬ occursIn pat s) :
    replaceIn pat rep s = s :=
  have _ := hp
  replaceAll_absent pat rep _ s h

/-- Every occurrence is replaced, left to right, and the inserted line is not rescanned
    (a line containing R itself is inserted verbatim): the first occurrence of `pat` is
    replaced by `rep` and replacement continues after it. -/
theorem C20_replace_first (pat rep pre post : List UInt8) (hp : pat ≠ [])
    (h : ¬ occursIn pat (pre ++ pat.dropLast)) :
    replaceIn pat rep (pre ++ pat ++ post) = pre ++ rep ++ replaceIn pat rep post :=
  replaceAll_first pat rep post hp pre _ (Nat.le_succ _) h

/-- Empty input in replace mode runs nothing and is not an error. -/
theorem C20_empty (opts : List Opt) (cmd : List (List UInt8)) (script : List Outcome) (sys : Nat)
    (hrep : (normalize opts).replace.isSome = true) :
    xargsMain opts cmd [] script sys = ⟨0, []⟩ ∨ xargsMain opts cmd [] script sys = ⟨1, []⟩ := by
  obtain ⟨d, hd⟩ := normalize_delim_of_replace opts hrep
  unfold xargsMain
  split
  · exact Or.inr rfl
  · split
    · exact Or.inr rfl
    · split
      · exact Or.inr rfl
      · simp only []
        split
        · exact Or.inr rfl
        · left
          simp [hd, readInput, bdAll, bdFrom, processInput, hrep]

/-- …and it is status 0 whenever the options are acceptable and the command itself fits. -/
theorem C20_empty_ok (opts : List Opt) (cmd : List (List UInt8)) (script : List Outcome) (sys : Nat)
    (hrep : (normalize opts).replace.isSome = true)
    (hutf : cmd.any (fun w => !FuModel.Utf8.validUtf8 w) = false)
    (hdup : dupOpts opts = false)
    (hpos : opts.any (fun | .n 0 => true | .l 0 => true | .s 0 => true | _ => false) = false)
    (hfit : (initState ⟨(normalize opts).n, (normalize opts).l,
               lastVal opts (fun | .s v => some v | _ => none), sys, 8, 131072⟩ LState.zero cmd).isSome = true) :
    xargsMain opts cmd [] script sys = ⟨0, []⟩ := by
  obtain ⟨d, hd⟩ := normalize_delim_of_replace opts hrep
  unfold xargsMain
  split
  · rename_i h
    rw [hutf] at h
    exact absurd h (by simp)
  · split
    · rename_i h
      rw [hdup] at h
      exact absurd h (by simp)
    · split
      · rename_i h
        exact absurd (hpos.symm.trans h) (by simp)
      · simp only []
        split
        · rename_i hnone
          obtain ⟨init, hinit⟩ := Option.isSome_iff_exists.mp hfit
          exact absurd (hnone.symm.trans hinit) (by simp)
        · simp [hd, readInput, bdAll, bdFrom, processInput, hrep]

/-- Mode selection, replace last: if a replace option (-I, -i, --replace) is given after the last
    -n and after the last -L, the run is in replace mode (one argument per command, no line limit). -/
theorem C20_mode_replace_last (opts : List Opt) (i : Nat)
    (hi : lastIndex opts Opt.isRepl = some i)
    (hn : ∀ j, lastIndex opts Opt.isN = some j → j < i)
    (hl : ∀ j, lastIndex opts Opt.isL = some j → j < i) :
    (normalize opts).replace.isSome = true ∧ (normalize opts).n = some 1 ∧ (normalize opts).l = none := by
  rw [normalize_n, normalize_l, normalize_replace, selOf, hi]
  refine sel_replace_last _ _ _ _ _ i ?_ hn hl
  rw [Ne, ← lastIndex_R_none, hi]
  simp

/-- Mode selection, -L last: replace mode is off and only the line limit is in force. -/
theorem C20_mode_lines_last (opts : List Opt) (i : Nat)
    (hi : lastIndex opts Opt.isL = some i)
    (hn : ∀ j, lastIndex opts Opt.isN = some j → j < i)
    (hr : ∀ j, lastIndex opts Opt.isRepl = some j → j < i) :
    (normalize opts).replace = none ∧ (normalize opts).n = none ∧
      (normalize opts).l = lastVal opts (fun | .l v => some v | _ => none) := by
  rw [normalize_n, normalize_l, normalize_replace, selOf, hi]
  refine sel_lines_last _ _ _ _ _ i ?_ hn hr
  rw [Ne, ← lastIndex_L_none, hi]
  simp

/-- Mode selection, -n last with a real conflict (a -L is present, or the value is not 1):
    replace mode is off and only the argument limit is in force. -/
theorem C20_mode_args_last (opts : List Opt) (i v : Nat)
    (hi : lastIndex opts Opt.isN = some i)
    (hv : lastVal opts (fun | .n v => some v | _ => none) = some v)
    (hl : ∀ j, lastIndex opts Opt.isL = some j → j < i)
    (hr : ∀ j, lastIndex opts Opt.isRepl = some j → j < i)
    (hconf : v ≠ 1 ∨ (lastIndex opts Opt.isL).isSome = true ∨ (lastIndex opts Opt.isRepl) = none) :
    (normalize opts).replace = none ∧ (normalize opts).n = some v ∧ (normalize opts).l = none := by
  have hv' : lastVal opts nProj = some v := hv
  rw [normalize_n, normalize_l, normalize_replace, selOf, hi, hv']
  exact sel_args_last _ _ _ _ i v (lastIndex_L_none opts) (lastIndex_R_none opts) hl hr hconf

/-- -I together with -n 1 (and no -L) is not a conflict, in either order: replace mode. -/
theorem C20_mode_replace_with_n1 (opts : List Opt)
    (hr : (lastIndex opts Opt.isRepl).isSome = true)
    (hn : lastVal opts (fun | .n v => some v | _ => none) = some 1)
    (hl : lastIndex opts Opt.isL = none) :
    (normalize opts).replace.isSome = true ∧ (normalize opts).n = some 1 ∧ (normalize opts).l = none := by
  have hn' : lastVal opts nProj = some 1 := hn
  have hl' : lastVal opts lProj = none := (lastIndex_L_none opts).mp hl
  rw [normalize_n, normalize_l, normalize_replace, selOf, hn', hl']
  refine sel_replace_with_n1 _ _ _ _ ?_
  rw [Ne, ← lastIndex_R_none]
  intro hc
  rw [hc] at hr
  simp at hr

/-! ### Concrete instances -/

/-- `-I {}` with `echo a{}b{}` on the two lines `p q` and `{}`: blanks stay inside the
    argument, both occurrences are replaced, an inserted `{}` is not rescanned. -/
example :
    xargsMain [.replI [123, 125]] [[101], [97, 123, 125, 98, 123, 125]]
      [112, 32, 113, 10, 123, 125, 10] [] 100000
    = ⟨0, [[[101], [97, 112, 32, 113, 98, 112, 32, 113]],
           [[101], [97, 123, 125, 98, 123, 125]]]⟩ := by decide

/-- overlapping candidates: left to right, non-overlapping (`aa` in `aaa` once) -/
example : replaceIn [97, 97] [120] [97, 97, 97, 98, 97, 97] = [120, 97, 98, 120] := by decide

/-- the last of -L, -I, -n wins -/
example : (normalize [.l 2, .n 3, .replI [95]]).replace = some [95] ∧
    (normalize [.l 2, .n 3, .replI [95]]).n = some 1 ∧
    (normalize [.l 2, .n 3, .replI [95]]).l = none := by decide

example : (normalize [.replI [95], .n 3, .l 2]) = ⟨none, some 2, none, none⟩ := by decide

example : (normalize [.replI [95], .l 2, .n 1]) = ⟨some 1, none, none, none⟩ := by decide

/-- `-n 1` after `-I` (no `-L`) keeps replace mode -/
example : (normalize [.repl none, .n 1]) = ⟨some 1, none, some [123, 125], some 10⟩ := by decide

/-- empty input, `-i`: nothing runs, status 0 -/
example : xargsMain [.repl none] [[101], [123, 125]] [] [.exit 1] 100000 = ⟨0, []⟩ := by decide

/-- a failing child does not stop the run; status 123 -/
example :
    xargsMain [.replI [37]] [[101], [37]] [49, 10, 50, 10] [.exit 1] 100000
    = ⟨123, [[[101], [49]], [[101], [50]]]⟩ := by decide

/-- **-s in replace mode.**  Every command `xargs -I R -s S CMD …` starts has at most S characters
    after substitution, counting every word with its terminator - however many occurrences of R
    were replaced. -/
theorem C20_max_chars (opts : List Opt) (cmd : List (List UInt8)) (input : List UInt8)
    (script : List Outcome) (sys : Nat) (R : List UInt8) (hR : (normalize opts).replace = some R)
    (S : Nat) (hS : sOptOf opts = some S) :
    ∀ av ∈ (xargsMain opts cmd input script sys).argvs, (av.map (fun a => cost a)).sum ≤ S := by
  obtain ⟨lim, _, _, _, hs, h⟩ := main_replace_fits opts cmd input script sys R hR
  intro av hav
  obtain ⟨b, rfl, hb⟩ := h av hav
  unfold substFits at hb
  obtain ⟨init, hinit⟩ := Option.isSome_iff_exists.mp hb
  have := initState_s lim LState.zero init _ S (hs.trans hS) hinit (Nat.zero_le _)
  have h1 := this.1
  have h2 := this.2
  simp only [LState.zero, Nat.zero_add] at h1
  omega

/-- the statement on a concrete run: `printf 'dogu\nab\n' | xargs -I{} -s 17 cmd {}{} {}` - the first
    line would give 3+1 + 8+1 + 4+1 = 18 characters: nothing is run, status 1; with `-s 18` it runs,
    and the second line too -/
example :
    xargsMain [.replI [123, 125], .s 17] [[99, 109, 100], [123, 125, 123, 125], [123, 125]] [100, 111, 103, 117, 10, 97, 98, 10] [] 2091065
      = ⟨1, []⟩ ∧
    (xargsMain [.replI [123, 125], .s 18] [[99, 109, 100], [123, 125, 123, 125], [123, 125]] [100, 111, 103, 117, 10, 97, 98, 10] [] 2091065).argvs
      = [[[99, 109, 100], [100, 111, 103, 117, 100, 111, 103, 117], [100, 111, 103, 117]], [[99, 109, 100], [97, 98, 97, 98], [97, 98]]] := by
  decide +kernel

end FuModel.Xargs
