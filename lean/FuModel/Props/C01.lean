import FuModel.Proofs.ExprEval

/-!
# C01 — expression semantics: precedence, short-circuit, default -print, -quit

Model: `Find/Expr.lean` (`build_matcher_tree`, the three builders, the four combinators).
Reference: `Spec/ExprRef.lean` (the grammar of the property as syntax trees `X`, their
rendering to tokens, and the textbook evaluation).  "All expressions derivable from the
grammar" is `∀ l, WF l → …` over the rendering `renderL l`.
-/
namespace FuModel.Find.Expr
variable {P σ : Type}

/-- The parser accepts every sentence of the grammar and builds the tree the grammar
    prescribes (parentheses, then `!`, then -a/juxtaposition, then -o, then `,`). -/
theorem C01_parse (l : List (List (List (X P)))) (h : WF l) : buildTree (renderL l) = .ok (treeL l) := by
  have := run_L l h [] [] St.empty false
  rw [List.append_nil] at this
  rw [buildTree, this, run, stL_build l h]

/-- … and evaluating that tree on a file is the reference evaluation of the expression, for every
    meaning of the primaries and every initial state: same truth value, same final state (hence
    the same sequence of action outputs, prune mark, exit code and quit flag). -/
theorem C01_parse_eval (l : List (List (List (X P)))) (h : WF l) :
    ∃ m, buildTree (renderL l) = .ok m ∧
      ∀ (sem : P → σ → Bool × σ) (quit : σ → Bool) (s : σ), M.eval sem quit m s = refL sem quit l false s :=
  ⟨treeL l, C01_parse l h, fun sem quit s => eval_treeL sem quit l s⟩

/-- `-print` is and-ed to the whole expression iff it contains no action — syntactically: also when
    the only actions are nested, negated or unreachable. -/
theorem C01_default_print (isAction : P → Bool) (print : P) (l : List (List (List (X P)))) (h : WF l) :
    buildTop isAction print (renderL l) =
      .ok (if actL isAction l then treeL l else .and [treeL l, .prim print]) := by
  rw [buildTop, C01_parse l h]
  simp only [hasSE_treeL]
  split <;> simp_all

/-- What the added `-print` does: it is evaluated after the whole expression, exactly when that was
    true and quit has not fired. -/
theorem C01_default_print_eval (sem : P → σ → Bool × σ) (quit : σ → Bool) (m : M P) (print : P) (s : σ) :
    M.eval sem quit (.and [m, .prim print]) s =
      (let r := M.eval sem quit m s
       if !r.1 then (false, r.2) else if quit r.2 then (true, r.2) else
         let r' := sem print r.2
         if !r'.1 then (false, r'.2) else (true, r'.2)) := by
  simp only [M.eval, evalAnd]
  generalize M.eval sem quit m s = r
  obtain ⟨v, t⟩ := r
  cases v <;> cases hq : quit t <;> simp
  split
  · rfl
  · exact ite_self _

/-- Once quit holds nothing further is evaluated for that file: in an evaluation that starts in a
    state without quit, no primary is ever evaluated in a state where quit already holds
    (`instr` counts such evaluations; `instr_M` shows the counting changes nothing else). -/
theorem C01_quit_stops (sem : P → σ → Bool × σ) (quit : σ → Bool) (m : M P) (s : σ) (h : quit s = false) :
    (M.eval (instr sem quit) (quit' quit) m (s, 0)).2.2 = 0 ∧
    ((M.eval (instr sem quit) (quit' quit) m (s, 0)).1, (M.eval (instr sem quit) (quit' quit) m (s, 0)).2.1)
      = M.eval sem quit m s :=
  ⟨late_M sem quit m (s, 0) h, instr_M sem quit m (s, 0)⟩

/-! Non-vacuity: `! ( a -o b ) , c -a x d` is a sentence; it renders and parses as expected. -/
def exampleL : List (List (List (X Nat))) :=
  [[[.not (.group [[[.prim 0], [.prim 1]]])]], [[.prim 2, .a (.prim 9), .prim 3]]]

example : wfL exampleL = true := by decide
example : renderL exampleL =
    [.bang, .lp, .prim 0, .or_, .prim 1, .rp, .comma, .prim 2, .and_, .prim 9, .prim 3] := by decide

end FuModel.Find.Expr
