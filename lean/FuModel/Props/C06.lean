import FuModel.Props.C04
import FuModel.Proofs.XargsExec
import FuModel.Proofs.XargsReplaceMain

/-!
# C06 — xargs never builds a command line the operating system rejects

`execAccepts` is the model of the Linux `execve` limits (`ExecLimit.lean`; an
assumption about the kernel that the harness validates against the real kernel
on every run).  The theorems say: with the system limiter configured as
`new_system` does (budget `ARG_MAX - 2048 - environment`, environment counted
with one pointer per variable, one pointer charged per argument, single
arguments capped at `MAX_ARG_STRLEN`), every command `process_input` starts is
accepted, whatever the number and sizes of the arguments, the environment and
the stack limit behind `ARG_MAX`; and an argument above the cap ends the run
with a non-success status without ever being handed to a command.
-/
namespace FuModel.Xargs

/-- Every command line xargs builds is accepted by exec. -/
theorem C06_accepted (cfg : Config) (cmd : List (List UInt8)) (init : LState)
    (envp : List (List UInt8)) (argMax : Nat) (file : List UInt8)
    (script : List Outcome) (args : List Arg)
    (hsys : cfg.lim.sys = sysBudget argMax (envp.map List.length))
    (hptr : cfg.lim.ptr = 8) (hmax : cfg.lim.maxArg = 131072)
    (hroom : 2048 + (strCostL (envp.map List.length) + 8 * envp.length) ≤ argMax)
    (hfile : file.length + 1 ≤ 2048)
    (henv : ∀ e ∈ envp, e.length + 1 ≤ 131072)
    (hcmd : cmd ≠ [])
    (hinit : initState cfg.lim LState.zero cmd = some init)
    (hkind : ∀ a ∈ args, a.kind ≠ .initial) :
    ∀ b ∈ (processInput cfg init false ⟨init, []⟩ false false [] script args).batches,
      execAccepts argMax file (cmd ++ b.map (·.bytes)) envp = true := by
  intro b hb
  have hfit := C04_limits cfg init script args b hb
  have hpre := (C04_lossless cfg init script args).1
  have hbk : ∀ a ∈ b, a.kind ≠ .initial := by
    intro a ha
    apply hkind
    obtain ⟨rest, hrest⟩ := hpre
    rw [← hrest]
    exact List.mem_append_left _ (List.mem_flatten.mpr ⟨b, hb, ha⟩)
  have hspec := (C04_fits_iff cfg.lim init b hbk).mp hfit
  have ⟨hinitSys, hcmdMax, hinitLe⟩ := initState_sys cfg.lim LState.zero init cmd hinit
  have hcl : 0 < cmd.length := List.length_pos_iff.mpr hcmd
  simp only [LState.zero, Nat.zero_add] at hinitSys
  have hinitLe' : init.sizeSys ≤ cfg.lim.sys := by
    -- the last command word was accepted, so the state after it is within the budget
    cases cmd with
    | nil => exact absurd rfl hcmd
    | cons c cs =>
      simp only [initState] at hinit
      cases htry : tryArg cfg.lim LState.zero ⟨c, .initial⟩ with
      | error e => rw [htry] at hinit; simp at hinit
      | ok st' =>
        rw [htry] at hinit
        obtain ⟨hacc, hst'⟩ := (tryArg_ok_iff cfg.lim LState.zero st' ⟨c, .initial⟩).mp htry
        have := (initState_sys cfg.lim st' init cs hinit).2.2
        apply this
        rw [hst']
        exact hacc.2.2.2.2
  -- the two facts we need about the appended arguments
  have hb2 : (∀ a ∈ b, cost a.bytes ≤ 131072) ∧
      init.sizeSys + totalCost b + 8 * b.length ≤ cfg.lim.sys := by
    rcases hspec with rfl | ⟨_, _, _, h4, h5⟩
    · exact ⟨by simp, by simpa [totalCost] using hinitLe'⟩
    · rw [hmax] at h4; rw [hptr] at h5; exact ⟨h4, h5⟩
  obtain ⟨hbmax, hbsys⟩ := hb2
  have hA : init.sizeSys = (cmd.map (fun a => cost a)).sum + 8 * cmd.length := by
    rw [hinitSys, hptr]
  have hsysv : cfg.lim.sys
      = argMax - 2048 - (strCostL (envp.map List.length) + 8 * envp.length) := by
    rw [hsys]; simp [sysBudget]
  have hL1 : (List.map List.length (cmd ++ List.map (fun x => x.bytes) b)).length
      = cmd.length + b.length := by simp
  have hL2 : (List.map List.length envp).length = envp.length := by simp
  have hstr : strCostL ((cmd ++ b.map (·.bytes)).map List.length)
      = (cmd.map (fun a => cost a)).sum + totalCost b := by
    rw [List.map_append, strCostL_append, strCostL_map_length, totalCost_eq]
  have hmaxarg : max (cmd.length + b.length) 1 = cmd.length + b.length := by omega
  simp only [execAccepts, execAcceptsL, Bool.and_eq_true, decide_eq_true_eq, List.all_eq_true]
  rw [hL1, hL2, hstr, hmaxarg]
  refine ⟨⟨?_, ?_⟩, ?_⟩
  · intro l hl
    simp only [List.map_append, List.map_map, List.mem_append, List.mem_map] at hl
    rcases hl with (⟨x, hx, rfl⟩ | ⟨a, ha, rfl⟩) | ⟨e, he, rfl⟩
    · have := hcmdMax x hx; rw [hmax] at this; simpa [cost] using this
    · have := hbmax a ha; simpa [cost] using this
    · simpa using henv e he
  · omega
  · omega

/-- An argument too large to be passed is never handed to exec, and the run cannot
    end with a success status (it is reported: status 1, or a child's fatal status first). -/
theorem C06_oversize_reported (cfg : Config) (init : LState) (script : List Outcome)
    (args : List Arg) (a : Arg) (ha : a ∈ args) (hk : a.kind ≠ .initial)
    (hbig : cfg.lim.maxArg < cost a.bytes) :
    let run := processInput cfg init false ⟨init, []⟩ false false [] script args
    (run.status ≠ 0 ∧ run.status ≠ 123) ∧ ∀ b ∈ run.batches, a ∉ b := by
  intro run
  have hnofit : fitsB cfg.lim init [a] = false := by
    cases h : fitsB cfg.lim init [a] with
    | false => rfl
    | true =>
      have hs := (C04_fits_iff cfg.lim init [a] (by simpa using hk)).mp h
      rcases hs with h0 | ⟨_, _, _, h4, _⟩
      · simp at h0
      · have := h4 a (by simp); omega
  refine ⟨C04_too_large cfg init script args a ha hnofit, ?_⟩
  intro b hb hab
  have hfit := C04_limits cfg init script args b hb
  have := fitsB_singleton_of_mem hfit hab
  rw [hnofit] at this
  cases this

/-- the budget xargs derives from `sysconf(_SC_ARG_MAX)` is the kernel's own limit -/
theorem C06_argmax_is_kernel_limit (stack : Nat) : sysconfArgMax stack = kernelLimit stack := rfl

/-- **Replace mode (-I).**  `execute` passes the command after substitution through the limiter
    chain afresh, from the empty state; whatever passes is accepted by exec - however many
    occurrences were replaced and however long the line is. -/
theorem C06_replace_accepted (lim : Limits) (sub : List (List UInt8)) (init : LState)
    (envp : List (List UInt8)) (argMax : Nat) (file : List UInt8)
    (hsys : lim.sys = sysBudget argMax (envp.map List.length))
    (hptr : lim.ptr = 8) (hmax : lim.maxArg = 131072)
    (hroom : 2048 + (strCostL (envp.map List.length) + 8 * envp.length) ≤ argMax)
    (hfile : file.length + 1 ≤ 2048)
    (henv : ∀ e ∈ envp, e.length + 1 ≤ 131072)
    (hne : sub ≠ [])
    (hinit : initState lim LState.zero sub = some init) :
    execAccepts argMax file sub envp = true := by
  have h := C06_accepted ⟨lim, false, false, none⟩ sub init envp argMax file [] []
    hsys hptr hmax hroom hfile henv hne hinit (by simp) [] (by simp [processInput, nextOutcome, classify])
  simpa using h

/-- **Replace mode, whole run.**  With the system limiter as `new_system` configures it, every
    command `xargs -I R CMD …` starts - for every input, every number of occurrences of R, every
    `-s` - is accepted by exec (the model of the kernel's limits): the re-check of the substituted
    command in `execute` cuts the run before the first one that would not be. -/
theorem C06_replace_main (opts : List Opt) (cmd : List (List UInt8)) (input : List UInt8)
    (script : List Outcome) (R : List UInt8) (hR : (normalize opts).replace = some R)
    (envp : List (List UInt8)) (argMax : Nat) (file : List UInt8)
    (hroom : 2048 + (strCostL (envp.map List.length) + 8 * envp.length) ≤ argMax)
    (hfile : file.length + 1 ≤ 2048)
    (henv : ∀ e ∈ envp, e.length + 1 ≤ 131072)
    (hcmd : cmd ≠ []) :
    ∀ av ∈ (xargsMain opts cmd input script (sysBudget argMax (envp.map List.length))).argvs,
      execAccepts argMax file av envp = true := by
  obtain ⟨lim, hsys, hptr, hmax, _, h⟩ := main_replace_fits opts cmd input script (sysBudget argMax (envp.map List.length)) R hR
  intro av hav
  obtain ⟨b, rfl, hb⟩ := h av hav
  unfold substFits at hb
  obtain ⟨init, hinit⟩ := Option.isSome_iff_exists.mp hb
  refine C06_replace_accepted lim _ init envp argMax file hsys hptr hmax hroom hfile henv ?_ hinit
  cases cmd with
  | nil => exact absurd rfl hcmd
  | cons p ps => simp [argvOf]

/-! Non-vacuity: a concrete configuration that meets the hypotheses of `C06_accepted`. -/
example :
    let lim : Limits := ⟨none, none, none, sysBudget 131072 [20, 30], 8, 131072⟩
    initState lim LState.zero [[99, 109, 100]] = some ⟨0, 1, 4, 12⟩ ∧
    2048 + (strCostL [20, 30] + 8 * 2) ≤ 131072 := by decide

end FuModel.Xargs
