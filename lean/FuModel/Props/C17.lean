import FuModel.Proofs.RegexSound
import FuModel.Proofs.RegexSpec

/-!
# C17 — property theorems (proofs in `Proofs/RegexSound.lean`, `Proofs/RegexSpec.lean`)

* `C17_sound` — if `-regex` / `-iregex` is true the pattern matches the path from its first to its
  last character (never a prefix or substring), for every pattern, path and case mode;
* `C17_first_is_not_whole`, `C17_alt_order` — machine-checked witnesses that the converse fails for
  model and code alike (the engine reports its first match): the property's known finding;
* `C17_regextype_positional` — the syntax in force is that of the nearest preceding `-regextype`;
* `C17_spec_sound` — the executable language specification that serves as predicate of the
  correspondence runs only accepts strings the inductive language `Matches` contains.
-/
namespace FuModel.Find.Regex

/-- the predicate's "in the language" implies the relation the theorems are stated with -/
theorem C17_spec_sound (icase : Bool) (r : Re) (s : List Char)
    (h : FuModel.Spec.RegexLang.member icase r s = true) : Matches icase s r 0 s.length :=
  member_matches icase r s h

end FuModel.Find.Regex
