import FuModel.Props.C07

/-!
# C16 — -printf renders escapes, directives, width and justification faithfully

Model: `Find/PrintfFmt.lean` (`FormatStringParser`), `Find/Run.lean` namespace `PrintfR`
(`format_directive`, `Printf::print`).  Reference renderer used as the predicate:
`Spec/PrintfRef.lean`.
-/
namespace FuModel.Find.Run.PrintfR
open FuModel.Find.Printf FuModel.Find.Walk

/-- Literal text — multi-byte characters included — is copied verbatim, components are written in
    order, and nothing is appended at the end. -/
theorem C16_verbatim (start : Bytes) (v : Visit Attr) (t : List Char) (rest : List Comp) :
    render start v (.lit t :: rest) = utf8 t ++ render start v rest ∧ render start v [] = [] :=
  ⟨rfl, rfl⟩

/-- A directive's value is padded with blanks to the minimum width — on the left by default, on the
    right with `-` — and never truncated. -/
theorem C16_padding (w : Nat) (left : Bool) (val : Bytes) :
    ∃ fill : Bytes, (∀ b ∈ fill, b = 32) ∧ fill.length = w - charCount val ∧
      pad (some w) left val = (if left then val ++ fill else fill ++ val) := by
  refine ⟨List.replicate (w - charCount val) 32, ?_, by simp, ?_⟩
  · intro b hb; exact (List.mem_replicate.mp hb).2
  · simp [pad]

theorem C16_no_width (left : Bool) (val : Bytes) : pad none left val = val := rfl

/-- blanks are single characters: the padded value has max(width, characters of the value) characters -/
theorem charCount_append (a b : Bytes) : charCount (a ++ b) = charCount a + charCount b := by
  simp [charCount, List.filter_append]

theorem charCount_blanks (n : Nat) : charCount (List.replicate n (32 : UInt8)) = n := by
  induction n with
  | zero => rfl
  | succ k ih =>
    rw [List.replicate_succ]
    show charCount ([32] ++ List.replicate k 32) = k + 1
    rw [charCount_append, ih]
    show 1 + k = k + 1
    omega

theorem C16_padded_width (w : Nat) (left : Bool) (val : Bytes) :
    charCount (pad (some w) left val) = max w (charCount val) := by
  simp only [pad]
  cases left <;> simp only [Bool.false_eq_true, if_false, if_true, charCount_append, charCount_blanks] <;> omega

/-- %p is the path exactly as -print prints it (for paths that are valid UTF-8: both go through
    `to_string_lossy`, which the renderer model does not apply — names that are not valid UTF-8 are
    outside the modelled fragment of -printf). -/
theorem C16_p_is_print (start : Bytes) (v : Visit Attr) (s : ES)
    (hv : FuModel.Utf8.validUtf8 (pathOf start v.ent.rpath) = true) :
    value start v .p = some (pathOf start v.ent.rpath) ∧
    (sem start v (.pathOut [] [10]) s).2.gs.out = s.gs.out ++ pathOf start v.ent.rpath ++ [10] := by
  have hl : FuModel.Utf8.lossy (pathOf start v.ent.rpath) = pathOf start v.ent.rpath := by
    simpa [FuModel.Utf8.validUtf8] using hv
  constructor
  · rfl
  · simp [sem, hl]

theorem intercalate_slash (n : Name) (names : List Name) :
    List.intercalate [47] (n :: names) = n ++ names.flatMap (47 :: ·) := by
  induction names generalizing n with
  | nil => simp [List.intercalate]
  | cons m ms ih =>
    have := ih m
    simp only [List.intercalate, List.intersperse] at this ⊢
    simp_all [List.flatten_cons]

/-- For every entry below a starting point, the starting point as given, a '/' (unless it ends in
    one) and %P recompose %p. -/
theorem C16_recompose (start : Bytes) (v : Visit Attr) (hne : v.ent.rpath ≠ [])
    (hn : ∀ m ∈ v.ent.rpath, NameOk m) (p q : Bytes)
    (hp : value start v .p = some p) (hq : value start v .P = some q) :
    p = start ++ (if endsSlash start then [] else [47]) ++ q := by
  obtain ⟨n, names, hrev, hform⟩ := C07_path_of start v.ent.rpath hne hn
  simp only [value, Option.some.injEq] at hp hq
  rw [← hp, ← hq, hform, hrev, intercalate_slash]
  simp [List.append_assoc]

/-- %d is the depth in decimal; %s %n %i %U %G are the decimal fields of the record the entry's
    tests see (C13); %m is its twelve permission bits in octal (at least three digits). -/
theorem C16_numeric (start : Bytes) (v : Visit Attr) (r : Rec) (t : Char) (h : metaOf v = some (t, r)) :
    value start v .d = some (utf8 (natDigits v.ent.depth)) ∧
    value start v .s = some (utf8 (natDigits r.size)) ∧ value start v .n = some (utf8 (natDigits r.nlink)) ∧
    value start v .i = some (utf8 (natDigits r.ino)) ∧ value start v .U = some (utf8 (natDigits r.uid)) ∧
    value start v .G = some (utf8 (natDigits r.gid)) ∧
    value start v .m = some (utf8 (List.replicate (3 - (octDigits r.perm).length) '0' ++ octDigits r.perm)) := by
  simp [value, h]

/-- %y prints the letter -type accepts: it prints the type letter of the entry as the follow mode
    presents it, and that letter is `c` exactly when `-type c` is true (for the seven type letters). -/
theorem C16_y_agrees_type (start : Bytes) (v : Visit Attr) (s : ES) (c : Char)
    (hc : c = 'f' ∨ c = 'd' ∨ c = 'l' ∨ c = 'p' ∨ c = 's' ∨ c = 'c' ∨ c = 'b') :
    value start v .y = some (utf8 [typeLetterOut (fileType v)]) ∧
    ((sem start v (.typeIs c) s).1 = true ↔ typeLetterOut (fileType v) = c) := by
  refine ⟨rfl, ?_⟩
  simp only [sem, beq_iff_eq]
  unfold typeLetterOut
  constructor
  · intro h; subst h
    rcases hc with h | h | h | h | h | h | h <;> simp [h]
  · intro h
    split at h
    · exact h
    · rcases hc with h' | h' | h' | h' | h' | h' | h' <;> simp [h'] at h

/-- the parser is total: every format string is either parsed or rejected (there is no third
    outcome such as a panic in the model; the slicing that used to panic is checked with `str::get`) -/
theorem C16_parser_total (fmt : List Char) : (parse fmt).isSome ∨ parse fmt = none := by
  cases parse fmt <;> simp

example : (parse "%-5p|\\n%%\\101".toList).map (·.1) =
    some [.dir .p (some 5) true, .lit ['|'], .lit ['\n'], .lit ['%'], .lit ['A']] := by decide
example : parse "%é".toList = some ([.lit ['é']], false) ∧ parse "\\é".toList = none ∧
    parse "%99999999999999999999d".toList = none := by decide

end FuModel.Find.Run.PrintfR

namespace FuModel.Find.Run
open FuModel.Find.Walk

/-- **Whole starting point**: `find START TEST -printf FORMAT`, for every tree, depth range,
    traversal order, parsed format and test that only looks at the entry: the bytes written are
    exactly, in visit order, the renderings of the format for the in-range reachable entries that
    satisfy the test — one rendering per such entry, nothing between them.  (`processDir_out`,
    `Proofs/OutWalk.lean`.) -/
theorem C16_whole_walk (c : Config) (t : Prim) (ht : isTestP t = true)
    (comps : List FuModel.Find.Printf.Comp) (raw : List Char)
    (start : Bytes) (root : Node Attr) (g : GS) :
    let n := if c.sorted then sortNode root else root
    let r := processDir c (.and [.prim t, .prim (.printf comps raw)]) start (some root) g
    r.gs.out = g.out ++ (visitsN (refCfg c) [] 0 n).flatMap (fun v => if (sem start v t es0).1 then PrintfR.render start v comps else []) ∧
      r.quit = false := by
  have h := processDir_out c t (.printf comps raw) ht rfl start root g
  have e : written start t (.printf comps raw) = fun v => if (sem start v t es0).1 then PrintfR.render start v comps else [] := by
    funext v; simp [written, outOf]
  rw [e] at h
  exact h

/-- non-vacuity of `C16_whole_walk`: the literal format `x\n` with `-type f` on a two-level tree —
    the reference side, evaluated by the kernel -/
example :
    let root : Node Attr := .dir [116] false true { lty := 'd', sty := 'd' }
      [.leaf [97] .plain { lty := 'f', sty := 'f' }, .leaf [98] .plain { lty := 'f', sty := 'f' }]
    (visitsN (refCfg {}) [] 0 root).flatMap
        (fun v => if (sem [116] v (.typeIs 'f') es0).1 then PrintfR.render [116] v [.lit ['x', '\n']] else []) =
      [120, 10, 120, 10] := by decide +kernel

end FuModel.Find.Run
