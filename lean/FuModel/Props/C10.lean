import FuModel.Proofs.DeleteBase
import FuModel.Proofs.DeleteWalk

/-!
# C10 — property theorems (statements of `Proofs/DeleteBase.lean`, plus the lift of `Proofs/DeleteWalk.lean`)

* `C10_delete_step`, `C10_links_removed_themselves`, `C10_dir_only_when_empty`, `C10_implies_depth` —
  one evaluation of `-delete`;
* `C10_only_this_entry`, `C10_whole_walk` — nothing but the evaluated entry's own path joins the
  removed set; over a whole starting point nothing outside it is removed;
* `C10_removed_are_visited` — over a whole starting point the removed entries are a subsequence, in
  visit order, of the in-range reachable entries: nothing the walk does not visit, nothing twice.
-/
namespace FuModel.Find.Run
open FuModel.Find.Walk

/-- **Whole starting point**: whatever the expression, the entries removed while `process_dir`
    walks a starting point (post-order, as `-delete` forces) are — appended to those removed
    before — a subsequence, in visit order, of the paths of the in-range reachable entries of this
    starting point: nothing is removed that the walk does not visit (so nothing outside the depth
    range, nothing behind a link that is not followed), nothing twice (those paths are pairwise
    distinct: `visitsN_paths`, `pathsN_nodup`), nothing out of order. -/
theorem C10_removed_are_visited (c : Config) (m : FuModel.Find.Expr.M Prim) (start : Bytes) (root : Node Attr) (g : GS)
    (hpost : (refCfg c).depthFirst = true) :
    let n := if c.sorted then sortNode root else root
    ∃ L, (processDir c m start (some root) g).gs.deleted = g.deleted ++ L ∧
      L.Sublist ((visitsN (refCfg c) [] 0 n).map fun v => pathOf start v.ent.rpath) :=
  whole_walk_deleted c m start root g hpost

/-- non-vacuity of `C10_removed_are_visited`: `find t -delete` (post-order, no link) — the
    reference side of the statement, evaluated by the kernel -/
example :
    let c : Config := { depthFirst := true }
    let root : Node Attr := .dir [116] false true { lty := 'd', sty := 'd' } [.leaf [97] .plain { lty := 'f', sty := 'f' }]
    (refCfg c).depthFirst = true ∧
      (visitsN (refCfg c) [] 0 root).map (fun v => pathOf [116] v.ent.rpath) = [[116, 47, 97], [116]] := by
  intro c root
  exact ⟨rfl, by decide⟩
end FuModel.Find.Run
