import FuModel.Spec.RunRef
import FuModel.Proofs.ExecOnceWalk
import FuModel.Proofs.ExecOnceExact
import FuModel.Proofs.PruneEntered

/-!
# C09 — -exec … ; : one run per file, {} substituted, argv intact, true iff 0

Model: `Find/Run.lean` (`SingleExecMatcher::new`'s `split("{}")`, `matches`' join, the
`./name` + `current_dir(parent)` of `-execdir`).  "Once per file on which the action is reached,
at that point of the evaluation" is C01 (`C01_parse_eval`) applied to this primary.
-/
namespace FuModel.Find.Run
open FuModel.Find.RunRef FuModel.Find.Walk

theorem joinParts_cons (path p : Bytes) (q : Bytes) (qs : List Bytes) :
    joinParts path (p :: q :: qs) = p ++ path ++ joinParts path (q :: qs) := rfl

/-- general form: the pieces collected so far are a prefix of the first part -/
theorem subst_aux (path a cur : Bytes) :
    joinParts path (splitBraces a cur) = cur.reverse ++ replaceAll path a := by
  match a with
  | [] => simp [splitBraces, joinParts, replaceAll]
  | [b] => simp [splitBraces, joinParts, replaceAll]
  | x :: y :: rest =>
    rw [splitBraces, replaceAll]
    split
    · have := subst_aux path rest []
      cases h : splitBraces rest [] with
      | nil =>
        -- splitBraces never returns the empty list
        exfalso
        have : ∀ (r c : Bytes), splitBraces r c ≠ [] := by
          intro r
          induction r using List.rec with
          | nil => intro c; simp [splitBraces]
          | cons z zs ih =>
            intro c
            cases zs with
            | nil => simp [splitBraces]
            | cons w ws =>
              rw [splitBraces]; split
              · simp
              · exact ih _
        exact this rest [] h
      | cons q qs =>
        rw [joinParts_cons, ← h, this]
        simp
    · rw [subst_aux path (y :: rest) (x :: cur)]
      simp
termination_by a.length

/-- Every occurrence of `{}` in an argument is replaced by the path, left to right, the inserted
    text not rescanned; all other text is unchanged. -/
theorem C09_subst (path a : Bytes) : substArg path a = replaceAll path a := by
  simpa [substArg] using subst_aux path a []

/-- An argument without `{}` reaches the command unchanged. -/
theorem C09_no_braces (path : Bytes) (a : Bytes)
    (h : ∀ pre post, a ≠ pre ++ 123 :: 125 :: post) : replaceAll path a = a := by
  match a with
  | [] => rfl
  | [b] => rfl
  | x :: y :: rest =>
    rw [replaceAll]
    split
    · rename_i hb
      simp only [Bool.and_eq_true, beq_iff_eq] at hb
      exact absurd (by rw [hb.1, hb.2]; rfl) (h [] rest)
    · have := C09_no_braces path (y :: rest) (fun pre post heq => h (x :: pre) post (by rw [heq]; rfl))
      rw [this]
termination_by a.length

/-- No file name changes the argument structure: the command always gets the program name plus
    exactly one argument per template argument (no word splitting, globbing or quote processing). -/
theorem C09_structure (start : Bytes) (v : Visit Attr) (dir ok : Bool) (cmd : Bytes) (tmpl : List Bytes) (s : ES)
    (e : ExecEvent) (h : e ∈ (sem start v (.exec dir ok cmd tmpl) s).2.gs.execs) (hn : e ∉ s.gs.execs) :
    e.argv.length = tmpl.length + 1 ∧ e.argv.head? = some cmd := by
  simp only [sem, GS.spawn] at h
  split at h
  · split at h <;> simp_all
  · simp_all

/-- The action is true exactly when the command could be started and exited with status 0; find's
    own exit code, the prune and quit marks and the output are untouched. -/
theorem C09_truth (start : Bytes) (v : Visit Attr) (dir ok : Bool) (cmd : Bytes) (tmpl : List Bytes) (s : ES) :
    let r := sem start v (.exec dir ok cmd tmpl) s
    (r.1 = true ↔ ok = true ∧ s.gs.script.headD 0 = 0) ∧
    r.2.exit = s.exit ∧ r.2.prune = s.prune ∧ r.2.quit = s.quit ∧ r.2.gs.out = s.gs.out := by
  simp only [sem, GS.spawn]
  cases ok
  · simp
  · cases hs : s.gs.script <;> simp [hs]

/-- One command per evaluation of the primary (none if it cannot be started). -/
theorem C09_one_run (start : Bytes) (v : Visit Attr) (dir : Bool) (cmd : Bytes) (tmpl : List Bytes) (s : ES) :
    (sem start v (.exec dir true cmd tmpl) s).2.gs.execs =
      s.gs.execs ++ [⟨cmd :: tmpl.map (substArg (execPath dir (pathOf start v.ent.rpath))),
                      execCwd dir (pathOf start v.ent.rpath)⟩] := by
  simp only [sem, GS.spawn]
  cases s.gs.script <;> simp

example : substArg [97, 47, 98] [120, 123, 125, 121, 123, 125, 123] = [120, 97, 47, 98, 121, 97, 47, 98, 123] := by decide

/-- **Whole starting point** for `-exec`/`-execdir CMD ARGS ;`: for an arbitrary expression whose
    only command-running primary is this action, the commands started by `process_dir` over the
    real walk are those started before followed by a subsequence, in visit order, of "the command
    of this entry" (`eventOf`: argument vector with `{}` substituted, working directory) over the
    entries of the starting point — at most one run per entry, none for an entry that is not
    visited, none reordered, none with another entry's path.  Proof in `Proofs/ExecOnceWalk.lean`
    (weighted relation lemma over the matcher tree, subsequence lemma over the traversal, C02's
    refinement). -/
theorem C09_whole_walk (dir : Bool) (cmd : Bytes) (tmpl : List Bytes) (start : Bytes)
    (c : Config) (m : FuModel.Find.Expr.M Prim) (root : Node Attr) (g : GS)
    (hall : m.AllP (SoleOnce dir cmd tmpl)) (hone : m.weight wT ≤ 1)
    (hwalk : ((refCfg c).depthFirst = false ∧ PruneOkN (refCfg c) (evalEntry m start) [] 0 (if c.sorted then sortNode root else root)) ∨
             (refCfg c).depthFirst = true) :
    let n := if c.sorted then sortNode root else root
    ∃ L, (processDir c m start (some root) g).gs.execs = g.execs ++ L ∧
      L.Sublist ((visitsN (refCfg c) [] 0 n).map (eventOf dir cmd tmpl start)) :=
  whole_walk_once dir cmd tmpl start c m root g hall hone hwalk

/-- `C09_whole_walk` on a well-formed world: in pre-order no hypothesis on the expression is left
    (`-prune` included) -/
theorem C09_whole_walk_wf (dir : Bool) (cmd : Bytes) (tmpl : List Bytes) (start : Bytes)
    (c : Config) (m : FuModel.Find.Expr.M Prim) (root : Node Attr) (g : GS)
    (hall : m.AllP (SoleOnce dir cmd tmpl)) (hone : m.weight wT ≤ 1)
    (hpre : (refCfg c).depthFirst = false) (hw : wfNode root = true) :
    let n := if c.sorted then sortNode root else root
    ∃ L, (processDir c m start (some root) g).gs.execs = g.execs ++ L ∧
      L.Sublist ((visitsN (refCfg c) [] 0 n).map (eventOf dir cmd tmpl start)) :=
  whole_walk_once dir cmd tmpl start c m root g hall hone
    (Or.inl ⟨hpre, pruneOkN_of_wf (refCfg c) m start [] 0 _ (by split; exact wf_sortNode _ hw; exact hw)⟩)

/-- non-vacuity of `C09_whole_walk`: `find t -depth -name a -exec c x{} ;` meets the hypotheses -/
example :
    let m : FuModel.Find.Expr.M Prim := .and [.prim (.name [97]), .prim (.exec false true [99] [[120, 123, 125]])]
    let c : Config := { depthFirst := true }
    let root : Node Attr := .dir [116] false true { lty := 'd', sty := 'd' } [.leaf [97] .plain { lty := 'f', sty := 'f' }]
    m.AllP (SoleOnce false [99] [[120, 123, 125]]) ∧ m.weight wT ≤ 1 ∧
      (refCfg c).depthFirst = true ∧
      (visitsN (refCfg c) [] 0 root).map (eventOf false [99] [[120, 123, 125]] [116]) =
        [⟨[[99], [120, 116, 47, 97]], none⟩, ⟨[[99], [120, 116]], none⟩] := by
  intro m c root
  exact ⟨by simp [m, FuModel.Find.Expr.M.AllP, FuModel.Find.Expr.M.AllP.AllPs, SoleOnce, quiet], by decide, rfl, by decide⟩

/-- **`find START TEST -exec CMD ARGS ;` / `-execdir … ;`, exactly** (proof: `whole_walk_once_exact`
    in `Proofs/ExecOnceExact.lean`): for every tree, follow mode, depth range and traversal order
    and every test that only looks at the entry, the commands started while `process_dir` walks a
    starting point are those started before followed by exactly one command per in-range reachable
    entry that satisfies the test, in visit order, each with that entry's substituted argument
    vector and working directory (`eventOf`) — whatever the commands return. -/
theorem C09_exact (dir : Bool) (cmd : Bytes) (tmpl : List Bytes) (start : Bytes)
    (t : Prim) (ht : isTestP t = true) (c : Config) (root : Node Attr) (g : GS) :
    let n := if c.sorted then sortNode root else root
    (processDir c (.and [.prim t, .prim (.exec dir true cmd tmpl)]) start (some root) g).gs.execs =
      g.execs ++ (visitsN (refCfg c) [] 0 n).flatMap (ranBy dir cmd tmpl start t) :=
  whole_walk_once_exact dir cmd tmpl start t ht c root g

/-- the right-hand side on a concrete run: `find t -type f -execdir c x{} ;` -/
example :
    let root : Node Attr := .dir [116] false true { lty := 'd', sty := 'd' }
      [.leaf [97] .plain { lty := 'f', sty := 'f' }, .dir [98] false true { lty := 'd', sty := 'd' } [.leaf [99] .plain { lty := 'f', sty := 'f' }]]
    (visitsN (refCfg {}) [] 0 root).flatMap (ranBy true [99] [[120, 123, 125]] [116] (.typeIs 'f')) =
      [⟨[[99], [120, 46, 47, 97]], some [116]⟩, ⟨[[99], [120, 46, 47, 99]], some [116, 47, 98]⟩] := by decide
end FuModel.Find.Run
