import FuModel.Find.Expr
import FuModel.Find.Walk

/-!
# A whole run of find: starting points, configuration, walk, evaluation (`do_find`)

Concrete primaries over the abstract layers `Find/Expr.lean` and `Find/Walk.lean`.
The payload of a node is what an independent `lstat`/`stat` pass observed.
-/
namespace FuModel.Find.Run
open FuModel.Find.Expr FuModel.Find.Walk

abbrev Bytes := List UInt8

structure Attr where
  lty : Char     -- file type letter according to lstat: f d l p s c b
  sty : Char     -- according to stat; 'N' = not found, 'L' = too many levels of links
  deriving Repr, DecidableEq

inductive Prim where
  | true_ | false_
  | opt                                  -- an option used as a primary: always true
  | name (lit : Bytes)                   -- -name with a metacharacter-free pattern
  | typeIs (c : Char)
  | pathOut (pre : Bytes) (term : Bytes) -- writes pre ++ path ++ term  (-print, -print0, -printf 'pre%pterm')
  | lit (b : Bytes)                      -- -printf with literal text only
  | prune | quit
  deriving Repr, DecidableEq

def Prim.isAction : Prim → Bool
  | .pathOut _ _ => true
  | .lit _ => true
  | _ => false

structure Config where
  depthFirst : Bool := false
  minDepth : Nat := 0
  maxDepth : Nat := 18446744073709551615
  sorted : Bool := false
  follow : Follow := .never
  deriving Repr

/-- `PathBuf::push` of a relative name -/
def pushName (p : Bytes) (n : Name) : Bytes :=
  if p.getLast? == some 47 then p ++ n else p ++ 47 :: n

/-- the path of an entry as find prints it: the starting point as given, then the names -/
def pathOf (start : Bytes) (rpath : List Name) : Bytes := rpath.reverse.foldl pushName start

/-- last component of a starting point (`components().next_back()`), for `-name` -/
def dropTrailingSlashes (p : Bytes) : Bytes := (p.reverse.dropWhile (· == 47)).reverse

def rootBase (start : Bytes) : Bytes :=
  let t := dropTrailingSlashes start
  if t.isEmpty then (if start.isEmpty then [] else [47])
  else (t.reverse.takeWhile (· != 47)).reverse

def followAt (f : Follow) (depth : Nat) : Bool :=
  match f with
  | .never => false
  | .roots => depth == 0
  | .always => true

/-- `WalkEntry::file_type` as a type letter ('U' = unknown) -/
def fileType (v : Visit Attr) : Char :=
  let a := match v.ent.node with | .leaf _ _ a => a | .dir _ _ _ a _ => a
  if v.explicit then
    if followAt v.follow v.ent.depth then
      (if a.sty == 'N' then a.lty else if a.sty == 'L' then 'U' else a.sty)
    else a.lty
  else if v.ent.followed then a.sty else a.lty

def fileName (start : Bytes) (v : Visit Attr) : Bytes :=
  match v.ent.rpath with
  | [] => rootBase start
  | n :: _ => n

/-- per-entry evaluation state (`MatcherIO` plus the shared output) -/
structure ES where
  out : Bytes
  prune : Bool
  quit : Bool
  exit : Nat
  deriving Repr

def sem (start : Bytes) (v : Visit Attr) (p : Prim) (s : ES) : Bool × ES :=
  match p with
  | .true_ => (true, s)
  | .false_ => (false, s)
  | .opt => (true, s)
  | .name l => (fileName start v == l, s)
  | .typeIs c => (fileType v == c, s)
  | .pathOut pre term => (true, { s with out := s.out ++ pre ++ pathOf start v.ent.rpath ++ term })
  | .lit b => (true, { s with out := s.out ++ b })
  | .prune => (true, if fileType v == 'd' then { s with prune := true } else s)
  | .quit => (true, { s with quit := true })

def evalEntry (m : M Prim) (start : Bytes) (v : Visit Attr) (out : Bytes) : EvalOut × Bytes :=
  let r := M.eval (sem start v) (·.quit) m ⟨out, false, false, 0⟩
  (⟨r.2.prune, r.2.quit, r.2.exit⟩, r.2.out)

/-! ### `-sorted`: byte-wise order of the names in every listing -/

def lexLt : Name → Name → Bool
  | [], [] => false
  | [], _ :: _ => true
  | _ :: _, [] => false
  | a :: as, b :: bs => if a.toNat < b.toNat then true else if b.toNat < a.toNat then false else lexLt as bs

def insertNode {α : Type} (n : Node α) : List (Node α) → List (Node α)
  | [] => [n]
  | m :: ms => if lexLt n.name m.name then n :: m :: ms else m :: insertNode n ms

mutual
def sortNode {α : Type} : Node α → Node α
  | .leaf n k a => .leaf n k a
  | .dir n l r a kids => .dir n l r a (sortKids kids)
def sortKids {α : Type} : List (Node α) → List (Node α)
  | [] => []
  | n :: ns => insertNode (sortNode n) (sortKids ns)
end

/-! ### `process_dir`, `do_find` -/

def refCfg (c : Config) : RefCfg := ⟨c.depthFirst, c.minDepth, c.maxDepth, c.follow⟩

structure RunRes where
  out : Bytes
  ret : Nat
  quit : Bool
  diags : Nat
  deriving Repr

/-- one starting point; `none` = it cannot be examined at all -/
def processDir (c : Config) (m : M Prim) (start : Bytes) (root : Option (Node Attr)) (out : Bytes) : RunRes :=
  match root with
  | none => ⟨out, 1, false, 1⟩
  | some n =>
    let n := if c.sorted then sortNode n else n
    let r := processRoot (refCfg c) (evalEntry m start) n out
    ⟨r.st, r.ret, r.quit, r.diags⟩

def doFind (c : Config) (m : M Prim) : List (Bytes × Option (Node Attr)) → Bytes → Nat → Nat → RunRes
  | [], out, ret, diags => ⟨out, ret, false, diags⟩
  | (start, root) :: rest, out, ret, diags =>
    let r := processDir c m start root out
    let ret' := if r.ret != 0 then r.ret else ret
    if r.quit then ⟨r.out, ret', true, diags + r.diags⟩
    else doFind c m rest r.out ret' (diags + r.diags)

/-! ### the argument layer: option primaries mutate the configuration while the tree is built -/

inductive Arg where
  | tok (t : Tok Prim)        -- an ordinary token
  | depth | sorted | follow   -- options: always-true primaries with an effect on the configuration
  | minDepth (n : Nat) | maxDepth (n : Nat)
  deriving Repr

def Arg.tok' : Arg → Tok Prim
  | .tok t => t
  | _ => .prim .opt

def applyArg (c : Config) : Arg → Config
  | .depth => { c with depthFirst := true }
  | .sorted => { c with sorted := true }
  | .follow => { c with follow := .always }
  | .minDepth n => { c with minDepth := n }
  | .maxDepth n => { c with maxDepth := n }
  | .tok _ => c

/-- the whole run: `-H`, `-L`, `-P` flag, starting points with what they resolve to, expression -/
def run (follow : Follow) (roots : List (Bytes × Option (Node Attr))) (args : List Arg) : Option RunRes :=
  let c := args.foldl applyArg { follow := follow }
  match buildTop Prim.isAction (.pathOut [] [10]) (args.map Arg.tok') with
  | .ok m => some (doFind c m roots [] 0 0)
  | .error _ => none

end FuModel.Find.Run
