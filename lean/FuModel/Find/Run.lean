import FuModel.Find.Expr
import FuModel.Base.Utf8
import FuModel.Find.Walk
import FuModel.Base.Path
import FuModel.Find.Numeric
import FuModel.Find.PrintfFmt
import FuModel.Find.Regex

/-!
# A whole run of find: starting points, configuration, walk, evaluation (`do_find`)

Concrete primaries over the abstract layers `Find/Expr.lean` and `Find/Walk.lean`.
The payload of a node is what an independent `lstat`/`stat` pass observed.
-/
namespace FuModel.Find.Run
open FuModel.Find.Expr FuModel.Find.Walk

abbrev Bytes := List UInt8

/-- the fields of a status record the tests look at -/
structure Rec where
  perm : Nat := 0      -- the twelve permission bits
  nlink : Nat := 0
  uid : Nat := 0
  gid : Nat := 0
  ino : Nat := 0
  size : Nat := 0
  dev : Nat := 0
  deriving Repr, DecidableEq

structure Attr where
  lty : Char     -- file type letter according to lstat: f d l p s c b
  sty : Char     -- according to stat; 'N' = not found, 'L' = too many levels of links
  l : Rec := {}  -- lstat record
  s : Rec := {}  -- stat record (meaningful when `sty` is a type letter)
  target : Bytes := []   -- link text (for symbolic links)
  foreign : Bool := false  -- set by `cutRoot` (-xdev): a directory on another device than its starting point
  deriving Repr, DecidableEq

inductive PermKind where | exact | atLeast | anyOf
  deriving Repr, DecidableEq

inductive StatField where | links | inum | uid | gid
  deriving Repr, DecidableEq

inductive Prim where
  | true_ | false_
  | opt                                  -- an option used as a primary: always true
  | name (lit : Bytes)                   -- -name with a metacharacter-free pattern
  | typeIs (c : Char)
  | xtype (c : Char)
  | perm (k : PermKind) (mode : Nat)
  | statCmp (f : StatField) (c : FuModel.Find.Cmp)
  | empty
  | samefile (dev ino : Nat)
  | lname (lit : Bytes)
  | regex (icase : Bool) (re : FuModel.Find.Regex.Re)   -- -regex / -iregex, the pattern as abstract syntax
  | pathOut (pre : Bytes) (term : Bytes) -- writes pre ++ path ++ term  (-print, -print0, -printf 'pre%pterm')
  | lit (b : Bytes)                      -- -printf with literal text only
  | printf (comps : List FuModel.Find.Printf.Comp) (raw : List Char)   -- -printf: the parsed format (and its text)
  | prune | quit
  | delete
  -- `-exec cmd args ;` / `-execdir …` (dir = true); `cmdOk = false`: the command cannot be started
  | exec (dir : Bool) (cmdOk : Bool) (cmd : Bytes) (tmpl : List Bytes)
  -- `-exec cmd args {} +` / `-execdir …`; `id` distinguishes the primaries of one expression
  | execMulti (id : Nat) (dir : Bool) (cmdOk : Bool) (cmd : Bytes) (fixed : List Bytes)
  deriving Repr, DecidableEq

def Prim.isAction : Prim → Bool
  | .pathOut _ _ => true
  | .lit _ => true
  | .printf _ _ => true
  | .exec _ _ _ _ => true
  | .execMulti _ _ _ _ _ => true
  | .delete => true
  | _ => false

structure Config where
  depthFirst : Bool := false
  minDepth : Nat := 0
  maxDepth : Nat := 18446744073709551615
  sorted : Bool := false
  follow : Follow := .never
  xdev : Bool := false
  deriving Repr

/-- `PathBuf::push` of a relative name -/
def pushName (p : Bytes) (n : Name) : Bytes :=
  if p.getLast? == some 47 then p ++ n else p ++ 47 :: n

/-- the path of an entry as find prints it: the starting point as given, then the names -/
def pathOf (start : Bytes) (rpath : List Name) : Bytes := rpath.reverse.foldl pushName start

/-- last component of a starting point (`components().next_back()`), for `-name` -/
def dropTrailingSlashes (p : Bytes) : Bytes := (p.reverse.dropWhile (· == 47)).reverse

def rootBase (start : Bytes) : Bytes :=
  let t := dropTrailingSlashes start
  if t.isEmpty then (if start.isEmpty then [] else [47])
  else (t.reverse.takeWhile (· != 47)).reverse

def followAt (f : Follow) (depth : Nat) : Bool :=
  match f with
  | .never => false
  | .roots => depth == 0
  | .always => true

def attrOf (v : Visit Attr) : Attr :=
  match v.ent.node with | .leaf _ _ a => a | .dir _ _ _ a _ => a

/-- `WalkEntry::metadata`: the type letter and record the entry's tests see; `none` = error -/
def metaOf (v : Visit Attr) : Option (Char × Rec) :=
  let a := attrOf v
  if v.explicit then
    -- `Follow::metadata_at_depth`: stat if the entry follows, falling back to lstat when not found
    if followAt v.follow v.ent.depth then
      (if a.sty == 'N' then some (a.lty, a.l) else if a.sty == 'L' then none else some (a.sty, a.s))
    else some (a.lty, a.l)
  else if v.ent.followed then some (a.sty, a.s) else some (a.lty, a.l)

/-- `WalkEntry::file_type` as a type letter ('U' = unknown) -/
def fileType (v : Visit Attr) : Char :=
  let a := attrOf v
  if v.explicit then
    if followAt v.follow v.ent.depth then
      (if a.sty == 'N' then a.lty else if a.sty == 'L' then 'U' else a.sty)
    else a.lty
  else if v.ent.followed then a.sty else a.lty

/-- `XtypeMatcher`: the type seen with the opposite follow decision; `none` = too many levels of links -/
def xtypeOf (v : Visit Attr) : Option Char :=
  let a := attrOf v
  if followAt v.follow v.ent.depth then some a.lty
  else if fileType v != 'l' then some (fileType v)
  else if a.sty == 'N' then some 'l' else if a.sty == 'L' then none else some a.sty

/-- `ComparisonType::mode_bits_match` on the permission bits -/
def permMatch (k : PermKind) (pattern value : Nat) : Bool :=
  match k with
  | .exact => value % 4096 == pattern
  | .atLeast => (value &&& pattern) == pattern
  | .anyOf => pattern == 0 || (value &&& pattern) != 0

def Rec.field (r : Rec) : StatField → Nat
  | .links => r.nlink | .inum => r.ino | .uid => r.uid | .gid => r.gid

/-- `WalkEntry::file_name`: below a starting point the entry's name; for a starting point the last
    component (`components().next_back()`, `..` included), or the whole path if there is none -/
def fileName (start : Bytes) (v : Visit Attr) : Bytes :=
  match v.ent.rpath with
  | [] => (FuModel.Path.lastComponent start).getD start
  | n :: _ => n

/-! ### -printf rendering -/

namespace PrintfR
open FuModel.Find.Printf



def natDigits (n : Nat) : List Char := (toString n).toList

def octDigits (n : Nat) : List Char := (Nat.toDigits 8 n)

def utf8 (cs : List Char) : Bytes := (String.ofList cs).toUTF8.toList

def typeLetterOut (c : Char) : Char := if c == 'f' || c == 'd' || c == 'b' || c == 'c' || c == 'p' || c == 's' || c == 'l' then c else 'U'

/-- the value of one directive; `none` = the directive fails (the rest of the format is not printed) -/
def value (start : Bytes) (v : Visit Attr) (d : Dir) : Option Bytes :=
  let path := pathOf start v.ent.rpath
  let a := attrOf v
  let rec' := (metaOf v).map (·.2)
  match d with
  | .p => some path
  | .P => some (List.intercalate [47] v.ent.rpath.reverse)
  | .f => some (fileName start v)
  | .h => some (match FuModel.Path.parent path with
      | none => []
      | some p => if p == [47] then [] else if p.isEmpty then [46] else p)
  | .H => FuModel.Path.ancestor v.ent.depth path
  | .d => some (utf8 (natDigits v.ent.depth))
  | .s => rec'.map fun r => utf8 (natDigits r.size)
  | .n => rec'.map fun r => utf8 (natDigits r.nlink)
  | .i => rec'.map fun r => utf8 (natDigits r.ino)
  | .U => rec'.map fun r => utf8 (natDigits r.uid)
  | .G => rec'.map fun r => utf8 (natDigits r.gid)
  | .m => rec'.map fun r =>
      let ds := octDigits r.perm
      utf8 (List.replicate (3 - ds.length) '0' ++ ds)
  | .y => some (utf8 [typeLetterOut (fileType v)])
  | .Y => some (utf8 [if a.lty == 'l' then (if a.sty == 'N' then 'N' else if a.sty == 'L' then 'L' else typeLetterOut a.sty)
                       else typeLetterOut (fileType v)])
  | .l => some (if a.lty == 'l' then a.target else [])

/-- number of characters of a UTF-8 byte string (continuation bytes do not count) -/
def charCount (b : Bytes) : Nat := (b.filter fun x => x.toNat / 64 != 2).length

def pad (width : Option Nat) (left : Bool) (val : Bytes) : Bytes :=
  match width with
  | none => val
  | some w =>
    let fill := List.replicate (w - charCount val) (32 : UInt8)
    if left then val ++ fill else fill ++ val

/-- `Printf::print`: components in order; a failing directive stops the rest -/
def render (start : Bytes) (v : Visit Attr) : List Comp → Bytes
  | [] => []
  | .lit t :: r => utf8 t ++ render start v r
  | .flush :: r => render start v r
  | .dir d w l :: r =>
    (match value start v d with
     | some val => pad w l val ++ render start v r
     | none => [])
  | .other _ _ _ :: _ => []

end PrintfR

/-! ### -exec -/

/-- one started (or attempted) command: argv, working directory (`none` = find's own) -/
structure ExecEvent where
  argv : List Bytes
  cwd : Option Bytes
  deriving Repr, DecidableEq

/-- the command line under construction of one `-exec … {} +` (`argmax::Command`) -/
structure Batch where
  paths : List Bytes          -- appended so far, in order
  remaining : Int             -- `remaining_argument_length`
  cwd : Option Bytes := none  -- `current_dir` set on the pending command (an entry without a parent)
  deriving Repr

/-- what is threaded through a whole run -/
structure GS where
  out : Bytes := []
  execs : List ExecEvent := []            -- in the order started
  script : List Nat := []                 -- exit statuses of the commands to come (then 0)
  pending : List (Nat × Batch) := []      -- batches of the `+` primaries
  curDir : Option Bytes := none           -- `current_dir` of `process_dir`
  budget : Nat := 2000000                 -- `ARG_MAX` minus the size of the environment
  panicked : Bool := false
  deleted : List Bytes := []              -- paths removed so far by -delete, in order
  mdiags : Nat := 0                       -- diagnostics of actions (failed removals …)
  unspec : Bool := false                  -- (reference runs only) the property leaves the output open
  deriving Repr

/-- per-entry evaluation state (`MatcherIO` plus what is shared) -/
structure ES where
  gs : GS
  prune : Bool
  quit : Bool
  exit : Nat
  deriving Repr

/-- `str::split("{}")` -/
def splitBraces : Bytes → Bytes → List Bytes
  | [], cur => [cur.reverse]
  | [b], cur => [(b :: cur).reverse]
  | a :: b :: rest, cur =>
    if a == 123 && b == 125 then cur.reverse :: splitBraces rest []
    else splitBraces (b :: rest) (a :: cur)

def joinParts (path : Bytes) : List Bytes → Bytes
  | [] => []
  | [p] => p
  | p :: ps => p ++ path ++ joinParts path ps

/-- one argument of the template with every `{}` replaced -/
def substArg (path : Bytes) (a : Bytes) : Bytes := joinParts path (splitBraces a [])

/-- the path handed to the command, and the directory it runs in -/
def execPath (dir : Bool) (path : Bytes) : Bytes :=
  if dir then
    -- `path.components().next_back()`: the last component, `..` included
    match FuModel.Path.lastComponent path with
    | some f => FuModel.Path.join [46] f
    | none => FuModel.Path.join [46] path
  else path

def execCwd (dir : Bool) (path : Bytes) : Option Bytes :=
  if dir then
    match FuModel.Path.parent path with
    | none => some path
    | some [] => none
    | some p => some p
  else none

/-- start a command: consumes one scripted status; `none` = it could not be started -/
def GS.spawn (g : GS) (cmdOk : Bool) (argv : List Bytes) (cwd : Option Bytes) : Option Nat × GS :=
  if cmdOk then
    match g.script with
    | [] => (some 0, { g with execs := g.execs ++ [⟨argv, cwd⟩] })
    | st :: rest => (some st, { g with execs := g.execs ++ [⟨argv, cwd⟩], script := rest })
  else (none, g)

/-- argmax: `available_argument_length` for a program name, and the size of one argument -/
def argSize (a : Bytes) : Int := 8 + a.length + 1

def availableLength (budget : Nat) (cmd : Bytes) : Int :=
  let v : Int := (budget : Int) - 8 - argSize cmd - 8 - 4096 - 2048
  if v < 0 then 0 else if v > 16777216 then 16777216 else v

def maxSingleArg : Nat := 131071

def Batch.tryArg (b : Batch) (a : Bytes) : Option Batch :=
  if a.length > maxSingleArg || argSize a > b.remaining then none
  else some { b with paths := b.paths ++ [a], remaining := b.remaining - argSize a }

/-- `new_command`: `none` = `try_args(fixed).unwrap()` panics -/
def newBatch (budget : Nat) (cmd : Bytes) (fixed : List Bytes) : Option Batch :=
  let total := (fixed.map argSize).foldl (· + ·) 0
  if fixed.any (·.length > maxSingleArg) || total > availableLength budget cmd then none
  else some { paths := [], remaining := availableLength budget cmd - total }

def setPending (g : GS) (id : Nat) (b : Option Batch) : GS :=
  { g with pending := (match b with | some b => [(id, b)] | none => []) ++ g.pending.filter (·.1 != id) }

/-- `run_command`: returns the new state and whether the exit code must be set -/
def runBatch (g : GS) (cmdOk : Bool) (cmd : Bytes) (fixed : List Bytes) (b : Batch) (cwd : Option Bytes) : GS × Bool :=
  let r := g.spawn cmdOk (cmd :: fixed ++ b.paths) cwd
  (r.2, r.1 != some 0)

/-- `-execdir … +` on an entry without a parent directory (the starting point `/`): the pending
    command is told to run from that entry, because `finished_dir` will never be called for it -/
def rootCwd (dir : Bool) (path : Bytes) (b : Batch) : Batch :=
  if dir && (FuModel.Path.parent path).isNone then { b with cwd := some path } else b

def sem (start : Bytes) (v : Visit Attr) (p : Prim) (s : ES) : Bool × ES :=
  let path := pathOf start v.ent.rpath
  match p with
  | .true_ => (true, s)
  | .false_ => (false, s)
  | .opt => (true, s)
  -- `NameMatcher`: the pattern (here a literal) against the name decoded lossily
  | .name l => (FuModel.Utf8.lossy (fileName start v) == l, s)
  | .typeIs c => (fileType v == c, s)
  | .xtype c => ((match xtypeOf v with | some t => t == c | none => c == 'l'), s)
  | .perm k m => ((match metaOf v with | some (_, r) => permMatch k m r.perm | none => false), s)
  | .statCmp f c => ((match metaOf v with | some (_, r) => c.matches (r.field f) | none => false), s)
  | .empty =>
    -- regular file: size 0; directory: nothing in its listing; anything else: false
    ((if fileType v == 'f' then (match metaOf v with | some (_, r) => r.size == 0 | none => false)
      else if fileType v == 'd' then (match v.ent.node with | .dir _ _ _ _ kids => kids.isEmpty | _ => false)
      else false), s)
  | .samefile dev ino =>
    -- `get_file_info(path, entry.follow())`: stat (lstat if not found) when the entry follows, else lstat
    let a := attrOf v
    let r : Option Rec :=
      if followAt v.follow v.ent.depth then
        (if a.sty == 'N' then some a.l else if a.sty == 'L' then none else some a.s)
      else some a.l
    ((match r with | some r => r.dev == dev && r.ino == ino | none => false), s)
  | .lname l => (fileType v == 'l' && (attrOf v).target == l, s)
  | .regex ic re =>
    -- the whole path, as printed, against the pattern
    (FuModel.Find.Regex.matchesRe ic re (match String.fromUTF8? ⟨path.toArray⟩ with | some t => t.toList | none => []), s)
  | .pathOut pre term => (true, { s with gs := { s.gs with out := s.gs.out ++ pre ++ FuModel.Utf8.lossy path ++ term } })
  | .lit b => (true, { s with gs := { s.gs with out := s.gs.out ++ b } })
  | .printf comps _ => (true, { s with gs := { s.gs with out := s.gs.out ++ PrintfR.render start v comps } })
  -- `PruneMatcher` marks a directory; `process_dir` acts on the mark unless (-xdev) the directory
  -- lies on another device than the starting point, where the walk did not enter it
  | .prune => (true, if fileType v == 'd' && !(attrOf v).foreign then { s with prune := true } else s)
  | .quit => (true, { s with quit := true })
  | .delete =>
    -- `DeleteMatcher`: "." is skipped; a real directory goes with `remove_dir` (fails unless it is
    -- empty now), anything else — links included — with `remove_file`
    if path == [46] then (true, s)
    else
      let removable : Bool :=
        !s.gs.deleted.contains path &&
        (match v.ent.node with
         | .dir _ false _ _ kids => kids.all fun k => s.gs.deleted.contains (pushName path k.name)
         | _ => true)
      if removable then (true, { s with gs := { s.gs with deleted := s.gs.deleted ++ [path] } })
      else (false, { s with exit := 1, gs := { s.gs with mdiags := s.gs.mdiags + 1 } })
  | .exec dir cmdOk cmd tmpl =>
    let r := s.gs.spawn cmdOk (cmd :: tmpl.map (substArg (execPath dir path))) (execCwd dir path)
    (r.1 == some 0, { s with gs := r.2 })
  | .execMulti id dir cmdOk cmd fixed =>
    if s.gs.panicked then (true, s) else
    let arg := execPath dir path
    let cur : Option Batch := match s.gs.pending.lookup id with
      | some b => some b
      | none => newBatch s.gs.budget cmd fixed
    match cur with
    | none => (true, { s with gs := { s.gs with panicked := true } })
    | some b =>
      match b.tryArg arg with
      | some b' => (true, { s with gs := setPending s.gs id (some (rootCwd dir path b')) })
      | none =>
        -- dispatch what has been collected, start afresh
        let r := runBatch s.gs cmdOk cmd fixed b (execCwd dir path)
        let s1 : ES := { s with gs := r.1, exit := if r.2 then 1 else s.exit }
        match newBatch s.gs.budget cmd fixed with
        | none => (true, { s1 with gs := { s1.gs with panicked := true } })
        | some nb =>
          match nb.tryArg arg with
          | some nb' => (true, { s1 with gs := setPending s1.gs id (some (rootCwd dir path nb')) })
          | none => (true, { s1 with gs := setPending s1.gs id (some (rootCwd dir path nb)), exit := 1 })

/-- the `+` primaries of a tree, for `finished_dir` / `finished` -/
def M.multis : M Prim → List (Nat × Bool × Bool × Bytes × List Bytes)
  | .prim (.execMulti id dir ok cmd fixed) => [(id, dir, ok, cmd, fixed)]
  | .prim _ => []
  | .not m => M.multis m
  | .and ms => go ms
  | .or ms => go ms
  | .list ms => go ms
where go : List (M Prim) → List (Nat × Bool × Bool × Bytes × List Bytes)
  | [] => []
  | m :: ms => M.multis m ++ go ms

/-- `finished_dir(dir)` (flushes -execdir batches) or `finished()` (flushes -exec batches):
    returns the state and whether some command failed -/
def flushMultis (execdir : Bool) (dirArg : Bytes) : List (Nat × Bool × Bool × Bytes × List Bytes) → GS → Bool → GS × Bool
  | [], g, failed => (g, failed)
  | (id, dir, ok, cmd, fixed) :: rest, g, failed =>
    if dir == execdir then
      match g.pending.lookup id with
      | some b =>
        let r := runBatch g ok cmd fixed b (if execdir then some (FuModel.Path.join [46] dirArg) else none)
        flushMultis execdir dirArg rest (setPending r.1 id none) (failed || r.2)
      | none => flushMultis execdir dirArg rest g failed
    else flushMultis execdir dirArg rest g failed

/-- `finished()`: every batch still open is dispatched — those of `-exec`, and those of `-execdir`
    that `finished_dir` never saw (an entry without a parent directory: the starting point `/`) -/
def flushAll : List (Nat × Bool × Bool × Bytes × List Bytes) → GS → Bool → GS × Bool
  | [], g, failed => (g, failed)
  | (id, _, ok, cmd, fixed) :: rest, g, failed =>
    match g.pending.lookup id with
    | some b =>
      let r := runBatch g ok cmd fixed b b.cwd
      flushAll rest (setPending r.1 id none) (failed || r.2)
    | none => flushAll rest g failed

/-- one entry: the `current_dir` bookkeeping of `process_dir`, then the expression -/
def evalEntry (m : M Prim) (start : Bytes) (v : Visit Attr) (g : GS) : EvalOut × GS :=
  let path := pathOf start v.ent.rpath
  let newDir := FuModel.Path.parent path
  let (g1, failed) :=
    if newDir != g.curDir then
      let r := match g.curDir with
        | some d => flushMultis true d (M.multis m) g false
        | none => (g, false)
      ({ r.1 with curDir := newDir }, r.2)
    else (g, false)
  let r := M.eval (sem start v) (·.quit) m ⟨g1, false, false, if failed then 1 else 0⟩
  (⟨r.2.prune, r.2.quit, r.2.exit⟩, r.2.gs)

/-! ### `-sorted`: byte-wise order of the names in every listing -/

def lexLt : Name → Name → Bool
  | [], [] => false
  | [], _ :: _ => true
  | _ :: _, [] => false
  | a :: as, b :: bs => if a.toNat < b.toNat then true else if b.toNat < a.toNat then false else lexLt as bs

def insertNode {α : Type} (n : Node α) : List (Node α) → List (Node α)
  | [] => [n]
  | m :: ms => if lexLt n.name m.name then n :: m :: ms else m :: insertNode n ms

mutual
def sortNode {α : Type} : Node α → Node α
  | .leaf n k a => .leaf n k a
  | .dir n l r a kids => .dir n l r a (sortKids kids)
def sortKids {α : Type} : List (Node α) → List (Node α)
  | [] => []
  | n :: ns => insertNode (sortNode n) (sortKids ns)
end

/-! ### `-xdev` / `-mount`: `WalkDir::same_file_system(true)`

walkdir compares the device of every directory it is about to push (a real directory, or a link
it followed to one) with the device of the starting point (`root_device`, the status through
links); one that lies elsewhere is still yielded but its listing is never pushed: for the walk it
is an entry that is not descended into.  `cutRoot` is that view of a starting point; the mark
`foreign` remembers where it cut. -/

mutual
def cutNode (followLinks : Bool) (dev : Nat) : Node Attr → Node Attr
  | .leaf n k a => .leaf n k a
  | .dir n l r a kids =>
    if (!l || followLinks) && a.s.dev != dev then .leaf n (if l then .linkFile else .plain) { a with foreign := true }
    else .dir n l r a (cutKids followLinks dev kids)
def cutKids (followLinks : Bool) (dev : Nat) : List (Node Attr) → List (Node Attr)
  | [] => []
  | n :: ns => cutNode followLinks dev n :: cutKids followLinks dev ns
end

def cutRoot (f : Follow) : Node Attr → Node Attr
  | .leaf n k a => .leaf n k a
  | .dir n l r a kids => .dir n l r a (cutKids (f == .always) a.s.dev kids)

/-! ### well-formed worlds

What an observed world looks like (the driver's parser refuses anything else): a plain leaf is
not a link and not a directory and has one status for both views; a link leaf has the status its
kind says; a directory node is a directory, or a link resolving to one.  (`foreign` leaves are
what `cutRoot` makes of directories.) -/

def wfLeaf (k : LeafKind) (a : Attr) : Bool :=
  match k with
  | .plain => a.lty != 'l' && a.lty != 'd' && a.sty == a.lty
  | .linkFile => a.lty == 'l' && a.sty != 'd' && a.sty != 'N' && a.sty != 'L' && a.sty != 'l'
  | .linkDangling => a.lty == 'l' && a.sty == 'N'
  | .linkLoop => a.lty == 'l' && (a.sty == 'L' || a.sty == 'd')

def wfDir (l : Bool) (a : Attr) : Bool := a.sty == 'd' && (if l then a.lty == 'l' else a.lty == 'd')

def wfNode : Node Attr → Bool
  | .leaf _ k a => wfLeaf k a || a.foreign
  | .dir _ l _ a kids => wfDir l a && wfKids kids
where wfKids : List (Node Attr) → Bool
  | [] => true
  | n :: ns => wfNode n && wfKids ns

/-! ### `process_dir`, `do_find` -/

def refCfg (c : Config) : RefCfg := ⟨c.depthFirst, c.minDepth, c.maxDepth, c.follow⟩

structure RunRes where
  gs : GS
  ret : Nat
  quit : Bool
  diags : Nat
  deriving Repr

/-- the end of `process_dir`: `finished_dir(current_dir)`, `finished()` -/
def finishDir (m : M Prim) (g : GS) : GS × Bool :=
  let r1 := match g.curDir with
    | some d => flushMultis true d (M.multis m) g false
    | none => (g, false)
  let r2 := flushAll (M.multis m) r1.1 r1.2
  ({ r2.1 with curDir := none }, r2.2)

/-- one starting point; `none` = it cannot be examined at all -/
def processDir (c : Config) (m : M Prim) (start : Bytes) (root : Option (Node Attr)) (g : GS) : RunRes :=
  match root with
  | none =>
    -- the walk yields one error; `finished` still runs
    let f := finishDir m { g with curDir := none }
    ⟨f.1, 1, false, 1⟩
  | some n =>
    let n := if c.sorted then sortNode n else n
    let r := processRoot (refCfg c) (evalEntry m start) n { g with curDir := none }
    let f := finishDir m r.st
    ⟨f.1, if f.2 then 1 else r.ret, r.quit, r.diags⟩

def doFind (c : Config) (m : M Prim) : List (Bytes × Option (Node Attr)) → GS → Nat → Nat → RunRes
  | [], g, ret, diags => ⟨g, ret, false, diags⟩
  | (start, root) :: rest, g, ret, diags =>
    let r := processDir c m start root g
    let ret' := if r.ret != 0 then r.ret else ret
    if r.quit then ⟨r.gs, ret', true, diags + r.diags⟩
    else doFind c m rest r.gs ret' (diags + r.diags)

/-! ### the argument layer: option primaries mutate the configuration while the tree is built -/

inductive Arg where
  | tok (t : Tok Prim)        -- an ordinary token
  | depth | sorted | follow | xdev  -- options: always-true primaries with an effect on the configuration
  | delete                    -- the action; it also switches to post-order while the tree is built
  | regextype (t : FuModel.Find.Regex.RType)   -- positional: applies to the -regex tokens that follow
  | regex (icase : Bool) (printedIn : FuModel.Find.Regex.RType) (re : FuModel.Find.Regex.Re)
  | minDepth (n : Nat) | maxDepth (n : Nat)
  deriving Repr

def Arg.tok' : Arg → Tok Prim
  | .tok t => t
  | .delete => .prim .delete
  | .regex ic _ re => .prim (.regex ic re)
  | _ => .prim .opt

/-- the syntax in force at each `-regex`: that of the nearest preceding `-regextype` in argument
    order (emacs if none), whatever parentheses lie between; `none` = a pattern was written in a
    syntax other than the one in force (an inconsistent request) -/
def regexTypesOk : FuModel.Find.Regex.RType → List Arg → Bool
  | _, [] => true
  | _, .regextype t :: rest => regexTypesOk t rest
  | cur, .regex _ printedIn _ :: rest => cur == printedIn && regexTypesOk cur rest
  | cur, _ :: rest => regexTypesOk cur rest

def applyArg (c : Config) : Arg → Config
  | .depth => { c with depthFirst := true }
  | .delete => { c with depthFirst := true }
  | .sorted => { c with sorted := true }
  | .follow => { c with follow := .always }
  | .xdev => { c with xdev := true }
  | .minDepth n => { c with minDepth := n }
  | .maxDepth n => { c with maxDepth := n }
  | _ => c

/-- the whole run: `-H`, `-L`, `-P` flag, starting points with what they resolve to, expression -/
def run (follow : Follow) (roots : List (Bytes × Option (Node Attr))) (args : List Arg) (g0 : GS := {}) : Option RunRes :=
  let c := args.foldl applyArg { follow := follow }
  let roots := if c.xdev then roots.map (fun r => (r.1, r.2.map (cutRoot c.follow))) else roots
  match buildTop Prim.isAction (.pathOut [] [10]) (args.map Arg.tok') with
  | .ok m => some (doFind c m roots g0 0 0)
  | .error _ => none

end FuModel.Find.Run
