/-!
# Numeric operands of find's tests (`src/find/matchers/mod.rs`, `size.rs`)

`Cmp` mirrors `ComparableValue` with its `matches`/`imatches`; `parseCmp` mirrors
`convert_arg_to_comparable_value` (regex `^([+-]?)(\d+)$` followed by `parse::<u64>`:
a Unicode digit that is not ASCII passes the regex but fails the parse, so only ASCII
digits are accepted); `parseSize` mirrors `convert_arg_to_comparable_value_and_suffix`
followed by `Unit::from_str`; `unitSize` mirrors `byte_size_to_unit_size`.
Values are unbounded `Nat`; the `u64` range appears as the explicit `< 2^64` test of the
parser and as theorem `unitSize_le` (no intermediate value exceeds the input).
-/
namespace FuModel.Find

inductive Cmp where
  | more (n : Nat)
  | eq (n : Nat)
  | less (n : Nat)
  deriving Repr, DecidableEq, BEq

def Cmp.matches : Cmp → Nat → Bool
  | .more n, v => decide (v > n)
  | .eq n, v => decide (v = n)
  | .less n, v => decide (v < n)

/-- `imatches`: the signed variant used by the age tests -/
def Cmp.imatches : Cmp → Int → Bool
  | .more n, v => decide (v ≥ 0) && decide (v.toNat > n)
  | .eq n, v => decide (v ≥ 0) && decide (v.toNat = n)
  | .less n, v => decide (v < 0) || decide (v.toNat < n)

def Cmp.limit : Cmp → Nat
  | .more n => n | .eq n => n | .less n => n

inductive Sign where | plus | minus | none
  deriving Repr, DecidableEq, BEq

def Sign.mk : Sign → Nat → Cmp
  | .plus, n => .more n
  | .minus, n => .less n
  | .none, n => .eq n

def Sign.chars : Sign → List Char
  | .plus => ['+'] | .minus => ['-'] | .none => []

def isAsciiDigit (c : Char) : Bool := decide ('0'.toNat ≤ c.toNat) && decide (c.toNat ≤ '9'.toNat)

/-- positional decimal value of a digit string, most significant first -/
def decVal (ds : List Char) : Nat := ds.foldl (fun a c => a * 10 + (c.toNat - 48)) 0

def splitSign : List Char → Sign × List Char
  | '+' :: r => (.plus, r)
  | '-' :: r => (.minus, r)
  | r => (.none, r)

def u64Bound : Nat := 18446744073709551616

def parseCmp (s : List Char) : Option Cmp :=
  let (sg, ds) := splitSign s
  if !ds.isEmpty && ds.all isAsciiDigit && decide (decVal ds < u64Bound) then some (sg.mk (decVal ds)) else none

/-- `convert_arg_to_number` (`-maxdepth`/`-mindepth`): `str::parse::<usize>` accepts an optional `+` -/
def parseNumber (s : List Char) : Option Nat :=
  let ds := match s with | '+' :: r => r | r => r
  if !ds.isEmpty && ds.all isAsciiDigit && decide (decVal ds < u64Bound) then some (decVal ds) else none

/-- unit suffix → number of bits to shift (`Unit::from_str` + the table of `byte_size_to_unit_size`) -/
def unitShift : List Char → Option Nat
  | ['c'] => some 0
  | ['w'] => some 1
  | [] => some 9
  | ['b'] => some 9
  | ['k'] => some 10
  | ['M'] => some 20
  | ['G'] => some 30
  | _ => none

/-- operand of `-size`: sign, ASCII digits, unit suffix (the whole string) -/
def parseSize (s : List Char) : Option (Cmp × Nat) :=
  let (sg, r) := splitSign s
  let ds := r.takeWhile isAsciiDigit
  let suffix := r.dropWhile isAsciiDigit
  if !ds.isEmpty && decide (decVal ds < u64Bound) then
    match unitShift suffix with
    | some k => some (sg.mk (decVal ds), k)
    | none => none
  else none

/-- `byte_size_to_unit_size` with the unit given by its shift -/
def unitSize (k : Nat) (b : Nat) : Nat :=
  if b = 0 then 0
  else if k = 0 then b
  else ((b - 1) >>> k) + 1

def sizeMatches (c : Cmp) (k : Nat) (bytes : Nat) : Bool := c.matches (unitSize k bytes)

end FuModel.Find
