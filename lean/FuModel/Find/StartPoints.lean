import FuModel.Find.Run

/-!
# Starting points (`parse_args`, `parse_files0_args`, `do_find`'s loop)
-/
namespace FuModel.Find.Run
open FuModel.Find.Walk

/-- the leading words of the command line: optimisation levels and the flags -H, -L, -P (last one wins), an
    optional `--`, then operands up to the first word that starts an expression.
    Returns the follow mode, the starting points (`.` if none) and the remaining words. -/
def scanFlags : Follow → List (List Char) → Follow × List (List Char)
  | f, [] => (f, [])
  | f, w :: ws =>
    if w == "-H".toList then scanFlags .roots ws
    else if w == "-L".toList then scanFlags .always ws
    else if w == "-P".toList then scanFlags .never ws
    else if w == "-O0".toList || w == "-O1".toList || w == "-O2".toList || w == "-O3".toList then scanFlags f ws
    else if w == "--".toList then (f, ws)
    else (f, w :: ws)

def isOperand (w : List Char) : Bool :=
  (w == ['-'] || w.head? != some '-') && w != ['!'] && w != ['(']

def scanOperands : List (List Char) → List (List Char) × List (List Char)
  | [] => ([], [])
  | w :: ws => if isOperand w then let r := scanOperands ws; (w :: r.1, r.2) else ([], w :: ws)

structure Leading where
  follow : Follow
  paths : List (List Char)
  rest : List (List Char)

def parseLeading (argv : List (List Char)) : Leading :=
  let (f, ws) := scanFlags .never argv
  let (ps, rest) := scanOperands ws
  ⟨f, if ps.isEmpty then [['.']] else ps, rest⟩

/-! ### -files0-from -/

/-- split at every NUL (`slice::split`) -/
def splitNul : Bytes → Bytes → List Bytes
  | cur, [] => [cur.reverse]
  | cur, b :: bs => if b == 0 then cur.reverse :: splitNul [] bs else splitNul (b :: cur) bs

/-- `parse_files0_args` on the file content: the names, and whether the zero-length-name
    diagnostic is printed -/
def files0 (content : Bytes) : List Bytes × Bool :=
  let segs := splitNul [] content
  let segs := if segs.getLast? == some [] then segs.dropLast else segs
  (segs.filter (!·.isEmpty), segs.any (·.isEmpty))

/-- starting points are held as strings: a name that is not valid UTF-8 makes `parse_files0_args`
    fail - the run is refused, as it is for such a word among the operands (`main`) -/
def files0Ok (content : Bytes) : Bool := (splitNul [] content).all FuModel.Utf8.validUtf8

end FuModel.Find.Run
