/-!
# -regex / -iregex (`src/find/matchers/regex.rs`)

`Re` is the abstract syntax of the patterns in the property's quantifier (literals, `.`, bracket
expressions, grouping, alternation, `*`, `+`, `?`, intervals); the four concrete syntaxes are
printers of it (on the harness side), so a pattern's meaning does not depend on the syntax it is
written in.  `RegexMatcher::matches` asks Oniguruma for an anchored match at offset 0 and compares its length
with the subject's; the engine reports its first match in backtracking priority order: `firstEnd`.
`endsFrom` / `wholeMatch` compute all possible end positions (what a longest-match engine would
need), used to state why the mechanism is not a whole-string test.
-/
namespace FuModel.Find.Regex

inductive SetMem where
  | ch (c : Char)
  | range (lo hi : Char)
  deriving Repr, DecidableEq

inductive Re where
  | chr (c : Char)
  | any
  | set (neg : Bool) (ms : List SetMem)
  | seq (a b : Re)
  | alt (a b : Re)
  | star (a : Re)
  | plus (a : Re)
  | opt (a : Re)
  | interval (lo hi : Nat) (a : Re)
  | group (a : Re)
  deriving Repr, DecidableEq

def foldA (c : Char) : Char :=
  if decide (65 ≤ c.toNat) && decide (c.toNat ≤ 90) then Char.ofNat (c.toNat + 32) else c

def swapA (c : Char) : Char :=
  if decide (65 ≤ c.toNat) && decide (c.toNat ≤ 90) then Char.ofNat (c.toNat + 32)
  else if decide (97 ≤ c.toNat) && decide (c.toNat ≤ 122) then Char.ofNat (c.toNat - 32) else c

def SetMem.has (m : SetMem) (c : Char) : Bool :=
  match m with
  | .ch x => x == c
  | .range lo hi => decide (lo.toNat ≤ c.toNat) && decide (c.toNat ≤ hi.toNat)

/-- one character against a single-character pattern -/
def accepts1 (icase : Bool) (r : Re) (c : Char) : Bool :=
  match r with
  | .chr x => if icase then foldA x == foldA c else x == c
  | .any => c != '\n'
  | .set neg ms =>
    let inSet := ms.any (·.has c) || (icase && ms.any (·.has (swapA c)))
    if neg then !inSet else inSet
  | _ => false

def insertNat (n : Nat) : List Nat → List Nat
  | [] => [n]
  | m :: ms => if n == m then m :: ms else m :: insertNat n ms

def unionNat (a b : List Nat) : List Nat := b.foldl (fun acc n => insertNat n acc) a

/-- iterate `step` from the positions in `cur`, at most `fuel` rounds, collecting everything reached -/
def closure (step : Nat → List Nat) : Nat → List Nat → List Nat → List Nat
  | 0, acc, _ => acc
  | fuel + 1, acc, cur =>
    let next := (cur.flatMap step).filter fun n => !acc.contains n
    let next := next.foldl (fun a n => insertNat n a) []
    if next.isEmpty then acc else closure step fuel (unionNat acc next) next

/-- exactly `n` repetitions -/
def repeatFrom (step : Nat → List Nat) : Nat → List Nat → List Nat
  | 0, cur => cur
  | n + 1, cur => repeatFrom step n ((cur.flatMap step).foldl (fun a x => insertNat x a) [])

/-- all positions at which a match of `r` starting at `pos` can end -/
def endsFrom (icase : Bool) (s : List Char) : Re → Nat → List Nat
  | .chr c, pos => (match s[pos]? with | some x => if accepts1 icase (.chr c) x then [pos + 1] else [] | none => [])
  | .any, pos => (match s[pos]? with | some x => if accepts1 icase .any x then [pos + 1] else [] | none => [])
  | .set neg ms, pos => (match s[pos]? with | some x => if accepts1 icase (.set neg ms) x then [pos + 1] else [] | none => [])
  | .seq a b, pos => ((endsFrom icase s a pos).flatMap (endsFrom icase s b)).foldl (fun acc n => insertNat n acc) []
  | .alt a b, pos => unionNat (endsFrom icase s a pos) (endsFrom icase s b pos)
  | .star a, pos => closure (endsFrom icase s a) (s.length + 1) [pos] [pos]
  | .plus a, pos =>
    let first := endsFrom icase s a pos
    closure (endsFrom icase s a) (s.length + 1) first first
  | .opt a, pos => unionNat [pos] (endsFrom icase s a pos)
  | .interval lo hi a, pos =>
    let base := repeatFrom (endsFrom icase s a) lo [pos]
    -- up to hi - lo more repetitions
    (List.range (hi - lo)).foldl (fun (acc : List Nat × List Nat) _ =>
        let next := (acc.2.flatMap (endsFrom icase s a)).foldl (fun a x => insertNat x a) []
        (unionNat acc.1 next, next)) (base, base) |>.1
  | .group a, pos => endsFrom icase s a pos

/-- the length Oniguruma reports with FIND_LONGEST: the largest end position -/
def longestEnd (icase : Bool) (r : Re) (s : List Char) : Option Nat :=
  match endsFrom icase s r 0 with
  | [] => none
  | e :: es => some (es.foldl max e)

/-- whole-string membership computed by the set-of-end-positions matcher -/
def wholeMatch (icase : Bool) (r : Re) (s : List Char) : Bool := (endsFrom icase s r 0).contains s.length

/-- the engine's default: the first match in priority order (left alternative first, greedy
    repetition); `fuel` bounds the backtracking depth -/
def firstEndK (icase : Bool) (s : List Char) : Nat → Re → Nat → (Nat → Option Nat) → Option Nat
  | 0, _, _, _ => none
  | fuel + 1, r, pos, k =>
    match r with
    | .chr _ | .any | .set _ _ =>
      (match s[pos]? with | some x => if accepts1 icase r x then k (pos + 1) else none | none => none)
    | .seq a b => firstEndK icase s fuel a pos fun p => firstEndK icase s fuel b p k
    | .alt a b => (firstEndK icase s fuel a pos k) <|> (firstEndK icase s fuel b pos k)
    -- an iteration that consumed nothing ends the loop (the engine's empty-loop check)
    | .star a => (firstEndK icase s fuel a pos fun p => if p == pos then k pos else firstEndK icase s fuel (.star a) p k) <|> k pos
    | .plus a => firstEndK icase s fuel a pos fun p => firstEndK icase s fuel (.star a) p k
    | .opt a => (firstEndK icase s fuel a pos k) <|> k pos
    | .interval lo hi a =>
      if lo > 0 then firstEndK icase s fuel a pos fun p => firstEndK icase s fuel (.interval (lo - 1) (hi - 1) a) p k
      else if hi > 0 then (firstEndK icase s fuel a pos fun p => firstEndK icase s fuel (.interval 0 (hi - 1) a) p k) <|> k pos
      else k pos
    | .group a => firstEndK icase s fuel a pos k

def firstEnd (icase : Bool) (r : Re) (s : List Char) : Option Nat :=
  firstEndK icase s (4 * (s.length + 1) * 50 + 50) r 0 some

/-- `RegexMatcher::matches`: `Regex::is_match` = the engine's first match at offset 0 has the
    length of the subject -/
def matchesRe (icase : Bool) (r : Re) (s : List Char) : Bool := firstEnd icase r s == some s.length

inductive RType where | emacs | grep | posixBasic | posixExtended
  deriving Repr, DecidableEq

/-- `RegexType::from_str` -/
def rtypeOfName (n : String) : Option RType :=
  if n == "emacs" then some .emacs else if n == "grep" then some .grep
  else if n == "posix-basic" || n == "ed" || n == "sed" then some .posixBasic
  else if n == "posix-extended" then some .posixExtended else none

end FuModel.Find.Regex
