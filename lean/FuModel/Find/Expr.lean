/-!
# find's expression layer (`src/find/matchers/mod.rs` build_matcher_tree,
# `logical_matchers.rs` builders and matchers)

* `Tok`     — the token classes the parser distinguishes (`!`/`-not`, `-a`/`-and`,
              `-o`/`-or`, `,`, `(`, `)`, and primaries with their operands already attached).
* `M`       — the matcher tree (`AndMatcher`, `OrMatcher`, `ListMatcher`, `NotMatcher`, leaves).
* `St`      — the state of `ListMatcherBuilder` (three reversed lists), the pending `!`
              (`invert_next_matcher`) and the "an operator is waiting for its operand" flag.
* `run`     — `build_matcher_tree`.  The recursion on `(` is defunctionalised: one saved
              builder state per open parenthesis (each Rust activation record is one frame;
              `expecting_bracket` is "the frame stack is not empty"), so `run` is structurally
              recursive on the token list.
* `M.eval`  — `Matcher::matches` for the four combinators with their `should_quit` breaks.
The primaries are abstract: `sem p σ` is what evaluating primary `p` does to the per-entry
state `σ` (output, prune mark, exit code, quit flag …) and which truth value it yields.
-/
namespace FuModel.Find.Expr

inductive Tok (P : Type) where
  | prim (p : P)
  | bang | and_ | or_ | comma | lp | rp
  deriving Repr, DecidableEq

inductive M (P : Type) where
  | prim (p : P)
  | not (m : M P)
  | and (ms : List (M P))
  | or (ms : List (M P))
  | list (ms : List (M P))
  deriving Repr

inductive Err where
  | needExprAfter      -- "expected an expression after …"
  | nothingBefore      -- "you have used a binary operator … with nothing before it"
  | unexpectedClose    -- ")" without "("
  | emptyParens
  | missingClose
  deriving Repr, DecidableEq

/-- builder state; all three lists are newest-first -/
structure St (P : Type) where
  cur : List (M P)                       -- the open AndMatcherBuilder
  ands : List (List (M P))               -- closed and-groups of the open OrMatcherBuilder
  ors : List (List (List (M P)))         -- closed or-groups of the ListMatcherBuilder
  inv : Bool                             -- invert_next_matcher
  pend : Bool                            -- an operator (`!`, -a, -o, `,`) waits for its operand

def St.empty {P : Type} : St P := ⟨[], [], [], false, false⟩

variable {P : Type}

def buildAnd (cur : List (M P)) : M P :=
  match cur with
  | [m] => m
  | ms => .and ms.reverse

def buildOr (cur : List (M P)) (ands : List (List (M P))) : M P :=
  match ands with
  | [] => buildAnd cur
  | _ => .or ((cur :: ands).reverse.map buildAnd)

def buildList (cur : List (M P)) (ands : List (List (M P))) (ors : List (List (List (M P)))) : M P :=
  match ors with
  | [] => buildOr cur ands
  | _ => .list (((cur :: ands) :: ors).reverse.map fun g => match g with
      | [] => .and []        -- never: or-groups are non-empty
      | c :: a => buildOr c a)

def St.build (s : St P) : M P := buildList s.cur s.ands s.ors

/-- `new_and_condition`, with the pending `!` applied -/
def St.push (s : St P) (m : M P) : St P :=
  { s with cur := (if s.inv then .not m else m) :: s.cur, inv := false, pend := false }

/-- `are_more_expressions`: something follows and it is not `)` -/
def moreExprs : List (Tok P) → Bool
  | [] => false
  | .rp :: _ => false
  | _ => true

/-- `build_matcher_tree`; `afterLp` = the previous token was `(` -/
def run : List (Tok P) → List (St P) → St P → Bool → Except Err (M P)
  | [], [], s, _ => .ok s.build
  | [], _ :: _, _, _ => .error .missingClose
  | .prim p :: rest, stack, s, _ => run rest stack (s.push (.prim p)) false
  | .bang :: rest, stack, s, _ =>
    if moreExprs rest then run rest stack { s with inv := !s.inv, pend := true } false
    else .error .needExprAfter
  | .and_ :: rest, stack, s, _ =>
    if !moreExprs rest then .error .needExprAfter
    else if s.cur.isEmpty || s.pend then .error .nothingBefore
    else run rest stack { s with pend := true } false
  | .or_ :: rest, stack, s, _ =>
    if !moreExprs rest then .error .needExprAfter
    else if s.cur.isEmpty || s.pend then .error .nothingBefore
    else run rest stack { s with cur := [], ands := s.cur :: s.ands, pend := true } false
  | .comma :: rest, stack, s, _ =>
    if !moreExprs rest then .error .needExprAfter
    else if s.cur.isEmpty || s.pend then .error .nothingBefore
    else run rest stack { s with cur := [], ands := [], ors := (s.cur :: s.ands) :: s.ors, pend := true } false
  | .lp :: rest, stack, s, _ => run rest (s :: stack) St.empty true
  | .rp :: rest, stack, s, afterLp =>
    match stack with
    | [] => .error .unexpectedClose
    | outer :: stack' =>
      if afterLp then .error .emptyParens
      else run rest stack' (outer.push s.build) false

/-- the expression part of the command line → matcher tree -/
def buildTree (ts : List (Tok P)) : Except Err (M P) := run ts [] St.empty false

/-! ### evaluation -/

section eval
variable {σ : Type} (sem : P → σ → Bool × σ) (quit : σ → Bool)

mutual
def M.eval : M P → σ → Bool × σ
  | .prim p, s => sem p s
  | .not m, s => let r := m.eval s; (!r.1, r.2)
  | .and ms, s => evalAnd ms s
  | .or ms, s => evalOr ms s
  | .list ms, s => evalList ms false s
def evalAnd : List (M P) → σ → Bool × σ
  | [], s => (true, s)
  | m :: ms, s =>
    let r := m.eval s
    if !r.1 then (false, r.2) else if quit r.2 then (true, r.2) else evalAnd ms r.2
def evalOr : List (M P) → σ → Bool × σ
  | [], s => (false, s)
  | m :: ms, s =>
    let r := m.eval s
    if r.1 then (true, r.2) else if quit r.2 then (false, r.2) else evalOr ms r.2
def evalList : List (M P) → Bool → σ → Bool × σ
  | [], rc, s => (rc, s)
  | m :: ms, _, s =>
    let r := m.eval s
    if quit r.2 then r else evalList ms r.1 r.2
end

end eval

/-- `has_side_effects` -/
def M.hasSE (isAction : P → Bool) : M P → Bool
  | .prim p => isAction p
  | .not m => m.hasSE isAction
  | .and ms => hasSEs ms
  | .or ms => hasSEs ms
  | .list ms => hasSEs ms
where hasSEs : List (M P) → Bool
  | [] => false
  | m :: ms => m.hasSE isAction || hasSEs ms

/-- `build_top_level_matcher`: `-print` is and-ed to the whole expression iff it has no action -/
def buildTop (isAction : P → Bool) (print : P) (ts : List (Tok P)) : Except Err (M P) :=
  match buildTree ts with
  | .ok m => if m.hasSE isAction then .ok m else .ok (.and [m, .prim print])
  | .error e => .error e

end FuModel.Find.Expr
