/-!
# The directory walk (`walkdir::IntoIter` as configured by `process_dir`, `src/find/mod.rs`)

`Node` is the part of the file system below one starting point, as the walk sees it:
a leaf (anything that is never descended into) or a directory with its listing; a symbolic
link that resolves to a directory is a `dir` with `isLink = true` carrying the listing it
resolves to (the correspondence harness materialises exactly that), `LeafKind` says what a
leaf link resolves to.  `α` is a payload (stat records …) the walk does not look at.

`step` is one iteration of `IntoIter::next`'s loop (`handle_entry`, `push`, `pop`,
`get_deferred_dir`, `skippable` branch for branch, with walkdir's separate `deferred_dirs`
stack); `loop` is `process_dir`'s `while let Some(result) = it.next()` around an abstract
evaluator (which may ask to prune or quit), including `WalkEntry::from_walkdir`'s conversion
of "not found" errors into entries for dangling links.
-/
namespace FuModel.Find.Walk

abbrev Name := List UInt8

inductive LeafKind where
  | plain          -- not a directory, not a symbolic link
  | linkFile       -- symbolic link resolving to a non-directory
  | linkDangling   -- symbolic link whose target does not exist
  | linkLoop       -- symbolic link resolving to an ancestor directory (a cycle when followed), or to itself (ELOOP)
  deriving DecidableEq, Repr

def LeafKind.isLink : LeafKind → Bool
  | .plain => false
  | _ => true

inductive Node (α : Type) where
  | leaf (name : Name) (k : LeafKind) (a : α)
  | dir (name : Name) (isLink : Bool) (readable : Bool) (a : α) (kids : List (Node α))
  deriving Repr

variable {α : Type}

def Node.name : Node α → Name
  | .leaf n _ _ => n
  | .dir n _ _ _ _ => n

mutual
def Node.size : Node α → Nat
  | .leaf _ _ _ => 1
  | .dir _ _ _ _ kids => 2 + sizeL kids
def sizeL : List (Node α) → Nat
  | [] => 0
  | n :: ns => n.size + sizeL ns
end

structure Opts where
  contentsFirst : Bool
  minDepth : Nat
  maxDepth : Nat
  followLinks : Bool     -- `follow_links`      (-L / -follow)
  followRoot : Bool      -- `follow_root_links` (-H or -L)
  deriving Repr

/-- `WalkDir::max_depth(M).min_depth(m)` with the setters' mutual clamping -/
def Opts.clamped (o : Opts) : Opts := { o with minDepth := if o.minDepth > o.maxDepth then o.maxDepth else o.minDepth }

/-- an entry as the walk yields it: the names below the starting point (outermost first), its
    depth, the node, and whether walkdir resolved it through a link (`DirEntry::follow_link`) -/
structure Ent (α : Type) where
  rpath : List Name        -- reversed: innermost name first
  depth : Nat
  node : Node α
  followed : Bool
  deriving Repr

inductive Item (α : Type) where
  | ok (e : Ent α)
  | notFound (e : Ent α)      -- dangling link met while following: error carrying path and depth
  | loopErr (e : Ent α)       -- link closing a directory cycle
  | readErr (rpath : List Name) (depth : Nat)   -- directory that cannot be listed
  deriving Repr

structure Frame (α : Type) where
  rpath : List Name
  kids : List (Node α)
  pendingErr : Bool          -- `read_dir` failed: the listing yields that error once, then ends
  deriving Repr

structure MState (α : Type) where
  start : Option (Node α)
  stack : List (Frame α)           -- innermost first
  deferred : List (Ent α)          -- `deferred_dirs`, innermost first
  deriving Repr

def MState.init (root : Node α) : MState α := ⟨some root, [], []⟩

def frameSize (f : Frame α) : Nat := sizeL f.kids + (if f.pendingErr then 1 else 0)

def stackSize : List (Frame α) → Nat
  | [] => 0
  | f :: fs => frameSize f + stackSize fs

/-- termination measure of the walk -/
def MState.mu (S : MState α) : Nat :=
  3 * stackSize S.stack + S.stack.length + S.deferred.length +
    (match S.start with | some n => 3 * n.size + 1 | none => 0)

def skippable (o : Opts) (depth : Nat) : Bool := decide (depth < o.minDepth) || decide (depth > o.maxDepth)

inductive Step (α : Type) where
  | yield (i : Item α) (S : MState α)
  | cont (S : MState α)
  | done

/-- the frame pushed for a directory (`push`): its listing, or the pending error when unreadable -/
def frameOf (rpath : List Name) (readable : Bool) (kids : List (Node α)) : Frame α :=
  if readable then ⟨rpath, kids, false⟩ else ⟨rpath, [], true⟩

/-- `handle_entry` for an entry at `depth` (the current `self.depth`), given the machine state
    from which the entry has already been taken -/
def handleEntry (o : Opts) (S : MState α) (rpath : List Name) (depth : Nat) (n : Node α) : Step α :=
  match n with
  | .leaf _ k _ =>
    if o.followLinks && k.isLink then
      -- `follow`: re-stat through the link
      match k with
      | .linkDangling => .yield (.notFound ⟨rpath, depth, n, true⟩) S
      | .linkLoop => .yield (.loopErr ⟨rpath, depth, n, true⟩) S
      | _ => if skippable o depth then .cont S else .yield (.ok ⟨rpath, depth, n, true⟩) S
    else if depth == 0 && o.followRoot && k == .linkDangling then
      -- root link, `fs::metadata` fails: not found
      .yield (.notFound ⟨rpath, depth, n, false⟩) S
    else if depth == 0 && o.followRoot && k == .linkLoop then
      -- root link, `fs::metadata` fails: too many levels of symbolic links
      .yield (.loopErr ⟨rpath, depth, n, false⟩) S
    else if skippable o depth then .cont S else .yield (.ok ⟨rpath, depth, n, false⟩) S
  | .dir _ isLink readable _ kids =>
    if !isLink || o.followLinks then
      -- a normal directory (possibly reached through a followed link): push, then defer or yield
      let S' := { S with stack := frameOf rpath readable kids :: S.stack }
      let e : Ent α := ⟨rpath, depth, n, isLink⟩
      if o.contentsFirst then .cont { S' with deferred := e :: S'.deferred }
      else if skippable o depth then .cont S' else .yield (.ok e) S'
    else if depth == 0 && o.followRoot then
      -- a starting point that is a link to a directory, followed only because it is one (-H): its
      -- listing is pushed.  walkdir alone would report it at once even under `contents_first`
      -- (its bookkeeping of deferred directories is then off by one); `process_dir` therefore
      -- walks `LINK/` in that configuration, which walkdir sees as the directory itself, and
      -- reports the starting point under its own spelling: deferred like any directory
      let S' := { S with stack := frameOf rpath readable kids :: S.stack }
      let e : Ent α := ⟨rpath, depth, n, false⟩
      if o.contentsFirst then .cont { S' with deferred := e :: S'.deferred }
      else if skippable o depth then .cont S' else .yield (.ok e) S'
    else
      -- a link to a directory that is not followed: an entry like any other
      if skippable o depth then .cont S else .yield (.ok ⟨rpath, depth, n, false⟩) S

/-- one iteration of `IntoIter::next` -/
def step (o : Opts) (S : MState α) : Step α :=
  match S.start with
  | some root => handleEntry o { S with start := none } [] 0 root
  | none =>
    match S.stack with
    | [] =>
      -- after the loop: `if contents_first { depth = 0; get_deferred_dir }`
      if o.contentsFirst then
        match S.deferred with
        | d :: ds => if skippable o 0 then .done else .yield (.ok d) { S with deferred := ds }
        | [] => .done
      else .done
    | f :: fs =>
      let depth := S.stack.length
      -- get_deferred_dir
      if o.contentsFirst && decide (depth < S.deferred.length) then
        match S.deferred with
        | d :: ds => if skippable o depth then .cont { S with deferred := ds } else .yield (.ok d) { S with deferred := ds }
        | [] => .cont S   -- impossible
      else if depth > o.maxDepth then .cont { S with stack := fs }
      else if f.pendingErr then .yield (.readErr f.rpath (depth - 1)) { S with stack := { f with pendingErr := false } :: fs }
      else
        match f.kids with
        | [] => .cont { S with stack := fs }
        | n :: ns => handleEntry o { S with stack := { f with kids := ns } :: fs } (n.name :: f.rpath) depth n

/-- `skip_current_dir` -/
def skipCurrent (S : MState α) : MState α :=
  match S.stack with
  | [] => S
  | _ :: fs => { S with stack := fs }

/-! ### `process_dir` -/

inductive Follow where | never | roots | always
  deriving DecidableEq, Repr

/-- what find evaluates its expression on (`WalkEntry`) -/
structure Visit (α : Type) where
  ent : Ent α
  explicit : Bool       -- `Entry::Explicit` (followed roots, dangling links)
  follow : Follow       -- the follow mode recorded in the entry (`never` for converted dangling links)
  deriving Repr

structure EvalOut where
  prune : Bool
  quit : Bool
  exit : Nat
  deriving Repr

/-- `WalkEntry::from_walkdir`: `none` = the error is reported (diagnostic, status 1) -/
def toVisit (follow : Follow) : Item α → Option (Visit α)
  | .ok e => some ⟨e, e.depth == 0 && follow != .never, follow⟩
  | .notFound e => some ⟨e, true, .never⟩
  | .loopErr _ => none
  | .readErr _ _ => none

structure Res (σ : Type) where
  st : σ
  ret : Nat
  quit : Bool
  diags : Nat
  deriving Repr

theorem sizeL_pos_le (n : Node α) : 1 ≤ n.size := by cases n <;> simp [Node.size] <;> omega

theorem frameOf_cost (rp : List Name) (r : Bool) (kids : List (Node α)) : frameSize (frameOf rp r kids) ≤ sizeL kids + 1 := by
  unfold frameOf frameSize; cases r <;> simp [sizeL]

theorem handleEntry_mu (o : Opts) (S : MState α) (rp : List Name) (d : Nat) (n : Node α) (hs : S.start = none) :
    (∀ S', handleEntry o S rp d n = .cont S' → S'.mu + 1 ≤ S.mu + 3 * n.size) ∧
    (∀ i S', handleEntry o S rp d n = .yield i S' → S'.mu + 1 ≤ S.mu + 3 * n.size) := by
  cases n with
  | leaf nm k a =>
    have key : (∀ S', handleEntry o S rp d (.leaf nm k a) = .cont S' → S' = S) ∧
        (∀ i S', handleEntry o S rp d (.leaf nm k a) = .yield i S' → S' = S) := by
      simp only [handleEntry]
      constructor
      · intro S' h
        repeat' split at h
        all_goals first | (injection h with h; exact h.symm) | cases h
      · intro i S' h
        repeat' split at h
        all_goals first | (injection h with _ h; exact h.symm) | cases h
    simp only [Node.size]
    constructor
    · intro S' h; rw [key.1 S' h]; omega
    · intro i S' h; rw [key.2 i S' h]; omega
  | dir nm l r a kids =>
    have hc := frameOf_cost rp r kids
    unfold handleEntry
    simp only [Node.size]
    constructor
    · intro S' h
      split at h
      · split at h
        · injection h with h; subst h; simp only [MState.mu, hs, stackSize, List.length_cons]; omega
        · split at h
          · injection h with h; subst h; simp only [MState.mu, hs, stackSize, List.length_cons]; omega
          · cases h
      · split at h
        · split at h
          · injection h with h; subst h; simp only [MState.mu, hs, stackSize, List.length_cons]; omega
          · split at h
            · injection h with h; subst h; simp only [MState.mu, hs, stackSize, List.length_cons]; omega
            · cases h
        · split at h
          · injection h with h; subst h; simp only [MState.mu, hs]; omega
          · cases h
    · intro i S' h
      split at h
      · split at h
        · cases h
        · split at h
          · cases h
          · injection h with _ h; subst h; simp only [MState.mu, hs, stackSize, List.length_cons]; omega
      · split at h
        · split at h
          · cases h
          · split at h
            · cases h
            · injection h with _ h; subst h; simp only [MState.mu, hs, stackSize, List.length_cons]; omega
        · split at h
          · cases h
          · injection h with _ h; subst h; simp only [MState.mu, hs]; omega

theorem step_mu (o : Opts) (S : MState α) :
    (∀ S', step o S = .cont S' → S'.mu < S.mu) ∧ (∀ i S', step o S = .yield i S' → S'.mu < S.mu) := by
  obtain ⟨start, stack, deferred⟩ := S
  unfold step
  cases start with
  | some root =>
    have := handleEntry_mu o (⟨none, stack, deferred⟩ : MState α) [] 0 root rfl
    simp only [MState.mu] at this ⊢
    constructor
    · intro S' h; have := this.1 S' h; omega
    · intro i S' h; have := this.2 i S' h; omega
  | none =>
    cases stack with
    | nil =>
      simp only
      constructor
      · intro S' h
        split at h
        · split at h
          · split at h <;> cases h
          · cases h
        · cases h
      · intro i S' h
        split at h
        · split at h
          · rename_i d ds hd
            split at h
            · cases h
            · injection h with _ h; subst h; simp [MState.mu]
          · cases h
        · cases h
    | cons f fs =>
      simp only
      constructor
      · intro S' h
        split at h
        · split at h
          · rename_i d ds hd
            split at h
            · injection h with h; subst h; simp [MState.mu]
            · cases h
          · rename_i hc hd; simp at hd
        · split at h
          · injection h with h; subst h; simp [MState.mu, stackSize]; omega
          · split at h
            · cases h
            · split at h
              · injection h with h; subst h; simp [MState.mu, stackSize]; omega
              · rename_i n ns hk
                have := (handleEntry_mu o (⟨none, { f with kids := ns } :: fs, deferred⟩ : MState α) (n.name :: f.rpath) (f :: fs).length n rfl).1 S' h
                simp only [MState.mu, stackSize, frameSize, hk, sizeL, List.length_cons] at this ⊢
                omega
      · intro i S' h
        split at h
        · split at h
          · rename_i d ds hd
            split at h
            · cases h
            · injection h with _ h; subst h; simp [MState.mu]
          · cases h
        · split at h
          · cases h
          · split at h
            · rename_i hp
              injection h with _ h; subst h
              simp [MState.mu, stackSize, frameSize, hp]
            · split at h
              · cases h
              · rename_i n ns hk
                have := (handleEntry_mu o (⟨none, { f with kids := ns } :: fs, deferred⟩ : MState α) (n.name :: f.rpath) (f :: fs).length n rfl).2 i S' h
                simp only [MState.mu, stackSize, frameSize, hk, sizeL, List.length_cons] at this ⊢
                omega

theorem skipCurrent_mu (S : MState α) : (skipCurrent S).mu ≤ S.mu := by
  unfold skipCurrent
  split
  · exact Nat.le_refl _
  · rename_i f fs h; simp only [MState.mu, h, stackSize, List.length_cons]; omega

/-- the `while let Some(result) = it.next()` loop of `process_dir` around an evaluator -/
def loop {σ : Type} (o : Opts) (follow : Follow) (ev : Visit α → σ → EvalOut × σ)
    (S : MState α) (acc : σ) (ret diags : Nat) : Res σ :=
  match h : step o S with
  | .done => ⟨acc, ret, false, diags⟩
  | .cont S' => loop o follow ev S' acc ret diags
  | .yield i S' =>
    match toVisit follow i with
    | none => loop o follow ev S' acc 1 (diags + 1)
    | some v =>
      let r := ev v acc
      let ret' := if r.1.exit = 0 then ret else r.1.exit
      if r.1.quit then ⟨r.2, ret', true, diags⟩
      else if r.1.prune then
        have : (skipCurrent S').mu < S.mu := Nat.lt_of_le_of_lt (skipCurrent_mu S') ((step_mu o S).2 i S' h)
        loop o follow ev (skipCurrent S') r.2 ret' diags
      else loop o follow ev S' r.2 ret' diags
termination_by S.mu
decreasing_by
  all_goals first
    | exact (step_mu o S).1 _ h
    | exact (step_mu o S).2 _ _ h
    | assumption

/-- the body of `loop` for a given outcome of `step` -/
def loopStep {σ : Type} (o : Opts) (follow : Follow) (ev : Visit α → σ → EvalOut × σ)
    (st : Step α) (acc : σ) (ret diags : Nat) : Res σ :=
  match st with
  | .done => ⟨acc, ret, false, diags⟩
  | .cont S' => loop o follow ev S' acc ret diags
  | .yield i S' =>
    match toVisit follow i with
    | none => loop o follow ev S' acc 1 (diags + 1)
    | some v =>
      let r := ev v acc
      let ret' := if r.1.exit = 0 then ret else r.1.exit
      if r.1.quit then ⟨r.2, ret', true, diags⟩
      else if r.1.prune then loop o follow ev (skipCurrent S') r.2 ret' diags
      else loop o follow ev S' r.2 ret' diags

theorem loop_eq {σ : Type} (o : Opts) (follow : Follow) (ev : Visit α → σ → EvalOut × σ)
    (S : MState α) (acc : σ) (ret diags : Nat) :
    loop o follow ev S acc ret diags = loopStep o follow ev (step o S) acc ret diags := by
  rw [loop]
  unfold loopStep
  split <;> simp_all

/-! ### how `process_dir` configures and guards the walk -/

/-- what the reference is parametrised by -/
structure RefCfg where
  depthFirst : Bool
  minDepth : Nat
  maxDepth : Nat
  follow : Follow
  deriving Repr

def inRange (c : RefCfg) (d : Nat) : Bool := decide (c.minDepth ≤ d) && decide (d ≤ c.maxDepth)

/-- `WalkDir::new(dir).contents_first(..).max_depth(..).min_depth(..).follow_links(..).follow_root_links(..)` -/
def optsOf (c : RefCfg) : Opts :=
  ({ contentsFirst := c.depthFirst, minDepth := c.minDepth, maxDepth := c.maxDepth,
     followLinks := c.follow == .always, followRoot := c.follow != .never } : Opts).clamped

/-- the evaluator as `process_dir` applies it: entries outside [mindepth, maxdepth] are not
    evaluated, and a prune mark is acted upon only in pre-order -/
def guardEv {σ : Type} (c : RefCfg) (ev : Visit α → σ → EvalOut × σ) : Visit α → σ → EvalOut × σ :=
  fun v s =>
    if inRange c v.ent.depth then
      let r := ev v s
      (if c.depthFirst then { r.1 with prune := false } else r.1, r.2)
    else (⟨false, false, 0⟩, s)

/-- `process_dir` for a starting point that exists -/
def processRoot {σ : Type} (c : RefCfg) (ev : Visit α → σ → EvalOut × σ) (root : Node α) (acc : σ) : Res σ :=
  loop (optsOf c) c.follow (guardEv c ev) (MState.init root) acc 0 0

end FuModel.Find.Walk
