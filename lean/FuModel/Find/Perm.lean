import FuModel.Find.Run

/-!
# `-perm` operands (`src/find/matchers/perm.rs` over a model of uucore's `mode::parse_numeric`
# and `mode::parse_symbolic`, called with fperm = 0, umask = 0, considering_dir = false)
-/
namespace FuModel.Find.Perm
open FuModel.Find.Run

/-- `split_comparison_type` -/
def splitKind : List Char → PermKind × List Char
  | '-' :: r => (.atLeast, r)
  | '/' :: r => (.anyOf, r)
  | r => (.exact, r)

def isOctal (c : Char) : Bool := decide (48 ≤ c.toNat) && decide (c.toNat ≤ 55)

def octVal (ds : List Char) : Nat := ds.foldl (fun a c => a * 8 + (c.toNat - 48)) 0

def isTrimWs (c : Char) : Bool := c == ' ' || c == '\t' || c == '\n' || c == '\r' || c.toNat == 11 || c.toNat == 12

def trim (s : List Char) : List Char := ((s.dropWhile isTrimWs).reverse.dropWhile isTrimWs).reverse

/-- `parse_numeric(0, mode, false)` -/
def parseNumeric (mode : List Char) : Option Nat :=
  let (op, rest) : Option Char × List Char := match mode with
    | '+' :: r => (some '+', r) | '-' :: r => (some '-', r) | '=' :: r => (some '=', r) | r => (none, r)
  let body := trim rest
  -- `u32::from_str_radix(_, 8)` accepts one leading '+'
  let digits := match body with | '+' :: r => r | r => r
  let change : Option Nat :=
    if body.isEmpty then some 0
    else if !digits.isEmpty && digits.all isOctal && decide (octVal digits < 4294967296) then some (octVal digits) else none
  match change with
  | none => none
  | some c =>
    if c > 4095 then none
    else some (match op with | some '-' => 0 | _ => c)

def levelMask (c : Char) : Option Nat :=
  if c == 'u' then some 0o4700 else if c == 'g' then some 0o2070 else if c == 'o' then some 0o1007
  else if c == 'a' then some 0o7777 else none

/-- `parse_change(mode, fperm, false)`: (bits, characters consumed) -/
def parseChange (fperm : Nat) : List Char → Nat → Nat → Nat × Nat
  | [], srwx, pos => (if pos == 0 then 0 else srwx, pos)
  | c :: r, srwx, pos =>
    if c == 'r' then parseChange fperm r (srwx ||| 0o444) (pos + 1)
    else if c == 'w' then parseChange fperm r (srwx ||| 0o222) (pos + 1)
    else if c == 'x' then parseChange fperm r (srwx ||| 0o111) (pos + 1)
    else if c == 'X' then parseChange fperm r (if fperm &&& 0o111 != 0 then srwx ||| 0o111 else srwx) (pos + 1)
    else if c == 's' then parseChange fperm r (srwx ||| 0o6000) (pos + 1)
    else if c == 't' then parseChange fperm r (srwx ||| 0o1000) (pos + 1)
    else if c == 'u' || c == 'g' || c == 'o' then
      let v := if c == 'u' then (fperm &&& 0o700) ||| ((fperm >>> 3) &&& 0o070) ||| ((fperm >>> 6) &&& 0o007)
               else if c == 'g' then ((fperm <<< 3) &&& 0o700) ||| (fperm &&& 0o070) ||| ((fperm >>> 3) &&& 0o007)
               else ((fperm <<< 6) &&& 0o700) ||| ((fperm <<< 3) &&& 0o070) ||| (fperm &&& 0o007)
      -- only as the first character of the permission list
      if pos != 0 then (srwx, pos) else (v, 1)
    else (if pos == 0 then 0 else srwx, pos)

/-- the `while !mode.is_empty()` loop of `parse_symbolic` -/
def symLoop (mask : Nat) : Nat → List Char → Nat → Option Nat
  | 0, _, _ => none
  | _ + 1, [], fperm => some fperm
  | fuel + 1, c :: r, fperm =>
    if c == '+' || c == '-' || c == '=' then
      let (srwx, used) := parseChange fperm r 0 0
      let rest := r.drop used
      let fperm' :=
        if c == '+' then fperm ||| (srwx &&& mask)
        else if c == '-' then fperm &&& (4095 - (srwx &&& mask))
        else (fperm &&& (4095 - mask)) ||| (srwx &&& mask)
      symLoop mask fuel rest fperm'
    else none

/-- `parse_symbolic(fperm, chunk, 0, false)` -/
def parseSymbolic (fperm : Nat) (chunk : List Char) : Option Nat :=
  let levels := chunk.takeWhile fun c => (levelMask c).isSome
  let rest := chunk.dropWhile fun c => (levelMask c).isSome
  if rest.isEmpty then none
  else
    let mask := if levels.isEmpty then 0o7777 else levels.foldl (fun m c => m ||| (levelMask c).getD 0) 0
    symLoop mask (rest.length + 1) rest fperm

def splitComma : List Char → List Char → List (List Char)
  | cur, [] => [cur.reverse]
  | cur, c :: r => if c == ',' then cur.reverse :: splitComma [] r else splitComma (c :: cur) r

/-- `parsing::parse_mode(pattern, false)` -/
def parseMode (pattern : List Char) : Option Nat :=
  if pattern.any (fun c => decide (48 ≤ c.toNat) && decide (c.toNat ≤ 57)) then parseNumeric pattern
  else (splitComma [] pattern).foldl (fun acc chunk => acc.bind fun m => parseSymbolic m chunk) (some 0)

/-- `PermMatcher::new` -/
def parsePerm (operand : List Char) : Option (PermKind × Nat) :=
  let (k, rest) := splitKind operand
  (parseMode rest).map fun m => (k, m)

/-! ### canonical spellings -/

def octDigit (n : Nat) : Char := Char.ofNat (48 + n)

/-- the four-digit octal spelling of a mode -/
def octalSpelling (m : Nat) : List Char :=
  [octDigit (m / 512 % 8), octDigit (m / 64 % 8), octDigit (m / 8 % 8), octDigit (m % 8)]

def rwx (bits : Nat) (special : Bool) (sp : Char) : List Char :=
  (if bits &&& 4 != 0 then ['r'] else []) ++ (if bits &&& 2 != 0 then ['w'] else []) ++
  (if bits &&& 1 != 0 then ['x'] else []) ++ (if special then [sp] else [])

/-- the symbolic spelling `u=…,g=…,o=…` of a mode -/
def symbolicSpelling (m : Nat) : List Char :=
  ['u', '='] ++ rwx (m / 64 % 8) (m &&& 0o4000 != 0) 's' ++ [',', 'g', '='] ++ rwx (m / 8 % 8) (m &&& 0o2000 != 0) 's' ++
  [',', 'o', '='] ++ rwx (m % 8) (m &&& 0o1000 != 0) 't'

end FuModel.Find.Perm
