import FuModel.Find.StartPoints
import FuModel.Find.Numeric
import FuModel.Find.Perm
import FuModel.Find.PrintfFmt
import FuModel.Find.Regex

/-!
# find's command line as a whole (`parse_args`, `build_top_level_matcher`, `build_matcher_tree`)

The words after the flags and starting points are read left to right.  `classify` is the big
`match args[i]` of `build_matcher_tree`: what a word is when it stands where a primary or an
operator is expected.  `lex` consumes the words: a primary takes its operands with it (they are
checked on the spot, as the constructors of the matchers do), `-exec`/`-execdir` scan to their
terminator, `-help`/`-version` stop the scan.  What is left is the token string that the builder
of `Find/Expr.lean` (`run`) turns into a tree or refuses.  `verdict` is `parse_args`: accept
(the walk starts), help, or reject (`find_main` prints one diagnostic and returns 1 without
visiting anything).

Validators that live outside the modelled code (Oniguruma compiling a pattern, the passwd and
group databases, the file system for reference and output files, chrono for dates and time
specifiers) are parameters: `Ext`.  An answer the run did not supply makes the verdict
`unmodelled`.
-/
namespace FuModel.Find.Cmdline
open FuModel.Find FuModel.Find.Expr FuModel.Find.Regex

abbrev Word := List Char

structure Ext where
  regexOk : RType → Bool → Word → Option Bool      -- Regex::with_options succeeds
  userKnown : Word → Option Bool                    -- User::from_name finds an entry
  groupKnown : Word → Option Bool
  refFile : Word → Option Bool                      -- metadata of the reference file can be read
  outFile : Word → Option Bool                      -- File::create succeeds
  dateOk : Word → Option Bool                       -- parse_date_str_to_timestamps
  files0Ok : Word → Option Bool                     -- the -files0-from file can be read
  timeFmtOk : Word → Option Bool                    -- a -printf format with %A/%C/%T specifiers

inductive Res where | ok | bad | unk
  deriving Repr, DecidableEq

def Res.ofOpt : Option Bool → Res
  | some true => .ok
  | some false => .bad
  | none => .unk

def Res.ofBool (b : Bool) : Res := if b then .ok else .bad

/-- how the operand of a one-operand primary is checked while the tree is built -/
inductive Check where
  | any            -- never refused: -name … -lname, -fstype
  | printf | regextype | regex (icase : Bool) | ftype | cmp | size | perm | number
  | user | group
  | refFile        -- -newer, -samefile, -newerXY with Y a file time
  | outFile        -- -fprint, -fprint0, -fls
  | date           -- -newerXt
  | files0         -- -files0-from
  | birth          -- -newerBY: refused on Linux once the operand is known to be present
  deriving Repr, DecidableEq

inductive Kind where
  | nullary | unary (c : Check) | fprintf | exec | help
  | bang | and_ | or_ | comma | lp | rp | unknown
  deriving Repr, DecidableEq

def nullaries : List String :=
  ["-print", "-print0", "-ls", "-true", "-false", "-readable", "-delete", "-empty", "-nouser", "-nogroup",
   "-executable", "-prune", "-quit", "-writable", "-follow", "-daystart", "-noleaf", "-d", "-depth",
   "-mount", "-xdev", "-sorted"]

def unaries : List (String × Check) :=
  [("-printf", .printf), ("-fprint", .outFile), ("-fprint0", .outFile), ("-fls", .outFile),
   ("-lname", .any), ("-ilname", .any), ("-name", .any), ("-iname", .any), ("-path", .any), ("-ipath", .any),
   ("-wholename", .any), ("-iwholename", .any), ("-regextype", .regextype), ("-regex", .regex false),
   ("-iregex", .regex true), ("-type", .ftype), ("-xtype", .ftype), ("-fstype", .any), ("-newer", .refFile),
   ("-mtime", .cmp), ("-atime", .cmp), ("-ctime", .cmp), ("-amin", .cmp), ("-cmin", .cmp), ("-mmin", .cmp),
   ("-size", .size), ("-inum", .cmp), ("-links", .cmp), ("-samefile", .refFile), ("-user", .user),
   ("-uid", .cmp), ("-group", .group), ("-gid", .cmp), ("-perm", .perm), ("-maxdepth", .number),
   ("-mindepth", .number), ("-files0-from", .files0), ("-anewer", .refFile), ("-cnewer", .refFile)]

def isX (c : Char) : Bool := c == 'a' || c == 'B' || c == 'c' || c == 'm'
def isY (c : Char) : Bool := isX c || c == 't'

/-- `parse_str_to_newer_args`' pattern `-newer([aBcm])([aBcmt])` is searched for, not anchored:
    the leftmost place in the word where it occurs decides X and Y -/
def findNewer : Word → Option (Char × Char)
  | [] => none
  | c :: cs =>
    match c :: cs with
    | '-' :: 'n' :: 'e' :: 'w' :: 'e' :: 'r' :: x :: y :: _ =>
      if isX x && isY y then some (x, y) else findNewer cs
    | _ => findNewer cs

def newerCheck (x y : Char) : Check :=
  if x == 'B' then .birth else if y == 't' then .date else .refFile

def classify (w : Word) : Kind :=
  let s := String.ofList w
  if nullaries.contains s then .nullary
  else match unaries.lookup s with
    | some c => .unary c
    | none =>
      if s == "-fprintf" then .fprintf
      else if s == "-exec" || s == "-execdir" then .exec
      else if s == "-help" || s == "--help" || s == "-version" || s == "--version" then .help
      else if s == "-not" || s == "!" then .bang
      else if s == "-and" || s == "-a" then .and_
      else if s == "-or" || s == "-o" then .or_
      else if s == "," then .comma
      else if s == "(" then .lp
      else if s == ")" then .rp
      else match findNewer w with
        | some (x, y) => .unary (newerCheck x y)
        | none => .unknown

def ftypeLetters : List String := ["f", "d", "l", "b", "c", "p", "s"]

/-- `str::parse::<u32>`: an optional `+`, ASCII digits, below 2^32 -/
def parseU32 (s : Word) : Bool :=
  let ds := match s with | '+' :: r => r | r => r
  !ds.isEmpty && ds.all isAsciiDigit && decide (decVal ds < 4294967296)

def checkPrintf (e : Ext) (w : Word) : Res :=
  match Printf.parse w with
  | none => .bad
  | some (_, false) => .ok
  | some (_, true) => Res.ofOpt (e.timeFmtOk w)

def checkOperand (e : Ext) (rt : RType) : Check → Word → Res
  | .any, _ => .ok
  | .printf, w => checkPrintf e w
  | .regextype, w => Res.ofBool (rtypeOfName (String.ofList w)).isSome
  | .regex ic, w => Res.ofOpt (e.regexOk rt ic w)
  | .ftype, w => Res.ofBool (ftypeLetters.contains (String.ofList w))
  | .cmp, w => Res.ofBool (parseCmp w).isSome
  | .size, w => Res.ofBool (parseSize w).isSome
  | .perm, w => Res.ofBool (Perm.parsePerm w).isSome
  | .number, w => Res.ofBool (parseNumber w).isSome
  | .user, w =>
    if w.isEmpty then .bad
    else match e.userKnown w with
      | some true => .ok
      | some false => Res.ofBool (parseU32 w)
      | none => if parseU32 w then .ok else .unk
  | .group, w =>
    if w.isEmpty then .bad
    else match e.groupKnown w with
      | some true => .ok
      | some false => Res.ofBool (parseU32 w)
      | none => if parseU32 w then .ok else .unk
  | .refFile, w => Res.ofOpt (e.refFile w)
  | .outFile, w => Res.ofOpt (e.outFile w)
  | .date, w => Res.ofOpt (e.dateOk w)
  | .files0, w => Res.ofOpt (e.files0Ok w)
  | .birth, _ => .bad

/-- `-regextype T` changes the syntax of the patterns that follow -/
def nextType (rt : RType) : Check → Word → RType
  | .regextype, w => (rtypeOfName (String.ofList w)).getD rt
  | _, _ => rt

inductive Ending where
  | done        -- all words consumed
  | help        -- -help / -version reached: the rest is ignored
  | bad         -- a word refused (unknown primary, missing or invalid operand, -exec without end)
  | unk         -- an external validator's answer is missing
  deriving Repr, DecidableEq

def lbrace : Word := ['{', '}']

/-- the terminator of `-exec`: `seen` are the words since `-exec`, newest first -/
def execPlusOk (seen : List Word) : Bool :=
  decide (2 ≤ seen.length) && (seen.dropLast.count lbrace == 1)

def cons' (t : Tok Word) (r : List (Tok Word) × Ending) : List (Tok Word) × Ending := (t :: r.1, r.2)

/-- the words of the expression → tokens.  `seen = some ws` while inside `-exec … ;`;
    `olp` is a leftover of an earlier version of the code, which took a `)` that follows an
    *operand* spelled `(` for empty parentheses (repaired in /repo: the builder now compares the
    position of `)` with the start of the group); it is `false` in every call -/
def lex (e : Ext) : RType → Option (List Word) → Bool → List Word → List (Tok Word) × Ending
  | _, none, _, [] => ([], .done)
  | _, some _, _, [] => ([], .bad)
  | rt, some seen, _, w :: ws =>
    if w == [';'] then
      if seen.isEmpty then ([], .bad) else cons' (.prim ['-', 'e', 'x', 'e', 'c']) (lex e rt none false ws)
    else if w == ['+'] && seen.head? == some lbrace then
      if execPlusOk seen then cons' (.prim ['-', 'e', 'x', 'e', 'c']) (lex e rt none false ws) else ([], .bad)
    else lex e rt (some (w :: seen)) false ws
  | rt, none, olp, w :: ws =>
    match classify w with
    | .nullary => cons' (.prim w) (lex e rt none false ws)
    | .bang => cons' .bang (lex e rt none false ws)
    | .and_ => cons' .and_ (lex e rt none false ws)
    | .or_ => cons' .or_ (lex e rt none false ws)
    | .comma => cons' .comma (lex e rt none false ws)
    | .lp => cons' .lp (lex e rt none false ws)
    | .rp => if olp then ([], .bad) else cons' .rp (lex e rt none false ws)
    | .help => ([], .help)
    | .unknown => ([], .bad)
    | .exec => lex e rt (some []) false ws
    | .fprintf =>
      (match ws with
       | f :: fmt :: rest =>
         (match e.outFile f with
          | some true =>
            (match checkPrintf e fmt with
             | .ok => cons' (.prim w) (lex e rt none false rest)
             | .bad => ([], .bad)
             | .unk => ([], .unk))
          | some false => ([], .bad)
          | none => ([], .unk))
       | _ => ([], .bad))
    | .unary c =>
      (match ws with
       | [] => ([], .bad)
       | op :: rest =>
         (match checkOperand e rt c op with
          | .ok => cons' (.prim w) (lex e (nextType rt c op) none false rest)
          | .bad => ([], .bad)
          | .unk => ([], .unk)))

inductive Verdict where
  | accept | help | reject | unmodelled
  deriving Repr, DecidableEq

/-- the end of `parse_args`, given the starting points on the command line and what the reader
    delivered; `-files0-from` excludes starting points on the command line -/
def verdictOf (paths : List Word) (ts : List (Tok Word)) : Ending → Verdict
  | .bad => .reject
  | .unk => .unmodelled
  | .help =>
    (match buildTree (ts ++ [.prim ['-', 'h', 'e', 'l', 'p']]) with
     | .ok _ => if (ts.any fun t => t == Tok.prim "-files0-from".toList) && paths != [['.']] then .reject else .help
     | .error .missingClose => if (ts.any fun t => t == Tok.prim "-files0-from".toList) && paths != [['.']] then .reject else .help
     | .error _ => .reject)
  | .done =>
    (match buildTree ts with
     | .error _ => .reject
     | .ok _ => if (ts.any fun t => t == Tok.prim "-files0-from".toList) && paths != [['.']] then .reject else .accept)

/-- `parse_args`: flags and starting points, then the expression -/
def verdict (e : Ext) (argv : List Word) : Verdict :=
  verdictOf (FuModel.Find.Run.parseLeading argv).paths
    (lex e .emacs none false (FuModel.Find.Run.parseLeading argv).rest).1
    (lex e .emacs none false (FuModel.Find.Run.parseLeading argv).rest).2

/-- what `find_main` does with the verdict: a rejected command line ends the run at once —
    one diagnostic, status 1, nothing written, nothing visited, executed or removed -/
structure Outcome where
  status : Nat
  diags : Nat
  walked : Bool
  deriving Repr, DecidableEq

def rejected : Outcome := ⟨1, 1, false⟩

end FuModel.Find.Cmdline
