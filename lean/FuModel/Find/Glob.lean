/-!
# Globs (`src/find/matchers/glob.rs`): translation to a POSIX basic regular expression and
# its matching by Oniguruma

`scanBracket` mirrors `extract_bracket_expr` (including its byte-offset slicing, checked with
`str::get`), `globItems` mirrors `glob_to_regex`; the regular expression handed to Oniguruma is
`render`ed from the items.  A bracket fragment is interpreted (`parseMembers`) the way
Oniguruma's POSIX-basic syntax reads it: backslash is an ordinary member, `[:name:]` a class,
`a-b` a range; fragments it rejects make the `[` literal.  Fragments that are not one simple
bracket expression are not modelled (`Outcome.unmodelled`).
`firstEnd` is Oniguruma's anchored backtracking match (greedy `.*`, longest first);
`Pattern::matches` compares its length with the subject's.
-/
namespace FuModel.Find.Glob

inductive Cls where
  | alpha | digit | alnum | upper | lower | space | blank | punct | print | graph | cntrl | xdigit | word | ascii
  deriving DecidableEq, Repr

inductive Mem where
  | ch (c : Char)
  | range (lo hi : Char)
  | cls (k : Cls)
  deriving DecidableEq, Repr

inductive Item where
  | lit (c : Char)
  | any
  | star
  | set (neg : Bool) (ms : List Mem) (raw : List Char)   -- raw = the fragment text as passed to the engine
  deriving DecidableEq, Repr

def clsOfName (n : List Char) : Option Cls :=
  if n == "alpha".toList then some .alpha else if n == "digit".toList then some .digit
  else if n == "alnum".toList then some .alnum else if n == "upper".toList then some .upper
  else if n == "lower".toList then some .lower else if n == "space".toList then some .space
  else if n == "blank".toList then some .blank else if n == "punct".toList then some .punct
  else if n == "print".toList then some .print else if n == "graph".toList then some .graph
  else if n == "cntrl".toList then some .cntrl else if n == "xdigit".toList then some .xdigit
  else if n == "word".toList then some .word else if n == "ascii".toList then some .ascii
  else none

def isUpperA (c : Char) : Bool := decide (65 ≤ c.toNat) && decide (c.toNat ≤ 90)
def isLowerA (c : Char) : Bool := decide (97 ≤ c.toNat) && decide (c.toNat ≤ 122)
def isDigitA (c : Char) : Bool := decide (48 ≤ c.toNat) && decide (c.toNat ≤ 57)

/-- class membership for ASCII characters (the correspondence runs use ASCII subjects for classes) -/
def Cls.has (k : Cls) (c : Char) : Bool :=
  let n := c.toNat
  match k with
  | .alpha => isUpperA c || isLowerA c
  | .digit => isDigitA c
  | .alnum => isUpperA c || isLowerA c || isDigitA c
  | .upper => isUpperA c
  | .lower => isLowerA c
  | .space => n == 32 || (decide (9 ≤ n) && decide (n ≤ 13))
  | .blank => n == 32 || n == 9
  -- Oniguruma's (Unicode) punctuation: the POSIX class without the nine symbols $ + < = > ^ ` | ~
  -- (the known finding C12/punct-class-symbols; the specification has the POSIX class)
  | .punct => ((decide (33 ≤ n) && decide (n ≤ 47)) || (decide (58 ≤ n) && decide (n ≤ 64)) ||
              (decide (91 ≤ n) && decide (n ≤ 96)) || (decide (123 ≤ n) && decide (n ≤ 126))) &&
              !(n == 36 || n == 43 || n == 60 || n == 61 || n == 62 || n == 94 || n == 96 || n == 124 || n == 126)
  | .print => decide (32 ≤ n) && decide (n ≤ 126)
  | .graph => decide (33 ≤ n) && decide (n ≤ 126)
  | .cntrl => decide (n ≤ 31) || n == 127
  | .xdigit => isDigitA c || (decide (65 ≤ n) && decide (n ≤ 70)) || (decide (97 ≤ n) && decide (n ≤ 102))
  | .word => isUpperA c || isLowerA c || isDigitA c || n == 95
  | .ascii => decide (n ≤ 127)

def swapCase (c : Char) : Char :=
  if isUpperA c then Char.ofNat (c.toNat + 32) else if isLowerA c then Char.ofNat (c.toNat - 32) else c

def Mem.has (m : Mem) (c : Char) : Bool :=
  match m with
  | .ch x => x == c
  | .range lo hi => decide (lo.toNat ≤ c.toNat) && decide (c.toNat ≤ hi.toNat)
  | .cls k => k.has c

/-- one subject character against one item (not `star`), with or without case folding -/
def Item.accepts (icase : Bool) (it : Item) (c : Char) : Bool :=
  match it with
  | .lit x => x == c || (icase && x == swapCase c)
  | .any => true
  | .star => false
  | .set neg ms _ =>
    let inSet := ms.any (·.has c) || (icase && ms.any (·.has (swapCase c)))
    if neg then !inSet else inSet

/-! ### scanning a bracket expression -/

inductive Scan where
  | ok (raw : List Char) (rest : List Char)    -- raw: the fragment after the leading `[`
  | literal                                   -- no bracket expression: `[` stands for itself
  | panic                                     -- the slice in the scanner is out of range / off a char boundary
  deriving Repr

/-- the loop of `extract_bracket_expr`; `acc` is the fragment so far (reversed), fuel = remaining length -/
def scanLoop : Nat → List Char → List Char → Scan
  | 0, _, _ => .literal
  | _ + 1, [], acc => .ok acc.reverse []      -- ran off the end: the fragment is unterminated (rejected later)
  | fuel + 1, c :: cs, acc =>
    if c == ']' then .ok (']' :: acc).reverse cs
    else if c == '[' then
      match cs with
      | [] => .ok ('[' :: acc).reverse []
      | d :: ds =>
        if d == '.' || d == '=' || d == ':' then
          -- `rest.find([delim, ']'])? + 2`, then `rest[..end]`
          let pre := ds.takeWhile (fun x => x != d && x != ']')
          let post := ds.dropWhile (fun x => x != d && x != ']')
          match post with
          | [] => .literal                                  -- `?`: no delimiter found
          | t :: after =>
            match after with
            | [] => .literal                                -- end > len: `rest.get(..end)?`
            | u :: more =>
              if u.toNat < 128 then scanLoop fuel more (u :: t :: pre.reverse ++ d :: '[' :: acc)
              else .literal                                 -- not a char boundary: `rest.get(..end)?`
        else scanLoop fuel ds (d :: '[' :: acc)
    else scanLoop fuel cs (c :: acc)

/-- `extract_bracket_expr` up to the validity check: the fragment (with `!` turned into `^`) and the rest -/
def scanBracket (p : List Char) : Scan :=
  let (neg, p1) := match p with | '!' :: r => (['^'], r) | r => ([], r)
  let (first, p2) := match p1 with | ']' :: r => ([']'], r) | r => ([], r)
  match scanLoop (p2.length + 1) p2 [] with
  | .ok raw rest => .ok (neg ++ first ++ raw) rest
  | s => s

/-! ### how the engine reads a fragment -/

/-- members of a simple bracket body (everything between the optional `^` and the closing `]`);
    `none` = rejected by the engine or not a simple bracket expression -/
def parseMembers : Nat → List Char → Option (List Mem)
  | 0, _ => none
  | _ + 1, [] => some []
  | fuel + 1, '[' :: ':' :: r =>
    let name := r.takeWhile (· != ':')
    match r.dropWhile (· != ':') with
    | ':' :: ']' :: rest =>
      match clsOfName name with
      | some k =>
        -- a class cannot start a range
        (match rest with
         | '-' :: _ :: _ => none
         | _ => (parseMembers fuel rest).map (.cls k :: ·))
      | none => none
    | _ => none
  | _ + 1, '[' :: '.' :: _ => none
  | _ + 1, '[' :: '=' :: _ => none
  | fuel + 1, a :: '-' :: b :: r =>
    if b == '[' && (r.head? == some ':' || r.head? == some '.' || r.head? == some '=') then none
    else if a.toNat ≤ b.toNat then
      (match r with
       | '-' :: _ :: _ => none          -- `a-c-e`
       | _ => (parseMembers fuel r).map (.range a b :: ·))
    else none
  | fuel + 1, a :: r => (parseMembers fuel r).map (.ch a :: ·)

/-- a fragment `^?…]` → (negated, members); `none` = the `[` is literal (or the fragment is not modelled) -/
def readFragment (raw : List Char) : Option (Bool × List Mem) :=
  let (neg, body) := match raw with | '^' :: r => (true, r) | r => (false, r)
  -- the closing bracket must be the last character and the only unprotected one
  match body.reverse with
  | ']' :: revInner =>
    let inner := revInner.reverse
    let (lead, inner') := match inner with | ']' :: r => ([Mem.ch ']'], r) | r => ([], r)
    if inner'.contains ']' && !(inner'.contains '[') then none
    else
      match parseMembers (inner'.length + 1) inner' with
      | some ms => if (lead ++ ms).isEmpty then none else some (neg, lead ++ ms)
      | none => none
  | _ => none

inductive Outcome (α : Type) where
  | ok (a : α)
  | never          -- the pattern ends in a lone backslash: it matches nothing
  | panic
  | unmodelled
  deriving Repr

/-- is the fragment one simple bracket expression (so that `readFragment` is the engine's reading)? -/
def simpleFragment (raw : List Char) : Bool :=
  let body := match raw with | '^' :: r => r | r => r
  let body := match body with | ']' :: r => r | r => r
  -- exactly one `]` that is not part of `:]`, at the very end; no `[.` or `[=`
  let rec count : List Char → Nat
    | [] => 0
    | ':' :: ']' :: r => count r
    | ']' :: r => 1 + count r
    | _ :: r => count r
  let rec hasCollate : List Char → Bool
    | [] => false
    | '[' :: '.' :: _ => true
    | '[' :: '=' :: _ => true
    | _ :: r => hasCollate r
  body.getLast? == some ']' && count body == 1 && !hasCollate body

/-- `glob_to_regex` at the level of items -/
def globItems : Nat → List Char → Outcome (List Item)
  | 0, _ => .unmodelled
  | _ + 1, [] => .ok []
  | fuel + 1, c :: cs =>
    let cont (it : Item) (rest : List Char) : Outcome (List Item) :=
      match globItems fuel rest with
      | .ok is => .ok (it :: is)
      | o => o
    if c == '?' then cont .any cs
    else if c == '*' then cont .star cs
    else if c == '\\' then
      match cs with
      | [] => .never
      | d :: ds => cont (.lit d) ds
    else if c == '[' then
      match scanBracket cs with
      | .panic => .panic
      | .literal => cont (.lit '[') cs
      | .ok raw rest =>
        if simpleFragment raw then
          match readFragment raw with
          | some (neg, ms) => cont (.set neg ms ('[' :: raw)) rest
          | none => cont (.lit '[') cs
        else if !raw.contains ']' then cont (.lit '[') cs       -- no closing bracket at all: the engine rejects it
        else .unmodelled
    else cont (.lit c) cs

def items (p : List Char) : Outcome (List Item) := globItems (p.length + 1) p

/-- `regex_push_literal` -/
def escapeLit (c : Char) : List Char :=
  if c == '.' || c == '[' || c == '\\' || c == '*' || c == '^' || c == '$' then ['\\', c] else [c]

def render : List Item → List Char
  | [] => []
  | .lit c :: r => escapeLit c ++ render r
  | .any :: r => '.' :: render r
  | .star :: r => '.' :: '*' :: render r
  | .set _ _ raw :: r => raw ++ render r

/-! ### the engine's anchored match -/

/-- end position of the first match the backtracking engine finds, if any (`.*` greedy) -/
def firstEnd (icase : Bool) : List Item → List Char → Nat → Option Nat
  | [], _, pos => some pos
  | .star :: r, s, pos =>
    (List.range (s.length + 1)).reverse.findSome? fun k => firstEnd icase r (s.drop k) (pos + k)
  | it :: r, s, pos =>
    match s with
    | [] => none
    | x :: xs => if it.accepts icase x then firstEnd icase r xs (pos + 1) else none

/-- `Pattern::matches` -/
def matchesItems (icase : Bool) (is : List Item) (s : List Char) : Bool :=
  firstEnd icase is s 0 == some s.length

def globMatches (icase : Bool) (p s : List Char) : Outcome Bool :=
  match items p with
  | .ok is => .ok (matchesItems icase is s)
  | .never => .ok false
  | .panic => .panic
  | .unmodelled => .unmodelled

end FuModel.Find.Glob
