
/-!
# -printf (`src/find/matchers/printf.rs`): the format parser and the rendering of the
# directives the property names

The parser works on the format's characters with byte offsets where the code does
(`peek(3)` for `\NNN` counts bytes).  Directives outside the property (times, %u %g names, %F %S
%b %k %D %M) are parsed into `Comp.other`; a format that needs them is not rendered by the model.
-/
namespace FuModel.Find.Printf

inductive Dir where
  | p | P | f | h | H | d | s | n | i | U | G | m | y | Y | l
  deriving Repr, DecidableEq

inductive Comp where
  | lit (text : List Char)
  | flush
  | dir (d : Dir) (width : Option Nat) (left : Bool)
  | other (tag : List Char) (width : Option Nat) (left : Bool)   -- a directive the model does not render
  deriving Repr, DecidableEq

def dirOfChar (c : Char) : Option Dir :=
  if c == 'p' then some .p else if c == 'P' then some .P else if c == 'f' then some .f
  else if c == 'h' then some .h else if c == 'H' then some .H else if c == 'd' then some .d
  else if c == 's' then some .s else if c == 'n' then some .n else if c == 'i' then some .i
  else if c == 'U' then some .U else if c == 'G' then some .G else if c == 'm' then some .m
  else if c == 'y' then some .y else if c == 'Y' then some .Y else if c == 'l' then some .l
  else none

def Dir.letter : Dir → Char
  | .p => 'p' | .P => 'P' | .f => 'f' | .h => 'h' | .H => 'H' | .d => 'd' | .s => 's' | .n => 'n'
  | .i => 'i' | .U => 'U' | .G => 'G' | .m => 'm' | .y => 'y' | .Y => 'Y' | .l => 'l'

def isOct (c : Char) : Bool := decide (48 ≤ c.toNat) && decide (c.toNat ≤ 55)
def isDig (c : Char) : Bool := decide (48 ≤ c.toNat) && decide (c.toNat ≤ 57)

/-- `parse_escape_sequence` on what follows the backslash: the component and the rest; `none` = error -/
def parseEscape (s : List Char) : Option (Comp × List Char) :=
  match s with
  | [] => none
  | first :: rest =>
    -- three *bytes* that are octal digits
    let octal : Option (Nat × List Char) :=
      match s with
      | a :: b :: c :: r => if isOct a && isOct b && isOct c then some ((a.toNat - 48) * 64 + (b.toNat - 48) * 8 + (c.toNat - 48), r) else none
      | _ => none
    if isOct first then
      match octal with
      | some (code, r) => some (.lit [Char.ofNat code], r)
      | none => if first == '0' then some (.lit [Char.ofNat 0], rest) else none
    else if first == 'c' then some (.flush, rest)
    else if first == 'a' then some (.lit [Char.ofNat 7], rest)
    else if first == 'b' then some (.lit [Char.ofNat 8], rest)
    else if first == 'f' then some (.lit [Char.ofNat 12], rest)
    else if first == 'n' then some (.lit ['\n'], rest)
    else if first == 'r' then some (.lit ['\r'], rest)
    else if first == 't' then some (.lit ['\t'], rest)
    else if first == 'v' then some (.lit [Char.ofNat 11], rest)
    else if first == '\\' then some (.lit ['\\'], rest)
    else none

def decValue (ds : List Char) : Nat := ds.foldl (fun a c => a * 10 + (c.toNat - 48)) 0

/-- which letters take a time specifier, and the plain letters of directives outside the property -/
def otherPlain : List Char := ['a', 'b', 'c', 'D', 'F', 'g', 'k', 'M', 'S', 't', 'u']

/-- `parse_format_specifier` on what follows the `%`; `none` = error; the Bool says "not modelled" -/
def parseSpec (s : List Char) : Option (Comp × List Char × Bool) :=
  let flags := s.takeWhile fun c => c == ' ' || c == '-'
  let s1 := s.dropWhile fun c => c == ' ' || c == '-'
  -- the loop needs a character after the flags (`front()?`)
  if s1.isEmpty then none
  else
    let left := flags.contains '-'
    let ds := s1.takeWhile isDig
    let s2 := s1.dropWhile isDig
    let width : Option Nat := if ds.isEmpty then none else some (decValue ds)
    -- a width that does not fit a usize is an error
    if decValue ds ≥ 18446744073709551616 then none
    else
      match s2 with
      | [] => none
      | first :: rest =>
        if first == '%' then some (.lit ['%'], rest, false)
        else match dirOfChar first with
          | some d => some (.dir d width left, rest, false)
          | none =>
            if first == 'A' || first == 'C' || first == 'T' then
              match rest with
              | [] => none
              | k :: rest' => some (.other [first, k] width left, rest', true)
            else if otherPlain.contains first then some (.other [first] width left, rest, false)
            else some (.lit [first], rest, false)

/-- `FormatStringParser::parse`; the Bool says whether a time specifier (validated by chrono) occurs -/
def parseFmt : Nat → List Char → Option (List Comp × Bool)
  | 0, _ => none
  | _ + 1, [] => some ([], false)
  | fuel + 1, s =>
    let lit := s.takeWhile fun c => c != '%' && c != '\\'
    let rest := s.dropWhile fun c => c != '%' && c != '\\'
    let pre : List Comp := if lit.isEmpty then [] else [.lit lit]
    match rest with
    | [] => some (pre, false)
    | '\\' :: r =>
      (match parseEscape r with
       | some (c, r') => (parseFmt fuel r').map fun (cs, u) => (pre ++ c :: cs, u)
       | none => none)
    | _ :: r =>
      (match parseSpec r with
       | some (c, r', u) => (parseFmt fuel r').map fun (cs, u') => (pre ++ c :: cs, u || u')
       | none => none)

def parse (fmt : List Char) : Option (List Comp × Bool) := parseFmt (fmt.length + 1) fmt

end FuModel.Find.Printf
