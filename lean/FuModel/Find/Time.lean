import FuModel.Find.Numeric

/-!
# Time tests (`src/find/matchers/time.rs`)

Timestamps are integers counting nanoseconds since the epoch (`SystemTime` on Linux).
`durationSince a b` mirrors `a.duration_since(b)`: `ok (a-b)` when `a ≥ b`, else `err (b-a)`;
`as_secs()` is the floor of the nanosecond count over 10⁹.  `ageUnits period` mirrors
`FileTimeMatcher::matches_impl` (period = 86400, no `-daystart`) and
`FileAgeRangeMatcher::matches_impl` (period = 60): the sign trick, the truncating
division of Rust's `/` (`Int.tdiv`) and the `-1` offset for future timestamps.
-/
namespace FuModel.Find

def nsPerSec : Nat := 1000000000

/-- age in whole `period`-second units as the code computes it -/
def ageUnits (period : Nat) (now t : Int) : Int :=
  if now ≥ t then
    let secs : Int := ((now - t).toNat / nsPerSec : Nat)
    Int.tdiv secs period
  else
    let secs : Int := - (((t - now).toNat / nsPerSec : Nat) : Int)
    Int.tdiv secs period + (-1)

def ageMatches (c : Cmp) (period : Nat) (now t : Int) : Bool := c.imatches (ageUnits period now t)

inductive TKind where | a | c | m
  deriving DecidableEq, Repr, BEq

structure Times where
  atime : Int
  ctime : Int
  mtime : Int
  deriving Repr

def Times.get (ts : Times) : TKind → Int
  | .a => ts.atime | .c => ts.ctime | .m => ts.mtime

/-- `-atime` / `-amin` read the access time, `-ctime` / `-cmin` the status-change time,
    `-mtime` / `-mmin` the modification time (`FileTimeType::get_file_time`) -/
def ageTest (k : TKind) (c : Cmp) (period : Nat) (now : Int) (e : Times) : Bool :=
  ageMatches c period now (e.get k)

/-- `given.duration_since(this).is_err()` -/
def isLater (this given : Int) : Bool := decide (given < this)

/-- `NewerMatcher`: entry's modification time later than the reference file's -/
def newer (e f : Times) : Bool := isLater e.mtime f.mtime

/-- `NewerOptionMatcher` (`-newerXY`, `-anewer` = am, `-cnewer` = cm, `-newer` handled by
    `NewerMatcher`): the entry's X time against the reference file's Y time -/
def newerXY (x y : TKind) (e f : Times) : Bool := isLater (e.get x) (f.get y)

/-- `parse_str_to_newer_args` restricted to a, c, m -/
def newerArgs (s : String) : Option (TKind × TKind) :=
  let k : Char → Option TKind := fun c => if c == 'a' then some .a else if c == 'c' then some .c else if c == 'm' then some .m else none
  if s == "-newer" then some (.m, .m)
  else if s == "-anewer" then some (.a, .m)
  else if s == "-cnewer" then some (.c, .m)
  else match s.toList with
    | ['-', 'n', 'e', 'w', 'e', 'r', x, y] => do
      let x ← k x
      let y ← k y
      pure (x, y)
    | _ => none

end FuModel.Find
