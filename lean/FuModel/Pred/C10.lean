import FuModel.Spec.RunRef

/-!
Property predicate for C10, from the property text.  `reached` is where the reference run of
`-depth EXPR` reaches the action, in order: for each such entry its path and, if it is a real
directory, the paths of its entries.  `obsDeleted` is the set of paths that disappeared.
-/
namespace FuModel.Pred.C10
open FuModel.Find.Run

/-- expected removals: an entry reached by the action goes, except a real directory that still
    has an entry which was not removed before it -/
def expected (norm : Bytes → Bytes) : List ExecEvent → List Bytes → List Bytes × Nat
  | [], gone => (gone, 0)
  | e :: rest, gone =>
    match e.argv with
    | [] => expected norm rest gone
    | p :: kids =>
      let p' := norm p
      if p == [46] then expected norm rest gone
      else if gone.contains p' then
        let r := expected norm rest gone
        (r.1, r.2 + 1)
      else if e.cwd.isSome && !(kids.all fun k => gone.contains (norm k)) then
        let r := expected norm rest gone
        (r.1, r.2 + 1)       -- a directory that is not empty at its turn: cannot be removed
      else expected norm rest (gone ++ [p'])

def pred (norm : Bytes → Bytes) (reached : List ExecEvent) (refRet : Nat) (obsSt : Nat) (obsDeleted : List Bytes)
    (obsChanged : Nat) : Bool :=
  let r := expected norm reached []
  obsChanged == 0 &&
  obsDeleted.all (r.1.contains ·) && r.1.all (obsDeleted.contains ·) &&
  ((obsSt != 0) == (refRet != 0 || r.2 != 0))

end FuModel.Pred.C10
