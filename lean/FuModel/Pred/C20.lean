import FuModel.Xargs.Opts
import FuModel.Pred.C05

/-!
Property predicate for C20, from the property text (replace mode, for lines
free of quotes, backslashes and leading blanks).
-/
namespace FuModel.Pred.C20
open FuModel.Xargs

/-- position of the last option of each family -/
def lastPos (opts : List Opt) (p : Opt → Bool) : Option Nat :=
  (opts.zipIdx.filter (fun x => p x.1)).getLast?.map (·.2)

/-- Is the run in replace mode, and with which R?  The option given last among
    the replace options, -n and -L decides; -I with -n 1 (and no -L) is no conflict. -/
def replaceMode (opts : List Opt) : Option (List UInt8) :=
  let isR : Opt → Bool := fun | .replI _ => true | .repl _ => true | _ => false
  let isN : Opt → Bool := fun | .n _ => true | _ => false
  let isL : Opt → Bool := fun | .l _ => true | _ => false
  let rVal : Option (List UInt8) :=
    (opts.filterMap (fun | .replI r => some r | .repl r => some (r.getD [123, 125]) | _ => none)).getLast?
  match rVal with
  | none => none
  | some r =>
    let pr := (lastPos opts isR).getD 0
    let nOpt := (opts.filterMap (fun | .n v => some v | _ => none)).getLast?
    let hasL := opts.any isL
    let noConflict := !hasL && (nOpt == none || nOpt == some 1)
    let lastWins := (lastPos opts isN).all (· < pr) && (lastPos opts isL).all (· < pr)
    if noConflict || lastWins then some r else none

def splitLines (inp : List UInt8) : List (List UInt8) := FuModel.Pred.C05.refSplit 10 inp

def inDomain (lines : List (List UInt8)) : Bool :=
  lines.all (fun l => !(l.any (fun c => c == 34 || c == 39 || c == 92)) &&
    !(l.head?.any isWs))

/-- replace every occurrence of `pat` (left to right, non-overlapping) -/
def replAll (pat rep : List UInt8) : Nat → List UInt8 → List UInt8
  | 0, s => s
  | _, [] => []
  | fuel + 1, c :: cs =>
    if !pat.isEmpty && pat.isPrefixOf (c :: cs) then rep ++ replAll pat rep fuel ((c :: cs).drop pat.length)
    else c :: replAll pat rep fuel cs

def pred (opts : List Opt) (cmd : List (List UInt8)) (input : List UInt8)
    (status : Nat) (argvs : List (List (List UInt8))) : Bool :=
  if dupOpts opts then true else
  if opts.any (fun | .n 0 => true | .l 0 => true | .s 0 => true | .d _ => true | .null => true | .x => true | _ => false) then true else
  let sOpt := (opts.filterMap (fun | .s v => some v | _ => none)).getLast?
  if sOpt.isSome && (replaceMode opts).isNone then true else
  match replaceMode opts, cmd with
  | none, _ =>
    -- not replace mode (a later -n or -L decides): nothing may be substituted, commands start with
    -- the command as given, and the run is an ordinary one: in particular empty input without -r
    -- still runs the command once (only replace mode implies -r)
    argvs.all (fun av => av.take cmd.length == cmd) &&
      (if input.all isWs && !opts.any (fun | .r => true | _ => false) then argvs == [cmd] else true)
  | some _, [] => true
  | some r, prog :: initial =>
    let lines := splitLines input
    if !inDomain lines || r.isEmpty then true else
    let expected := lines.map (fun l => prog :: initial.map (fun a => replAll r l (a.length + 1) a))
    -- with -s: a command is run only if it fits max-chars after substitution (and, as for every
    -- argument, if the line fits beside the command as written); the first line for which it does
    -- not ends the run with status 1
    let cost := fun (av : List (List UInt8)) => (av.map (fun a => a.length + 1)).sum
    let fits := fun (l : List UInt8) (av : List (List UInt8)) =>
      match sOpt with
      | some s => decide (cost av ≤ s) && decide (cost (prog :: initial) + l.length + 1 ≤ s)
      | none => true
    let good := ((lines.zip expected).takeWhile (fun x => fits x.1 x.2)).map (·.2)
    if good.length < expected.length then status == 1 && argvs == good
    else status == 0 && argvs == expected

end FuModel.Pred.C20
