import FuModel.Xargs.Read

/-!
Property predicate for C05, written from the property text and *not* from the
code: arguments are maximal runs of non-blank material, with `'…'`/`"…"` taken
literally and a backslash quoting the next byte; an unterminated quote is an
error.  Where the property leaves a choice the predicate accepts both:
a word that is explicitly quoted but empty (`''`) may be kept or dropped.
-/
namespace FuModel.Pred.C05
open FuModel.Xargs

/-- reference tokenizer state: current word, whether anything (even an empty quote) started it -/
structure W where
  cur : List UInt8
  started : Bool

/-- `keep` = keep explicitly quoted empty words.  Returns `none` on an unterminated quote. -/
def refTok (keep : Bool) : Nat → W → Option UInt8 → List UInt8 → Option (List (List UInt8 × Bool))
  | 0, _, _, _ => none
  | fuel + 1, w, q, inp =>
    match q, inp with
    | some _, [] => none
    | some qc, c :: cs =>
      if c == qc then refTok keep fuel w none cs else refTok keep fuel ⟨w.cur ++ [c], true⟩ q cs
    | none, [] =>
      if w.cur.isEmpty && !(keep && w.started) then some [] else some [(w.cur, false)]
    | none, c :: cs =>
      if c == 34 || c == 39 then refTok keep fuel ⟨w.cur, true⟩ (some c) cs
      else if c == 92 then
        match cs with
        | [] => refTok keep fuel w none []
        | e :: rest => refTok keep fuel ⟨w.cur ++ [e], true⟩ none rest
      else if isWs c then
        if w.cur.isEmpty && !(keep && w.started) then refTok keep fuel ⟨[], false⟩ none cs
        else (refTok keep fuel ⟨[], false⟩ none cs).map (fun r => (w.cur, c == 10) :: r)
      else refTok keep fuel ⟨w.cur ++ [c], true⟩ none cs

def refTokens (keep : Bool) (inp : List UInt8) : Option (List (List UInt8 × Bool)) :=
  refTok keep (inp.length + 2) ⟨[], false⟩ none inp

/-- segments between delimiters, empty ones dropped -/
def refSplit (d : UInt8) (inp : List UInt8) : List (List UInt8) :=
  let rec go (cur : List UInt8) : List UInt8 → List (List UInt8)
    | [] => if cur.isEmpty then [] else [cur]
    | c :: cs => if c == d then (if cur.isEmpty then go [] cs else cur :: go [] cs) else go (cur ++ [c]) cs
  go [] inp

/-- observed: `none` = error reported, `some args` = arguments delivered. -/
def predWs (inp : List UInt8) (obs : Option (List (List UInt8 × Bool))) (withKinds : Bool) : Bool :=
  let norm (x : Option (List (List UInt8 × Bool))) :=
    if withKinds then x else x.map (·.map (fun a => (a.1, false)))
  norm obs == norm (refTokens false inp) || norm obs == norm (refTokens true inp)

def predBd (d : UInt8) (inp : List UInt8) (obs : Option (List (List UInt8 × Bool))) : Bool :=
  match obs with
  | none => false
  | some as => as.map (·.1) == refSplit d inp && as.all (·.2)

end FuModel.Pred.C05
