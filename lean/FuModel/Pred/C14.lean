import FuModel.Find.Numeric

/-!
Property predicate for C14, written from the property text (not from the model):
`N` = equal, `+N` = greater, `-N` = less; the size is measured in units rounded up.
-/
namespace FuModel.Pred.C14
open FuModel.Find

/-- reference reading of an operand `[+-]?digits` as (sign, value) -/
def readOperand (s : List Char) : Option (Sign × Nat) :=
  let (sg, ds) := splitSign s
  if !ds.isEmpty && ds.all isAsciiDigit then some (sg, decVal ds) else none

/-- the three forms on a measured value: (greater, equal, less) -/
def tri (n v : Int) : Bool × Bool × Bool := (decide (v > n), decide (v = n), decide (v < n))

def unitBytes : List Char → Option Nat
  | ['c'] => some 1
  | ['w'] => some 2
  | [] => some 512
  | ['b'] => some 512
  | ['k'] => some 1024
  | ['M'] => some 1048576
  | ['G'] => some 1073741824
  | _ => none

def ceilDiv (b u : Nat) : Nat := (b + u - 1) / u

def readSize (s : List Char) : Option (Sign × Nat × Nat) :=
  let (sg, r) := splitSign s
  let ds := r.takeWhile isAsciiDigit
  match unitBytes (r.dropWhile isAsciiDigit) with
  | some u => if ds.isEmpty then none else some (sg, decVal ds, u)
  | none => none

def kindOfSign : Sign → Char
  | .plus => '+' | .minus => '-' | .none => '='

/-- observed parse of a plain numeric operand: `none` = rejected -/
def predParse (s : List Char) (obs : Option (Char × Nat)) : Bool :=
  match readOperand s, obs with
  | some (sg, n), some (k, m) => k == kindOfSign sg && m == n && decide (n < u64Bound)
  | some (_, n), none => decide (n ≥ u64Bound)   -- only an unrepresentable N may be refused
  | none, some _ => false                         -- not an operand: must be rejected
  | none, none => true

def predParseSize (s : List Char) (obs : Option (Char × Nat × Nat)) : Bool :=
  match readSize s, obs with
  | some (sg, n, u), some (k, m, shift) => k == kindOfSign sg && m == n && 2 ^ shift == u && decide (n < u64Bound)
  | some (_, n, _), none => decide (n ≥ u64Bound)
  | none, some _ => false
  | none, none => true

def bitsOf (t : Bool × Bool × Bool) : List Bool := [t.1, t.2.1, t.2.2]

/-- per-file expectation for the three forms (`N`, `+N`, `-N`) — answer order: eq, more, less -/
def predForms (n : Nat) (vals : List Nat) (eqB moreB lessB : List Bool) : Bool :=
  eqB.length == vals.length && moreB.length == vals.length && lessB.length == vals.length &&
  (List.range vals.length).all fun i =>
    let v := vals.getD i 0
    let t := tri n v
    eqB.getD i false == t.2.1 && moreB.getD i false == t.1 && lessB.getD i false == t.2.2

end FuModel.Pred.C14
