import FuModel.Find.Time

/-!
Property predicate for C15, from the property text: the number of complete periods in
(now - timestamp), fraction discarded; strictly later at full resolution.
-/
namespace FuModel.Pred.C15
open FuModel.Find

/-- expected (eq, more, less) for one file; `none` when the age is negative (outside the property) -/
def expectAge (periodSecs : Nat) (n : Nat) (now t : Int) : Option (Bool × Bool × Bool) :=
  if now < t then none else
  let periods : Nat := (now - t).toNat / (periodSecs * 1000000000)
  some (decide (periods = n), decide (periods > n), decide (periods < n))

def predAge (periodSecs n : Nat) (now : Int) (ts : List Int) (e m l : List Bool) : Bool :=
  e.length == ts.length && m.length == ts.length && l.length == ts.length &&
  (List.range ts.length).all fun i =>
    match expectAge periodSecs n now (ts.getD i 0) with
    | none => true
    | some (xe, xm, xl) => e.getD i false == xe && m.getD i false == xm && l.getD i false == xl

def predNewer (x y : TKind) (ref : Times) (es : List Times) (bits : List Bool) : Bool :=
  bits.length == es.length &&
  (List.range es.length).all fun i =>
    match es[i]? with
    | some e => bits.getD i false == decide (e.get x > ref.get y)
    | none => false

end FuModel.Pred.C15
