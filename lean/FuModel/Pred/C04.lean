import FuModel.Xargs.Opts
import FuModel.Pred.C05

/-!
Property predicate for C04, from the property text: the appended arguments of
successive commands concatenate to the input sequence; every command starts
with the unchanged command and initial arguments, satisfies -n, -L and -s (and
the system budget) simultaneously and is maximal; empty input runs the command
once (not at all with -r); an argument that cannot fit alone — or, with -x and
-n or -L, any size overflow — ends the run with status 1.
-/
namespace FuModel.Pred.C04
open FuModel.Xargs

structure Lims where
  n : Option Nat
  l : Option Nat
  s : Option Nat       -- -s
  sys : Nat            -- system budget (strings and one pointer per argument)
  base : Nat           -- cost of command + initial arguments
  ncmd : Nat           -- number of command words (each also costs a pointer)

def countOk (lm : Lims) (b : List (List UInt8 × Bool)) : Bool :=
  lm.n.all (fun n => b.length ≤ n)

/-- lines spanned: one more than the number of line-ending arguments before the last -/
def linesOk (lm : Lims) (b : List (List UInt8 × Bool)) : Bool :=
  lm.l.all (fun l => 1 + (b.dropLast.filter (·.2)).length ≤ l)

def charsOk (lm : Lims) (b : List (List UInt8 × Bool)) : Bool :=
  let chars := lm.base + (b.map (fun a => a.1.length + 1)).sum
  lm.s.all (fun s => chars ≤ s) &&
  chars + 8 * (lm.ncmd + b.length) ≤ lm.sys &&
  b.all (fun a => a.1.length + 1 ≤ 131072)

def fits (lm : Lims) (b : List (List UInt8 × Bool)) : Bool :=
  countOk lm b && linesOk lm b && charsOk lm b

/-- split `args` according to the observed batch lengths -/
def carve : List Nat → List (List UInt8 × Bool) → List (List (List UInt8 × Bool))
  | [], _ => []
  | k :: ks, args => args.take k :: carve ks (args.drop k)

/-- Greedy growth of the pending command from `args`: does it hit a size overflow
    (with a non-empty pending command) before a count/line limit or the end? -/
def pendingOverflows (lm : Lims) : Nat → List (List UInt8 × Bool) → List (List UInt8 × Bool) → Bool
  | 0, _, _ => false
  | _, _, [] => false
  | fuel + 1, cur, a :: as =>
    let cand := cur ++ [a]
    if fits lm cand then pendingOverflows lm fuel cand as
    else if !(countOk lm cand && linesOk lm cand) then false
    else true

/-- Does the greedy growth, over the whole input, ever meet a size overflow with a non-empty pending
    command (count and line limits start a new command instead)? -/
def anyOverflow (lm : Lims) : Nat → List (List UInt8 × Bool) → List (List UInt8 × Bool) → Bool
  | 0, _, _ => false
  | _, _, [] => false
  | fuel + 1, cur, a :: as =>
    let cand := cur ++ [a]
    if fits lm cand then anyOverflow lm fuel cand as
    else if !(countOk lm cand && linesOk lm cand) then
      (if fits lm [a] then anyOverflow lm fuel [a] as else true)
    else true

def pred (opts : List Opt) (cmd : List (List UInt8)) (input : List UInt8) (sys : Nat)
    (status : Nat) (argvs : List (List (List UInt8))) : Bool :=
  let nz := normalize opts
  -- a word of xargs' own command line that is not valid UTF-8 may be refused (status 1, nothing run):
  -- the implementation holds its arguments as strings; passing it on unchanged is accepted as well
  if cmd.any (fun w => !FuModel.Utf8.validUtf8 w) && status == 1 && argvs.isEmpty then true else
  if nz.replace.isSome then true else
  if opts.any (fun | .n 0 => true | .l 0 => true | .s 0 => true | _ => false) then status == 1 && argvs.isEmpty else
  let sOpt := lastVal opts (fun | .s v => some v | _ => none)
  let base := (cmd.map (fun a => a.length + 1)).sum
  let lm : Lims := ⟨nz.n, nz.l, sOpt, sys, base, cmd.length⟩
  let x := opts.any (· == .x)
  let r := opts.any (· == .r)
  if !(charsOk lm [] && cmd.all (fun a => a.length + 1 ≤ 131072)) then status == 1 && argvs.isEmpty else
  -- the argument sequence the input denotes
  let toks : Option (List (List UInt8 × Bool)) :=
    match nz.delim with
    | some d => some ((FuModel.Pred.C05.refSplit d input).map (·, true))
    | none => FuModel.Pred.C05.refTokens false input
  let prefixOk := argvs.all (fun av => av.take cmd.length == cmd)
  let appended := argvs.map (fun av => av.drop cmd.length)
  let flat := appended.flatten
  match toks with
  | none =>
    -- unterminated quote: status 1; what ran before must be unchanged arguments
    status == 1 && prefixOk
  | some args =>
    let argBytes := args.map (·.1)
    let batches := carve (appended.map List.length) args
    let isPrefix := flat == argBytes.take flat.length
    let within := batches.all (fits lm)
    let rec maximal : List (List (List UInt8 × Bool)) → Bool
      | b :: b' :: rest =>
        (match b'.head? with
         | some a => !fits lm (b ++ [a])
         | none => false) && maximal (b' :: rest)
      | _ => true
    let complete := flat.length == argBytes.length
    let nonEmptyBatches := args.isEmpty || appended.all (fun b => !b.isEmpty)
    if !(prefixOk && isPrefix && within && maximal batches) then false
    else if status == 0 || status == 123 then
      complete && nonEmptyBatches &&
        (if args.isEmpty then (if r then argvs.isEmpty else argvs.length == 1) else true) &&
        -- with -x (and -n or -L in force) a size overflow must have ended the run with status 1
        !(x && (lm.n.isSome || lm.l.isSome) && anyOverflow lm (args.length + 1) [] args)
    else if status == 1 then
      let rest := args.drop flat.length
      match rest with
      | [] => false
      | a :: _ =>
        !fits lm [a] || (x && (lm.n.isSome || lm.l.isSome) && pendingOverflows lm (rest.length + 1) [] rest)
    else true   -- 124..127: a child's fatal outcome stopped the run (C19)

end FuModel.Pred.C04
