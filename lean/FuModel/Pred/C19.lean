import FuModel.Pred.C04

/-!
Property predicate for C19, from the property text: the exit status is a
function of the outcomes of the invocations actually started.
-/
namespace FuModel.Pred.C19
open FuModel.Xargs

/-- status a fatal outcome forces, if any -/
def fatalStatus : Outcome → Option Nat
  | .exit 255 => some 124
  | .signal _ => some 125
  | .cannotRun => some 126
  | .notFound => some 127
  | _ => none

/-- `script` padded with `exit 0` to the number of started invocations -/
def startedOutcomes (script : List Outcome) (k : Nat) : List Outcome :=
  (script ++ List.replicate k (Outcome.exit 0)).take k

def pred (opts : List Opt) (cmd : List (List UInt8)) (input : List UInt8) (sys : Nat)
    (script : List Outcome) (status : Nat) (argvs : List (List (List UInt8))) : Bool :=
  let outs := startedOutcomes script argvs.length
  -- batching validity, completeness on 0/123 and justification of own status 1 (C04's predicate)
  FuModel.Pred.C04.pred opts cmd input sys status argvs &&
  (match outs.findIdx? (fun o => (fatalStatus o).isSome) with
   | some i =>
     -- stops at once at the first fatal outcome, with its status
     argvs.length == i + 1 && some status == (outs[i]?.bind fatalStatus)
   | none =>
     if status == 1 then true   -- own error (validated by the C04 predicate)
     else
       let anyFail := outs.any (fun | .exit c => 1 ≤ c && c ≤ 125 | _ => false)
       let unspecified := outs.any (fun | .exit c => 126 ≤ c && c ≤ 254 | _ => false)
       if anyFail then status == 123
       else if unspecified then status == 123 || status == 0
       else status == 0)

end FuModel.Pred.C19
