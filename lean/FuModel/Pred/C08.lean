import FuModel.Spec.RunRef

/-!
Property predicates for C09 (`-exec … ;`) and C08 (`-exec … {} +`), from the property texts.
-/
namespace FuModel.Pred.C08
open FuModel.Find.Run FuModel.Find.RunRef FuModel.Find.Walk FuModel.Find.Expr

/-- C09: the commands started (argv and working directory, in order), the output of the
    surrounding expression and find's own status are those of the reference run -/
def predSingle (follow : Follow) (roots : List (Bytes × Option (Node Attr))) (args : List Arg) (script : List Nat)
    (obsSt : Nat) (obsOut : Bytes) (obsExecs : List (Bytes × List Bytes)) (norm : Bytes → Bytes) : Bool :=
  match refRunX follow roots args script with
  | none => obsSt != 0
  | some (r, execs) =>
    obsOut == r.out && ((obsSt == 0) == (r.ret == 0)) &&
    obsExecs == execs.map fun e => ((match e.cwd with | none => [46] | some d => norm d), e.argv)

/-- the first `+` primary of the argument list -/
def firstMulti : List Arg → Option (Bool × Bool × Bytes × List Bytes)
  | [] => none
  | .tok (.prim (.execMulti _ dir ok cmd fixed)) :: _ => some (dir, ok, cmd, fixed)
  | _ :: rest => firstMulti rest

/-- all `+` primaries of the argument list: id, -execdir?, command found?, command, fixed arguments -/
def allMulti : List Arg → List (Nat × Bool × Bool × Bytes × List Bytes)
  | [] => []
  | .tok (.prim (.execMulti id dir ok cmd fixed)) :: rest => (id, dir, ok, cmd, fixed) :: allMulti rest
  | _ :: rest => allMulti rest

/-- C09 with a `+` action in the same expression (every command succeeding): the commands of the
    `;` action are those of the reference run, in order; every path the `+` actions are reached on
    is handed to exactly one of their invocations, in visit order (C08); output and status as the
    reference says -/
def predMixed (follow : Follow) (roots : List (Bytes × Option (Node Attr))) (args : List Arg)
    (obsSt : Nat) (obsOut : Bytes) (obsExecs : List (Bytes × List Bytes)) (norm : Bytes → Bytes) : Bool :=
  match refRunX follow roots args [] with
  | none => obsSt != 0
  | some (r, evs) =>
    let ms := allMulti args
    let tags := ms.map fun m => (toString m.1).toUTF8.toList
    let isPlusObs := fun (e : Bytes × List Bytes) => ms.any fun m => e.2.take (m.2.2.2.2.length + 1) == m.2.2.2.1 :: m.2.2.2.2
    let isNote := fun (e : ExecEvent) => tags.any fun t => e.argv.head? == some t
    let singlesObs := obsExecs.filter fun e => !isPlusObs e
    let singlesRef := (evs.filter fun e => !isNote e).map fun e => ((match e.cwd with | none => [46] | some d => norm d), e.argv)
    let perAction := ms.all fun (id, _, ok, cmd, fixed) =>
      let pre := cmd :: fixed
      let mine := obsExecs.filter fun e => e.2.take pre.length == pre
      let delivered := mine.flatMap fun e => (e.2.drop pre.length).map fun a => (e.1, a)
      let tag := (toString id).toUTF8.toList
      let expected := (evs.filter fun e => e.argv.head? == some tag).map fun e =>
        ((match e.cwd with | none => [46] | some d => norm d), e.argv.getD 1 [])
      if ok then delivered == expected else mine.isEmpty
    obsOut == r.out && ((obsSt == 0) == (r.ret == 0)) && singlesObs == singlesRef && perAction

/-- C08: for every `+` action (they are told apart by their command and fixed arguments) every
    reached path is in exactly one invocation, after the fixed arguments, in visit order;
    -execdir: one directory per invocation, paths spelled ./name, run in that directory; find's
    status is non-zero iff the walk had an error, or some invocation (of whichever action) failed
    or could not be started -/
def predMulti (follow : Follow) (roots : List (Bytes × Option (Node Attr))) (args : List Arg) (script : List Nat)
    (obsSt : Nat) (obsOut : Bytes) (obsExecs : List (Bytes × List Bytes)) (norm : Bytes → Bytes) : Bool :=
  match refRunX follow roots args script with
  | some (r, reached) =>
    let ms := allMulti args
    if ms.isEmpty then false else
    let known := obsExecs.all fun e => ms.any fun m => e.2.take (m.2.2.2.2.length + 1) == m.2.2.2.1 :: m.2.2.2.2
    let perAction := ms.all fun (id, _, ok, cmd, fixed) =>
      let pre := cmd :: fixed
      let mine := obsExecs.filter fun e => e.2.take pre.length == pre
      let delivered := mine.flatMap fun e => (e.2.drop pre.length).map fun a => (e.1, a)
      let tag := (toString id).toUTF8.toList
      let expected := (reached.filter fun e => e.argv.head? == some tag).map fun e =>
        ((match e.cwd with | none => [46] | some d => norm d), e.argv.getD 1 [])
      if ok then delivered == expected else mine.isEmpty
    let failed := (List.range obsExecs.length).any fun i => script.getD i 0 != 0
    let missingUsed := ms.any fun (id, _, ok, _, _) =>
      !ok && reached.any fun e => e.argv.head? == some (toString id).toUTF8.toList
    let expectFail := r.ret != 0 || failed || missingUsed
    obsOut == r.out && known && perAction && ((obsSt != 0) == expectFail)
  | none => obsSt != 0

end FuModel.Pred.C08
