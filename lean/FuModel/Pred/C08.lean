import FuModel.Spec.RunRef

/-!
Property predicates for C09 (`-exec … ;`) and C08 (`-exec … {} +`), from the property texts.
-/
namespace FuModel.Pred.C08
open FuModel.Find.Run FuModel.Find.RunRef FuModel.Find.Walk FuModel.Find.Expr

/-- C09: the commands started (argv and working directory, in order), the output of the
    surrounding expression and find's own status are those of the reference run -/
def predSingle (follow : Follow) (roots : List (Bytes × Option (Node Attr))) (args : List Arg) (script : List Nat)
    (obsSt : Nat) (obsOut : Bytes) (obsExecs : List (Bytes × List Bytes)) (norm : Bytes → Bytes) : Bool :=
  match refRunX follow roots args script with
  | none => obsSt != 0
  | some (r, execs) =>
    obsOut == r.out && ((obsSt == 0) == (r.ret == 0)) &&
    obsExecs == execs.map fun e => ((match e.cwd with | none => [46] | some d => norm d), e.argv)

/-- the first `+` primary of the argument list -/
def firstMulti : List Arg → Option (Bool × Bool × Bytes × List Bytes)
  | [] => none
  | .tok (.prim (.execMulti _ dir ok cmd fixed)) :: _ => some (dir, ok, cmd, fixed)
  | _ :: rest => firstMulti rest

/-- C08 (one `+` primary): every reached path is in exactly one invocation, after the fixed
    arguments, in visit order; -execdir: one directory per invocation, paths spelled ./name, run in
    that directory; status non-zero iff the walk had an error, or an invocation failed or could not start -/
def predMulti (follow : Follow) (roots : List (Bytes × Option (Node Attr))) (args : List Arg) (script : List Nat)
    (obsSt : Nat) (obsOut : Bytes) (obsExecs : List (Bytes × List Bytes)) (norm : Bytes → Bytes) : Bool :=
  match refRunX follow roots args script, firstMulti args with
  | some (r, reached), some (dir, ok, cmd, fixed) =>
    let pre := cmd :: fixed
    let wellFormed := obsExecs.all fun e => e.2.take pre.length == pre
    -- every delivered path with the directory its command ran in, in order
    let delivered := obsExecs.flatMap fun e => (e.2.drop pre.length).map fun a => (e.1, a)
    let expected := reached.flatMap fun e => e.argv.map fun a =>
      ((match e.cwd with | none => [46] | some d => norm d), a)
    let failed := (List.range obsExecs.length).any fun i => script.getD i 0 != 0
    let expectFail := r.ret != 0 || (if ok then failed else !expected.isEmpty)
    obsOut == r.out && wellFormed && ((obsSt != 0) == expectFail) &&
      (if ok then delivered == expected else obsExecs.isEmpty) && (dir || true)
  | none, _ => obsSt != 0
  | _, none => false

end FuModel.Pred.C08
