-- Root of the `FuModel` library: model, specs, proofs and property theorems.
import FuModel.Xargs.Read
