//! find expressions in wire form (one token per argument group) and their argv spelling.
use crate::rng::Rng;
use crate::wire::{hex, unhex};

/// wire token → argv strings
pub fn to_argv(tok: &str, rng: &mut Rng) -> Vec<String> {
    let (k, v) = match tok.split_once(':') {
        Some((k, v)) => (k, v),
        None => (tok, ""),
    };
    let s = |x: &str| x.to_string();
    let text = |h: &str| String::from_utf8(unhex(h)).expect("utf8 operand");
    match k {
        "bang" => vec![s("!")],
        "not" => vec![s("-not")],
        "a" => vec![s("-a")],
        "and" => vec![s("-and")],
        "o" => vec![s("-o")],
        "or" => vec![s("-or")],
        "comma" => vec![s(",")],
        "lp" => vec![s("(")],
        "rp" => vec![s(")")],
        "true" => vec![s("-true")],
        "false" => vec![s("-false")],
        "noleaf" => vec![s("-noleaf")],
        "daystart" => vec![s("-daystart")],
        "print" => vec![s("-print")],
        "print0" => vec![s("-print0")],
        "prune" => vec![s("-prune")],
        "quit" => vec![s("-quit")],
        "delete" => vec![s("-delete")],
        "depth" => vec![s("-depth")],
        "d" => vec![s("-d")],
        "sorted" => vec![s("-sorted")],
        "follow" => vec![s("-follow")],
        "xdev" => vec![s("-xdev")],
        "mount" => vec![s("-mount")],
        "name" => vec![s("-name"), glob_escape(&text(v))],
        "type" => vec![s("-type"), s(v)],
        "lit" => vec![s("-printf"), printf_escape(&text(v), rng)],
        // an action whose output goes to a file: nothing on standard output, and no default -print
        "fout" => match v {
            "ls" => vec![s("-fls"), s("/dev/null")],
            "print" => vec![s("-fprint"), s("/dev/null")],
            "print0" => vec![s("-fprint0"), s("/dev/null")],
            _ => vec![s("-fprintf"), s("/dev/null"), s("%p\\n")],
        },
        "vp" => vec![s("-printf"), format!("{}%p\\n", printf_escape(&text(v), rng))],
        "mindepth" => vec![s("-mindepth"), s(v)],
        "maxdepth" => vec![s("-maxdepth"), s(v)],
        _ => panic!("unknown wire token {tok}"),
    }
}

/// a pattern matching exactly this text
pub fn glob_escape(t: &str) -> String {
    let mut o = String::new();
    for c in t.chars() {
        if matches!(c, '*' | '?' | '[' | '\\') {
            o.push('\\');
        }
        o.push(c);
    }
    o
}

/// a -printf format printing exactly this text
pub fn printf_escape(t: &str, _rng: &mut Rng) -> String {
    let mut o = String::new();
    for c in t.chars() {
        match c {
            '%' => o.push_str("%%"),
            '\\' => o.push_str("\\\\"),
            '\n' => o.push_str("\\n"),
            c => o.push(c),
        }
    }
    o
}

pub fn argv_of(toks: &[String], rng: &mut Rng) -> Vec<String> {
    toks.iter().flat_map(|t| to_argv(t, rng)).collect()
}

pub struct ExprGen<'a> {
    /// produces one primary (wire token)
    pub prim: &'a dyn Fn(&mut Rng) -> String,
    pub max_depth: usize,
}

impl ExprGen<'_> {
    fn factor(&self, rng: &mut Rng, depth: usize, out: &mut Vec<String>) {
        let roll = rng.below(100);
        if roll < 15 {
            out.push(if rng.chance(1, 2) { "bang".into() } else { "not".into() });
            self.factor(rng, depth, out);
        } else if roll < 35 && depth < self.max_depth {
            out.push("lp".into());
            self.list(rng, depth + 1, out);
            out.push("rp".into());
        } else {
            out.push((self.prim)(rng));
        }
    }
    fn and(&self, rng: &mut Rng, depth: usize, out: &mut Vec<String>) {
        let n = 1 + rng.below(3) + if rng.chance(1, 6) { 2 } else { 0 };
        for i in 0..n {
            if i > 0 {
                match rng.below(3) {
                    0 => out.push("a".into()),
                    1 => out.push("and".into()),
                    _ => {}
                }
            }
            self.factor(rng, depth, out);
        }
    }
    fn or(&self, rng: &mut Rng, depth: usize, out: &mut Vec<String>) {
        let n = 1 + if rng.chance(2, 5) { 1 + rng.below(2) } else { 0 };
        for i in 0..n {
            if i > 0 {
                out.push(if rng.chance(1, 2) { "o".into() } else { "or".into() });
            }
            self.and(rng, depth, out);
        }
    }
    pub fn list(&self, rng: &mut Rng, depth: usize, out: &mut Vec<String>) {
        let n = 1 + if rng.chance(1, 4) { 1 + rng.below(2) } else { 0 };
        for i in 0..n {
            if i > 0 {
                out.push("comma".into());
            }
            self.or(rng, depth, out);
        }
    }
}

pub fn name_tok(n: &[u8]) -> String {
    format!("name:{}", hex(n))
}
