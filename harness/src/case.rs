//! A case = one request line for the model, the implementation's answer in the
//! same canonical form, and tags describing which branches the input reaches.
use std::io::Write;

pub struct Case {
    pub req: String,
    pub imp: String,
    pub tags: Vec<&'static str>,
}

pub struct Sink {
    out: std::io::BufWriter<std::fs::File>,
    pub count: u64,
    /// free-form counters reported into the evidence file
    pub counters: std::collections::BTreeMap<String, u64>,
}

impl Sink {
    pub fn new(path: &std::path::Path) -> Self {
        Sink {
            out: std::io::BufWriter::new(std::fs::File::create(path).expect("create cases file")),
            count: 0,
            counters: Default::default(),
        }
    }
    pub fn push(&mut self, c: Case) {
        debug_assert!(!c.req.contains('\t') && !c.imp.contains('\t'));
        writeln!(self.out, "{}\t{}\t{}", c.req, c.imp, c.tags.join(",")).unwrap();
        self.count += 1;
    }
    pub fn bump(&mut self, key: &str, n: u64) {
        *self.counters.entry(key.to_string()).or_insert(0) += n;
    }
    pub fn finish(mut self, stats_path: &std::path::Path) {
        self.out.flush().unwrap();
        let mut s = String::from("{");
        let mut first = true;
        for (k, v) in &self.counters {
            if !first {
                s.push(',');
            }
            first = false;
            s.push_str(&format!("\"{}\":{}", k, v));
        }
        s.push('}');
        std::fs::write(stats_path, s).unwrap();
    }
}

/// Runs `f`, mapping a panic to the answer `panic`.
pub fn guarded<F: FnOnce() -> String + std::panic::UnwindSafe>(f: F) -> String {
    match std::panic::catch_unwind(f) {
        Ok(s) => s,
        Err(_) => "panic".to_string(),
    }
}
