//! C20 — xargs -I / -i / --replace: one run per input line, every occurrence replaced.
use crate::case::{Case, Sink};
use crate::rng::Rng;
use crate::wire::hex;
use crate::xrun::{run_binary, run_inproc, XCase};
use crate::Ctx;

fn gen_line(rng: &mut Rng, r: &[u8]) -> Vec<u8> {
    let mut v = vec![];
    let n = rng.range(1, 4);
    for i in 0..n {
        match rng.below(10) {
            // bytes that are not valid UTF-8 (a Latin-1 file name): the line is handed over as it is
            9 => v.extend_from_slice(*rng.pick(&[&b"caf\xe9"[..], &b"\xff"[..], &b"a\xfe\xffb"[..], &b"\xc3"[..]])),
            0 => v.extend_from_slice(r),
            1 => v.extend_from_slice("é".as_bytes()),
            2 => v.extend_from_slice(b"x y"),
            3 => v.extend_from_slice(b"{}"),
            _ => {
                for _ in 0..rng.range(1, 5) {
                    v.push(b'a' + rng.below(26) as u8);
                }
            }
        }
        if i + 1 < n && rng.chance(1, 2) {
            v.push(b' ');
        }
    }
    // the entire line is the replacement: trailing blanks belong to it
    if rng.chance(1, 5) {
        let t: &[u8] = *rng.pick(&[&b" "[..], &b"  "[..], &b"\t"[..], &b" \t "[..], &b"\r"[..]]);
        v.extend_from_slice(t);
    }
    v
}

fn gen_case(rng: &mut Rng) -> XCase {
    // (multi-byte replace strings: their length in bytes is not their length in characters)
    let rs: [&[u8]; 7] = [b"{}", b"_", b"%%", b"REPL", b"{", "§".as_bytes(), "日本".as_bytes()];
    let r: &[u8] = rs[rng.below(rs.len())];
    let nlines = match rng.below(6) {
        0 => 0,
        _ => rng.range(1, 6),
    };
    let mut input = vec![];
    for i in 0..nlines {
        if rng.chance(1, 8) {
            // empty line
        } else {
            input.extend_from_slice(&gen_line(rng, r));
        }
        if i + 1 < nlines || rng.chance(3, 4) {
            input.push(b'\n');
        }
    }
    // initial arguments with 0..3 occurrences of R, embedded in text
    let mut cmd = vec![b"cmd".to_vec()];
    for _ in 0..rng.range(0, 3) {
        let mut a = vec![];
        for _ in 0..rng.range(0, 3) {
            match rng.below(5) {
                0 => a.extend_from_slice(b"pre"),
                1 => a.push(b'-'),
                // the first byte of R alone: a failed partial match right before (or after) an occurrence
                4 if r[0].is_ascii() => a.push(r[0]),
                _ => a.extend_from_slice(r),
            }
        }
        if a.is_empty() {
            a.extend_from_slice(b"lit");
        }
        cmd.push(a);
    }
    // the replace option in one of its spellings, mixed with -n / -L in any order
    let mut opts: Vec<String> = vec![];
    let rep = match rng.below(6) {
        0 if r == b"{}" => "i".to_string(),
        1 if r == b"{}" => "R-".to_string(),
        2 => format!("R{}", hex(r)),
        _ => format!("I{}", hex(r)),
    };
    opts.push(rep);
    match rng.below(8) {
        0 => opts.push("n1".into()),
        1 => opts.push(format!("n{}", rng.range(2, 3))),
        2 => opts.push(format!("L{}", rng.range(1, 2))),
        3 => {
            opts.push("n2".into());
            opts.push("L1".into());
        }
        4 => {
            // a second replace option of the other family: the last one wins
            if opts[0].starts_with('I') {
                opts.push(format!("R{}", hex(b"_")));
            } else {
                opts.push(format!("I{}", hex(b"_")));
            }
        }
        _ => {}
    }
    // random order
    for i in (1..opts.len()).rev() {
        let j = rng.below(i + 1);
        opts.swap(i, j);
    }
    if rng.chance(1, 6) {
        opts.push("r".into());
    }
    XCase { opts, cmd, input, script: vec![], want_sys: 0 }
}

fn tags_for(c: &XCase, imp: &str) -> Vec<&'static str> {
    let mut t = vec![];
    if c.input.is_empty() {
        t.push("empty-input");
    }
    if c.opts.iter().filter(|o| o.starts_with('n') || o.starts_with('L') || o.starts_with('I') || o.starts_with('R') || *o == "i").count() >= 2 {
        t.push("mode-conflict");
    }
    if imp.contains(';') {
        t.push("multi-run");
    }
    if imp == "panic" {
        t.push("panic");
    }
    if imp.contains(';') || t.contains(&"mode-conflict") {
        t.push("nt");
    }
    t
}

pub fn run_prop(ctx: &Ctx, sink: &mut Sink) {
    let mut rng = Rng::new(ctx.seed).fork(20);
    // corpus: empty input without -r (fixed defect: panicked)
    for opts in [vec!["I7b7d"], vec!["I7b7d", "n1"], vec!["i"]] {
        let c = XCase {
            opts: opts.iter().map(|s| s.to_string()).collect(),
            cmd: vec![b"cmd".to_vec(), b"{}".to_vec()],
            input: vec![],
            script: vec![],
            want_sys: 0,
        };
        let (req, imp) = run_inproc(ctx, &c);
        let mut tags = tags_for(&c, &imp);
        tags.push("corpus");
        sink.push(Case { req, imp, tags });
    }
    let (nhook, nbin) = if ctx.thorough { (200_000, 4_000) } else { (12_000, 250) };
    for _ in 0..nhook {
        let c = gen_case(&mut rng);
        let (req, imp) = run_inproc(ctx, &c);
        let tags = tags_for(&c, &imp);
        sink.push(Case { req, imp, tags });
    }
    for _ in 0..nbin {
        let c = gen_case(&mut rng);
        let (req, imp) = run_binary(ctx, &c);
        let mut tags = tags_for(&c, &imp);
        tags.push("binary");
        sink.push(Case { req, imp, tags });
    }
    // ---- -s with -I: the limit applies to the command after substitution; lines around the boundary
    let ns = if ctx.thorough { 4_000 } else { 300 };
    for _ in 0..ns {
        let mut cmd = vec![b"cmd".to_vec()];
        let mut occ = 0usize;
        for _ in 0..rng.range(1, 3) {
            let mut a = vec![];
            for _ in 0..rng.range(1, 3) {
                if rng.chance(2, 3) { a.extend_from_slice(b"{}"); occ += 1; } else { a.extend_from_slice(*rng.pick(&[&b"p"[..], &b"-x"[..], &b"lit"[..]])); }
            }
            cmd.push(a);
        }
        let s = rng.range(12, 90);
        // cost of the command with every {} removed, and the line length at which the substituted command is exactly s
        let lit: usize = cmd.iter().map(|a| a.len() + 1).sum::<usize>() - 2 * occ;
        let l0 = if occ > 0 && s > lit { (s - lit) / occ } else { 3 };
        let mut input = vec![];
        for _ in 0..rng.range(1, 3) {
            let len = (l0 + rng.below(6)).saturating_sub(3).max(1);
            for _ in 0..len { input.push(b'a' + rng.below(26) as u8); }
            input.push(b'\n');
        }
        let c = XCase { opts: vec!["I7b7d".into(), format!("s{s}")], cmd, input, script: vec![], want_sys: 0 };
        let (req, imp) = run_inproc(ctx, &c);
        let mut tags = tags_for(&c, &imp);
        tags.push("s-limit");
        tags.push("nt");
        if imp.starts_with("st=1") { tags.push("s-limit-refused"); }
        sink.push(Case { req, imp, tags });
    }
    // ---- no command at all: the default command is `echo` without arguments; in replace mode nothing is
    // appended to it, so every non-empty line gives one run of a bare `echo` (an empty line of output)
    for (opts, input) in [(vec!["I7b7d".to_string()], b"a b\nc\n".to_vec()), (vec!["i".to_string()], b"one\n\ntwo words\n".to_vec()),
                          (vec!["R-".to_string()], b"x\n".to_vec()), (vec!["I5f".to_string()], b"p q\nr".to_vec()), (vec!["I7b7d".to_string()], b"".to_vec())] {
        let mut argv: Vec<String> = vec![];
        for o in &opts { argv.extend(crate::xrun::opt_to_argv(o)); }
        let out = std::process::Command::new(ctx.bin("xargs")).args(&argv)
            .stdin(std::process::Stdio::piped()).stdout(std::process::Stdio::piped()).stderr(std::process::Stdio::null())
            .spawn().and_then(|mut ch| { use std::io::Write; let _ = ch.stdin.take().unwrap().write_all(&input); ch.wait_with_output() }).expect("run xargs");
        // one run per line of output: `echo` followed by what it was given
        let text = out.stdout.clone();
        let mut runs: Vec<String> = vec![];
        for l in text.split(|b| *b == b'\n') {
            runs.push(if l.is_empty() { crate::wire::hex(b"echo") } else { format!("{},{}", crate::wire::hex(b"echo"), crate::wire::hex(l)) });
        }
        runs.pop(); // the piece after the final newline
        let imp = format!("st={} {}", crate::recorder::status_code(out.status), if runs.is_empty() { ".".to_string() } else { runs.join(";") });
        let req = format!("xargs-run {} {} {} . {}", crate::wire::list(&opts), crate::wire::hex(b"echo"), if input.is_empty() { "-".to_string() } else { crate::wire::hex(&input) }, 1usize << 40);
        sink.push(Case { req, imp, tags: vec!["default-command", "binary", "nt"] });
    }
}
