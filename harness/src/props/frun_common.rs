//! Shared by the properties observed through whole runs of find (C01, C02, C03, C07, C18).
use crate::fexpr::argv_of;
use crate::frun::{find_binary, find_inproc, FindOut};
use crate::rng::Rng;
use crate::wire::hex;
use crate::Ctx;
use std::path::Path;
use std::time::SystemTime;

pub fn show(o: &FindOut) -> String {
    match o.code {
        Some(c) => format!("st={} diags={} out={}", c, o.diag_lines(), hex(&o.out)),
        None => "panic".to_string(),
    }
}

/// One run: `flag` is "P", "H" or "L"; `roots` are (spelling, wire form) pairs; `toks` the
/// expression in wire tokens. Returns (request, implementation answer).
pub fn run_case(ctx: &Ctx, cwd: &Path, flag: &str, roots: &[(Vec<u8>, String)], toks: &[String], rng: &mut Rng, binary: bool) -> (String, String) {
    let mut args: Vec<String> = vec![];
    // among several of -H, -L, -P the last one decides; -O<n> is ignored: a quarter of the runs put an
    // overridden flag (and sometimes an optimisation level) before the effective one
    if rng.chance(1, 4) {
        let other: Vec<&str> = ["-H", "-L", "-P"].into_iter().filter(|f| f[1..] != *flag).collect();
        args.push((*rng.pick(&other)).to_string());
        if rng.chance(1, 3) { args.push((*rng.pick(&["-O0", "-O1", "-O2", "-O3"])).to_string()); }
        args.push(format!("-{flag}"));
    } else {
        match flag {
            "H" => args.push("-H".into()),
            "L" => args.push("-L".into()),
            "P" => {
                if rng.chance(1, 3) {
                    args.push("-P".into())
                }
            }
            _ => panic!("flag"),
        }
    }
    for (sp, _) in roots {
        args.push(String::from_utf8(sp.clone()).expect("utf8 start"));
    }
    args.extend(argv_of(toks, rng));
    let o = if binary {
        find_binary(&ctx.bin("find"), &args, Some(cwd))
    } else {
        find_inproc(&ctx.tmp.join("stderr-find"), &args, SystemTime::now(), Some(cwd))
    };
    let worlds: Vec<String> = roots.iter().map(|(_, w)| w.clone()).collect();
    let req = format!("find {flag} {} {}", worlds.join(";"), if toks.is_empty() { ".".to_string() } else { toks.join(",") });
    (req, show(&o))
}
