pub mod c01;
pub mod c02;
pub mod c04;
pub mod frun_common;
pub mod c05;
pub mod c06;
pub mod c07;
pub mod c09;
pub mod c10;
pub mod c11;
pub mod c12;
pub mod c13;
pub mod c16;
pub mod c17;
pub mod c14;
pub mod c15;
pub mod c19;
pub mod c20;

use crate::case::Sink;
use crate::Ctx;

pub fn run(ctx: &Ctx, sink: &mut Sink) -> bool {
    match ctx.prop.as_str() {
        "C01" => c01::run_prop(ctx, sink),
        "C02" => c02::run_c02(ctx, sink),
        "C03" => c02::run_c03(ctx, sink),
        "C04" => c04::run_prop(ctx, sink),
        "C18" => c02::run_c18(ctx, sink),
        "C07" => c07::run_prop(ctx, sink),
        "C08" => c09::run_c08(ctx, sink),
        "C09" => c09::run_c09(ctx, sink),
        "C10" => c10::run_prop(ctx, sink),
        "C11" => c11::run_prop(ctx, sink),
        "C12" => c12::run_prop(ctx, sink),
        "C13" => c13::run_prop(ctx, sink),
        "C16" => c16::run_prop(ctx, sink),
        "C17" => c17::run_prop(ctx, sink),
        "C19" => c19::run_prop(ctx, sink),
        "C20" => c20::run_prop(ctx, sink),
        "C06" => c06::run_prop(ctx, sink),
        "C05" => c05::run_prop(ctx, sink),
        "C14" => c14::run_prop(ctx, sink),
        "C15" => c15::run_prop(ctx, sink),
        _ => return false,
    }
    true
}
