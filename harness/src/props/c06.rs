//! C06 — xargs never builds a command line the OS rejects.
//! (1) the kernel model itself against the real kernel (`exec-accepts`, `arg-max`);
//! (2) the xargs binary under stack limits / environment sizes against the model.
use crate::case::{Case, Sink};
use crate::rng::Rng;
use crate::Ctx;
use std::io::Write;
use std::os::unix::process::CommandExt;
use std::process::{Command, Stdio};

pub const UNLIMITED: u64 = u64::MAX;

fn with_stack(cmd: &mut Command, stack: u64) {
    unsafe {
        cmd.pre_exec(move || {
            let lim = libc::rlimit { rlim_cur: stack as libc::rlim_t, rlim_max: stack as libc::rlim_t };
            let lim = if stack == UNLIMITED {
                libc::rlimit { rlim_cur: libc::RLIM_INFINITY, rlim_max: libc::RLIM_INFINITY }
            } else {
                lim
            };
            if libc::setrlimit(libc::RLIMIT_STACK, &lim) != 0 {
                return Err(std::io::Error::last_os_error());
            }
            Ok(())
        });
    }
}

fn stack_wire(stack: u64) -> String {
    if stack == UNLIMITED {
        "9223372036854775807".to_string()
    } else {
        stack.to_string()
    }
}

/// does execve("/bin/true", ["/bin/true"] + (argc-1) x 'a'^arglen, envc x "K=v…"(envlen)) succeed?
fn exec_ok(stack: u64, argc: usize, arglen: usize, envc: usize, envlen: usize) -> bool {
    let mut cmd = Command::new("/bin/true");
    let arg = "a".repeat(arglen);
    for _ in 1..argc {
        cmd.arg(&arg);
    }
    cmd.env_clear();
    for i in 0..envc {
        // NAME=value with total length envlen: name "E<i>" padded
        let name = format!("E{:05}", i);
        let val = "v".repeat(envlen.saturating_sub(name.len() + 1));
        cmd.env(name, val);
    }
    cmd.stdin(Stdio::null()).stdout(Stdio::null()).stderr(Stdio::null());
    with_stack(&mut cmd, stack);
    match cmd.status() {
        Ok(st) => st.success(),
        Err(_) => false,
    }
}

fn probe_kernel(sink: &mut Sink, ctx: &Ctx) {
    let stacks: Vec<u64> = if ctx.thorough {
        vec![256 << 10, 512 << 10, 1 << 20, 8 << 20, 64 << 20, UNLIMITED]
    } else {
        vec![256 << 10, 8 << 20, UNLIMITED]
    };
    let shapes: Vec<(usize, usize, usize)> = if ctx.thorough {
        vec![(1, 0, 0), (100, 0, 0), (5000, 0, 0), (1, 50, 20), (100, 50, 200), (131071, 3, 30)]
    } else {
        vec![(1, 0, 0), (100, 50, 20), (5000, 3, 30)]
    };
    for &stack in &stacks {
        for &(arglen, envc, envlen) in &shapes {
            // bisect the largest accepted argc on the real kernel
            let (mut lo, mut hi) = (1usize, 2usize);
            while exec_ok(stack, hi, arglen, envc, envlen) && hi < 4_000_000 {
                lo = hi;
                hi *= 2;
            }
            while lo + 1 < hi {
                let mid = (lo + hi) / 2;
                if exec_ok(stack, mid, arglen, envc, envlen) {
                    lo = mid;
                } else {
                    hi = mid;
                }
            }
            for (argc, ok) in [(lo, true), (hi, false), (lo.saturating_sub(7).max(1), true), (hi + 9, false)] {
                let real = exec_ok(stack, argc, arglen, envc, envlen);
                sink.bump("kernel_probe_execs", 1);
                let req = format!(
                    "exec-accepts {} 9 1*9,{}*{} {}*{}",
                    stack_wire(stack), argc - 1, arglen, envc, envlen
                );
                let _ = ok;
                sink.push(Case { req, imp: if real { "1".into() } else { "0".into() }, tags: vec!["kernel-model", "nt"] });
            }
        }
        // single argument length boundary (MAX_ARG_STRLEN)
        for arglen in [131070usize, 131071, 131072, 200000] {
            let real = exec_ok(stack, 2, arglen, 0, 0);
            let req = format!("exec-accepts {} 9 1*9,1*{} 0*0", stack_wire(stack), arglen);
            sink.push(Case { req, imp: if real { "1".into() } else { "0".into() }, tags: vec!["kernel-model", "arg-strlen", "nt"] });
        }
        // sysconf(_SC_ARG_MAX) as the binaries see it
        let mut cmd = Command::new("getconf");
        cmd.arg("ARG_MAX").stdin(Stdio::null()).stderr(Stdio::null());
        with_stack(&mut cmd, stack);
        if let Ok(out) = cmd.output() {
            let v = String::from_utf8_lossy(&out.stdout).trim().to_string();
            sink.push(Case { req: format!("arg-max {}", stack_wire(stack)), imp: v, tags: vec!["sysconf", "nt"] });
        }
    }
}

struct SysCase {
    stack: u64,
    n: usize,
    s: usize,
    envc: usize,
    envlen: usize,
    /// (count, length) groups of input arguments
    groups: Vec<(usize, usize)>,
    /// arguments made of two-byte characters (same byte lengths)
    mb: bool,
    /// lengths of fixed arguments after the command name
    fixed: Vec<usize>,
}

fn run_xargs_sys(ctx: &Ctx, c: &SysCase) -> (String, String) {
    use std::os::unix::ffi::OsStrExt;
    let dir = ctx.scratch("c06");
    let log = dir.join("log");
    let rec = ctx.recorder();
    let mut cmd = Command::new(ctx.bin("xargs"));
    cmd.arg("-0");
    if c.n > 0 {
        cmd.arg("-n").arg(c.n.to_string());
    }
    if c.s > 0 {
        cmd.arg("-s").arg(c.s.to_string());
    }
    cmd.arg(&rec);
    for l in &c.fixed { cmd.arg("f".repeat(*l)); }
    cmd.env_clear();
    let mut env_lens = vec![];
    for i in 0..c.envc {
        let name = format!("E{:05}", i);
        let val = "v".repeat(c.envlen.saturating_sub(name.len() + 1));
        env_lens.push(name.len() + 1 + val.len());
        cmd.env(name, val);
    }
    cmd.env("FU_REC_LOG", &log);
    env_lens.push("FU_REC_LOG".len() + 1 + log.as_os_str().as_bytes().len());
    cmd.env("FU_REC_COMPACT", "1");
    env_lens.push("FU_REC_COMPACT=1".len());
    cmd.stdin(Stdio::piped()).stdout(Stdio::null()).stderr(Stdio::piped());
    with_stack(&mut cmd, c.stack);
    let mut child = cmd.spawn().expect("spawn xargs");
    {
        let mut si = std::io::BufWriter::new(child.stdin.take().unwrap());
        let mut idx = 0usize;
        for &(count, len) in &c.groups {
            for _ in 0..count {
                let mut a = if len >= 8 { format!("{:08}", idx).into_bytes() } else { vec![] };
                while a.len() < len {
                    if c.mb && a.len() + 2 <= len { a.extend_from_slice("é".as_bytes()); } else { a.push(b'x'); }
                }
                a.push(0);
                if si.write_all(&a).is_err() {
                    break;
                }
                idx += 1;
            }
        }
        let _ = si.flush();
    }
    let out = child.wait_with_output().expect("wait xargs");
    let status = crate::recorder::status_code(out.status);
    // compact log lines: "C argc total first last"
    let text = std::fs::read_to_string(&log).unwrap_or_default();
    let mut sizes = vec![];
    let mut order_ok = true;
    let mut expect_idx = 0usize;
    let all_indexed = c.groups.iter().all(|g| g.1 >= 8) && c.fixed.is_empty();
    for l in text.lines() {
        let f: Vec<&str> = l.split(' ').collect();
        if f.len() < 5 || f[0] != "C" {
            continue;
        }
        let argc: usize = f[1].parse().unwrap_or(0);
        let appended = argc.saturating_sub(1 + c.fixed.len());
        if all_indexed && appended > 0 {
            let first = String::from_utf8_lossy(&crate::wire::unhex(f[3])).to_string();
            let last = String::from_utf8_lossy(&crate::wire::unhex(f[4])).to_string();
            let fi: usize = first.get(..8).and_then(|x| x.parse().ok()).unwrap_or(usize::MAX);
            let la: usize = last.get(..8).and_then(|x| x.parse().ok()).unwrap_or(usize::MAX);
            if fi != expect_idx || la != expect_idx + appended - 1 {
                order_ok = false;
            }
            expect_idx += appended;
        }
        sizes.push(appended.to_string());
    }
    let _ = std::fs::remove_dir_all(&dir);
    let e2big = String::from_utf8_lossy(&out.stderr).contains("too long");
    let imp = if !order_ok {
        "order-violation".to_string()
    } else {
        format!("st={} {}{}", status, crate::wire::list(&sizes), if e2big && status != 126 { " e2big" } else { "" })
    };
    let groups: Vec<String> = c.groups.iter().map(|(n, l)| format!("{n}*{l}")).collect();
    let envs: Vec<String> = env_lens.iter().map(|l| format!("1*{l}")).collect();
    let mut cmdw = vec![format!("1*{}", rec.as_os_str().as_bytes().len())];
    cmdw.extend(c.fixed.iter().map(|l| format!("1*{l}")));
    let req = format!(
        "xargs-sys {} {} {} {} {} {}",
        stack_wire(c.stack),
        c.n,
        c.s,
        crate::wire::list(&cmdw),
        crate::wire::list(&envs),
        crate::wire::list(&groups)
    );
    (req, imp)
}

/// replace mode: `xargs -0 -I {} [-s S] REC WORD…`; a word is `lit` bytes followed by `occ` times `{}`
struct ReplCase {
    stack: u64,
    s: usize,
    template: Vec<(usize, usize)>,
    lines: Vec<usize>,
}

/// runs the binary in replace mode; the answer is the status and, per started command, the total
/// number of bytes of its argument vector (the command after substitution)
fn run_xargs_repl(ctx: &Ctx, c: &ReplCase) -> (String, String) {
    use std::os::unix::ffi::OsStrExt;
    let dir = ctx.scratch("c06i");
    let log = dir.join("log");
    let rec = ctx.recorder();
    let mut cmd = Command::new(ctx.bin("xargs"));
    cmd.arg("-0").arg("-I").arg("{}");
    if c.s > 0 {
        cmd.arg("-s").arg(c.s.to_string());
    }
    cmd.arg(&rec);
    for (lit, occ) in &c.template {
        cmd.arg(format!("{}{}", "w".repeat(*lit), "{}".repeat(*occ)));
    }
    cmd.env_clear();
    let mut env_lens = vec![];
    cmd.env("FU_REC_LOG", &log);
    env_lens.push("FU_REC_LOG".len() + 1 + log.as_os_str().as_bytes().len());
    cmd.env("FU_REC_COMPACT", "1");
    env_lens.push("FU_REC_COMPACT=1".len());
    cmd.stdin(Stdio::piped()).stdout(Stdio::null()).stderr(Stdio::piped());
    with_stack(&mut cmd, c.stack);
    let mut child = cmd.spawn().expect("spawn xargs");
    {
        let mut si = std::io::BufWriter::new(child.stdin.take().unwrap());
        for len in &c.lines {
            let mut a = vec![b'x'; *len];
            a.push(0);
            if si.write_all(&a).is_err() {
                break;
            }
        }
        let _ = si.flush();
    }
    let out = child.wait_with_output().expect("wait xargs");
    let status = crate::recorder::status_code(out.status);
    let text = std::fs::read_to_string(&log).unwrap_or_default();
    let mut totals = vec![];
    for l in text.lines() {
        let f: Vec<&str> = l.split(' ').collect();
        if f.len() >= 5 && f[0] == "C" {
            totals.push(f[2].to_string());
        }
    }
    let _ = std::fs::remove_dir_all(&dir);
    let imp = format!("st={} {}", status, crate::wire::list(&totals));
    let tw: Vec<String> = c.template.iter().map(|(l, o)| format!("{l}:{o}")).collect();
    let envs: Vec<String> = env_lens.iter().map(|l| format!("1*{l}")).collect();
    let lines: Vec<String> = c.lines.iter().map(|l| format!("1*{l}")).collect();
    let req = format!(
        "xargs-sysI {} {} {} {} {} {}",
        stack_wire(c.stack),
        c.s,
        rec.as_os_str().as_bytes().len(),
        crate::wire::list(&tw),
        crate::wire::list(&envs),
        crate::wire::list(&lines)
    );
    (req, imp)
}

fn replace_mode(ctx: &Ctx, sink: &mut Sink, rng: &mut Rng) {
    #[allow(unused_mut)]
    let mut cases = vec![
        // one occurrence behind a prefix: the argument grows past the per-argument limit by one byte
        ReplCase { stack: 8 << 20, s: 0, template: vec![(1, 1)], lines: vec![10, 131_071, 10] },
        ReplCase { stack: 8 << 20, s: 0, template: vec![(1, 1)], lines: vec![10, 131_070, 10] },
        // thirty occurrences of a line that is fine once: 3 MB on a 2 MiB budget
        ReplCase { stack: 8 << 20, s: 0, template: vec![(0, 1); 30], lines: vec![5, 100_000, 5] },
        ReplCase { stack: 8 << 20, s: 0, template: vec![(0, 1); 20], lines: vec![5, 100_000, 5] },
        // two occurrences in one word
        ReplCase { stack: 8 << 20, s: 0, template: vec![(3, 2)], lines: vec![70_000, 7, 60_000] },
        // -s counts the command after substitution
        ReplCase { stack: 8 << 20, s: 4000, template: vec![(10, 3)], lines: vec![100, 1200, 1400, 100] },
        // a small stack: the budget itself is small
        ReplCase { stack: 512 << 10, s: 0, template: vec![(0, 1); 4], lines: vec![100, 30_000, 33_000, 100] },
        // a long fixed argument without any occurrence beside many occurrences: the substituted
        // arguments alone fit the budget, together with the fixed part they do not
        ReplCase { stack: 8 << 20, s: 0, template: { let mut t = vec![(27_531, 0)]; t.extend(vec![(0, 1); 69]); t }, lines: vec![10, 30_000, 10] },
        ReplCase { stack: 8 << 20, s: 0, template: { let mut t = vec![(60_000, 0), (50_000, 0)]; t.extend(vec![(0, 1); 40]); t }, lines: vec![10, 49_500, 10] },
    ];
    // -s against the command after substitution, line lengths around the boundary (command word included)
    for (s, tmpl) in [(400usize, vec![(3usize, 2usize)]), (700, vec![(0, 1), (5, 2)]), (1500, vec![(40, 0), (0, 3)])] {
        let rec_len = { use std::os::unix::ffi::OsStrExt; ctx.recorder().as_os_str().as_bytes().len() };
        let occ: usize = tmpl.iter().map(|t| t.1).sum();
        let lit: usize = rec_len + 1 + tmpl.iter().map(|t| t.0 + 1).sum::<usize>();
        let l0 = (s.saturating_sub(lit)) / occ.max(1);
        for d in 0..(rec_len + 8) {
            let l = (l0 + 3).saturating_sub(d).max(1);
            cases.push(ReplCase { stack: 8 << 20, s, template: tmpl.clone(), lines: vec![2, l, 2] });
        }
    }
    let mut cases = cases;
    let nrand = if ctx.thorough { 40 } else { 5 };
    for _ in 0..nrand {
        let stack = *rng.pick(&[512u64 << 10, 1 << 20, 8 << 20, UNLIMITED]);
        let words = rng.range(1, 6);
        let template: Vec<(usize, usize)> = (0..words).map(|_| (rng.below(40), rng.below(4))).collect();
        let nl = rng.range(1, 6);
        let lines: Vec<usize> = (0..nl).map(|_| match rng.below(4) { 0 => rng.range(1, 50), 1 => rng.range(1000, 40_000), 2 => rng.range(40_000, 131_072), _ => rng.range(100, 2000) }).collect();
        let s = if rng.chance(1, 4) { rng.range(2000, 100_000) } else { 0 };
        cases.push(ReplCase { stack, s, template, lines });
    }
    for c in &cases {
        let (req, imp) = run_xargs_repl(ctx, c);
        let mut tags = vec!["xargs-binary", "replace-mode", "nt"];
        if c.template.iter().map(|t| t.1).sum::<usize>() > 1 { tags.push("several-occurrences"); }
        if c.s > 0 { tags.push("s-option"); }
        sink.bump("xargs_repl_runs", 1);
        sink.push(Case { req, imp, tags });
    }
}

pub fn run_prop(ctx: &Ctx, sink: &mut Sink) {
    let mut rng = Rng::new(ctx.seed).fork(6);
    probe_kernel(sink, ctx);
    {
        let mut r2 = Rng::new(ctx.seed).fork(66);
        replace_mode(ctx, sink, &mut r2);
    }
    // corpus: the two defects repaired by the fix: commit
    let mut cases = vec![
        SysCase { fixed: vec![], mb: false, stack: UNLIMITED, n: 0, s: 0, envc: 0, envlen: 0, groups: vec![(400_000, 6)] },
        SysCase { fixed: vec![], mb: false, stack: 8 << 20, n: 0, s: 0, envc: 0, envlen: 0, groups: vec![(3, 10), (1, 200_000), (3, 10)] },
        SysCase { fixed: vec![], mb: false, stack: 256 << 10, n: 0, s: 0, envc: 0, envlen: 0, groups: vec![(100_000, 1)] },
        // the per-argument limit, byte-exact (an argument plus its NUL may take 32 pages)
        SysCase { fixed: vec![], mb: false, stack: 8 << 20, n: 0, s: 0, envc: 0, envlen: 0, groups: vec![(3, 10), (1, 131_070), (3, 10)] },
        SysCase { fixed: vec![], mb: false, stack: 8 << 20, n: 0, s: 0, envc: 0, envlen: 0, groups: vec![(3, 10), (1, 131_071), (3, 10)] },
        SysCase { fixed: vec![], mb: false, stack: 8 << 20, n: 0, s: 0, envc: 0, envlen: 0, groups: vec![(3, 10), (1, 131_072), (3, 10)] },
        SysCase { fixed: vec![], mb: false, stack: UNLIMITED, n: 0, s: 0, envc: 5, envlen: 40, groups: vec![(1, 131_072)] },
        SysCase { fixed: vec![], mb: false, stack: 8 << 20, n: 2, s: 0, envc: 0, envlen: 0, groups: vec![(2, 131_071), (1, 131_073), (1, 8)] },
        // thousands of small environment variables: their pointers count as much as their bytes
        SysCase { fixed: vec![], mb: false, stack: 8 << 20, n: 0, s: 0, envc: 3000, envlen: 10, groups: vec![(300_000, 1)] },
        SysCase { fixed: vec![], mb: false, stack: 512 << 10, n: 0, s: 0, envc: 1500, envlen: 9, groups: vec![(80_000, 1)] },
        // a large -s does not replace the system limits: argv pointers and the per-argument limit still apply
        SysCase { fixed: vec![], mb: false, stack: 8 << 20, n: 0, s: 1_000_000, envc: 0, envlen: 0, groups: vec![(300_000, 1)] },
        SysCase { fixed: vec![], mb: false, stack: 8 << 20, n: 0, s: 200_000, envc: 0, envlen: 0, groups: vec![(3, 10), (1, 150_000), (3, 10)] },
        SysCase { fixed: vec![], mb: false, stack: 8 << 20, n: 0, s: 1_900_000, envc: 0, envlen: 0, groups: vec![(2000, 900)] },
        // a long fixed argument is charged to every limiter, whatever -n / -s say
        SysCase { fixed: vec![16_000], mb: false, stack: 8 << 20, n: 1_000_000, s: 0, envc: 0, envlen: 0, groups: vec![(400_000, 7)] },
        SysCase { fixed: vec![3000, 3000], mb: false, stack: 512 << 10, n: 0, s: 0, envc: 0, envlen: 0, groups: vec![(60_000, 3)] },
        SysCase { fixed: vec![5000], mb: false, stack: 8 << 20, n: 0, s: 100_000, envc: 0, envlen: 0, groups: vec![(20_000, 9)] },
        // an environment that leaves only a few hundred bytes: the budget is what is left, not a comfortable minimum
        SysCase { fixed: vec![], mb: false, stack: 512 << 10, n: 0, s: 0, envc: 1, envlen: 127_700, groups: vec![(3000, 3)] },
        SysCase { fixed: vec![], mb: false, stack: 512 << 10, n: 0, s: 0, envc: 1, envlen: 125_000, groups: vec![(3000, 4)] },
        // … or leaves nothing at all (less than the 2048 bytes of headroom): nothing can be passed, which is reported
        SysCase { fixed: vec![], mb: false, stack: 512 << 10, n: 0, s: 0, envc: 1, envlen: 129_500, groups: vec![(5, 4)] },
        // multi-byte arguments: the budget counts bytes, not characters
        SysCase { fixed: vec![], mb: true, stack: 8 << 20, n: 0, s: 0, envc: 0, envlen: 0, groups: vec![(2500, 2000)] },
        SysCase { fixed: vec![], mb: true, stack: 8 << 20, n: 0, s: 0, envc: 0, envlen: 0, groups: vec![(3, 10), (1, 140_000), (3, 10)] },
    ];
    let nrand = if ctx.thorough { 70 } else { 6 };
    for _ in 0..nrand {
        let stack = *rng.pick(&[256u64 << 10, 512 << 10, 1 << 20, 8 << 20, 64 << 20, UNLIMITED]);
        let (envc, envlen) = *rng.pick(&[(0usize, 0usize), (40, 30), (200, 100), (10, 2000)]);
        let shape = rng.below(6);
        let groups = match shape {
            0 => vec![(rng.range(50_000, if ctx.thorough { 400_000 } else { 150_000 }), 1)],
            1 => vec![(rng.range(20_000, 100_000), rng.range(8, 16))],
            2 => vec![(rng.range(500, 3000), rng.range(1000, 5000))],
            3 => vec![(rng.range(10, 200), 131_071), (rng.range(10, 1000), 1)],
            4 => vec![(rng.range(1000, 20_000), 2), (1, *rng.pick(&[131_072usize, 150_000])), (100, 2)],
            _ => vec![(rng.range(10_000, 60_000), 1), (rng.range(100, 2000), 300), (rng.range(10_000, 60_000), 3)],
        };
        let (n, s) = match rng.below(4) {
            0 => (rng.range(1000, 50_000), 0),
            1 => (0, rng.range(50_000, 120_000)),
            _ => (0, 0),
        };
        let fixed = if rng.chance(1, 3) { vec![rng.range(100, 20_000)] } else { vec![] };
        cases.push(SysCase { fixed, mb: rng.chance(1, 4), stack, n, s, envc, envlen, groups });
    }
    for c in &cases {
        let (req, imp) = run_xargs_sys(ctx, c);
        let mut tags = vec!["xargs-binary", "nt"];
        if c.groups.iter().any(|g| g.1 + 1 > 131_072) {
            tags.push("oversize-arg");
        }
        if c.groups.iter().any(|g| g.1 <= 3 && g.0 >= 10_000) {
            tags.push("pointer-dominated");
        }
        if c.envc > 0 {
            tags.push("env");
        }
        if c.stack != 8 << 20 {
            tags.push("stack-limit");
        }
        sink.bump("xargs_sys_runs", 1);
        sink.push(Case { req, imp, tags });
    }
}
