//! C13 — type/perm/owner/link tests against the status record the follow mode selects.
use super::frun_common::run_case;
use crate::case::{guarded, Case, Sink};
use crate::rng::Rng;
use crate::wire::hex;
use crate::world::observe_root;
use crate::Ctx;
use findutils::find::matchers::verif_hooks as fh;
use std::os::unix::fs::{MetadataExt, PermissionsExt};

/// the first user of /etc/passwd whose uid differs from its primary gid: (name, uid, gid)
fn odd_user() -> Option<(String, u32, u32)> {
    let text = std::fs::read_to_string("/etc/passwd").ok()?;
    for l in text.lines() {
        let f: Vec<&str> = l.split(':').collect();
        if f.len() >= 4 {
            if let (Ok(u), Ok(g)) = (f[2].parse::<u32>(), f[3].parse::<u32>()) {
                if u != g && u != 0 && !f[0].is_empty() { return Some((f[0].to_string(), u, g)); }
            }
        }
    }
    None
}

fn chown(p: &std::path::Path, uid: u32, gid: u32) {
    let c = std::ffi::CString::new(p.to_str().unwrap()).unwrap();
    unsafe { libc::lchown(c.as_ptr(), uid, gid) };
}

fn chmod(p: &std::path::Path, mode: u32) {
    std::fs::set_permissions(p, std::fs::Permissions::from_mode(mode)).unwrap();
}

pub fn perm_operand(rng: &mut Rng) -> String {
    let prefix = *rng.pick(&["", "", "-", "/"]);
    let body = match rng.below(6) {
        0 | 1 => format!("{:o}", rng.below(4096)),
        2 => format!("{:04o}", rng.below(4096)),
        3 => {
            let who = *rng.pick(&["u", "g", "o", "a", "ug", "go", ""]);
            let op = *rng.pick(&["=", "+", "="]);
            let mut p = String::new();
            for c in ['r', 'w', 'x', 's', 't', 'X'] { if rng.chance(1, 3) { p.push(c); } }
            format!("{who}{op}{p}")
        }
        4 => {
            let mut parts = vec![];
            for who in ["u", "g", "o"] {
                let mut p = String::new();
                for c in ['r', 'w', 'x'] { if rng.chance(1, 2) { p.push(c); } }
                if who != "o" && rng.chance(1, 5) { p.push('s'); }
                if who == "o" && rng.chance(1, 5) { p.push('t'); }
                parts.push(format!("{who}={p}"));
            }
            parts.join(",")
        }
        _ => (*rng.pick(&["0", "7777", "u=g", "g=u", "o=u", "a+r,g-r", "+x", "=", "u+s,o+t", "000",
            // later clauses that depend on or undo earlier ones
            "a=rwx,o-w", "u=rwx,u-w", "u=rw,g=u", "ug=rw,o=r,g-w", "a=r,u+w", "u=rwx,u=r", "go=,u=rwx", "a+rwx,go-wx", "u+x,a-x", "ugo=rx,u+w,o="])).to_string(),
    };
    format!("{prefix}{body}")
}

pub fn run_prop(ctx: &Ctx, sink: &mut Sink) {
    let mut rng = Rng::new(ctx.seed).fork(13);
    // ---- pure: -perm operands and the bit tests
    let n_ops = if ctx.thorough { 4000 } else { 300 };
    let mut operands: Vec<String> = (0..n_ops).map(|_| perm_operand(&mut rng)).collect();
    operands.extend(["u=rwx,go=w", "-u=rwx", "/u=rwx", "700", "-700", "/700", "/1", "/7777", "77777", "a", "u", "", "-", "/", "rwx", "u=rwxz", "8", "+644", "-+644", "u=rw,,g=r", "=644"].iter().map(|s| s.to_string()));
    for op in &operands {
        let o = op.clone();
        let imp = guarded(move || match fh::perm_parse(&o) {
            Ok((k, f, d)) => format!("ok {k} {f} {d}"),
            Err(_) => "reject".into(),
        });
        sink.push(Case { req: format!("perm-parse {}", hex(op.as_bytes())), imp, tags: vec!["perm-parse", "nt"] });
        for _ in 0..(if ctx.thorough { 40 } else { 12 }) {
            let mode = match rng.below(3) { 0 => rng.below(4096) as u32, 1 => 0o100000 | rng.below(4096) as u32, _ => 0o40000 | rng.below(4096) as u32 };
            let o = op.clone();
            let is_dir = mode & 0o40000 != 0;
            let imp = guarded(move || match fh::perm_matches(&o, is_dir, mode) {
                Ok(b) => (b as u8).to_string(),
                Err(_) => "reject".into(),
            });
            sink.push(Case { req: format!("perm-match {} {}", hex(op.as_bytes()), mode), imp, tags: vec!["perm-match", "nt"] });
        }
    }
    // ---- worlds
    let rounds = if ctx.thorough { 300 } else { 25 };
    for _r in 0..rounds {
        let dir = ctx.scratch("c13").join("pad").join("w");
        std::fs::create_dir_all(&dir).unwrap();
        let t = dir.join("t");
        std::fs::create_dir(&t).unwrap();
        let mut owners = vec![(0u32, 0u32), (1, 1), (1000, 100), (65534, 65534), (4242, 7)];
        // (a user of the password database whose uid is not its primary gid: -user NAME is about the uid)
        if let Some((_, u, g)) = odd_user() { owners.extend([(u, g), (g, u), (u, g)]); }
        for i in 0..5 {
            let f = t.join(format!("f{i}"));
            std::fs::write(&f, if i % 2 == 0 { &b"data"[..] } else { &b""[..] }).unwrap();
            chmod(&f, rng.below(4096) as u32);
            let (u, g) = owners[rng.below(owners.len())];
            chown(&f, u, g);
        }
        std::fs::hard_link(t.join("f0"), t.join("h0")).unwrap();
        std::fs::hard_link(t.join("f0"), t.join("h1")).unwrap();
        std::fs::create_dir(t.join("d0")).unwrap();
        std::fs::create_dir(t.join("d1")).unwrap();
        std::fs::write(t.join("d1/x"), b"x").unwrap();
        chmod(&t.join("d0"), 0o700 | (rng.below(8) as u32) << 9);
        chmod(&t.join("d1"), 0o755);
        let c = std::ffi::CString::new(t.join("p0").to_str().unwrap()).unwrap();
        unsafe { libc::mkfifo(c.as_ptr(), 0o640) };
        // a character and a block device (only root may create them; without them the scene is merely smaller)
        for (nm, kind, dev) in [("c0", libc::S_IFCHR, libc::makedev(1, 3)), ("b0", libc::S_IFBLK, libc::makedev(7, 0))] {
            let c = std::ffi::CString::new(t.join(nm).to_str().unwrap()).unwrap();
            unsafe { libc::mknod(c.as_ptr(), kind | 0o640, dev) };
        }
        for (l, target) in [("lc", "c0"), ("lb", "b0")] { let _ = std::os::unix::fs::symlink(target, t.join(l)); }
        let _sock = std::os::unix::net::UnixListener::bind(t.join("s0")).ok();
        for (l, target) in [("lf", "f0"), ("le", "f1"), ("ld", "d1"), ("l0", "d0"), ("lp", "p0"), ("ls", "s0"), ("ldang", "nothing"), ("lself", "lself")] {
            std::os::unix::fs::symlink(target, t.join(l)).unwrap();
        }
        chown(&t.join("lf"), 1000, 100);
        std::os::unix::fs::symlink("t", dir.join("lt")).unwrap();
        let root_cands = ["t", "lt", "t/lf", "t/ldang", "t/ld", "t/f0", "t/lself"];
        let f0 = std::fs::metadata(t.join("f0")).unwrap();
        let d1 = std::fs::metadata(t.join("d1")).unwrap();
        for _c in 0..(if ctx.thorough { 40 } else { 24 }) {
            let flag = *rng.pick(&["P", "H", "L"]);
            // -follow in front of the expression is in force when the reference of -samefile is resolved
            let with_follow = rng.chance(1, 10);
            let follow_cfg = flag != "P" || with_follow;
            let tok: String = match rng.below(12) {
                0 => format!("type:{}", rng.pick(&["f", "d", "l", "p", "s"])),
                1 | 2 => format!("xtype:{}", rng.pick(&["f", "d", "l", "p", "s"])),
                3 | 4 => format!("permop:{}", hex(perm_operand(&mut rng).as_bytes())),
                5 => format!("sc:l:{}:{}", rng.pick(&["p", "e", "m"]), rng.range(1, 3)),
                6 => format!("sc:i:{}:{}", rng.pick(&["p", "e", "m"]), if rng.chance(1, 2) { f0.ino() } else { d1.ino() }),
                7 => {
                    let mut ids: Vec<u32> = vec![0, 1, 1000, 65534];
                    if let Some((_, u, g)) = odd_user() { ids.extend([u, u, g]); }
                    format!("sc:u:{}:{}", rng.pick(&["p", "e", "e", "m"]), rng.pick(&ids))
                }
                8 => format!("sc:g:{}:{}", rng.pick(&["p", "e", "m"]), rng.pick(&[0, 1, 100, 7])),
                9 => "empty".into(),
                10 => {
                    // reference resolved as SameFileMatcher::new does: through links unless -P
                    let refp = t.join(*rng.pick(&["f0", "lf", "d1", "ld", "ldang"]));
                    let m = if follow_cfg { std::fs::metadata(&refp).or_else(|_| std::fs::symlink_metadata(&refp)) } else { std::fs::symlink_metadata(&refp) }.unwrap();
                    format!("samefile:{}:{}:{}", m.dev(), m.ino(), hex(refp.to_str().unwrap().as_bytes()))
                }
                _ => format!("lname:{}", hex(rng.pick(&["f0", "d1", "nothing", "lself", "p0"]).as_bytes())),
            };
            let mut toks = vec!["sorted".to_string(), tok.clone(), "print0".to_string()];
            if with_follow { toks.insert(0, "follow".into()); }
            let nroots = if rng.chance(3, 4) { 1 } else { 2 };
            let mut roots = vec![];
            for _ in 0..nroots {
                let c = if rng.chance(1, 2) { "t" } else { *rng.pick(&root_cands) };
                roots.push((c.as_bytes().to_vec(), observe_root(c.as_bytes(), &dir.join(c))));
            }
            let (req, imp) = run_case13(ctx, &dir, flag, &roots, &toks, &mut rng);
            let mut tags = vec!["world", "nt"];
            tags.push(match flag { "P" => "P", "H" => "H", _ => "L" });
            tags.push(match tok.split(':').next().unwrap() { "type" => "type", "xtype" => "xtype", "permop" => "perm", "sc" => "stat-field", "empty" => "empty", "samefile" => "samefile", _ => "lname" });
            sink.push(Case { req, imp, tags });
        }
        let _ = std::fs::remove_dir_all(&dir);
    }
}

/// like `run_case`, with the argv spelling of the C13 tokens
fn run_case13(ctx: &Ctx, cwd: &std::path::Path, flag: &str, roots: &[(Vec<u8>, String)], toks: &[String], rng: &mut Rng) -> (String, String) {
    let mut args: Vec<String> = vec![];
    // among several of -H, -L, -P the last one decides: a third of the runs put an overridden flag first
    if rng.chance(1, 3) {
        let other: Vec<&str> = ["-H", "-L", "-P"].into_iter().filter(|f| f[1..] != *flag).collect();
        args.push((*rng.pick(&other)).to_string());
        args.push(format!("-{flag}"));
    } else if flag != "P" { args.push(format!("-{flag}")); }
    for (sp, _) in roots { args.push(String::from_utf8(sp.clone()).unwrap()); }
    let mut wire_toks: Vec<String> = vec![];
    for t in toks {
        let f: Vec<&str> = t.split(':').collect();
        let un = |h: &str| String::from_utf8(crate::wire::unhex(h)).unwrap();
        match f[0] {
            "xtype" => { args.push("-xtype".into()); args.push(f[1].into()); wire_toks.push(t.clone()); }
            "permop" => { args.push("-perm".into()); args.push(un(f[1])); wire_toks.push(t.clone()); }
            "sc" => {
                let (prim, alt) = match f[1] { "l" => ("-links", None), "i" => ("-inum", None), "u" => ("-uid", Some("-user")), _ => ("-gid", Some("-group")) };
                let sign = match f[2] { "p" => "+", "m" => "-", _ => "" };
                // -user / -group with a numeric or a known name mean -uid / -gid N
                if let (Some(a), "e") = (alt, f[2]) {
                    if rng.chance(1, 3) {
                        args.push(a.into());
                        let named = odd_user().filter(|(_, u, _)| a == "-user" && f[3] == u.to_string());
                        args.push(if f[3] == "0" && rng.chance(1, 2) { "root".into() } else if let Some((nm, _, _)) = named { nm } else { f[3].into() });
                        wire_toks.push(t.clone());
                        continue;
                    }
                }
                args.push(prim.into());
                args.push(format!("{sign}{}", f[3]));
                wire_toks.push(t.clone());
            }
            "empty" => { args.push("-empty".into()); wire_toks.push(t.clone()); }
            "samefile" => { args.push("-samefile".into()); args.push(un(f[3])); wire_toks.push(format!("samefile:{}:{}", f[1], f[2])); }
            "lname" => { args.push("-lname".into()); args.push(crate::fexpr::glob_escape(&un(f[1]))); wire_toks.push(t.clone()); }
            _ => { args.extend(crate::fexpr::argv_of(&[t.clone()], rng)); wire_toks.push(t.clone()); }
        }
    }
    let o = crate::frun::find_inproc(&ctx.tmp.join("stderr-find"), &args, std::time::SystemTime::now(), Some(cwd));
    let worlds: Vec<String> = roots.iter().map(|(_, w)| w.clone()).collect();
    let req = format!("find {flag} {} {}", worlds.join(";"), wire_toks.join(","));
    let _ = run_case; // shared helper kept for symmetry
    (req, super::frun_common::show(&o))
}
