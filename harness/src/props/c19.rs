//! C19 — xargs exit status as a function of its children's outcomes.
use crate::case::{Case, Sink};
use crate::rng::Rng;
use crate::xrun::{run_binary, run_inproc, XCase};
use crate::Ctx;

const OUTCOMES: [&str; 8] = ["e0", "e1", "e125", "e255", "k9", "nf", "cr", "k34"];

fn tags_for(c: &XCase, imp: &str) -> Vec<&'static str> {
    let mut t = vec![];
    let fatal = c.script.iter().any(|s| matches!(s.as_str(), "e255" | "nf" | "cr") || s.starts_with('k'));
    if fatal {
        t.push("fatal-in-script");
    }
    if c.script.iter().any(|s| s.starts_with('e') && s != "e0" && s != "e255") {
        t.push("failure-in-script");
    }
    for (p, tag) in [("st=0 ", "st0"), ("st=1 ", "st1"), ("st=123 ", "st123"), ("st=124 ", "st124"), ("st=125 ", "st125"), ("st=126 ", "st126"), ("st=127 ", "st127")] {
        if imp.starts_with(p) {
            t.push(tag);
        }
    }
    if imp == "panic" {
        t.push("panic");
    }
    if c.script.len() >= 2 && c.script.iter().any(|s| s != "e0") {
        t.push("nt");
    }
    t
}

fn words_input(n: usize) -> Vec<u8> {
    let mut v = vec![];
    for i in 0..n {
        v.extend_from_slice(format!("w{i}\n").as_bytes());
    }
    v
}

pub fn run_prop(ctx: &Ctx, sink: &mut Sink) {
    let mut rng = Rng::new(ctx.seed).fork(19);
    // (thorough tier only, see C04; the quick tier leaves the 128 KiB boundary to C06)
    for big in if ctx.thorough { vec![131_072usize] } else { vec![] } {
        for first in [true, false] {
            let mut input = if first { vec![] } else { b"a b\n".to_vec() };
            input.extend(std::iter::repeat(b'y').take(big));
            input.extend_from_slice(b"\nc\n");
            let c = XCase { opts: vec!["n2".to_string()], cmd: vec![b"cmd".to_vec()], input, script: vec!["e0".into(), "e1".into()], want_sys: 0 };
            let (req, imp) = run_inproc(ctx, &c);
            sink.push(Case { req, imp, tags: vec!["per-argument-limit", "nt"] });
        }
    }
    // … and with -s, an over-long argument after arguments that fit
    for (opts, input) in [(vec!["s40".to_string()], b"a b xxxxxxxxxxxxxxxxxxxxxxxxxxxxxxxxxxxxxxxxxxxxxxxxxxxxxxxxxxxx c d\n".to_vec()),
                          (vec!["s40".to_string(), "n1".to_string()], b"a xxxxxxxxxxxxxxxxxxxxxxxxxxxxxxxxxxxxxxxxxxxxxxxxxxxxxxxxxxxx c\n".to_vec())] {
        let c = XCase { opts, cmd: vec![b"cmd".to_vec()], input, script: vec![], want_sys: 0 };
        let (req, imp) = run_inproc(ctx, &c);
        sink.push(Case { req, imp, tags: vec!["too-long-later", "nt"] });
    }
    let maxlen = if ctx.thorough { 6 } else { 5 };
    // every outcome sequence up to maxlen, one argument per command
    for len in 0..=maxlen {
        let total = OUTCOMES.len().pow(len as u32);
        for idx in 0..total {
            // quick tier: all sequences up to length 4, a sample of length 5
            if !ctx.thorough && len == 5 && idx % 4 != 0 {
                continue;
            }
            if ctx.thorough && len == 6 && idx % 3 != 0 {
                continue;
            }
            let mut x = idx;
            let mut script = vec![];
            for _ in 0..len {
                script.push(OUTCOMES[x % OUTCOMES.len()].to_string());
                x /= OUTCOMES.len();
            }
            let extra = idx % 3; // more input than scripted outcomes: the rest exit 0
            let c = XCase {
                opts: vec!["n1".into()],
                cmd: vec![b"cmd".to_vec(), b"init".to_vec()],
                input: words_input(len + extra),
                script,
                want_sys: 0,
            };
            let (req, imp) = run_inproc(ctx, &c);
            let tags = tags_for(&c, &imp);
            sink.push(Case { req, imp, tags });
        }
    }
    // random longer scripts with arbitrary batching options and exit codes
    let nrand = if ctx.thorough { 60_000 } else { 3_000 };
    for _ in 0..nrand {
        let mut c = crate::props::c04::gen_case(&mut rng);
        c.want_sys = 0;
        let n = rng.range(1, 40);
        c.script = (0..n)
            .map(|_| match rng.below(12) {
                0 => "e255".to_string(),
                1 => format!("k{}", rng.range(1, 15)),
                2 => "nf".to_string(),
                3 => "cr".to_string(),
                4 | 5 => format!("e{}", rng.range(1, 125)),
                6 => format!("e{}", rng.range(126, 254)),
                _ => "e0".to_string(),
            })
            .collect();
        let (req, imp) = run_inproc(ctx, &c);
        let tags = tags_for(&c, &imp);
        sink.push(Case { req, imp, tags });
    }
    // own errors: bad option value, unterminated quote
    for (opts, input) in [
        (vec!["n0"], &b"a b\n"[..]),
        (vec!["L0"], &b"a b\n"[..]),
        (vec!["s0"], &b"a b\n"[..]),
        (vec![], &b"a 'b\n"[..]),
        (vec!["n1"], &b"a b \"c\n"[..]),
        (vec!["s8"], &b"a bbbbbbbbbbbb c\n"[..]),
        // a quote opened as the very last byte (nothing collected yet when the input ends)
        (vec![], &b"a b \""[..]),
        (vec![], &b"a b\n'"[..]),
        (vec![], &b"\""[..]),
        (vec!["n1"], &b"a '"[..]),
        (vec!["L1"], &b"a\nb \""[..]),
        (vec![], &b"a \\"[..]),
    ] {
        let c = XCase {
            opts: opts.iter().map(|s| s.to_string()).collect(),
            cmd: vec![b"cmd".to_vec()],
            input: input.to_vec(),
            script: vec!["e1".into()],
            want_sys: 0,
        };
        let (req, imp) = run_inproc(ctx, &c);
        let mut tags = tags_for(&c, &imp);
        tags.push("own-error");
        sink.push(Case { req, imp, tags });
    }
    // the real binary: exit codes and real signals through fu-recorder
    let nbin = if ctx.thorough { 3_000 } else { 150 };
    for _ in 0..nbin {
        let len = rng.range(1, 5);
        let script: Vec<String> = (0..len)
            .map(|_| match rng.below(8) {
                0 => "e255".to_string(),
                1 => format!("k{}", *rng.pick(&[9usize, 15, 6, 11])),
                2 | 3 => format!("e{}", rng.range(1, 125)),
                _ => "e0".to_string(),
            })
            .collect();
        let c = XCase {
            opts: vec!["n1".into()],
            cmd: vec![b"cmd".to_vec(), b"x".to_vec()],
            input: words_input(len + rng.below(3)),
            script,
            want_sys: 0,
        };
        let (req, imp) = run_binary(ctx, &c);
        let mut tags = tags_for(&c, &imp);
        tags.push("binary");
        sink.push(Case { req, imp, tags });
    }
    // replace mode: a command that is too long only after substitution is an error of xargs' own (status 1),
    // not a command that cannot be run (126); the lines before it have run
    for (s, input) in [(20usize, &b"a\nbbbbbbbbbbbb\nc\n"[..]), (24, &b"dddddddd\n"[..]), (40, &b"x\ny\nzzzzzzzzzzzzzzzzzzzzzzzz\n"[..])] {
        let c = XCase {
            opts: vec!["I7b7d".into(), format!("s{s}")],
            cmd: vec![b"cmd".to_vec(), b"{}{}".to_vec(), b"{}".to_vec()],
            input: input.to_vec(),
            script: vec![],
            want_sys: 0,
        };
        let (req, imp) = run_inproc(ctx, &c);
        let mut tags = tags_for(&c, &imp);
        tags.push("own-error");
        tags.push("too-long-after-substitution");
        sink.push(Case { req, imp, tags });
    }
    // a word of xargs' own command line that is not valid UTF-8 (a Latin-1 file name as an initial argument):
    // passed on unchanged or refused with the status of an error of xargs' own - never a crash
    for (opts, word) in [(vec!["-n1"], &b"caf\xe9"[..]), (vec!["-n1"], &b"\xff"[..]), (vec!["-I", "{}"], &b"x\xfe{}"[..])] {
        use std::os::unix::ffi::OsStrExt;
        let dir = ctx.scratch("c19u");
        let log = dir.join("log");
        let out = std::process::Command::new(ctx.bin("xargs"))
            .args(&opts)
            .arg(ctx.recorder())
            .arg(std::ffi::OsStr::from_bytes(word))
            .env("FU_REC_LOG", &log)
            .stdin(std::process::Stdio::piped())
            .stdout(std::process::Stdio::null())
            .stderr(std::process::Stdio::null())
            .spawn()
            .and_then(|mut ch| {
                use std::io::Write;
                // (xargs may refuse its command line and exit before it reads anything: a broken pipe here is not an error)
                let _ = ch.stdin.take().unwrap().write_all(b"a\nb\n");
                ch.wait()
            })
            .expect("run xargs");
        let st = crate::recorder::status_code(out);
        let text = std::fs::read_to_string(&log).unwrap_or_default();
        // log lines: "<cwd hex> <argv hex,…>"; the answer lists, per started command, its arguments after the command word
        let runs: Vec<String> = text.lines().filter_map(|l| l.split(' ').nth(1)).map(|argv| {
            let mut a: Vec<&str> = argv.split(',').collect();
            a[0] = "636d64";
            a.join(",")
        }).collect();
        let o: Vec<String> = opts.iter().map(|o| if *o == "-n1" { "n1".to_string() } else if *o == "-I" { "I7b7d".to_string() } else { String::new() }).filter(|x| !x.is_empty()).collect();
        let req = format!("xargs-run {} 636d64,{} {} . {}", o.join(","), crate::wire::hex(word), crate::wire::hex(b"a\nb\n"), 1usize << 40);
        let imp = format!("st={} {}", st, if runs.is_empty() { ".".to_string() } else { runs.join(";") });
        sink.push(Case { req, imp, tags: vec!["non-utf8-command-word", "binary", "nt"] });
        let _ = std::fs::remove_dir_all(&dir);
    }
    // missing / non-executable command through the binary
    // (a command that cannot be run for any other reason than "missing" - no permission, a path through a
    //  regular file, an unrecognised executable format - is "cannot be run": 126)
    for (kind, expect_tag) in [("missing", "bin-notfound"), ("noexec", "bin-cannotrun"), ("notdir", "bin-cannotrun"), ("badformat", "bin-cannotrun")] {
        let dir = ctx.scratch("c19");
        let mut path = dir.join("prog");
        if kind == "noexec" {
            std::fs::write(&path, b"not a program").unwrap();
        }
        if kind == "notdir" {
            std::fs::write(&path, b"plain file").unwrap();
            path = path.join("cmd");
        }
        if kind == "badformat" {
            use std::os::unix::fs::PermissionsExt;
            std::fs::write(&path, [0u8, 1, 2, 3, 0xff, 0xfe, 0, 0, 7, 7, 7, 7]).unwrap();
            std::fs::set_permissions(&path, std::fs::Permissions::from_mode(0o755)).unwrap();
        }
        let out = std::process::Command::new(ctx.bin("xargs"))
            .arg("-n1")
            .arg(&path)
            .stdin(std::process::Stdio::piped())
            .stdout(std::process::Stdio::null())
            .stderr(std::process::Stdio::null())
            .spawn()
            .and_then(|mut ch| {
                use std::io::Write;
                let _ = ch.stdin.take().unwrap().write_all(b"a\nb\n");
                ch.wait()
            })
            .expect("run xargs");
        let st = crate::recorder::status_code(out);
        let script = if kind == "missing" { "nf" } else { "cr" };
        use std::os::unix::ffi::OsStrExt;
        let req = format!(
            "xargs-run n1 {} {} {} {}",
            crate::wire::hex(path.as_os_str().as_bytes()),
            crate::wire::hex(b"a\nb\n"),
            script,
            1usize << 40
        );
        // the child never ran: the observation is the status plus the one command xargs tried to start
        let imp = format!("st={} {},61", st, crate::wire::hex(path.as_os_str().as_bytes()));
        sink.push(Case { req, imp, tags: vec![expect_tag, "binary", "nt"] });
        let _ = std::fs::remove_dir_all(&dir);
    }
}
