//! C05 — xargs input splitting: the two private readers over a caller-chunked
//! stream (hook `verif_hooks::read_args`), plus the `xargs` binary end to end.
use crate::case::{guarded, Case, Sink};
use crate::rng::Rng;
use crate::wire::{hex, hex_list, list};
use crate::Ctx;
use findutils::xargs::verif_hooks::read_args;

const ALPHABET: [u8; 10] = [b'a', b' ', b'\n', b'\t', b'\'', b'"', b'\\', 0xC3, 0xA9, 0xFF];

pub fn show(res: &(Vec<(Vec<u8>, bool)>, Option<String>)) -> String {
    let items: Vec<String> = res
        .0
        .iter()
        .map(|(b, h)| format!("{}:{}", hex(b), if *h { "h" } else { "s" }))
        .collect();
    format!("{} {}", if res.1.is_some() { "err" } else { "ok" }, list(&items))
}

fn run(delim: Option<u8>, chunks: &[Vec<u8>]) -> String {
    let chunks = chunks.to_vec();
    guarded(move || show(&read_args(delim, chunks)))
}

fn req(delim: Option<u8>, chunks: &[Vec<u8>]) -> String {
    match delim {
        None => format!("ws-read {}", hex_list(chunks)),
        Some(d) => format!("bd-read {} {}", d, hex_list(chunks)),
    }
}

fn tags_for(input: &[u8], chunks: &[Vec<u8>], imp: &str) -> Vec<&'static str> {
    let mut t = vec![];
    if input.iter().any(|c| *c == b'\'' || *c == b'"') {
        t.push("quote");
    }
    if input.contains(&b'\\') {
        t.push("backslash");
    }
    if input.iter().any(|c| *c >= 0x80) {
        t.push("highbyte");
    }
    if chunks.len() > 1 {
        t.push("chunked");
    }
    if imp.starts_with("err") {
        t.push("err");
    }
    if imp.contains(',') {
        t.push("multi");
    }
    if input.len() > 4000 {
        t.push("bufedge");
    }
    if t.iter().any(|x| matches!(*x, "quote" | "backslash" | "chunked" | "multi" | "err")) {
        t.push("nt");
    }
    t
}

/// cut `input` at the positions whose bit is set in `mask` (bit i = cut after byte i)
fn cut(input: &[u8], mask: u64) -> Vec<Vec<u8>> {
    let mut out = vec![];
    let mut cur = vec![];
    for (i, b) in input.iter().enumerate() {
        cur.push(*b);
        if i + 1 < input.len() && i < 63 && (mask >> i) & 1 == 1 {
            out.push(std::mem::take(&mut cur));
        }
    }
    if !cur.is_empty() {
        out.push(cur);
    }
    out
}

fn exhaustive(ctx: &Ctx, sink: &mut Sink, maxlen: usize, rng: &mut Rng) {
    let modes: [Option<u8>; 4] = [None, Some(0), Some(b'a'), Some(0xA9)];
    for len in 0..=maxlen {
        let total = ALPHABET.len().pow(len as u32);
        for idx in 0..total {
            let mut input = Vec::with_capacity(len);
            let mut x = idx;
            for _ in 0..len {
                input.push(ALPHABET[x % ALPHABET.len()]);
                x /= ALPHABET.len();
            }
            for (mi, delim) in modes.iter().enumerate() {
                // byte-delimited modes: only a sample beyond length 4 (std's read_until)
                if mi > 0 && len > 4 && idx % 7 != mi {
                    continue;
                }
                let whole = if input.is_empty() { vec![] } else { vec![input.clone()] };
                let base = run(*delim, &whole);
                sink.bump("impl_runs", 1);
                // every chunking of the same bytes must give the same answer
                let n_cuts = len.saturating_sub(1);
                let mut emitted_alt = false;
                for mask in 1..(1u64 << n_cuts) {
                    let chunks = cut(&input, mask);
                    let r = run(*delim, &chunks);
                    sink.bump("impl_runs", 1);
                    sink.bump("chunkings_compared", 1);
                    if r != base {
                        sink.bump("impl_chunk_dependence", 1);
                        let tags = tags_for(&input, &chunks, &r);
                        sink.push(Case { req: req(*delim, &chunks), imp: r, tags });
                        emitted_alt = true;
                    }
                }
                let tags = tags_for(&input, &whole, &base);
                sink.push(Case { req: req(*delim, &whole), imp: base, tags });
                // a sample of chunkings also goes to the buffered model
                if !emitted_alt && n_cuts > 0 && rng.chance(1, 6) {
                    let mask = 1 + rng.below((1usize << n_cuts) - 1) as u64;
                    let chunks = cut(&input, mask);
                    let r = run(*delim, &chunks);
                    let tags = tags_for(&input, &chunks, &r);
                    sink.push(Case { req: req(*delim, &chunks), imp: r, tags });
                }
            }
        }
    }
    let _ = ctx;
}

fn random_input(rng: &mut Rng, len: usize) -> Vec<u8> {
    let words: [&[u8]; 20] = [
        b"a", b"bc", b" ", b"  ", b"\n", b"\t", b"'", b"\"", b"\\", "é".as_bytes(), "日本".as_bytes(),
        b"\xff", b"x y", b"\r", "à".as_bytes(), "Å".as_bytes(), b"\x0b", b"\x0c", b"\x85", b"\xa0",
    ];
    let mut v = vec![];
    while v.len() < len {
        if rng.chance(1, 10) {
            // a well-formed quoted word
            let q = if rng.chance(1, 2) { b'\'' } else { b'"' };
            v.push(q);
            for _ in 0..rng.below(6) {
                let c = *rng.pick(&[b'a', b' ', b'\n', b'\\', b'z', 0xC3]);
                v.push(c);
            }
            v.push(q);
        } else {
            let w: &[u8] = words[rng.below(words.len())];
            v.extend_from_slice(w);
        }
    }
    v
}

fn random_chunks(rng: &mut Rng, input: &[u8]) -> Vec<Vec<u8>> {
    let mut out = vec![];
    let mut i = 0;
    let style = rng.below(4);
    while i < input.len() {
        let n = match style {
            0 => 1,
            1 => rng.range(1, 3),
            2 => rng.range(1, 40),
            _ => rng.range(1, 5000),
        };
        let j = (i + n).min(input.len());
        out.push(input[i..j].to_vec());
        i = j;
    }
    out
}

fn random(sink: &mut Sink, n: usize, rng: &mut Rng) {
    for k in 0..n {
        let len = match k % 50 {
            0 | 1 => rng.range(4090, 4100),
            2 => rng.range(8186, 8200),
            _ => rng.range(0, 300),
        };
        let input = random_input(rng, len);
        let delim = match rng.below(5) {
            0 => Some(0u8),
            1 => Some(b'\n'),
            2 => Some(b'a'),
            _ => None,
        };
        let whole = if input.is_empty() { vec![] } else { vec![input.clone()] };
        let base = run(delim, &whole);
        let chunks = random_chunks(rng, &input);
        let r = run(delim, &chunks);
        sink.bump("impl_runs", 2);
        if r != base {
            sink.bump("impl_chunk_dependence", 1);
        }
        let tags = tags_for(&input, &chunks, &r);
        sink.push(Case { req: req(delim, &chunks), imp: r, tags });
        if k % 4 == 0 {
            let tags = tags_for(&input, &whole, &base);
            sink.push(Case { req: req(delim, &whole), imp: base, tags });
        }
    }
}

/// The same bytes through the real `xargs` binary and a recorder child.
fn end_to_end(ctx: &Ctx, sink: &mut Sink, n: usize, rng: &mut Rng) {
    for k in 0..n {
        let len = rng.range(0, 60);
        let input = random_input(rng, len);
        // -0 and -d together: the one given last decides the delimiter
        let (flag, delim): (Vec<&str>, Option<u8>) = match k % 6 {
            0 => (vec!["-0"], Some(0)),
            1 => (vec!["-d", "a"], Some(b'a')),
            2 => (vec!["-0", "-d", "a"], Some(b'a')),
            3 => (vec!["-d", "a", "-0"], Some(0)),
            4 => (vec!["-0", "-d", "\\n"], Some(b'\n')),
            _ => (vec![], None),
        };
        let r = crate::recorder::run_xargs(ctx, &flag, &[], &input, &[]);
        let all: Vec<Vec<u8>> = r.invocations.iter().flat_map(|inv| inv.argv[1..].to_vec()).collect();
        let imp = if r.status == 0 {
            format!("ok {}", hex_list(&all))
        } else if r.status == 1 {
            { let _ = &all; "err".to_string() }
        } else {
            format!("status{} {}", r.status, hex_list(&all))
        };
        let whole = if input.is_empty() { vec![] } else { vec![input.clone()] };
        let reqline = match delim {
            None => format!("ws-args {}", hex_list(&whole)),
            Some(d) => format!("bd-args {} {}", d, hex_list(&whole)),
        };
        let mut tags = tags_for(&input, &whole, &imp);
        tags.push("binary");
        sink.bump("binary_runs", 1);
        sink.push(Case { req: reqline, imp, tags });
    }
}

/// every spelling of the `-d` operand through the real binary: the byte it names is the one the
/// input is split at, and no other
fn delimiter_spellings(ctx: &Ctx, sink: &mut Sink) {
    let input: Vec<u8> = b"p\x07q\x08r\x09s\x0bt\x0cu\rv\\wAx,y\nz wk".to_vec();
    let table: [(&str, u8); 13] = [("\\n", b'\n'), ("\\t", b'\t'), ("\\r", b'\r'), ("\\a", 7), ("\\b", 8), ("\\f", 12), ("\\v", 11),
        ("\\\\", b'\\'), ("\\x41", 0x41), ("\\0101", 0x41), (",", b','), ("\\x0c", 12), ("\\013", 11)];
    for (sp, d) in table {
        let r = crate::recorder::run_xargs(ctx, &["-d", sp], &[], &input, &[]);
        let all: Vec<Vec<u8>> = r.invocations.iter().flat_map(|inv| inv.argv[1..].to_vec()).collect();
        let imp = if r.status == 0 { format!("ok {}", hex_list(&all)) } else if r.status == 1 { "err".to_string() } else { format!("status{} {}", r.status, hex_list(&all)) };
        let whole = vec![input.clone()];
        let mut tags = tags_for(&input, &whole, &imp);
        tags.push("binary");
        tags.push("delimiter-spelling");
        sink.push(Case { req: format!("bd-args {} {}", d, hex_list(&whole)), imp, tags });
    }
    // the spellings of NUL (on an input that contains NULs, which only a NUL delimiter can carry)
    let input: Vec<u8> = b"p q\nr\0s\0\0t".to_vec();
    for sp in ["\\0", "\\00", "\\000", "\\x00"] {
        let r = crate::recorder::run_xargs(ctx, &["-d", sp], &[], &input, &[]);
        // the code refuses the bare spelling \0 (its own suite pins that); a refusal that runs nothing splits nothing wrongly
        if sp == "\\0" && r.status == 1 && r.invocations.is_empty() { continue; }
        let all: Vec<Vec<u8>> = r.invocations.iter().flat_map(|inv| inv.argv[1..].to_vec()).collect();
        let imp = if r.status == 0 { format!("ok {}", hex_list(&all)) } else if r.status == 1 { "err".to_string() } else { format!("status{} {}", r.status, hex_list(&all)) };
        let whole = vec![input.clone()];
        let mut tags = tags_for(&input, &whole, &imp);
        tags.push("binary");
        tags.push("delimiter-spelling");
        sink.push(Case { req: format!("bd-args 0 {}", hex_list(&whole)), imp, tags });
    }
}

/// no command: the built-in default (echo) writes the arguments themselves, bytes that are not UTF-8 included
fn default_echo(ctx: &Ctx, sink: &mut Sink) {
    for input in [b"a\xffb\0caf\xe9\0plain\0".to_vec(), b"\xfe\0".to_vec(), b"x\0y\0".to_vec()] {
        let out = std::process::Command::new(ctx.bin("xargs")).arg("-0")
            .stdin(std::process::Stdio::piped()).stdout(std::process::Stdio::piped()).stderr(std::process::Stdio::null())
            .spawn().and_then(|mut ch| { use std::io::Write; let _ = ch.stdin.take().unwrap().write_all(&input); ch.wait_with_output() }).expect("run xargs");
        let mut text = out.stdout.clone();
        if text.last() == Some(&b'\n') { text.pop(); }
        let all: Vec<Vec<u8>> = text.split(|b| *b == b' ').map(|x| x.to_vec()).collect();
        let st = crate::recorder::status_code(out.status);
        let imp = if st == 0 { format!("ok {}", hex_list(&all)) } else { format!("status{} {}", st, hex_list(&all)) };
        let whole = vec![input.clone()];
        let mut tags = tags_for(&input, &whole, &imp);
        tags.push("binary");
        tags.push("default-echo");
        sink.push(Case { req: format!("bd-args 0 {}", hex_list(&whole)), imp, tags });
    }
}

pub fn run_prop(ctx: &Ctx, sink: &mut Sink) {
    let mut rng = Rng::new(ctx.seed).fork(5);
    delimiter_spellings(ctx, sink);
    default_echo(ctx, sink);
    let (maxlen, nrand, nbin) = if ctx.thorough { (6, 60_000, 1500) } else { (5, 4_000, 150) };
    // corpus-like fixed cases first
    for (delim, chunks) in [
        (None, vec![b"abc \n".to_vec()]),
        (None, vec![b"abc  ".to_vec()]),
        (None, vec![b"''".to_vec()]),
        (Some(0u8), vec![b"a\xffb\0".to_vec()]),
        (None, vec![b"a\xffb\n".to_vec()]),
        (None, vec![b"'a".to_vec(), b" b".to_vec()]),
    ] {
        let flat: Vec<u8> = chunks.concat();
        let r = run(delim, &chunks);
        let mut tags = tags_for(&flat, &chunks, &r);
        tags.push("corpus");
        sink.push(Case { req: req(delim, &chunks), imp: r, tags });
    }
    // every byte value in every role: between words, alone, quoted, escaped, as the delimiter
    for b in 0..=255u8 {
        let shapes: Vec<Vec<u8>> = vec![
            vec![b], vec![b'a', b, b'c'], vec![b, b'a'], vec![b'a', b], vec![b'\'', b, b'\''], vec![b'"', b'x', b, b'"'],
            vec![b'\\', b], vec![b'a', b, b, b'c', b'\n'], vec![0xC3, b, b' ', b'z'],
        ];
        for sh in shapes {
            for delim in [None, Some(0u8), Some(b)] {
                let chunks = vec![sh.clone()];
                let r = run(delim, &chunks);
                let mut tags = tags_for(&sh, &chunks, &r);
                tags.push("byte-sweep");
                sink.push(Case { req: req(delim, &chunks), imp: r, tags });
            }
        }
    }
    exhaustive(ctx, sink, maxlen, &mut rng);
    random(sink, nrand, &mut rng);
    end_to_end(ctx, sink, nbin, &mut rng);
}
