//! C16 — -printf: the format parser (hook) and whole runs rendered against the model / reference.
use crate::case::{guarded, Case, Sink};
use crate::rng::Rng;
use crate::wire::hex;
use crate::world::observe_root;
use crate::Ctx;
use findutils::find::matchers::verif_hooks as fh;
use std::os::unix::fs::PermissionsExt;

fn imp_parse(f: &str) -> String {
    let f = f.to_string();
    guarded(move || match fh::printf_parse(&f) {
        Ok(cs) => {
            let v: Vec<String> = cs.iter().map(|c| if let Some(t) = c.strip_prefix('L') { format!("L{}", hex(t.as_bytes())) } else { c.clone() }).collect();
            format!("ok {}", if v.is_empty() { ".".to_string() } else { v.join(";") })
        }
        Err(_) => "reject".into(),
    })
}

fn strings_upto(alpha: &[&str], maxlen: usize) -> Vec<String> {
    let mut out = vec![String::new()];
    let mut cur = vec![String::new()];
    for _ in 0..maxlen {
        let mut next = vec![];
        for s in &cur { for a in alpha { next.push(format!("{s}{a}")); } }
        out.extend(next.iter().cloned());
        cur = next;
    }
    out
}

const DIRS: [char; 15] = ['p', 'P', 'f', 'h', 'H', 'd', 's', 'n', 'i', 'U', 'G', 'm', 'y', 'Y', 'l'];

pub fn gen_format(rng: &mut Rng, with_l: bool) -> String {
    let mut f = String::new();
    for _ in 0..rng.range(1, 6) {
        match rng.below(10) {
            0 | 1 => { let t: &str = *rng.pick(&["a", "x y", "é", "日", ":", "-", "{}", "'q'", "5", " "]); f.push_str(t); }
            2 => { let t: &str = *rng.pick(&["\\n", "\\t", "\\\\", "\\a", "\\b", "\\f", "\\r", "\\v", "\\0", "\\101", "\\012", "\\060"]); f.push_str(t); }
            3 => f.push_str("%%"),
            _ => {
                f.push('%');
                if rng.chance(1, 3) { f.push('-'); }
                if rng.chance(1, 2) {
                    // now and then a very wide field (the padding is text like any other)
                    let w = if rng.chance(1, 30) { *rng.pick(&[255usize, 256, 4096, 65535, 65536, 70000]) } else { rng.range(0, 12) };
                    f.push_str(&w.to_string());
                }
                let mut d = *rng.pick(&DIRS);
                if d == 'l' && !with_l { d = 'p'; }
                f.push(d);
            }
        }
        if rng.chance(1, 3) { f.push('|'); }
    }
    f.push_str("\\n");
    f
}

pub fn run_prop(ctx: &Ctx, sink: &mut Sink) {
    let mut rng = Rng::new(ctx.seed).fork(16);
    // ---- parser
    let fmts = strings_upto(&["a", "%", "\\", "-", "5", "d", "p", "0", "1", "7", "é", " ", "n"], if ctx.thorough { 5 } else { 4 });
    for f in &fmts {
        let mut tags = vec!["parse", "exhaustive"];
        if f.contains('%') || f.contains('\\') { tags.push("nt"); }
        sink.push(Case { req: format!("printf-parse {}", hex(f.as_bytes())), imp: imp_parse(f), tags });
    }
    for f in ["%99999999999999999999d", "%18446744073709551615d", "%18446744073709551616d", "%é", "\\é", "\\12é", "\\1é", "%-5p", "%5%", "%", "\\", "%A@", "%Az", "%Aé", "%A", "%T+", "% -  -12f", "%-", "%12", "\\c", "\\777", "\\400", "\\8", "%z", "%Z", "abc", "", "%p%P%f%h%H%d%s%n%i%U%G%m%y%Y%l", "%%%a%A@%Ak%b%c%C@%CH%d%DTEST%f%F%g%G%h%H", "\\0012"] {
        sink.push(Case { req: format!("printf-parse {}", hex(f.as_bytes())), imp: imp_parse(f), tags: vec!["parse", "shape", "nt"] });
    }
    for _ in 0..(if ctx.thorough { 100_000 } else { 4000 }) {
        let mut f = gen_format(&mut rng, true);
        if rng.chance(1, 4) {
            // damage it
            let mut cs: Vec<char> = f.chars().collect();
            let i = rng.below(cs.len());
            match rng.below(3) { 0 => { cs.remove(i); } 1 => cs.insert(i, *rng.pick(&['%', '\\', 'é', '9', '-'])), _ => cs.truncate(i) }
            f = cs.into_iter().collect();
        }
        sink.push(Case { req: format!("printf-parse {}", hex(f.as_bytes())), imp: imp_parse(&f), tags: vec!["parse", "random", "nt"] });
    }
    // ---- whole runs
    let rounds = if ctx.thorough { 300 } else { 25 };
    for _r in 0..rounds {
        let dir = ctx.scratch("c16").join("pad").join("w");
        std::fs::create_dir_all(&dir).unwrap();
        let t = dir.join("t");
        std::fs::create_dir(&t).unwrap();
        for (i, nm) in ["f0", "a b", "é", "x.y"].iter().enumerate() {
            let f = t.join(nm);
            std::fs::write(&f, vec![b'x'; i * 37]).unwrap();
            std::fs::set_permissions(&f, std::fs::Permissions::from_mode(0o100 + rng.below(0o7700) as u32)).unwrap();
            let c = std::ffi::CString::new(f.to_str().unwrap()).unwrap();
            let (u, g) = *rng.pick(&[(0u32, 0u32), (1000, 100), (65534, 7), (4242, 4243)]);
            unsafe { libc::lchown(c.as_ptr(), u, g) };
        }
        std::fs::hard_link(t.join("f0"), t.join("h0")).unwrap();
        std::fs::create_dir_all(t.join("d1/sub")).unwrap();
        std::fs::write(t.join("d1/sub/deep"), b"z").unwrap();
        let c = std::ffi::CString::new(t.join("p0").to_str().unwrap()).unwrap();
        unsafe { libc::mkfifo(c.as_ptr(), 0o640) };
        // a character and a block device (only root may create them; without them the scene is merely smaller)
        for (nm, kind, dev) in [("c0", libc::S_IFCHR, libc::makedev(1, 3)), ("b0", libc::S_IFBLK, libc::makedev(7, 0))] {
            let c = std::ffi::CString::new(t.join(nm).to_str().unwrap()).unwrap();
            unsafe { libc::mknod(c.as_ptr(), kind | 0o640, dev) };
        }
        for (l, target) in [("lc", "c0"), ("lb", "b0")] { let _ = std::os::unix::fs::symlink(target, t.join(l)); }
        for (l, target) in [("lf", "f0"), ("ld", "d1"), ("ldang", "no where"), ("lself", "lself")] {
            std::os::unix::fs::symlink(target, t.join(l)).unwrap();
        }
        std::os::unix::fs::symlink("t", dir.join("lt")).unwrap();
        let abs = t.to_str().unwrap().to_string();
        let root_cands: Vec<String> = vec!["t".into(), "t/".into(), "./t".into(), "t//".into(), ".".into(), "./".into(), "t/d1".into(), "t/d1/".into(), "lt".into(), "lt/".into(), abs.clone(), format!("{abs}/"), "t/f0".into(), "t/./d1".into(), "t/d1/..".into()];
        // the last component of a starting point spelled with `..`: the same under every follow mode
        for (c, flag, f) in [("t/d1/..", "P", "[%f]\\n"), ("t/d1/..", "L", "[%f]\\n"), ("t/d1/sub/..", "P", "%f|%d\\n"), ("t/d1/sub/..", "H", "%f|%d\\n"), ("..", "P", "<%f>\\n")] {
            let toks = vec!["maxdepth:1".to_string(), "sorted".to_string(), format!("printf:{}", hex(f.as_bytes()))];
            let roots = vec![(c.as_bytes().to_vec(), observe_root(c.as_bytes(), &dir.join(c)))];
            let mut args: Vec<String> = vec![];
            if flag != "P" { args.push(format!("-{flag}")); }
            args.extend([c.to_string(), "-maxdepth".into(), "1".into(), "-sorted".into(), "-printf".into(), f.to_string()]);
            let o = crate::frun::find_inproc(&ctx.tmp.join("stderr-find"), &args, std::time::SystemTime::now(), Some(&dir));
            let req = format!("find {flag} {} {}", roots[0].1, toks.join(","));
            sink.push(Case { req, imp: super::frun_common::show(&o), tags: vec!["render", "dotdot-start", "nt"] });
        }
        for _c in 0..(if ctx.thorough { 40 } else { 24 }) {
            let flag = *rng.pick(&["P", "P", "H", "L"]);
            let f = gen_format(&mut rng, flag == "P");
            let toks = vec!["sorted".to_string(), format!("printf:{}", hex(f.as_bytes()))];
            let c = rng.pick(&root_cands).clone();
            let roots = vec![(c.as_bytes().to_vec(), observe_root(c.as_bytes(), &if c.starts_with('/') { std::path::PathBuf::from(&c) } else { dir.join(&c) }))];
            let mut args: Vec<String> = vec![];
            if flag != "P" { args.push(format!("-{flag}")); }
            args.push(c.clone());
            args.push("-sorted".into());
            args.push("-printf".into());
            args.push(f.clone());
            let o = crate::frun::find_inproc(&ctx.tmp.join("stderr-find"), &args, std::time::SystemTime::now(), Some(&dir));
            let req = format!("find {flag} {} {}", roots[0].1, toks.join(","));
            let mut tags = vec!["render", "nt"];
            if c.ends_with('/') || c.contains("./") || c == "." { tags.push("spelled-start"); }
            if f.contains("%H") || f.contains("H") { tags.push("H"); }
            sink.push(Case { req, imp: super::frun_common::show(&o), tags });
        }
        let _ = std::fs::remove_dir_all(&dir);
    }
}
