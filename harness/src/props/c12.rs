//! C12 — globs: translation and matching (hooks) and -name/-path/-lname end to end.
use crate::case::{guarded, Case, Sink};
use crate::frun::find_inproc;
use crate::rng::Rng;
use crate::wire::hex;
use crate::Ctx;
use findutils::find::matchers::verif_hooks as fh;

fn imp_rx(p: &str) -> String {
    let p = p.to_string();
    guarded(move || match fh::glob_regex(&p) {
        Some(r) => format!("ok {}", hex(r.as_bytes())),
        None => "never".into(),
    })
}

fn imp_match(ic: bool, p: &str, s: &str) -> String {
    let (p, s) = (p.to_string(), s.to_string());
    guarded(move || if fh::glob_matches(&p, ic, &s) { "1".into() } else { "0".into() })
}

fn strings_upto(alpha: &[&str], maxlen: usize) -> Vec<String> {
    let mut out = vec![String::new()];
    let mut cur = vec![String::new()];
    for _ in 0..maxlen {
        let mut next = vec![];
        for s in &cur {
            for a in alpha {
                next.push(format!("{s}{a}"));
            }
        }
        out.extend(next.iter().cloned());
        cur = next;
    }
    out
}

const CLASSES: [&str; 12] = ["alpha", "digit", "alnum", "upper", "lower", "space", "blank", "punct", "print", "graph", "cntrl", "xdigit"];
const LITS: [char; 24] = ['a', 'b', 'B', 'z', '0', '.', '*', '?', '[', ']', '!', '-', '^', '$', '\\', '/', ' ', '\n', '+', '{', '(', '|', 'é', '_'];

/// a random pattern from the grammar of the property together with a subject it should match
pub fn gen_pattern(rng: &mut Rng) -> (String, String) {
    let mut pat = String::new();
    let mut subj = String::new();
    let n = rng.range(1, 7);
    for _ in 0..n {
        match rng.below(10) {
            0 | 1 => {
                pat.push('*');
                for _ in 0..rng.below(3) { subj.push(*rng.pick(&LITS)); }
            }
            2 => { pat.push('?'); subj.push(*rng.pick(&LITS)); }
            3 | 4 => {
                // bracket expression
                let neg = rng.chance(1, 4);
                let mut body = String::new();
                let mut members: Vec<char> = vec![];
                if rng.chance(1, 8) { body.push(']'); members.push(']'); }
                for _ in 0..rng.range(1, 3) {
                    match rng.below(6) {
                        0 => {
                            let (lo, hi) = *rng.pick(&[('a', 'c'), ('a', 'z'), ('A', 'Z'), ('0', '9'), ('b', 'b'), ('!', '/')]);
                            body.push(lo); body.push('-'); body.push(hi);
                            members.push(lo); members.push(hi);
                        }
                        1 => {
                            let c = *rng.pick(&CLASSES);
                            body.push_str(&format!("[:{c}:]"));
                            members.push(match c { "digit" | "xdigit" | "alnum" => '5', "upper" => 'Q', "space" | "blank" => ' ', "punct" => '%', "cntrl" => '\x01', _ => 'q' });
                        }
                        _ => {
                            let c = *rng.pick(&['a', 'b', 'z', '.', '*', '?', '!', '$', '/', '\\', '{', '_', '0', '^']);
                            if (c == '^' || c == '!') && body.is_empty() { continue; }
                            body.push(c);
                            members.push(c);
                        }
                    }
                }
                if rng.chance(1, 6) { body.push('-'); members.push('-'); }
                if body.is_empty() { body.push('a'); members.push('a'); }
                pat.push('[');
                if neg { pat.push('!'); }
                pat.push_str(&body);
                pat.push(']');
                subj.push(if neg { 'Z' } else { *rng.pick(&members) });
            }
            5 => {
                // escaped literal
                let c = *rng.pick(&LITS);
                pat.push('\\');
                pat.push(c);
                subj.push(c);
            }
            6 => {
                // stray bracket material
                let c = *rng.pick(&['[', ']', '!']);
                pat.push(c);
                subj.push(c);
            }
            _ => {
                let c = *rng.pick(&LITS);
                if matches!(c, '*' | '?' | '[' | '\\') { pat.push('\\'); }
                pat.push(c);
                subj.push(c);
            }
        }
    }
    (pat, subj)
}

fn mutate(rng: &mut Rng, s: &str) -> String {
    let mut cs: Vec<char> = s.chars().collect();
    match rng.below(4) {
        0 if !cs.is_empty() => { let i = rng.below(cs.len()); cs.remove(i); }
        1 => { let i = rng.below(cs.len() + 1); cs.insert(i, *rng.pick(&LITS)); }
        2 if !cs.is_empty() => { let i = rng.below(cs.len()); cs[i] = *rng.pick(&LITS); }
        _ => { cs.push(*rng.pick(&LITS)); }
    }
    cs.into_iter().collect()
}

pub fn run_prop(ctx: &Ctx, sink: &mut Sink) {
    let mut rng = Rng::new(ctx.seed).fork(12);
    // ---- exhaustive over a small alphabet
    let pats = strings_upto(&["a", "*", "?", "[", "]", "!", "\\", "-"], if ctx.thorough { 4 } else { 3 });
    let subjects = strings_upto(&["a", "]", "\\", "!", "-"], if ctx.thorough { 4 } else { 3 });
    for p in &pats {
        sink.push(Case { req: format!("glob-rx {}", hex(p.as_bytes())), imp: imp_rx(p), tags: vec!["rx", "exhaustive"] });
        for s in &subjects {
            let imp = imp_match(false, p, s);
            let mut tags = vec!["match", "exhaustive"];
            if imp == "1" { tags.push("matched"); }
            if p.len() >= 2 { tags.push("nt"); }
            sink.push(Case { req: format!("glob-match 0 {} {}", hex(p.as_bytes()), hex(s.as_bytes())), imp, tags });
        }
    }
    // ---- random patterns from the grammar, subjects built to match and perturbed
    let n = if ctx.thorough { 400_000 } else { 15_000 };
    for i in 0..n {
        let (p, s) = gen_pattern(&mut rng);
        // character classes are modelled (and specified here) for ASCII only
        let (p, s) = if p.contains("[:") { (p.replace('é', "e"), s.replace('é', "e")) } else { (p, s) };
        let ic = i % 5 == 0;
        if i % 10 == 0 {
            sink.push(Case { req: format!("glob-rx {}", hex(p.as_bytes())), imp: imp_rx(&p), tags: vec!["rx", "random", "nt"] });
        }
        for k in 0..3 {
            let subj = if k == 0 { s.clone() } else { mutate(&mut rng, &s) };
            let subj = if p.contains("[:") { subj.replace('é', "e") } else { subj };
            // classes and case folding are modelled for ASCII subjects
            let subj = if ic { subj.replace('é', "e") } else { subj };
            let imp = imp_match(ic, &p, &subj);
            let mut tags = vec!["match", "random", "nt"];
            if imp == "1" { tags.push("matched"); }
            if ic { tags.push("icase"); }
            if p.contains('[') { tags.push("bracket"); }
            sink.push(Case { req: format!("glob-match {} {} {}", ic as u8, hex(p.as_bytes()), hex(subj.as_bytes())), imp, tags });
        }
    }
    // ---- known shapes
    for (p, s) in [("[[:al]", "a"), ("[[.]", "a"), ("[[:alpha:]é", "a"), ("[\\a]", "\\"), ("[\\]]", "]"), ("[\\]]", "\\]"), ("[[]*]", "[x]"), ("*", ""), ("", ""), ("\\", ""), ("a\\", "a"), ("[!]", "!"), ("[]", "]"), ("[a-", "[a-"), ("*.c", ".c"), ("*", ".hidden"), ("?", "/"), ("a*b", "a/\n/b")] {
        sink.push(Case { req: format!("glob-rx {}", hex(p.as_bytes())), imp: imp_rx(p), tags: vec!["rx", "shape", "nt"] });
        sink.push(Case { req: format!("glob-match 0 {} {}", hex(p.as_bytes()), hex(s.as_bytes())), imp: imp_match(false, p, s), tags: vec!["match", "shape", "nt"] });
    }
    let errf = ctx.tmp.join("stderr12");
    // ---- end to end: names that are not valid UTF-8 (the subject is the name decoded lossily; the
    // patterns are chosen so that the byte-wise fnmatch answer is the same)
    {
        use std::os::unix::ffi::OsStrExt;
        let dir = ctx.scratch("globb");
        let d = dir.join("d");
        std::fs::create_dir(&d).unwrap();
        let names: Vec<&[u8]> = vec![b"caf\xe9.txt", b"\xff\xfe.txt", b"plain.txt", b"other.dat", b"\xe9"];
        for n in &names { std::fs::write(d.join(std::ffi::OsStr::from_bytes(n)), b"").unwrap(); }
        for (prim, kind, ic, pat) in [("-name", "n", false, "*.txt"), ("-name", "n", false, "caf?.txt"), ("-name", "n", false, "?*"), ("-iname", "n", true, "*.TXT"),
                                      ("-name", "n", false, "*"), ("-name", "n", false, "?"), ("-name", "n", false, "[!a-z]*"), ("-path", "p", false, "d/*.txt"), ("-path", "p", false, "d/???.txt"),
                                      // every spelling of the path tests, with and without case folding
                                      ("-wholename", "p", false, "d/*.txt"), ("-iwholename", "p", true, "D/*.TXT"), ("-ipath", "p", true, "D/PLAIN.*"), ("-iwholename", "p", true, "d/OTHER.d?t"), ("-ilname", "l", true, "NOTHING")] {
            let args: Vec<String> = vec!["d".into(), "-mindepth".into(), "1".into(), prim.into(), pat.into(), "-print0".into()];
            let o = find_inproc(&errf, &args, std::time::SystemTime::now(), Some(&dir));
            let printed: Vec<Vec<u8>> = o.out.split(|b| *b == 0).filter(|x| !x.is_empty()).map(|x| x.to_vec()).collect();
            // -print0 writes the path decoded lossily, too
            let bits: String = names.iter().map(|n| {
                let path = format!("d/{}", String::from_utf8_lossy(n));
                if printed.iter().any(|p| p == path.as_bytes()) { '1' } else { '0' }
            }).collect();
            let imp = match o.code { Some(0) => bits, Some(c) => format!("status-{c}"), None => "panic".into() };
            let sw: Vec<String> = names.iter().map(|n| { let t = String::from_utf8_lossy(n).to_string(); hex(if kind == "p" { format!("d/{t}") } else { t }.as_bytes()) }).collect();
            sink.push(Case { req: format!("glob-e2e {kind} {} {} {}", ic as u8, hex(pat.as_bytes()), sw.join(",")), imp, tags: vec!["e2e", "non-utf8-name", "nt"] });
        }
        let _ = std::fs::remove_dir_all(&dir);
    }
    // ---- end to end: -name / -iname / -path / -lname over real entries
    let rounds = if ctx.thorough { 400 } else { 40 };
    for r in 0..rounds {
        let dir = ctx.scratch("glob");
        let d = dir.join("d");
        std::fs::create_dir(&d).unwrap();
        let (p, s0) = gen_pattern(&mut rng);
        let (p, s0) = if p.contains("[:") { (p.replace('é', "e"), s0.replace('é', "e")) } else { (p, s0) };
        let mut subjects: Vec<String> = vec![s0.clone()];
        for _ in 0..6 { let m = mutate(&mut rng, &s0); subjects.push(if p.contains("[:") { m.replace('é', "e") } else { m }); }
        subjects.sort();
        subjects.dedup();
        let kind = ["n", "p", "l"][r % 3];
        let ic = r % 4 == 0;
        // usable as file names / link targets?
        let usable: Vec<String> = subjects.into_iter().filter(|s| !s.is_empty() && !s.contains('\0') && s.len() < 200 && (kind == "l" || (!s.contains('/') && s != "." && s != ".."))).collect();
        let usable: Vec<String> = if ic { usable.into_iter().map(|s| s.replace('é', "e")).collect() } else { usable };
        if usable.is_empty() { let _ = std::fs::remove_dir_all(&dir); continue; }
        let mut subj_wire: Vec<String> = vec![];
        for (i, s) in usable.iter().enumerate() {
            match kind {
                "l" => { std::os::unix::fs::symlink(s, d.join(format!("k{i:02}"))).unwrap(); subj_wire.push(s.clone()); }
                "p" => { let _ = std::fs::write(d.join(s), b""); subj_wire.push(format!("d/{s}")); }
                _ => { let _ = std::fs::write(d.join(s), b""); subj_wire.push(s.clone()); }
            }
        }
        // the pattern for -path must cover the directory part; a -name pattern ending in a slash matches no name
        let pat = if kind == "p" { format!("d/{p}") } else if kind == "n" && r % 5 == 1 { format!("{p}/") } else { p.clone() };
        let prim = match (kind, ic) { ("n", false) => "-name", ("n", true) => "-iname", ("p", false) => if rng.chance(1, 2) { "-path" } else { "-wholename" }, ("p", true) => if rng.chance(1, 2) { "-ipath" } else { "-iwholename" }, ("l", false) => "-lname", _ => "-ilname" };
        let args: Vec<String> = vec!["d".into(), "-mindepth".into(), "1".into(), prim.into(), pat.clone(), "-print0".into()];
        let o = find_inproc(&errf, &args, std::time::SystemTime::now(), Some(&dir));
        let printed: Vec<Vec<u8>> = o.out.split(|b| *b == 0).filter(|x| !x.is_empty()).map(|x| x.to_vec()).collect();
        let bits: String = usable.iter().enumerate().map(|(i, s)| {
            let path = if kind == "l" { format!("d/k{i:02}") } else { format!("d/{s}") };
            if printed.iter().any(|p| p == path.as_bytes()) { '1' } else { '0' }
        }).collect();
        let imp = match o.code { Some(0) => bits, Some(c) => format!("status-{c}"), None => "panic".into() };
        let sw: Vec<String> = subj_wire.iter().map(|s| hex(s.as_bytes())).collect();
        sink.push(Case { req: format!("glob-e2e {kind} {} {} {}", ic as u8, hex(pat.as_bytes()), sw.join(",")), imp, tags: vec!["e2e", "nt"] });
        let _ = std::fs::remove_dir_all(&dir);
    }
}
