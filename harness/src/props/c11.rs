//! C11 — malformed command lines are rejected before any action; never a panic.
//! Word soups over find's vocabulary (valid sentences, damaged sentences, random words) are run
//! through `parse_args` alone (hook) and through the whole `find_main` on a small tree whose
//! state is compared before and after; the real binary gets the argument vectors that cannot be
//! expressed as `&str`.
use crate::case::{guarded, Case, Sink};
use crate::frun::find_inproc;
use crate::rng::Rng;
use crate::wire::hex;
use crate::Ctx;
use findutils::find::matchers::verif_hooks as fh;
use std::collections::BTreeMap;
use std::os::unix::ffi::OsStrExt;
use std::path::{Path, PathBuf};

fn snapshot(dir: &Path) -> BTreeMap<Vec<u8>, String> {
    fn rec(base: &Path, rel: &Path, out: &mut BTreeMap<Vec<u8>, String>) {
        let p = base.join(rel);
        let Ok(rd) = std::fs::read_dir(&p) else { return };
        for e in rd.flatten() {
            let r = rel.join(e.file_name());
            let full = base.join(&r);
            let Ok(m) = std::fs::symlink_metadata(&full) else { continue };
            let desc = if m.file_type().is_symlink() {
                format!("l:{}", hex(std::fs::read_link(&full).unwrap().as_os_str().as_bytes()))
            } else if m.is_dir() {
                "d".to_string()
            } else if m.is_file() {
                format!("f:{}", m.len())
            } else {
                "o".to_string()
            };
            out.insert(r.as_os_str().as_bytes().to_vec(), desc);
            if m.is_dir() {
                rec(base, &r, out);
            }
        }
    }
    let mut out = BTreeMap::new();
    rec(dir, Path::new(""), &mut out);
    out
}

/// what must not change when a command line is rejected: the tree `t`, the reference file and the
/// trace file an executed command would leave (non-empty: an output file that -fprint merely
/// creates while the expression is parsed is not an action)
fn watched(cwd: &Path) -> String { watched_but(cwd, &[]) }

/// … leaving out the files the command line names as output files of -fprint/-fprint0/-fprintf/-fls: they
/// are opened (created or truncated) while the expression is parsed, as GNU find does, which is not an
/// action on the tree even when a damaged command line happens to name an existing file
fn watched_but(cwd: &Path, args: &[String]) -> String {
    let mut skip: Vec<Vec<u8>> = vec![];
    for w in args.windows(2) {
        if matches!(w[0].as_str(), "-fprint" | "-fprint0" | "-fprintf" | "-fls") {
            if let Some(rel) = w[1].strip_prefix("t/") { skip.push(rel.as_bytes().to_vec()); }
        }
    }
    let mut s = String::new();
    for (k, v) in snapshot(&cwd.join("t")) {
        if skip.contains(&k) { continue; }
        s.push_str(&format!("{}={v};", hex(&k)));
    }
    s.push_str(&format!("ref={};trace={}", cwd.join("ref").exists(), std::fs::metadata(cwd.join("trace")).map(|m| m.len() > 0).unwrap_or(false)));
    s
}

fn build_world(cwd: &Path) {
    let _ = std::fs::remove_dir_all(cwd);
    std::fs::create_dir_all(cwd.join("t/d")).unwrap();
    std::fs::create_dir_all(cwd.join("t/e")).unwrap();
    std::fs::create_dir_all(cwd.join("out")).unwrap();
    std::fs::write(cwd.join("t/f1"), b"hello").unwrap();
    std::fs::write(cwd.join("t/f2"), b"").unwrap();
    std::fs::write(cwd.join("t/d/g"), b"xy").unwrap();
    // a long name: patterns with several stars or nested repetition make a backtracking matcher work hard on it
    std::fs::write(cwd.join("t/e").join("a".repeat(100)), b"").unwrap();
    std::os::unix::fs::symlink("f1", cwd.join("t/l")).unwrap();
    std::os::unix::fs::symlink("nowhere", cwd.join("t/dl")).unwrap();
    std::fs::write(cwd.join("ref"), b"r").unwrap();
    std::fs::write(cwd.join("names0"), b"t\0").unwrap();
    // an entry owned by ids without passwd/group entries (needs privilege; skipped silently otherwise)
    let c = std::ffi::CString::new(cwd.join("t/f2").as_os_str().as_bytes()).unwrap();
    unsafe { libc::chown(c.as_ptr(), 54321, 54322) };
}

const NULLARY: [&str; 22] = ["-print", "-print0", "-ls", "-true", "-false", "-readable", "-delete", "-empty", "-nouser", "-nogroup",
    "-executable", "-prune", "-quit", "-writable", "-follow", "-daystart", "-noleaf", "-d", "-depth", "-mount", "-xdev", "-sorted"];
const UNARY: [&str; 44] = ["-printf", "-fprint", "-fprint0", "-fls", "-lname", "-ilname", "-name", "-iname", "-path", "-ipath",
    "-wholename", "-iwholename", "-regextype", "-regex", "-iregex", "-type", "-xtype", "-fstype", "-newer", "-mtime", "-atime", "-ctime",
    "-amin", "-cmin", "-mmin", "-size", "-inum", "-links", "-samefile", "-user", "-uid", "-group", "-gid", "-perm", "-maxdepth",
    "-mindepth", "-files0-from", "-anewer", "-cnewer", "-newermm", "-neweram", "-newerct", "-newermt", "-newerBm"];
const JUNK: [&str; 40] = ["", " ", "é", "日本", "%", "\\", "[", "[[:a", "[[.", "((", "99999999999999999999999", "-", "--", "+5", "-5", "5k",
    "٣", "a\nb", "{}", ";", "+", "(", ")", "!", ",", "-o", "-a", "%é", "\\é", "%99999999999999999999d", "jan 01, ٢٠٢٥", "[b-a]", "\\",
    "x-newermmx", "-bogus", "-nam", "-Print", "-newerXY", "-newermz", "18446744073709551616"];

fn valid_operand(rng: &mut Rng, prim: &str) -> String {
    let s: &str = match prim {
        "-printf" => return super::c16::gen_format(rng, true),
        "-fprint" | "-fprint0" | "-fls" => *rng.pick(&["out/o1", "out/o2"]),
        "-lname" | "-ilname" | "-name" | "-iname" | "-path" | "-ipath" | "-wholename" | "-iwholename" => {
            if rng.chance(1, 2) { return super::c12::gen_pattern(rng).0; }
            *rng.pick(&["f*", "*", "t/*", "[a-f]1", "?", "g"])
        }
        "-regextype" => *rng.pick(&["emacs", "grep", "posix-basic", "posix-extended", "ed", "sed"]),
        "-regex" | "-iregex" => *rng.pick(&[".*", "t/f.", "t/\\(f\\|d\\).*", "t/(f|d).*", "a\\{1,2\\}", "a{1,2}", "[a-f]+", "t/d/g"]),
        "-type" | "-xtype" => *rng.pick(&["f", "d", "l", "b", "c", "p", "s"]),
        "-fstype" => *rng.pick(&["ext4", "tmpfs", "nosuchfs"]),
        "-newer" | "-samefile" | "-anewer" | "-cnewer" | "-newermm" | "-neweram" | "-newerBm" => *rng.pick(&["ref", "t/f1", "t"]),
        "-mtime" | "-atime" | "-ctime" | "-amin" | "-cmin" | "-mmin" | "-inum" | "-links" | "-uid" | "-gid" => *rng.pick(&["0", "1", "+0", "-1", "+5", "007", "18446744073709551615"]),
        "-size" => *rng.pick(&["0", "+0", "-1k", "1c", "+1w", "2b", "1M", "-1G", "5"]),
        "-user" | "-group" => *rng.pick(&["root", "0", "54321", "+7"]),
        "-perm" => return super::c13::perm_operand(rng),
        "-maxdepth" | "-mindepth" => *rng.pick(&["0", "1", "2", "+1", "10"]),
        "-files0-from" => "names0",
        "-newerct" | "-newermt" => *rng.pick(&["jan 01, 2020", "jan 01, 2020 00:00:01", "dec 31", "12:00:00"]),
        _ => "x",
    };
    s.to_string()
}

fn near_miss(rng: &mut Rng, prim: &str) -> String {
    let s: &str = match prim {
        "-printf" => *rng.pick(&["%", "a%", "\\", "a\\", "%-", "%5", "%A", "%T", "%Az", "%é", "\\é", "\\12é", "%99999999999999999999d", "%-é", "%5é", "\\x", "%Aé", "% "]),
        "-fprint" | "-fprint0" | "-fls" => *rng.pick(&["nodir/x", "out", ""]),
        "-lname" | "-ilname" | "-name" | "-iname" | "-path" | "-ipath" | "-wholename" | "-iwholename" => *rng.pick(&["[[:a]", "[[.]", "[[=", "[[=]", "[a-", "[!", "[]", "[[:alpha:", "[[:alpha:]", "\\", "a\\", "[\\]", "[[:é:]]", "[é-", "[[.é", "[[:a", "[[.", "", "[b-a]", "[[:foo:]]", "[a-c-e]", "*[", "é[[:"]),
        "-regextype" => *rng.pick(&["posix", "Emacs", "", "posix-egrep", "awk", "emacs "]),
        "-regex" | "-iregex" => *rng.pick(&["\\(", "[", "a\\{2,1\\}", "\\)", "*", "[b-a]", "a\\", "[[:foo:]]", "(", "a{2,1}", "\\{", "é[", "+"]),
        "-type" | "-xtype" => *rng.pick(&["", "D", "x", "ff", "f,d", "F", " f", "é"]),
        "-newer" | "-samefile" | "-anewer" | "-cnewer" | "-newermm" | "-neweram" | "-newerBm" => *rng.pick(&["missing", "", "t/missing", "ref/x"]),
        "-mtime" | "-atime" | "-ctime" | "-amin" | "-cmin" | "-mmin" | "-inum" | "-links" | "-uid" | "-gid" => *rng.pick(&["", "+", "-", "1.5", "1k", "٣", "1٣", "18446744073709551616", "++1", "0x10", " 1", "1 ", "1\n", "abc1"]),
        "-size" => *rng.pick(&["", "k", "1K", "1kk", "+", "1 k", "٣k", "18446744073709551616c", "abc10k", "1\nk", "1m", "-k", "1T"]),
        "-user" | "-group" => *rng.pick(&["", "nosuchuser_zz", "-1", "4294967296", "1.0", "ro ot", "٣"]),
        "-perm" => *rng.pick(&["", "8", "u", "u=q", "-", "/", "77777", "u+", "rwx", "a=rwxz", "+", "-u=", "08", "é", ",", "u=r,", "-/1"]),
        "-maxdepth" | "-mindepth" => *rng.pick(&["", "-1", "a", "1.0", "18446744073709551616", " 1", "٣", "++1"]),
        "-files0-from" => *rng.pick(&["missing", "", "t"]),
        "-newerct" | "-newermt" => *rng.pick(&["", "yesterday", "jan 1, 2020", "jan 01, ٢٠٢٥", "jan 32, 2020", "xyz 01, 2020", "jan 01, 2020 25:00:00", "jan 01, 20200", "٠١:٠٠:٠٠"]),
        _ => *rng.pick(&JUNK),
    };
    s.to_string()
}

fn gen_exec(rng: &mut Rng, out: &mut Vec<String>) {
    out.push((*rng.pick(&["-exec", "-execdir"])).to_string());
    match rng.below(11) {
        8 => { out.extend(["true", "pre{}", "+", ";"].map(String::from)); }
        9 => { out.extend(["true", "+", "{}{}", "+", "x", ";"].map(String::from)); }
        10 => { out.extend(["true", "a{}", "+", "{}", "+"].map(String::from)); }
        0 => { out.extend(["true", "{}", ";"].map(String::from)); }
        1 => { out.extend(["cp", "ref", "trace", ";"].map(String::from)); }
        2 => { out.extend(["true", "{}", "+"].map(String::from)); }
        3 => { out.extend(["false", ";"].map(String::from)); }
        4 => { out.extend(["nosuchcmd_zz", "a{}b", "{}", ";"].map(String::from)); }
        5 => { out.extend(["true", "x", "{}", "+"].map(String::from)); }
        6 => { out.extend(["sh", "-c", "cp ref trace", "{}", "+"].map(String::from)); }
        _ => { out.extend(["rm", "-rf", "{}", ";"].map(String::from)); }
    }
}

fn gen_primary(rng: &mut Rng, out: &mut Vec<String>) {
    match rng.below(12) {
        0 | 1 | 2 => out.push((*rng.pick(&NULLARY)).to_string()),
        3 => gen_exec(rng, out),
        4 => {
            out.push("-fprintf".into());
            out.push("out/o3".into());
            out.push(super::c16::gen_format(rng, true));
        }
        _ => {
            let p = *rng.pick(&UNARY);
            out.push(p.to_string());
            out.push(valid_operand(rng, p));
        }
    }
}

fn gen_factor(rng: &mut Rng, depth: usize, out: &mut Vec<String>) {
    match rng.below(8) {
        0 => { out.push((*rng.pick(&["!", "-not"])).to_string()); gen_factor(rng, depth, out); }
        1 if depth > 0 => { out.push("(".into()); gen_list(rng, depth - 1, out); out.push(")".into()); }
        _ => gen_primary(rng, out),
    }
}

fn gen_list(rng: &mut Rng, depth: usize, out: &mut Vec<String>) {
    let n_or = if rng.chance(1, 5) { 2 } else { 1 };
    for c in 0..n_or {
        if c > 0 { out.push(",".into()); }
        for o in 0..rng.range(1, 2) {
            if o > 0 { out.push((*rng.pick(&["-o", "-or"])).to_string()); }
            for a in 0..rng.range(1, 3) {
                if a > 0 && rng.chance(1, 3) { out.push((*rng.pick(&["-a", "-and"])).to_string()); }
                gen_factor(rng, depth, out);
            }
        }
    }
}

fn random_word(rng: &mut Rng) -> String {
    match rng.below(10) {
        0 | 1 => (*rng.pick(&NULLARY)).to_string(),
        2 | 3 => (*rng.pick(&UNARY)).to_string(),
        4 | 5 => (*rng.pick(&["!", "-not", "-a", "-and", "-o", "-or", ",", "(", ")", "(", ")"])).to_string(),
        6 => (*rng.pick(&["-exec", "-execdir", ";", "+", "{}", "-fprintf", "true"])).to_string(),
        7 => (*rng.pick(&["-help", "--help", "-version", "--version", "-files0-from", "--", "-H", "-L", "-P", "-O2"])).to_string(),
        _ => (*rng.pick(&JUNK)).to_string(),
    }
}

/// damages a word list in one place
fn damage(rng: &mut Rng, ws: &mut Vec<String>) {
    if ws.is_empty() { ws.push(random_word(rng)); return; }
    let i = rng.below(ws.len());
    match rng.below(9) {
        0 => { ws.remove(i); }
        1 => { let w = random_word(rng); ws.insert(i, w); }
        2 => { let w = random_word(rng); ws.push(w); }
        3 => { ws.truncate(i); }
        4 => { let w = ws[i].clone(); ws.insert(i, w); }
        5 => {
            // replace the operand of a primary by a near miss
            let idx: Vec<usize> = (0..ws.len().saturating_sub(1)).filter(|k| UNARY.contains(&ws[*k].as_str())).collect();
            if let Some(&k) = idx.get(rng.below(idx.len().max(1))) { let p = ws[k].clone(); ws[k + 1] = near_miss(rng, &p); }
        }
        6 => { let j = rng.below(ws.len()); ws.swap(i, j); }
        7 => { let w = (*rng.pick(&["-a", "-o", ",", "!", "(", ")"])).to_string(); ws.insert(i, w); }
        _ => { ws[i] = (*rng.pick(&JUNK)).to_string(); }
    }
}

fn getpw(name: &str) -> bool {
    let Ok(c) = std::ffi::CString::new(name) else { return false };
    !unsafe { libc::getpwnam(c.as_ptr()) }.is_null()
}
fn getgr(name: &str) -> bool {
    let Ok(c) = std::ffi::CString::new(name) else { return false };
    !unsafe { libc::getgrnam(c.as_ptr()) }.is_null()
}

/// answers of the validators outside the modelled code, for the words that may need them
fn ext_of(cwd: &Path, ws: &[String]) -> String {
    let mut items: Vec<String> = vec![];
    let mut push = |k: String| { if !items.contains(&k) { items.push(k); } };
    for i in 1..ws.len() {
        let (p, w) = (ws[i - 1].as_str(), ws[i].as_str());
        let h = hex(w.as_bytes());
        let at = |rel: &str| -> PathBuf { cwd.join(rel) };
        if p == "-user" { push(format!("u{h}={}", getpw(w) as u8)); }
        if p == "-group" { push(format!("g{h}={}", getgr(w) as u8)); }
        if p.contains("newer") || p == "-samefile" {
            push(format!("f{h}={}", (!w.is_empty() && std::fs::metadata(at(w)).is_ok()) as u8));
            let ww = w.to_string();
            let d = guarded(move || (fh::date_millis(&ww).is_some() as u8).to_string());
            if d != "panic" { push(format!("d{h}={d}")); }
        }
        if p == "-fprint" || p == "-fprint0" || p == "-fls" || p == "-fprintf" {
            let path = at(w);
            let ok = !w.is_empty() && !path.is_dir() && path.parent().map(|d| d.is_dir()).unwrap_or(false);
            push(format!("o{h}={}", ok as u8));
        }
        if p == "-files0-from" {
            push(format!("z{h}={}", (!w.is_empty() && std::fs::read(at(w)).is_ok()) as u8));
        }
        if p == "-printf" || (i >= 2 && ws[i - 2] == "-fprintf") {
            let ww = w.to_string();
            let t = guarded(move || (fh::printf_parse(&ww).is_ok() as u8).to_string());
            if t != "panic" { push(format!("t{h}={t}")); }
        }
        if p == "-regex" || p == "-iregex" {
            for (tl, tn) in [('E', "emacs"), ('G', "grep"), ('B', "posix-basic"), ('X', "posix-extended")] {
                let (ww, ic) = (w.to_string(), p == "-iregex");
                let r = guarded(move || (fh::regex_matches(tn, &ww, ic, "").is_ok() as u8).to_string());
                if r != "panic" { push(format!("r{tl}{}{h}={r}", ic as u8)); }
            }
        }
    }
    crate::wire::list(&items)
}

fn observe(ctx: &Ctx, cwd: &Path, args: &[String]) -> String {
    // the words must not make find read the harness' standard input
    let before = watched_but(cwd, args);
    let old = std::env::current_dir().unwrap();
    std::env::set_current_dir(cwd).unwrap();
    let a2: Vec<String> = args.to_vec();
    let verdict = guarded(move || {
        let v: Vec<&str> = a2.iter().map(|s| s.as_str()).collect();
        match fh::parse_only(&v) { Ok(false) => "ok".into(), Ok(true) => "help".into(), Err(_) => "err".into() }
    });
    std::env::set_current_dir(old).unwrap();
    let o = find_inproc(&ctx.tmp.join("stderr11"), args, std::time::SystemTime::now(), Some(cwd));
    let after = watched_but(cwd, args);
    if verdict == "panic" || o.code.is_none() {
        return "panic".into();
    }
    match verdict.as_str() {
        "err" => {
            let mut bad = vec![];
            if o.code == Some(0) { bad.push("status0"); }
            if o.diag_lines() == 0 { bad.push("nodiag"); }
            if !o.out.is_empty() { bad.push("output"); }
            if before != after { bad.push("effects"); }
            if bad.is_empty() { "reject-clean".into() } else { format!("reject-dirty:{}", bad.join("+")) }
        }
        "help" => if o.code == Some(0) { "help".into() } else { format!("help-status:{:?}", o.code) },
        _ => "run".into(),
    }
}

fn push_case(ctx: &Ctx, sink: &mut Sink, cwd: &Path, baseline: &str, args: &[String], tags: Vec<&'static str>) {
    if watched(cwd) != baseline {
        build_world(cwd);
    }
    // never let find read our stdin
    let mut args: Vec<String> = args.to_vec();
    for i in 1..args.len() {
        if args[i - 1] == "-files0-from" && args[i] == "-" { args[i] = "names0".into(); }
    }
    let ext = ext_of(cwd, &args);
    let words0: Vec<String> = args.iter().map(|w| hex(w.as_bytes())).collect();
    // noted before the run: if find never returns, the orchestrator reports this case
    let _ = std::fs::write(ctx.outdir.join("current_case.txt"), format!("cmdline {ext} {}", crate::wire::list(&words0)));
    let imp = observe(ctx, cwd, &args);
    let mut tags = tags;
    tags.push("nt");
    tags.push(match imp.as_str() { "run" => "accepted", "help" => "help", "reject-clean" => "rejected", _ => "other" });
    let words: Vec<String> = args.iter().map(|w| hex(w.as_bytes())).collect();
    sink.push(Case { req: format!("cmdline {ext} {}", crate::wire::list(&words)), imp, tags });
}

/// "every file tree": entries whose time stamps lie outside what calendar libraries represent (a
/// file system with 64-bit time stamps is needed: a tmpfs is mounted for these cases; where that is
/// not permitted they are left out)
fn extreme_times(ctx: &Ctx, sink: &mut Sink) {
    let cwd = ctx.scratch("c11x").join("pad").join("w");
    std::fs::create_dir_all(cwd.join("t")).unwrap();
    std::fs::create_dir_all(cwd.join("out")).unwrap();
    std::fs::write(cwd.join("ref"), b"r").unwrap();
    let Some(mount) = super::c02::Mount::new(&cwd.join("t")) else { sink.bump("mount_unavailable", 1); return };
    let mut ok = true;
    for (name, secs) in [("far-future", 99_999_999_999_999i64), ("end-of-time", i64::MAX), ("far-past", -99_999_999_999_999i64), ("now-ish", 1_700_000_000)] {
        let p = cwd.join("t").join(name);
        std::fs::write(&p, b"x").unwrap();
        let c = std::ffi::CString::new(p.as_os_str().as_bytes()).unwrap();
        let ts = [libc::timespec { tv_sec: secs, tv_nsec: 0 }, libc::timespec { tv_sec: secs, tv_nsec: 0 }];
        if unsafe { libc::utimensat(libc::AT_FDCWD, c.as_ptr(), ts.as_ptr(), 0) } != 0 { ok = false; }
        use std::os::unix::fs::MetadataExt;
        if std::fs::metadata(&p).map(|m| m.mtime()).unwrap_or(0) != secs { ok = false; }
    }
    if ok {
        let shapes: Vec<Vec<&str>> = vec![
            vec!["t", "-ls"], vec!["t", "-printf", "%t\\n"], vec!["t", "-printf", "%TY %AH %CS\\n"], vec!["t", "-printf", "%T@ %A+\\n"],
            vec!["t", "-newermt", "jan 01, 2020"], vec!["t", "-mtime", "+1"], vec!["t", "-daystart", "-mtime", "0"], vec!["t", "-mmin", "-5"],
            vec!["t", "-newer", "ref"], vec!["t", "-neweram", "t/far-future"], vec!["t", "-fls", "out/o1"], vec!["t", "-printf", "%Tc|%Tx|%TD\\n"],
        ];
        for s in &shapes {
            let args: Vec<String> = s.iter().map(|x| x.to_string()).collect();
            let ext = ext_of(&cwd, &args);
            let words: Vec<String> = args.iter().map(|w| hex(w.as_bytes())).collect();
            let _ = std::fs::write(ctx.outdir.join("current_case.txt"), format!("cmdline {ext} {}", crate::wire::list(&words)));
            let imp = observe(ctx, &cwd, &args);
            sink.push(Case { req: format!("cmdline {ext} {}", crate::wire::list(&words)), imp, tags: vec!["extreme-timestamps", "nt", "accepted"] });
        }
    } else {
        sink.bump("wide_timestamps_unavailable", 1);
    }
    drop(mount);
    let _ = std::fs::remove_dir_all(&cwd);
}

pub fn run_prop(ctx: &Ctx, sink: &mut Sink) {
    extreme_times(ctx, sink);
    let mut rng = Rng::new(ctx.seed).fork(11);
    let cwd = ctx.scratch("c11").join("pad").join("w");
    build_world(&cwd);
    let baseline = watched(&cwd);
    let leading = |rng: &mut Rng| -> Vec<String> {
        let mut v: Vec<String> = vec![];
        if rng.chance(1, 4) { v.push((*rng.pick(&["-H", "-L", "-P", "-O2"])).to_string()); }
        if rng.chance(1, 12) { v.push("--".into()); }
        match rng.below(8) {
            0 => {}
            1 => v.push("missing".into()),
            2 => { v.push("t".into()); v.push("t/d".into()); }
            3 => v.push("t/f1".into()),
            _ => v.push("t".into()),
        }
        v
    };
    // ---- fixed shapes: one per class of the property's list, in several contexts
    let shapes: Vec<Vec<&str>> = vec![
        vec!["t", "-true", "-a"], vec!["t", "-true", "-o"], vec!["t", "-true", ","], vec!["t", "-true", "!"], vec!["t", "!"],
        vec!["t", "-a", "-true"], vec!["t", "-o", "-true"], vec!["t", ",", "-true"],
        vec!["t", "-true", "!", "-a", "-false"], vec!["t", "-true", "-a", "-a", "-false"], vec!["t", "-true", "-a", "-o", "-false"],
        vec!["t", "-true", "-o", "-o", "-false"], vec!["t", "-true", "!", "!", "-a", "-false"], vec!["t", "-type", "f", "-not", "-not", "-o", "-name", "x"],
        vec!["t", "-true", "!", "!", ",", "-false"], vec!["t", "-true", "!", "!", "!", "-a", "-false"], vec!["t", "-true", ",", ",", "-false"], vec!["t", "-true", "!", ",", "-false"],
        vec!["t", "(", "-true"], vec!["t", "-true", ")"], vec!["t", "(", ")"], vec!["t", "-print", "(", ")"], vec!["t", "(", "(", "-true", ")"],
        vec!["t", "(", "-true", ")", ")"], vec!["t", "(", "-a", "-true", ")"], vec!["t", "(", "-true", "-o", ")"], vec!["t", "(", "!", ")"],
        vec!["t", "-name"], vec!["t", "-print", "-size"], vec!["t", "-fprintf", "out/o1"], vec!["t", "-exec"], vec!["t", "-exec", "true"],
        vec!["t", "-exec", ";"], vec!["t", "-exec", "{}", "+"], vec!["t", "-exec", "true", "{}", "{}", "+"], vec!["t", "-exec", "true", "+"], vec!["t", "-exec", "true", "pre{}", "+"], vec!["t", "-exec", "true", "pre{}", "+", ";"], vec!["t", "-execdir", "true", "{}{}", "+", ";"],
        vec!["t", "-bogus"], vec!["t", "-print", "-Print"], vec!["t", "-delete", "-bogus"], vec!["t", "-exec", "cp", "ref", "trace", ";", "-bogus"],
        vec!["t", "-delete", "-size", "x"], vec!["t", "-delete", "("], vec!["t", "-exec", "rm", "-rf", "{}", ";", "-o"],
        vec!["t", "-print0", "-printf", "%"], vec!["t", "-print", "-regex", "\\("], vec!["t", "-print", "-regextype", "perl"],
        vec!["t", "-print", "-perm", "u=q"], vec!["t", "-print", "-type", "x"], vec!["t", "-print", "-mtime", "x"],
        vec!["t", "-print", "-newermt", "garbage"], vec!["t", "-print", "-newerXY", "ref"], vec!["t", "-print", "-user", "nosuchuser_zz"],
        vec!["t", "-print", "-group", ""], vec!["t", "-print", "-newer", "missing"], vec!["t", "-name", "(", ")"],
        vec!["t", "(", "-name", "(", ")"], vec!["t", "-true", "-a", "-help"], vec!["t", "(", "-help"], vec!["t", "-a", "-help"],
        vec!["t", "-bogus", "-help"], vec!["t", "-help", "-bogus"], vec!["t", "-x-newermm", "ref"], vec!["t", "-files0-from", "names0"],
        vec!["-files0-from", "names0"], vec!["-files0-from", "missing"], vec![".", "-files0-from", "names0"], vec![],
        vec!["t", "-regextype", "posix-extended", "(", "-regex", "t/(f|d).*", ")"], vec!["t", "(", "-regextype", "posix-extended", ")", "-regex", "t/(f|d).*"],
        vec!["t", "-regex", "t/(f|d).*", "-regextype", "posix-extended"],
        // well-formed patterns on which a backtracking matcher gives up on the 100-character name
        vec!["t", "-name", "*a*a*a*a*a*b"], vec!["t", "-regextype", "posix-extended", "-regex", ".*/(a|aa)+b"],
        vec!["t", "-iname", "*A*a*A*a*A*b", "-o", "-print"], vec!["t", "-path", "*a*a*a*a*a*a*b"],
        // an action without a command, with another terminator further on
        vec!["t", "-exec", ";", ";"], vec!["t", "-print", "-exec", ";", ";"], vec!["t", "-exec", ";", "-print", ";"], vec!["t", "-execdir", ";", "-exec", "cp", "ref", "trace", ";"],
        vec!["t", "-exec", "+", "{}", "+"], vec!["t", "-exec", ";", "{}", "+"],
        // an output file that refuses every write
        vec!["t", "-fprintf", "/dev/full", "%p\\n"], vec!["t", "-fprint", "/dev/full"], vec!["t", "-fprint0", "/dev/full"], vec!["t", "-fls", "/dev/full"],
        vec!["t", "-fprintf", "/dev/full", "%-30p|%s"],
    ];
    for s in &shapes {
        let args: Vec<String> = s.iter().map(|x| x.to_string()).collect();
        push_case(ctx, sink, &cwd, &baseline, &args, vec!["shape"]);
    }
    // ---- the time directives of -printf with every letter (and some other characters) as the second
    // one: a letter is either a conversion that renders, or the format is refused before anything runs
    for lead in ['A', 'C', 'T'] {
        for k in ('A'..='Z').chain('a'..='z').chain(['@', '+', '%', '0', '-', '.', '!', '_', ':'].into_iter()) {
            let args: Vec<String> = vec!["t".into(), "-exec".into(), "cp".into(), "ref".into(), "trace".into(), ";".into(), "-printf".into(), format!("%{lead}{k}|")];
            push_case(ctx, sink, &cwd, &baseline, &args, vec!["shape", "time-directive"]);
        }
    }
    // ---- every word sequence up to a length over the operators, parentheses and two primaries,
    // through parse_args alone (the expression grammar exhaustively at small sizes)
    {
        let alpha: [&str; 9] = ["-true", "-print", "!", "-a", "-o", ",", "(", ")", "-not"];
        let maxlen = if ctx.thorough { 6 } else { 5 };
        let mut idx: Vec<usize> = vec![];
        loop {
            // next sequence in length-lexicographic order
            let mut k = idx.len();
            loop {
                if k == 0 { idx = vec![0; idx.len() + 1]; break; }
                k -= 1;
                if idx[k] + 1 < alpha.len() { idx[k] += 1; for j in k + 1..idx.len() { idx[j] = 0; } break; }
            }
            if idx.len() > maxlen { break; }
            // "-not" only as a spelling variant of "!" in the last position class (keeps the count down)
            if idx.iter().filter(|&&i| i == 8).count() > 1 { continue; }
            let mut args: Vec<String> = vec!["t".to_string()];
            args.extend(idx.iter().map(|&i| alpha[i].to_string()));
            let a2 = args.clone();
            let old = std::env::current_dir().unwrap();
            std::env::set_current_dir(&cwd).unwrap();
            let imp = guarded(move || {
                let v: Vec<&str> = a2.iter().map(|s| s.as_str()).collect();
                match fh::parse_only(&v) { Ok(false) => "run".into(), Ok(true) => "help".into(), Err(_) => "reject-clean".into() }
            });
            std::env::set_current_dir(old).unwrap();
            let words: Vec<String> = args.iter().map(|w| hex(w.as_bytes())).collect();
            sink.push(Case { req: format!("cmdparse . {}", crate::wire::list(&words)), imp, tags: vec!["exhaustive-tokens", "nt"] });
        }
    }
    // ---- entries removed by an earlier action, entries owned by unknown ids
    let removers: Vec<Vec<&str>> = vec![vec!["-exec", "rm", "-rf", "{}", ";"], vec!["-delete"], vec!["-depth", "-exec", "rm", "-rf", "{}", ";"]];
    let users: Vec<Vec<&str>> = vec![
        vec!["-ls"], vec!["-printf", "%s %u %g %m %y %Y %l %i %n %U %G %d %t\\n"], vec!["-size", "+0"], vec!["-newer", "ref"], vec!["-perm", "-1"],
        vec!["-user", "root"], vec!["-nouser"], vec!["-nogroup"], vec!["-empty"], vec!["-type", "f"], vec!["-xtype", "l"], vec!["-samefile", "ref"],
        vec!["-links", "1"], vec!["-inum", "1"], vec!["-lname", "x"], vec!["-fls", "out/o1"], vec!["-mtime", "0"], vec!["-mmin", "-5"], vec!["-delete"],
        vec!["-execdir", "true", ";"], vec!["-exec", "true", "{}", "+"], vec!["-execdir", "true", "{}", "+"], vec!["-readable"], vec!["-executable"],
        vec!["-neweram", "ref"], vec!["-newermt", "jan 01, 2020"], vec!["-fstype", "ext4"], vec!["-print0"], vec!["-fprintf", "out/o2", "%s %u\\n"],
        vec!["-regex", ".*"], vec!["-name", "*"], vec!["-prune"], vec!["-quit"],
    ];
    for r in &removers {
        for u in &users {
            for roots in [vec!["t"], vec!["t", "t"], vec!["t/d", "t"]] {
                let mut args: Vec<String> = roots.iter().map(|x| x.to_string()).collect();
                args.extend(r.iter().map(|x| x.to_string()));
                args.extend(u.iter().map(|x| x.to_string()));
                push_case(ctx, sink, &cwd, &baseline, &args, vec!["removed-entry"]);
            }
        }
    }
    for u in &users {
        let mut args: Vec<String> = vec!["t".into()];
        args.extend(u.iter().map(|x| x.to_string()));
        push_case(ctx, sink, &cwd, &baseline, &args, vec!["unknown-ids"]);
    }
    // ---- sentences, damaged sentences, soups
    let n = if ctx.thorough { 60_000 } else { 2_500 };
    for i in 0..n {
        let mut args = leading(&mut rng);
        let mut tags = vec![];
        match i % 5 {
            0 => { gen_list(&mut rng, 2, &mut args); tags.push("sentence"); }
            1 | 2 => {
                let mut e = vec![];
                gen_list(&mut rng, 2, &mut e);
                damage(&mut rng, &mut e);
                if rng.chance(1, 3) { damage(&mut rng, &mut e); }
                args.extend(e);
                tags.push("damaged");
            }
            3 => {
                // one primary with a near-miss operand, alone or after an action
                if rng.chance(1, 2) { args.push((*rng.pick(&["-print", "-delete", "-print0"])).to_string()); }
                let p = *rng.pick(&UNARY);
                args.push(p.to_string());
                args.push(near_miss(&mut rng, p));
                tags.push("near-miss");
            }
            _ => {
                for _ in 0..rng.range(1, 7) { args.push(random_word(&mut rng)); }
                tags.push("soup");
            }
        }
        push_case(ctx, sink, &cwd, &baseline, &args, tags);
    }
    // ---- the real binary: argument vectors that are not text, and oversized fixed arguments
    let bin = ctx.bin("find");
    let mut bin_case = |name: &str, argv: Vec<Vec<u8>>, clear_env: bool, sink: &mut Sink| {
        if watched(&cwd) != baseline { build_world(&cwd); }
        let before = watched(&cwd);
        let mut cmd = std::process::Command::new(&bin);
        for a in &argv { cmd.arg(std::ffi::OsStr::from_bytes(a)); }
        cmd.current_dir(&cwd).stdin(std::process::Stdio::null());
        if clear_env { cmd.env_clear(); }
        let imp = match cmd.output() {
            Err(e) => format!("spawn-error:{}", e.kind()),
            Ok(o) => {
                let after = watched(&cwd);
                match o.status.code() {
                    None => "signal".to_string(),
                    Some(101) | Some(134) => "panic".to_string(),
                    Some(0) => "status0".to_string(),
                    Some(_) => {
                        if o.stderr.is_empty() { "reject-dirty:nodiag".into() }
                        else if !o.stdout.is_empty() { "reject-dirty:output".into() }
                        else if before != after { "reject-dirty:effects".into() }
                        else { "reject-clean".into() }
                    }
                }
            }
        };
        sink.push(Case { req: format!("cmdbin {name}"), imp, tags: vec!["binary", "nt"] });
    };
    let b = |s: &str| s.as_bytes().to_vec();
    bin_case("nonutf8-operand", vec![b("t"), b("-name"), vec![0xff, b'*']], false, sink);
    bin_case("nonutf8-start", vec![vec![b't', 0xfe], b("-print")], false, sink);
    bin_case("nonutf8-primary", vec![b("t"), b("-delete"), vec![b'-', 0xc3]], false, sink);
    bin_case("nonutf8-exec-arg", vec![b("t"), b("-exec"), b("cp"), b("ref"), b("trace"), vec![0x80], b(";")], false, sink);
    let mut big: Vec<Vec<u8>> = vec![b("t"), b("-exec"), b("sh"), b("-c"), b("cp ref trace")];
    for _ in 0..16 { big.push(vec![b'x'; 131000]); }
    big.push(b("{}"));
    big.push(b("+"));
    bin_case("exec-plus-fixed-args-too-large", big, true, sink);
    let _ = std::fs::remove_dir_all(&cwd);
}
