//! C02 / C03 / C18 — traversal, order and pruning on random worlds.
use super::frun_common::run_case;
use crate::case::{Case, Sink};
use crate::fexpr::name_tok;
use crate::rng::Rng;
use crate::wire::hex;
use crate::world::{gen_tree, materialize, observe_root, GenParams, Spec};
use crate::Ctx;
use std::path::Path;

pub struct Scene {
    pub dir: std::path::PathBuf,
    /// candidate starting points: (spelling relative to `dir`, wire form)
    pub roots: Vec<(Vec<u8>, String)>,
    pub names: Vec<Vec<u8>>,
}

pub fn simple_names() -> Vec<Vec<u8>> {
    ["a", "b", "c", "d", "e", "x", "y", "B", "a.b", "0"].iter().map(|s| s.as_bytes().to_vec()).collect()
}

/// builds a scene: two trees, an outside area reachable only through links, link roots, a missing root
pub fn build_scene(ctx: &Ctx, rng: &mut Rng, names: Vec<Vec<u8>>, links: bool) -> Scene {
    let dir = ctx.scratch("scene");
    let out_dir = dir.join("outside");
    std::fs::create_dir(&out_dir).unwrap();
    let p_out = GenParams { max_depth: 2, max_width: 3, links: false, names: names.clone() };
    let mut outside: Vec<Vec<u8>> = vec![];
    for i in 0..2 {
        let nm = format!("o{i}").into_bytes();
        materialize(&out_dir, &gen_tree(rng, &p_out, &nm, 0, &[]));
        outside.push(format!("{}/o{i}", out_dir.display()).into_bytes());
    }
    std::fs::write(out_dir.join("of"), b"x").unwrap();
    outside.push(format!("{}/of", out_dir.display()).into_bytes());
    let p = GenParams { max_depth: rng.range(1, 4), max_width: rng.range(1, 5), links, names: names.clone() };
    let mut specs = vec![];
    for i in 0..2 {
        let nm = format!("r{i}").into_bytes();
        let t = gen_tree(rng, &p, &nm, 0, &outside);
        materialize(&dir, &t);
        specs.push(t);
    }
    if links {
        materialize(&dir, &Spec::Link(b"lr".to_vec(), b"r0".to_vec()));
        materialize(&dir, &Spec::Link(b"lo".to_vec(), outside[0].clone()));
        materialize(&dir, &Spec::Link(b"ldang".to_vec(), b"nowhere".to_vec()));
        materialize(&dir, &Spec::Link(b"lf".to_vec(), outside[2].clone()));
    }
    std::fs::write(dir.join("plain"), b"x").unwrap();
    let mut roots = vec![];
    let mut cands: Vec<&str> = vec!["r0", "r1", "plain", "missing", "r0/", "./r1", "r0//", "r1/."];
    if links {
        cands.extend(["lr", "lo", "ldang", "lf", "lr/"]);
    }
    for c in cands {
        roots.push((c.as_bytes().to_vec(), observe_root(c.as_bytes(), &dir.join(c))));
    }
    Scene { dir, roots, names }
}

pub fn pick_roots(rng: &mut Rng, sc: &Scene, simple_only: bool) -> Vec<(Vec<u8>, String)> {
    let n = match rng.below(10) { 0..=5 => 1, 6..=8 => 2, _ => 3 };
    let mut v = vec![];
    for _ in 0..n {
        let limit = if simple_only { 4 } else { sc.roots.len() };
        v.push(sc.roots[rng.below(limit)].clone());
    }
    v
}

fn depth_toks(rng: &mut Rng, toks: &mut Vec<String>) -> (Option<usize>, Option<usize>) {
    let mut mn = None;
    let mut mx = None;
    if rng.chance(1, 2) {
        let m = rng.below(5);
        toks.push(format!("mindepth:{m}"));
        mn = Some(m);
    }
    if rng.chance(1, 2) {
        let m = rng.below(5);
        toks.push(format!("maxdepth:{m}"));
        mx = Some(m);
    }
    if rng.chance(1, 6) && !toks.is_empty() {
        let last = toks.len() - 1;
        toks.swap(0, last);
    }
    (mn, mx)
}

pub fn run_c02(ctx: &Ctx, sink: &mut Sink) {
    let mut rng = Rng::new(ctx.seed).fork(2);
    let scenes = if ctx.thorough { 1500 } else { 120 };
    for si in 0..scenes {
        let sc = build_scene(ctx, &mut rng, simple_names(), si % 4 != 0);
        for ci in 0..(if ctx.thorough { 14 } else { 8 }) {
            let mut toks: Vec<String> = vec![];
            let (mn, mx) = depth_toks(&mut rng, &mut toks);
            let depth = rng.chance(1, 3);
            if depth {
                toks.push((*rng.pick(&["depth", "d"])).into());
            }
            if rng.chance(1, 3) {
                toks.push("sorted".into());
            }
            if rng.chance(1, 8) {
                toks.push("follow".into());
            }
            toks.push((*rng.pick(&["print0", "print0", "print"])).into());
            let flag = *rng.pick(&["P", "H", "L", "L"]);
            let roots = pick_roots(&mut rng, &sc, false);
            let binary = ci == 7 && si % 5 == 0;
            let (req, imp) = run_case(ctx, &sc.dir, flag, &roots, &toks, &mut rng, binary);
            let mut tags = vec!["nt"];
            tags.push(match flag { "P" => "P", "H" => "H", _ => "L" });
            if depth { tags.push("depth"); }
            if let (Some(a), Some(b)) = (mn, mx) { if a > b { tags.push("min>max"); } }
            if roots.len() > 1 { tags.push("multi-root"); }
            if req.contains("=missing") { tags.push("missing-root"); }
            if req.contains(".o.") { tags.push("loop-link"); }
            if req.contains(".g.") { tags.push("dangling-link"); }
            if req.contains(".11.") { tags.push("dir-link"); }
            if imp.contains("diags=0") { } else { tags.push("diagnosed"); }
            sink.push(Case { req, imp, tags });
        }
        let _ = std::fs::remove_dir_all(&sc.dir);
    }
}

/// a test selecting some directories, as wire tokens
fn prune_test(rng: &mut Rng, sc: &Scene) -> Vec<String> {
    match rng.below(6) {
        0 => vec![name_tok(&rng.pick(&sc.names).clone())],
        1 => vec!["type:d".into()],
        2 => vec!["true".into()],
        3 => vec![name_tok(&rng.pick(&sc.names).clone()), "o".into(), name_tok(&rng.pick(&sc.names).clone())],
        4 => vec!["bang".into(), name_tok(&rng.pick(&sc.names).clone())],
        _ => vec!["type:d".into(), name_tok(&rng.pick(&sc.names).clone())],
    }
}

pub fn run_c03(ctx: &Ctx, sink: &mut Sink) {
    let mut rng = Rng::new(ctx.seed).fork(3);
    let scenes = if ctx.thorough { 1500 } else { 120 };
    for si in 0..scenes {
        let sc = build_scene(ctx, &mut rng, simple_names(), si % 3 == 0);
        for _ci in 0..(if ctx.thorough { 16 } else { 8 }) {
            let mut toks: Vec<String> = vec![];
            if rng.chance(1, 3) {
                depth_toks(&mut rng, &mut toks);
            }
            let depth = rng.chance(2, 5);
            if depth {
                toks.push((*rng.pick(&["depth", "d"])).into());
            }
            if rng.chance(2, 3) {
                toks.push("sorted".into());
            }
            let test = prune_test(&mut rng, &sc);
            let p = format!("vp:{}", hex(b"P:"));
            let v = format!("vp:{}", hex(b"V:"));
            match rng.below(5) {
                0 => {
                    // ( TEST -printf P:%p -prune , -false ) -o -printf V:%p
                    toks.push("lp".into());
                    toks.push("lp".into());
                    toks.extend(test);
                    toks.push("rp".into());
                    toks.extend([p.clone(), "prune".into(), "comma".into(), "false".into(), "rp".into(), "o".into(), v.clone()]);
                }
                1 => {
                    // ( TEST ) -prune -o -print
                    toks.push("lp".into());
                    toks.extend(test);
                    toks.push("rp".into());
                    toks.extend(["prune".into(), "o".into(), "print".into()]);
                }
                2 => {
                    // -printf V:%p ( TEST ) -prune
                    toks.push(v.clone());
                    toks.push("lp".into());
                    toks.extend(test);
                    toks.push("rp".into());
                    toks.push("prune".into());
                }
                3 => {
                    // ! ( ( TEST ) -prune ) , -printf V:%p
                    toks.extend(["bang".into(), "lp".into(), "lp".into()]);
                    toks.extend(test);
                    toks.extend(["rp".into(), "prune".into(), "rp".into(), "comma".into(), v.clone()]);
                }
                _ => {
                    // plain order run
                    toks.push(v.clone());
                }
            }
            let flag = *rng.pick(&["P", "P", "H", "L"]);
            let roots = pick_roots(&mut rng, &sc, false);
            let (req, imp) = run_case(ctx, &sc.dir, flag, &roots, &toks, &mut rng, false);
            let mut tags = vec!["nt"];
            if depth { tags.push("depth"); }
            if toks.iter().any(|t| t == "prune") { tags.push("prune"); }
            if toks.iter().any(|t| t == "sorted") { tags.push("sorted"); }
            if imp.contains("503a") { tags.push("prune-fired"); }
            sink.push(Case { req, imp, tags });
        }
        let _ = std::fs::remove_dir_all(&sc.dir);
    }
}

#[allow(dead_code)]
fn unused(_: &Path) {}
